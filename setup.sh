#!/bin/sh
# builds the analyser from files on disk only (offline)
cd "$(dirname "$0")" || exit 2
. ./verif-env.sh
mkdir -p bin evidence
cd checker && go build -o ../bin/trzszlint . || exit 1
# warm the build cache for /repo's export data (first load is slow otherwise)
cd /repo && go build ./... >/dev/null 2>&1
exit 0
