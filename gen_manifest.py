#!/usr/bin/env python3
# Generates MANIFEST.json from claims.json (per-property texts) — keeps the manifest valid at all times.
import json, os
here = os.path.dirname(os.path.abspath(__file__))
claims = json.load(open(os.path.join(here, 'claims.json')))
props = [json.loads(l)['id'] for l in open(os.path.join(here, 'properties.jsonl'))]
checks, na = [], []
for pid in props:
    c = claims.get(pid)
    if not c or not c.get('claimed'):
        na.append({"property_id": pid, "reason": (c or {}).get('reason', 'check not built yet in this static-analysis framework')})
        continue
    checks.append({
        "property_id": pid,
        "quick_cmd": "./run.sh %s quick" % pid,
        "thorough_cmd": "./run.sh %s thorough" % pid,
        "evidence_file": "/verif/evidence/%s.json" % pid,
        "replay_cmd_template": "./run.sh explain {path}",
        "engine": "trzszlint",
        "level_claimed": {"category": "other", "text": c['text'], "design_ref": c.get('design_ref', 'DESIGN.md §3 ' + pid)},
        "level_note": c['note'],
        "technique": c['technique'],
    })
m = {
    "version": 1,
    "setup_cmd": "./setup.sh",
    "hooks": {"guard": "verif", "enable": "none needed: static analysis reads /repo's working tree, no instrumentation is compiled in",
              "baseline_off_cmd": "cd /repo && go test -vet=off -count=1 -timeout 25m ./...", "source_commits": [], "add_only": True},
    "engines": [{"name": "trzszlint", "path": "checker/", "serves_properties": [c['property_id'] for c in checks],
                 "kind_free_text": "repository-specific static analyser (go/packages + go/types + go/ssa of x/tools v0.29.0): dominance/edge-fact, must-pass reachability, who-writes/who-calls, select-arm, sibling and literal-agreement rules"}],
    "checks": checks,
    "notes": "Static analysis only. quick = linux/amd64; thorough = + windows/amd64, darwin/amd64, linux/386 each in its own process. Exit 0 = all obligations discharged (KNOWN-FINDING lines for listed findings), 1 + VIOLATION line = an unlisted obligation is violated, 2 + UNDECIDED = an anchor was lost or the tree does not type-check.",
    "not_applicable": na,
}
json.dump(m, open(os.path.join(here, 'MANIFEST.json'), 'w'), indent=1)
print("checks:", len(checks), "not_applicable:", len(na))
