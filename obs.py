#!/usr/bin/env python3
# dev helper: list obligations of an evidence file
import json,sys
e=json.load(open('/verif/evidence/%s.json'%sys.argv[1]))
for o in e['coverage']['obligation_list']:
    print(o['status'][:4], o['key'], o.get('pos',''), '|', o.get('detail','')[:90])
for n in e['coverage'].get('notes',[]): print('NOTE', n)
