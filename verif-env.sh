# sourced by run.sh and setup.sh: offline Go environment
export GOFLAGS=-mod=mod GOPROXY=off GOSUMDB=off GOTOOLCHAIN=local GOWORK=off
export CGO_ENABLED=0
