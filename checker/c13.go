package main

// C13 — relay byte conservation: lock / order discipline.

import (
	"fmt"
	"go/constant"
	"go/token"
	"go/types"
	"strings"

	"trzszlint/xssa"
)

func init() {
	register("C13", 40, "Decided (for every path of the current source): (R1) a chunk is parked only while the relay mutex is held, on the handshaking edge of a status load made under that same lock; parking/popping/line-reading on the handshake buffers happens only in the designated functions; (R2) the flush drains both buffers and then changes the status inside one lock-held region, the partially consumed chunk's remainder is returned before the queue; (R3) the status is set to handshaking before the handshake worker starts and before the trigger chunk is forwarded; (R4) the status word has exactly three writers; (R5) in each of the four pumps every non-empty chunk is parked or sent on its own direction's channel, never both, never neither, and each channel's consumer writes to the matching side; (R6) every pump reads into a fresh buffer per iteration; (R7) every exit of the handshake worker flushes. Not decided: exhaustive interleavings, sufficiency of the lock discipline (that is model checking). Added to R3/R5: the trigger is recorded before the worker starts; a pump that read the status as handshaking offers the chunk to the parking function before any forward; pumps end only on EOF.",
		func(c *Ctx) {
			c.run("C13-R1", "PAIR+GUARD-DOM: park under the lock, after re-reading the status", func(c *Ctx) { c13R1(c); c13R1b(c) })
			c.run("C13-R2", "PAIR+ORDER: flush then switch, under the same lock", c13R2)
			c.run("C13-R3", "ORDER: status handshaking before the worker starts and before the trigger is forwarded", c13R3)
			c.run("C13-R4", "WHO-WRITES: the three writers of the relay status", c13R4)
			c.run("C13-R5", "MUST-PASS: each chunk goes exactly somewhere, on the right side", c13R5)
			c.run("C13-R6", "LAUNCH: relay pumps, queue consumers and the handshake are started with go", c13Launch)
			c.run("C13-R7", "LITERAL/SIBLING: every pump reads its own side's stream; the handshake helpers read their own side's parking buffer; errors go to both ends", c13Sides)
			c.run("C13-R6", "FRESH: pumps read into a fresh buffer every iteration", c13R6)
			c.run("C13-R7", "PAIR: every exit of the handshake worker flushes", c13R7)
			c.run("C13-S1", "shared with C03-R2/R3: the handshake line readers consume exactly the bytes of the line they return, so the flush hands on the rest", func(c *Ctx) { c03R2(c); c03R3(c) })
			c.run("C13-S2", "shared with C14-R7: every chunk popped by the flush is forwarded as it is before the next pop (a merged or copied buffer is not the chunk; the relay never loses or duplicates parked bytes)", c14R7)
			c.run("C13-S3", "shared with C06-R7: the relay's detector lives as long as its output pump (a detector made per chunk forgets the ids it has relayed; a redrawn trigger then starts a handshake nobody answers and every later byte is parked)", c06OneDetector)
		})
}

func (c *Ctx) constVal(name string) int64 {
	obj := c.Pkg.Types.Scope().Lookup(name)
	k, ok := obj.(*types.Const)
	if !ok {
		c.lost("constant " + name)
	}
	v, _ := constant.Int64Val(k.Val())
	return v
}

// lockRegion describes Lock/Unlock calls on a mutex field in f.
type lockRegion struct {
	lock     ssa.Instruction
	deferred bool
	unlocks  []ssa.Instruction
}

func findLock(f *ssa.Function, field string) *lockRegion {
	var lr lockRegion
	eachInstr(f, func(in ssa.Instruction) {
		ci, ok := in.(ssa.CallInstruction)
		if !ok || len(ci.Common().Args) == 0 {
			return
		}
		id := calleeID(ci.Common())
		n, okF := fieldAddrName(ci.Common().Args[0])
		if !okF || !strings.HasSuffix(n, "."+field) {
			return
		}
		switch id {
		case "(*sync.Mutex).Lock":
			if lr.lock == nil {
				lr.lock = in
			}
		case "(*sync.Mutex).Unlock":
			if _, isDefer := in.(*ssa.Defer); isDefer {
				lr.deferred = true
			} else {
				lr.unlocks = append(lr.unlocks, in)
			}
		}
	})
	if lr.lock == nil {
		return nil
	}
	return &lr
}

// held: instruction in executes with the lock held on every path.
func (lr *lockRegion) held(in ssa.Instruction) bool {
	if lr == nil || !domI(lr.lock, in) || in == lr.lock {
		return false
	}
	if !lr.deferred && len(lr.unlocks) == 0 {
		return false
	}
	for _, u := range lr.unlocks {
		if hit, _ := reachAvoid(u, func(x ssa.Instruction) bool { return x == in }, func(x ssa.Instruction) bool { return x == lr.lock }); hit != nil {
			return false
		}
	}
	return true
}

func isStatusCall(ci ssa.CallInstruction, methods ...string) bool {
	return isAtomicOnField(ci, "relayStatus", methods...)
}

func c13R1(c *Ctx) {
	f := c.fn("TrzszRelay.addHandshakeBuffer")
	hs := c.constVal("kRelayHandshaking")
	lr := findLock(f, "bufferLock")
	if lr == nil {
		c.bad("addHandshakeBuffer/lock", c.pos(f.Pos()), "parking no longer takes the relay buffer lock")
		return
	}
	adds := callsIn(f, idIs("(*trzsz.trzszBuffer).addBuffer"))
	if len(adds) == 0 {
		c.lost("addBuffer in addHandshakeBuffer")
	}
	for _, a := range adds {
		c.check(lr.held(a.(ssa.Instruction)), "addHandshakeBuffer/park-under-lock", c.ipos(a), "the chunk is parked while the lock is held", "chunk parked outside the lock-held region")
		// on the handshaking edge of a status load that is itself under the lock
		good := false
		for _, fc := range factsAt(a.Block()) {
			op, x, y, ok := cmpFact(fc)
			if !ok || op != token.EQL {
				continue
			}
			for _, pr := range [][2]ssa.Value{{x, y}, {y, x}} {
				call, _ := callOf(pr[0])
				if call != nil && isStatusCall(call, "Load") && isConstIntV(hs)(pr[1]) && lr.held(call) {
					good = true
				}
			}
		}
		c.check(good, "addHandshakeBuffer/status-reread-under-lock", c.ipos(a), "parking is on the handshaking edge of a status load made under the lock", "parking not guarded by a status == handshaking test made under the lock")
	}
	// who may touch the handshake buffers
	allow := map[string]map[string]bool{
		"addBuffer":         {"TrzszRelay.addHandshakeBuffer": true, "trzszTransfer.addReceivedData": true},
		"popBuffer":         {"TrzszRelay.flushHandshakeBuffer": true},
		"readLine":          {"recvStringFromBuffer": true, "trzszTransfer.recvLine": true},
		"readLineOnWindows": {"recvStringForWindows": true, "trzszTransfer.recvLine": true},
	}
	for _, g := range c.AllFns {
		gname := c.fnName(g)
		for _, ci := range callsIn(g, idHasPrefix("(*trzsz.trzszBuffer).")) {
			m := strings.TrimPrefix(calleeID(ci.Common()), "(*trzsz.trzszBuffer).")
			al, tracked := allow[m]
			if !tracked || strings.HasPrefix(gname, "trzszBuffer.") {
				continue
			}
			c.check(al[gname], "who-calls/"+m+"<-"+gname, c.ipos(ci), m+" called from its designated function", m+" on a stream buffer called from an unexpected function")
		}
	}
	// the relay's line readers run only in the handshake worker
	hsReach := c.reachableFrom(c.fn("TrzszRelay.handshake"))
	for _, name := range []string{"recvStringFromBuffer", "recvStringForWindows"} {
		g := c.fn(name)
		for _, cs := range c.callersOf(g) {
			c.check(hsReach[cs.Caller], "who-calls/"+name+"<-"+c.fnName(cs.Caller), c.ipos(cs.Instr), "relay line reader used only by the handshake worker", "relay line reader called outside the handshake worker")
		}
	}
}

// c13R1b: the parking decision as a truth table (the condition is a disjunction, so no single dominating fact
// describes it): handshaking + in-band chunk + tunnel not in use -> parked; handshaking + tunnel chunk -> parked;
// not handshaking -> not parked; in-band chunk while the tunnel is in use -> not parked.
func c13R1b(c *Ctx) {
	f := c.fn("TrzszRelay.addHandshakeBuffer")
	hs := c.constVal("kRelayHandshaking")
	adds := callsIn(f, idIs("(*trzsz.trzszBuffer).addBuffer"))
	if len(adds) != 1 {
		c.lost("addBuffer in addHandshakeBuffer")
	}
	status := func(val bool) assumption {
		return assumption{val: val, cmp: func(op token.Token, x, y ssa.Value) (bool, bool) {
			call, _ := callOf(x)
			if (op != token.EQL && op != token.NEQ) || call == nil || !isStatusCall(call, "Load") || !isConstIntV(hs)(y) {
				return false, false
			}
			return true, op == token.EQL
		}}
	}
	tunnel := func(val bool) assumption { return assumption{pred: isVar("tunnel"), val: val} }
	conn := func(val bool) assumption {
		return assumption{pred: func(v ssa.Value) bool {
			call, _ := callOf(v)
			return call != nil && isAtomicOnField(call, "tunnelConnected", "Load")
		}, val: val}
	}
	for _, w := range []struct {
		name string
		as   []assumption
		park bool
	}{
		{"handshaking,in-band,no-tunnel", []assumption{status(true), tunnel(false), conn(false)}, true},
		{"handshaking,tunnel-chunk", []assumption{status(true), tunnel(true)}, true},
		{"not-handshaking", []assumption{status(false)}, false},
		{"in-band-while-tunnel-in-use", []assumption{status(true), tunnel(false), conn(true)}, false},
	} {
		// universal forms per case: when the case parks, no exit avoids the enqueue and every exit answers "parked";
		// when it does not park, every exit answers "not parked" (the caller forwards exactly when told so)
		{
			no := contradicts(w.as)
			isAdd := func(in ssa.Instruction) bool { return in == adds[0].(ssa.Instruction) }
			if w.park {
				hitA, pathA := reachFromE(f.Blocks[0], 0, isReturn, c.orWrapper("park-enqueue", isAdd), no)
				c.check(hitA == nil, "addHandshakeBuffer/always-enqueued@"+w.name, c.pos(f.Pos()), "in this case every exit has enqueued the chunk", "in a case that must park, the function can return without enqueuing the chunk (the caller is told 'parked' or forwards it past the parked ones)", c.pathStr(pathA)...)
			}
			reach := map[*ssa.BasicBlock]bool{f.Blocks[0]: true}
			work := []*ssa.BasicBlock{f.Blocks[0]}
			for len(work) > 0 {
				b := work[0]
				work = work[1:]
				for _, sx := range b.Succs {
					if !no(b, sx) && !reach[sx] {
						reach[sx] = true
						work = append(work, sx)
					}
				}
			}
			eachInstr(f, func(in ssa.Instruction) {
				r, ok := in.(*ssa.Return)
				if !ok || !reach[in.Block()] || in.Block().Comment == "recover" || len(r.Results) < 2 {
					return
				}
				b, isC := constBool(retVal(r, 1))
				c.check(isC && b == w.park, "addHandshakeBuffer/answer@"+w.name, c.ipos(in), "the answer given to the pump matches what was done with the chunk", "the answer given to the pump in this case does not match what must be done with the chunk: it is parked and forwarded, or neither")
			})
		}
		got := blocksUnder(f, w.as)[adds[0].Block()]
		c.check(got == w.park, "addHandshakeBuffer/decision@"+w.name, c.ipos(adds[0]), "this case is parked / not parked as the hand-over requires", "the parking decision is wrong for '"+w.name+"' (a chunk that must wait overtakes the parked ones, or a chunk that must pass is held)")
	}
}

func c13R2(c *Ctx) {
	f := c.fn("TrzszRelay.flushHandshakeBuffer")
	lr := findLock(f, "bufferLock")
	if lr == nil {
		c.bad("flush/lock", c.pos(f.Pos()), "the flush no longer takes the relay buffer lock")
		return
	}
	pops := callsIn(f, idIs("(*trzsz.trzszBuffer).popBuffer"))
	bufs := map[string]bool{}
	for _, p := range pops {
		_, fld, _ := fieldOf(p.Common().Args[0])
		bufs[fld] = true
		c.check(lr.held(p.(ssa.Instruction)), "flush/pop-under-lock/"+fld, c.ipos(p), "buffer drained while the lock is held", "buffer drained outside the lock-held region")
	}
	c.check(bufs["stdinBuffer"] && bufs["stdoutBuffer"], "flush/both-buffers", c.pos(f.Pos()), "both handshake buffers are drained", "the flush does not drain both handshake buffers")
	var writes []ssa.Instruction
	for _, ci := range callsIn(f, anyID) {
		if isStatusCall(ci, "Store", "CompareAndSwap", "Swap") || calleeID(ci.Common()) == "(*trzsz.TrzszRelay).resetToStandby" {
			writes = append(writes, ci.(ssa.Instruction))
		}
	}
	if len(writes) == 0 {
		c.bad("flush/status-switch", c.pos(f.Pos()), "the flush never leaves the handshaking status")
	}
	for _, w := range writes {
		c.check(lr.held(w), "flush/switch-under-lock", c.ipos(w), "status switched while the lock is held", "status switched outside the lock-held region (a pump could park into an already flushed buffer)")
		hit, path := reachAvoid(w, func(x ssa.Instruction) bool {
			ci, ok := x.(ssa.CallInstruction)
			return ok && calleeID(ci.Common()) == "(*trzsz.trzszBuffer).popBuffer"
		}, nil)
		c.check(hit == nil, "flush/drain-before-switch", c.ipos(w), "no draining happens after the status switch", "buffers are still drained after the status was switched", c.pathStr(path)...)
	}
	// every path to return switches the status (leaves handshaking)
	isW := func(x ssa.Instruction) bool {
		for _, w := range writes {
			if w == x {
				return true
			}
		}
		return false
	}
	hit, path := reachAvoid(lr.lock, isReturn, isW)
	c.check(hit == nil, "flush/always-switch", c.pos(f.Pos()), "every exit of the flush leaves the handshaking status", "an exit of the flush leaves the status at handshaking", c.pathStr(path)...)
	// sends in the flush: stdin chunks to server-side channels, stdout chunks to client-side channels
	eachInstr(f, func(in ssa.Instruction) {
		s, ok := in.(*ssa.Send)
		if !ok {
			return
		}
		// the value sent is what popBuffer returned: directly, or through the loop variable of
		// `for buf := pop(); buf != nil; buf = pop()` (a phi of two pops of the same buffer)
		var pc *ssa.Call
		src := ""
		okAll := true
		var popsOf func(v ssa.Value, depth int)
		popsOf = func(v ssa.Value, depth int) {
			if ph, isPhi := v.(*ssa.Phi); isPhi && depth < 4 {
				for _, e := range ph.Edges {
					popsOf(e, depth+1)
				}
				return
			}
			lc, _ := v.(*ssa.Call)
			if lc == nil || calleeID(&lc.Call) != "(*trzsz.trzszBuffer).popBuffer" {
				okAll = false // anything made from a popped chunk (a merged / copied / re-sliced buffer) is not the chunk
				return
			}
			_, lsrc, _ := fieldOf(lc.Call.Args[0])
			if pc != nil && lsrc != src {
				okAll = false
				return
			}
			pc, src = lc, lsrc
		}
		popsOf(s.X, 0)
		if !okAll {
			pc = nil
		}
		if pc == nil {
			c.bad("flush/send-value", c.ipos(s), "flush sends something that is not a popped chunk")
			return
		}
		_, dst, _ := fieldOf(s.Chan)
		want := map[string]map[string]bool{"stdinBuffer": {"osStdinChan": true, "clientBufChan": true}, "stdoutBuffer": {"osStdoutChan": true, "bypassTmuxChan": true, "serverBufChan": true}}
		c.check(want[src][dst], "flush/"+src+"->"+dst, c.ipos(s), "parked chunk delivered to its own direction", "parked chunk delivered to the wrong side")
	})
	// popBuffer: remainder first
	pb := c.fn("trzszBuffer.popBuffer")
	okRem := false
	eachInstr(pb, func(in ssa.Instruction) {
		r, ok := in.(*ssa.Return)
		if !ok || len(r.Results) != 1 {
			return
		}
		sl, ok := strip(r.Results[0]).(*ssa.Slice)
		if !ok || !isFieldLoad("nextBuf")(sl.X) || sl.Low == nil || !isFieldLoad("nextIdx")(sl.Low) {
			return
		}
		fs := factsAt(r.Block())
		inb := factCmp(fs, token.LSS, isFieldLoad("nextIdx"), func(v ssa.Value) bool { lc, _ := callOf(v); return lc != nil && calleeID(&lc.Call) == "builtin len" })
		okRem = inb
	})
	c.check(okRem, "popBuffer/remainder-first", c.pos(pb.Pos()), "the unread remainder of the current chunk is returned when nextIdx < len(nextBuf)", "popBuffer does not return the unread remainder of the current chunk")
	// the queue receive is only reached when there is no remainder: the select is not in the entry block
	eachInstr(pb, func(in ssa.Instruction) {
		if sel, ok := in.(*ssa.Select); ok {
			c.check(sel.Block() != pb.Blocks[0] && !sel.Blocking, "popBuffer/queue-after-remainder", c.ipos(sel), "the queue is polled (non-blocking) only after the remainder test", "the queue is looked at before the remainder, or blocks")
		}
	})
}

func c13R3(c *Ctx) {
	f := c.fn("TrzszRelay.wrapOutput")
	hs := c.constVal("kRelayHandshaking")
	var store ssa.Instruction
	for _, ci := range callsIn(f, anyID) {
		if isStatusCall(ci, "Store") && isConstIntV(hs)(ci.Common().Args[1]) {
			store = ci.(ssa.Instruction)
		}
	}
	if store == nil {
		c.bad("wrapOutput/status=handshaking", c.pos(f.Pos()), "the output pump never sets the status to handshaking")
		return
	}
	// trigger != nil edge
	trig := false
	for _, fc := range factsAt(store.Block()) {
		op, x, y, ok := cmpFact(fc)
		if ok && op == token.NEQ && (isNilConst(x) || isNilConst(y)) {
			trig = true
		}
	}
	c.check(trig, "wrapOutput/status-on-trigger-edge", c.ipos(store), "status set on the trigger != nil edge", "status set to handshaking outside the trigger edge")
	var gos []ssa.Instruction
	eachInstr(f, func(in ssa.Instruction) {
		if g, ok := in.(*ssa.Go); ok && calleeID(&g.Call) == "(*trzsz.TrzszRelay).handshake" {
			gos = append(gos, in)
		}
	})
	c.check(len(gos) == 1, "wrapOutput/one-handshake-start", c.pos(f.Pos()), "exactly one place starts the handshake worker", "the handshake worker is started at an unexpected number of places")
	for _, g := range gos {
		c.check(domI(store, g) && store != g, "wrapOutput/status-before-go", c.ipos(g), "status is handshaking before the worker starts", "handshake worker started before the status is handshaking")
	}
	// the worker reads the trigger (mode, unique id, ports, Windows flag) from the relay: it is recorded before the worker starts
	for _, g := range gos {
		rec := false
		eachInstr(f, func(in ssa.Instruction) {
			st, ok := in.(*ssa.Store)
			if !ok {
				return
			}
			if n, _ := fieldAddrName(st.Addr); n == "TrzszRelay.trigger" {
				if call, idx := callOf(st.Val); call != nil && idx == 1 && calleeID(&call.Call) == "(*trzsz.trzszDetector).detectTrzsz" && domI(st, g) {
					_, nonNil := factNil(factsAt(st.Block()), st.Val)
					rec = nonNil
				}
			}
		})
		c.check(rec, "wrapOutput/trigger-recorded-before-go", c.ipos(g), "the detected trigger is recorded (on its non-nil edge) before the handshake worker starts", "the handshake worker starts without the detected trigger having been recorded: it works from a stale or nil trigger")
	}
	// on the trigger edge no forward of the chunk precedes the store
	tb := store.Block()
	hit, path := reachFrom(tb, 0, func(in ssa.Instruction) bool {
		if in == store {
			return false
		}
		switch in.(type) {
		case *ssa.Send, *ssa.Go:
			return true
		}
		return false
	}, func(in ssa.Instruction) bool { return in == store })
	c.check(hit == nil, "wrapOutput/status-before-forward", c.ipos(store), "the trigger chunk is forwarded only after the status is handshaking", "the trigger chunk can be forwarded before the status is handshaking", c.pathStr(path)...)
	// universal forms: once the status says handshaking the worker that will end the handshake is always started (else
	// the status stays handshaking and everything is parked for good); and between the detection and the first forward
	// or worker start on the trigger side the status store always comes first
	{
		isGoHS := func(in ssa.Instruction) bool {
			g, ok := in.(*ssa.Go)
			return ok && calleeID(&g.Call) == "(*trzsz.TrzszRelay).handshake"
		}
		isRead := func(in ssa.Instruction) bool {
			call, ok := in.(*ssa.Call)
			return ok && call.Call.IsInvoke() && call.Call.Method.Name() == "Read"
		}
		hitG, pathG := reachAvoid(store, func(in ssa.Instruction) bool { return isRead(in) || isReturn(in) }, isGoHS)
		c.check(hitG == nil, "wrapOutput/handshaking=>worker-started", c.ipos(store), "after the status was set to handshaking the handshake worker is always started before the next read", "the status can be set to handshaking without the handshake worker being started: nothing ever ends the handshake and all traffic stays parked", c.pathStr(pathG)...)
	}
}

func c13R4(c *Ctx) {
	type w struct{ fn, method string }
	want := map[w]int64{
		{"TrzszRelay.wrapOutput", "Store"}:              c.constVal("kRelayHandshaking"),
		{"TrzszRelay.flushHandshakeBuffer", "Store"}:    c.constVal("kRelayTransferring"),
		{"TrzszRelay.resetToStandby", "CompareAndSwap"}: c.constVal("kRelayStandBy"),
	}
	seen := 0
	for _, f := range c.AllFns {
		for _, ci := range callsIn(f, anyID) {
			if !isStatusCall(ci, "Store", "CompareAndSwap", "Swap", "Add", "And", "Or") {
				continue
			}
			seen++
			id := calleeID(ci.Common())
			m := id[strings.LastIndex(id, ".")+1:]
			val, ok := want[w{c.fnName(f), m}]
			args := ci.Common().Args
			good := ok && isConstIntV(val)(args[len(args)-1])
			c.check(good, "relayStatus/"+c.fnName(f)+"."+m, c.ipos(ci), "status written by a designated writer with its designated value", "relay status written at an unexpected place or with an unexpected value")
		}
	}
	c.check(seen == 3, "relayStatus/writers", "", "the status word has exactly three writers", "the status word does not have exactly three writers")
}

type pumpSpec struct {
	fn      string
	park    string          // handshake buffer field
	chans   map[string]bool // allowed destination channel fields
	through []string        // chunk transformers (callee id -> chunk is arg 1)
}

var relayPumps = []pumpSpec{
	{"TrzszRelay.wrapInput", "stdinBuffer", map[string]bool{"osStdinChan": true}, nil},
	{"TrzszRelay.wrapOutput", "stdoutBuffer", map[string]bool{"osStdoutChan": true, "bypassTmuxChan": true}, nil},
	{"tunnelRelay.wrapInput", "stdinBuffer", map[string]bool{"clientBufChan": true}, nil},
	{"tunnelRelay.wrapOutput", "stdoutBuffer", map[string]bool{"serverBufChan": true}, nil},
}

var chunkTransformers = map[string]bool{
	"(*trzsz.traceLogger).writeTraceLog": true, "(*trzsz.trzszDetector).detectTrzsz": true, "(*trzsz.TrzszRelay).listenForTunnel": true,
}

// chunkRoots: the slices a (possibly transformed) chunk value derives from.
func chunkRoots(v ssa.Value) []ssa.Value {
	var out []ssa.Value
	seen := map[ssa.Value]bool{}
	var walk func(v ssa.Value)
	walk = func(v ssa.Value) {
		for _, l := range origins(v, originOpts{}) {
			if seen[l.V] {
				continue
			}
			seen[l.V] = true
			if call, idx := callOf(l.V); call != nil && chunkTransformers[calleeID(&call.Call)] && idx <= 0 {
				walk(call.Call.Args[1])
				continue
			}
			out = append(out, l.V)
		}
	}
	walk(v)
	return out
}

func c13R5(c *Ctx) {
	for _, ps := range relayPumps {
		f := c.fn(ps.fn)
		var read *ssa.Call
		eachInstr(f, func(in ssa.Instruction) {
			if call, ok := in.(*ssa.Call); ok && call.Call.IsInvoke() && call.Call.Method.Name() == "Read" {
				read = call
			}
		})
		if read == nil {
			c.lost("Read call in " + ps.fn)
		}
		buffer := read.Call.Args[0]
		n := extractOf(read, 0)
		isChunk := func(v ssa.Value) bool {
			roots := chunkRoots(v)
			if len(roots) == 0 {
				return false
			}
			for _, r := range roots {
				sl, ok := r.(*ssa.Slice)
				if !ok || !sameValue(sl.X, buffer) || sl.High == nil || !sameValue(sl.High, n) {
					return false
				}
			}
			return true
		}
		isSendChunk := func(in ssa.Instruction) bool {
			s, ok := in.(*ssa.Send)
			return ok && isChunk(s.X)
		}
		isPark := func(in ssa.Instruction) bool {
			ci, ok := in.(ssa.CallInstruction)
			return ok && calleeID(ci.Common()) == "(*trzsz.TrzszRelay).addHandshakeBuffer"
		}
		// parkedEdge: the CFG edge taken when addHandshakeBuffer returned ok == true
		parkedEdge := func(from, to *ssa.BasicBlock) bool {
			i := blockIf(from)
			if i == nil || from.Succs[0] != to {
				return false
			}
			e, ok := i.Cond.(*ssa.Extract)
			if !ok || e.Index != 1 {
				return false
			}
			call, ok := e.Tuple.(*ssa.Call)
			return ok && isPark(call)
		}
		// universal form, from the read itself: whatever is tested first — the count or the error — a read that
		// returned bytes (an io.Reader may return them together with io.EOF) cannot get to the next read or to the
		// pump's end without those bytes having been parked or forwarded
		{
			lenOfRead := func(v ssa.Value) bool {
				lc, _ := callOf(v)
				if lc == nil || calleeID(&lc.Call) != "builtin len" {
					return false
				}
				for _, l := range origins(lc.Call.Args[0], originOpts{}) {
					sl, ok := l.V.(*ssa.Slice)
					if !ok || sl.High == nil || !sameValue(sl.High, n) {
						return false
					}
				}
				return true
			}
			no := contradicts([]assumption{valueIs(isValue(n), 1), valueIs(lenOfRead, 1)})
			hitU, pathU := reachFromE(read.Block(), instrIndex(read)+1, func(in ssa.Instruction) bool { return in == ssa.Instruction(read) || isReturn(in) }, isSendChunk, func(from, to *ssa.BasicBlock) bool {
				return parkedEdge(from, to) || no(from, to)
			})
			c.check(hitU == nil, ps.fn+"/bytes-before-error", c.ipos(read), "bytes that a read returned are parked or forwarded before its error is acted on", "bytes returned by a read together with an error (or before the count is looked at) can be dropped: the error is acted on first", c.pathStr(pathU)...)
		}
		// n > 0 edge
		var nz *ssa.BasicBlock
		for _, b := range f.Blocks {
			i := blockIf(b)
			if i == nil {
				continue
			}
			for k := 0; k < 2; k++ {
				if factPositive(edgeFactsTo(b, b.Succs[k]), isValue(n)) {
					nz = b.Succs[k]
				}
			}
		}
		if nz == nil {
			c.lost("n > 0 test in " + ps.fn)
		}
		// at least one destination
		hit, path := reachFromE(nz, 0, func(in ssa.Instruction) bool { return in == ssa.Instruction(read) || isReturn(in) }, isSendChunk, parkedEdge)
		c.check(hit == nil, ps.fn+"/never-neither", c.ipos(read), "every non-empty chunk is parked or forwarded before the next read", "a non-empty chunk can be dropped (neither parked nor forwarded)", c.pathStr(path)...)
		// never both: after a send, no second send/park of the chunk before the next read
		nSend := 0
		eachInstr(f, func(in ssa.Instruction) {
			if isSendChunk(in) {
				nSend++
				s := in.(*ssa.Send)
				_, ch, _ := fieldOf(s.Chan)
				c.check(ps.chans[ch], ps.fn+"/direction->"+ch, c.ipos(in), "chunk forwarded on its own direction's channel", "chunk forwarded on a channel of the other direction")
				hit2, path2 := reachAvoid(in, func(x ssa.Instruction) bool { return isSendChunk(x) || isPark(x) }, func(x ssa.Instruction) bool { return x == ssa.Instruction(read) })
				c.check(hit2 == nil, ps.fn+"/never-both", c.ipos(in), "a forwarded chunk is not forwarded or parked again", "a chunk can be delivered twice", c.pathStr(path2)...)
			}
			if isPark(in) {
				ci := in.(ssa.CallInstruction)
				_, bf, _ := fieldOf(ci.Common().Args[1])
				c.check(bf == ps.park, ps.fn+"/park->"+bf, c.ipos(in), "chunk parked in its own direction's handshake buffer", "chunk parked in the other direction's buffer")
				c.check(isChunk(ci.Common().Args[2]), ps.fn+"/park.value", c.ipos(in), "the value parked is the chunk just read", "the value parked is not the chunk just read")
				// the origin flag: terminal-side pumps say "not from the tunnel", the tunnel pumps say "from the tunnel"
				// (it decides whether in-band bytes are dropped once the tunnel is agreed)
				fromTunnel, isC := constBool(ci.Common().Args[3])
				wantTunnel := strings.HasPrefix(ps.fn, "tunnelRelay.")
				c.check(isC && fromTunnel == wantTunnel, ps.fn+"/park.origin-flag", c.ipos(in), "the chunk is offered for parking with its true origin (constant)", "the chunk is offered for parking with the wrong origin flag: in-band bytes are parked (not dropped) after the tunnel was agreed, or tunnel bytes are dropped")
			}
		})
		if nSend == 0 {
			c.bad(ps.fn+"/forward", c.pos(f.Pos()), "the pump never forwards the chunk it read")
		}
		// after parking (ok == true) the chunk is not forwarded
		nPark := 0
		for _, b := range f.Blocks {
			if len(b.Succs) == 2 && parkedEdge(b, b.Succs[0]) {
				nPark++
				hit3, path3 := reachFrom(b.Succs[0], 0, isSendChunk, func(x ssa.Instruction) bool { return x == ssa.Instruction(read) })
				c.check(hit3 == nil, ps.fn+"/parked-not-forwarded", c.pos(f.Pos()), "a parked chunk is not also forwarded", "a parked chunk is also forwarded", c.pathStr(path3)...)
			}
		}
		if nPark == 0 {
			c.bad(ps.fn+"/park", c.pos(f.Pos()), "the pump never parks chunks during a handshake")
		}
		// the tunnel pumps look up which relay they belong to for every chunk (resetToStandby detaches an old tunnel by
		// clearing that pointer; a value read once before the loop keeps a finished transfer's pumps attached)
		for _, ci := range callsIn(f, anyID) {
			if isAtomicOnField(ci, "relay", "Load") {
				c.check(domI(read, ci.(ssa.Instruction)), ps.fn+"/relay-looked-up-per-chunk", c.ipos(ci), "the owning relay is looked up after each read", "the owning relay is read once before the loop: after a reset the old tunnel's pumps still park into / reset the relay")
			}
		}
		// the pump ends only when its source reported EOF
		rerr := extractOf(read, 1)
		eofEdge := func(from, to *ssa.BasicBlock) bool {
			return factCmp(edgeFactsTo(from, to), token.EQL, isValue(rerr), func(v ssa.Value) bool {
				u, ok := strip(v).(*ssa.UnOp)
				if !ok || u.Op != token.MUL {
					return false
				}
				g, isG := u.X.(*ssa.Global)
				return isG && g.Name() == "EOF"
			})
		}
		hit5, path5 := reachFromE(read.Block(), instrIndex(read)+1, isReturn, nil, eofEdge)
		c.check(hit5 == nil, ps.fn+"/ends-only-on-EOF", c.ipos(read), "the pump ends only on the edge where its source reported EOF", "the pump can end although its source is still open: the relay stops forwarding this direction", c.pathStr(path5)...)
		// after EOF no further read (off Windows, where the console's EOF is answered with Ctrl-Z and reading goes on)
		notWin := func(from, to *ssa.BasicBlock) bool {
			for _, fc := range edgeFactsTo(from, to) {
				if call, _ := callOf(fc.V); call != nil && calleeID(&call.Call) == "trzsz.isRunningOnWindows" && fc.Pol {
					return true
				}
			}
			return false
		}
		nEOF := 0
		defer func(fn string, pos string) {
			if nEOF == 0 {
				c.bad(fn+"/EOF-ends-pump", pos, "the pump has no exit on EOF of its source: it reads a closed source for ever and its channel is never closed")
			}
		}(ps.fn, c.pos(f.Pos()))
		for _, b := range f.Blocks {
			for _, sx := range b.Succs {
				if len(b.Succs) == 2 && b.Succs[0] != b.Succs[1] && eofEdge(b, sx) {
					nEOF++
					hit6, path6 := reachFromE(sx, 0, func(in ssa.Instruction) bool { return in == ssa.Instruction(read) }, nil, notWin)
					c.check(hit6 == nil, ps.fn+"/EOF-ends-pump", c.pos(b.Instrs[len(b.Instrs)-1].Pos()), "after EOF the pump does not read again", "after EOF the pump reads again: it spins on a closed source and its channel is never closed", c.pathStr(path6)...)
				}
			}
		}
		// a pump that saw the status "handshaking" must offer the chunk to the parking function before it may forward it
		hs := c.constVal("kRelayHandshaking")
		nHS := 0
		for _, b := range f.Blocks {
			i := blockIf(b)
			if i == nil {
				continue
			}
			op, x, y, ok := cmpFact(normFact(fact{V: i.Cond, Pol: true}))
			if !ok || (op != token.EQL && op != token.NEQ) || !isConstIntV(hs)(y) {
				continue
			}
			if call, _ := callOf(x); call == nil || !isStatusCall(call, "Load") {
				continue
			}
			nHS++
			k := 0
			if op == token.NEQ {
				k = 1
			}
			hit4, path4 := reachFrom(b.Succs[k], 0, isSendChunk, func(x ssa.Instruction) bool { return isPark(x) || x == ssa.Instruction(read) })
			c.check(hit4 == nil, ps.fn+"/handshaking=>park-first", c.ipos(i), "on the edge where the status was read as handshaking the chunk is offered to the parking function before any forward", "a chunk read while the status is handshaking can be forwarded without parking: it overtakes the bytes parked before it", c.pathStr(path4)...)
		}
		if nHS == 0 {
			c.bad(ps.fn+"/handshaking=>park-first", c.pos(f.Pos()), "the pump no longer tests the status for handshaking")
		}
		// and every forward is behind such a test made after the read: from the read no forward of the chunk is reachable
		// without passing a branch on "status == handshaking" whose status was loaded after that read
		{
			statusIf := func(in ssa.Instruction) bool {
				i, isIf := in.(*ssa.If)
				if !isIf {
					return false
				}
				op, x, y, ok := cmpFact(normFact(fact{V: i.Cond, Pol: true}))
				if !ok || (op != token.EQL && op != token.NEQ) || !isConstIntV(hs)(y) {
					return false
				}
				call, _ := callOf(x)
				return call != nil && isStatusCall(call, "Load") && domI(read, call)
			}
			// (a tunnel pump whose relay pointer reads nil has been detached by resetToStandby: it belongs to no handshake and forwards as is)
			detached := func(from, to *ssa.BasicBlock) bool {
				for _, fc := range edgeFactsTo(from, to) {
					op, x, y, ok := cmpFact(fc)
					if !ok || op != token.EQL || !isNilConst(y) {
						continue
					}
					if call, _ := callOf(x); call != nil && isAtomicOnField(call, "relay", "Load") {
						return true
					}
				}
				return false
			}
			hitU, pathU := reachFromE(read.Block(), instrIndex(read)+1, isSendChunk, func(x ssa.Instruction) bool { return statusIf(x) || x == ssa.Instruction(read) }, detached)
			c.check(hitU == nil, ps.fn+"/forward-only-after-status-test", c.ipos(read), "a chunk is forwarded only after the status, read after the chunk, was tested for handshaking", "a chunk can be forwarded without a fresh test of the relay status: during a handshake it overtakes the parked bytes", c.pathStr(pathU)...)
		}
	}
	// consumers: which writer each channel drains into
	wantSink := map[string]string{"osStdinChan": "serverIn", "osStdoutChan": "clientOut", "bypassTmuxChan": "bypassTmuxOut", "clientBufChan": "serverConn", "serverBufChan": "clientConn"}
	found := map[string]bool{}
	for _, name := range []string{"NewTrzszRelay$1", "NewTrzszRelay$2", "NewTrzszRelay$3", "newTunnelRelay$1", "newTunnelRelay$2"} {
		f := c.fn(name)
		var ch, sink string
		eachInstr(f, func(in ssa.Instruction) {
			if u, ok := in.(*ssa.UnOp); ok && u.Op == token.ARROW {
				ch = varName(u.X)
			}
			if call, ok := in.(*ssa.Call); ok && calleeID(&call.Call) == "trzsz.writeAll" {
				sink = varName(call.Call.Args[0])
			}
		})
		found[ch] = true
		c.check(wantSink[ch] == sink && sink != "", "consumer/"+ch+"->"+sink, c.pos(f.Pos()), "channel drained into the matching side", "channel "+ch+" is drained into "+sink+", expected "+wantSink[ch])
	}
	for ch := range wantSink {
		if !found[ch] {
			c.bad("consumer/"+ch, "", "no consumer found for channel "+ch)
		}
	}
}

// varName: name of the captured variable / parameter a value is loaded from.
func varName(v ssa.Value) string {
	v = strip(v)
	switch x := v.(type) {
	case *ssa.Parameter:
		return paramName(x)
	case *ssa.FreeVar:
		return freeVarName(x)
	case *ssa.UnOp:
		if x.Op == token.MUL {
			switch a := x.X.(type) {
			case *ssa.FreeVar:
				return freeVarName(a)
			case *ssa.Alloc:
				return allocName(a)
			}
		}
	}
	return ""
}

func isFreshBuffer(v ssa.Value) bool {
	v = strip(v)
	if _, ok := v.(*ssa.MakeSlice); ok {
		return true
	}
	if sl, ok := v.(*ssa.Slice); ok {
		if al, ok := sl.X.(*ssa.Alloc); ok && al.Comment == "makeslice" {
			return true
		}
	}
	return false
}

func c13R6(c *Ctx) {
	for _, ps := range relayPumps {
		f := c.fn(ps.fn)
		eachInstr(f, func(in ssa.Instruction) {
			call, ok := in.(*ssa.Call)
			if !ok || !call.Call.IsInvoke() || call.Call.Method.Name() != "Read" {
				return
			}
			buf := call.Call.Args[0]
			fresh := isFreshBuffer(buf)
			inLoop := false
			if bi, ok := strip(buf).(ssa.Instruction); ok && fresh {
				// allocated inside the loop: the allocation's block can reach itself
				hit, _ := reachFrom(bi.Block(), len(bi.Block().Instrs), func(x ssa.Instruction) bool { return x.Block() == bi.Block() }, nil)
				inLoop = hit != nil
			}
			c.check(fresh && inLoop, ps.fn+"/fresh-read-buffer", c.ipos(call), "each iteration reads into a newly allocated buffer", "the pump reuses its read buffer after handing chunks to a queue")
		})
	}
}

func c13R7(c *Ctx) {
	f := c.fn("TrzszRelay.handshake")
	var d *ssa.Defer
	for _, in := range f.Blocks[0].Instrs {
		if x, ok := in.(*ssa.Defer); ok {
			d = x
			break
		}
		if _, ok := in.(*ssa.Call); ok {
			break
		}
	}
	if d == nil {
		c.bad("handshake/defer-flush-first", c.pos(f.Pos()), "the handshake worker does not register its flush before doing anything that can fail")
		return
	}
	mc, ok := d.Call.Value.(*ssa.MakeClosure)
	if !ok {
		c.bad("handshake/defer-flush-first", c.ipos(d), "first deferred call is not the flush closure")
		return
	}
	cl := mc.Fn.(*ssa.Function)
	hit, path := reachFrom(cl.Blocks[0], 0, isReturn, func(in ssa.Instruction) bool {
		ci, ok := in.(ssa.CallInstruction)
		return ok && calleeID(ci.Common()) == "(*trzsz.TrzszRelay).flushHandshakeBuffer"
	})
	c.check(hit == nil, "handshake/defer-flush-first", c.ipos(d), "confirm, refuse, malformed ACT and malformed CFG all flush", "an exit of the handshake worker skips the flush", c.pathStr(path)...)
}

// c13Sides: who reads what, by side. A relay has a client side and a server side; every pump moves bytes from one
// side to the other and every line helper of the handshake works on its own side's parking buffer:
//   - the pumps' sources: TrzszRelay.wrapInput reads clientIn, wrapOutput reads serverOut; tunnelRelay.wrapInput reads
//     clientConn, wrapOutput reads serverConn (the channel each one feeds is checked against its consumer's sink in
//     C13-R5: client-side source => server-side sink and vice versa);
//   - recvStringFromClient reads the stdin parking buffer on every path, recvStringFromServer the stdout one;
//   - sendError tells both ends: one line to the client and one to the server.
//
// A same-typed sibling in the wrong place type-checks and reads the other side's bytes back to their sender.
func c13Sides(c *Ctx) {
	for _, w := range []struct{ fn, src string }{
		{"TrzszRelay.wrapInput", "clientIn"}, {"TrzszRelay.wrapOutput", "serverOut"},
		{"tunnelRelay.wrapInput", "clientConn"}, {"tunnelRelay.wrapOutput", "serverConn"},
		{"TrzszFilter.wrapInput", "clientIn"}, {"TrzszFilter.wrapOutput", "serverOut"},
	} {
		f := c.fn(w.fn)
		n := 0
		eachInstr(f, func(in ssa.Instruction) {
			call, ok := in.(*ssa.Call)
			if !ok || !call.Call.IsInvoke() || call.Call.Method.Name() != "Read" {
				return
			}
			n++
			_, fld, okF := fieldOf(call.Call.Value)
			c.check(okF && fld == w.src, "side/"+w.fn+"/reads-"+w.src, c.ipos(call), "the pump reads its own side's stream", "the pump reads "+fld+" instead of "+w.src+": bytes are sent back to the side they came from")
		})
		if n != 1 {
			c.undecided("side/"+w.fn+"/reads", "expected exactly one Read in the pump")
		}
	}
	for _, w := range []struct{ fn, buf string }{{"TrzszRelay.recvStringFromClient", "stdinBuffer"}, {"TrzszRelay.recvStringFromServer", "stdoutBuffer"}} {
		f := c.fn(w.fn)
		n := 0
		for _, ci := range callsIn(f, idIs("trzsz.recvStringFromBuffer", "trzsz.recvStringForWindows")) {
			n++
			_, fld, okF := fieldOf(ci.Common().Args[0])
			c.check(okF && fld == w.buf, "side/"+w.fn+"/buffer."+shortID(calleeID(ci.Common())), c.ipos(ci), "the handshake reads this side's parking buffer", "the handshake helper reads "+fld+" instead of "+w.buf+": it waits for the other side's line")
		}
		if n < 2 {
			c.undecided("side/"+w.fn+"/buffer", "expected the plain and the Windows reader")
		}
	}
	se := c.fn("TrzszRelay.sendError")
	toC, toS := len(callsIn(se, idIs("(*trzsz.TrzszRelay).sendStringToClient"))), len(callsIn(se, idIs("(*trzsz.TrzszRelay).sendStringToServer")))
	c.check(toC == 1 && toS == 1, "side/sendError/both-ends", c.pos(se.Pos()), "a handshake error is reported to the client and to the server", fmt.Sprintf("a handshake error is reported %d time(s) to the client and %d time(s) to the server: one end is not told and waits out its timeout", toC, toS))
}
