package main

// C04 — escape coding: structural proof obligations of a byte-wise prefix code.

import (
	"fmt"
	"go/ast"
	"go/constant"
	"go/token"
	"sort"
	"strings"

	"trzszlint/xssa"
)

func init() {
	register("C04", 25, "Decided: the structural preconditions of a reversible byte-wise code with a one-byte leader, for the current source — (R1) the encoder emits a raw byte only on the table-has-no-entry edge and otherwise leader + the entry's code, into a 2x buffer; (R2) the decoder returns a lone trailing leader as 'remaining' before consuming it, rejects a code without entry, returns the unread tail when the destination is full, and the stream reader carries 'remaining' into the next read; (R3) the built-in tables, recovered from the source, contain the leader and '~', with escape-all exactly the control bytes the property names, have pairwise distinct codes, no code byte is itself a protected terminal byte, and the table builder fills both directions from the same pair and insists on the leader; (R4) the escaper wraps the chunk framer directly on every binary arm (base64 otherwise) with compression outside, and every writer of the connection sends either framer output or text built from the protocol alphabet. Not decided: arbitrary announced tables beyond well-formedness, the zstd layer, round-trip equality on data.",
		func(c *Ctx) {
			c.run("C04-R1", "GUARD-DOM: encoder emits raw bytes only without a table entry", c04R1)
			c.run("C04-R2", "GUARD-DOM: decoder carries a lone leader, rejects unknown codes, returns the unread tail", c04R2)
			c.run("C04-R3", "LITERAL: built-in tables and the table builder", c04R3)
			c.run("C04-R4", "SIBLING/WHO-CALLS: escaper placement and connection writers", c04R4)
			c.run("C04-R6", "GUARD-DOM: the length announced in a binary frame header is the length of the bytes written after it", c04FrameLen)
			c.run("C04-R7", "FRESH: the sender's staging buffer is a fresh allocation whenever it is replaced", c04FreshStaging)
			c.run("C04-R5", "GUARD-DOM: every exit of encoder/decoder accounts for all input; the stream wrappers pass only coded bytes", c04R5)
		})
}

func (c *Ctx) leaderByte() int64 { return c.constVal("escapeLeaderByte") }

func c04R1(c *Ctx) {
	f := c.fn("escapeData")
	leader := c.leaderByte()
	var out *ssa.MakeSlice
	eachInstr(f, func(in ssa.Instruction) {
		if m, ok := in.(*ssa.MakeSlice); ok {
			out = m
		}
	})
	if out == nil {
		c.lost("output buffer of escapeData")
	}
	b, ok := out.Len.(*ssa.BinOp)
	twice := false
	if ok && b.Op == token.MUL {
		for _, pr := range [][2]ssa.Value{{b.X, b.Y}, {b.Y, b.X}} {
			lc, _ := callOf(pr[0])
			if n, isC := constInt(pr[1]); isC && n >= 2 && lc != nil && calleeID(&lc.Call) == "builtin len" && isVar("data")(lc.Call.Args[0]) {
				twice = true
			}
		}
	}
	c.check(twice, "escapeData/capacity", c.ipos(out), "output buffer holds 2*len(data) bytes (every byte may need two)", "output buffer is smaller than 2*len(data): escaping can write past it")
	kinds := map[string]int{}
	eachInstr(f, func(in ssa.Instruction) {
		st, ok := in.(*ssa.Store)
		if !ok {
			return
		}
		ia, ok := st.Addr.(*ssa.IndexAddr)
		if !ok || ia.X != ssa.Value(out) {
			return
		}
		fs := factsAt(st.Block())
		// the table entry tested on this edge
		var entry ssa.Value
		isNil, nonNil := false, false
		for _, fc := range fs {
			_, x, y, ok := cmpFact(fc)
			if !ok {
				continue
			}
			for _, v := range []ssa.Value{x, y} {
				if u, ok := v.(*ssa.UnOp); ok && u.Op == token.MUL {
					if ia2, ok := u.X.(*ssa.IndexAddr); ok && isFieldLoad("escapeCodes")(ia2.X) {
						entry = u
					}
				}
			}
		}
		if entry != nil {
			isNil, nonNil = factNil(fs, entry)
		}
		switch {
		case isConstIntV(leader)(st.Val):
			kinds["leader"]++
			c.check(nonNil, "escapeData/leader@entry", c.ipos(st), "the leader is emitted on the has-entry edge", "leader emitted without a table entry")
		case func() bool {
			u, ok := st.Val.(*ssa.UnOp)
			return ok && u.Op == token.MUL && entry != nil && u.X == entry
		}():
			kinds["code"]++
			c.check(nonNil, "escapeData/code@entry", c.ipos(st), "the entry's code follows the leader", "code emitted without a non-nil entry")
		default:
			kinds["raw"]++
			// the value is the input byte data[i] and the entry index is that same byte
			u, isU := st.Val.(*ssa.UnOp)
			fromData := false
			if isU && u.Op == token.MUL {
				if ia3, ok := u.X.(*ssa.IndexAddr); ok && isVar("data")(ia3.X) {
					fromData = true
				}
			}
			sameIdx := false
			if eu, ok := entry.(*ssa.UnOp); ok {
				if eia, ok := eu.X.(*ssa.IndexAddr); ok && sameValue(eia.Index, st.Val) {
					sameIdx = true
				}
			}
			c.check(isNil && fromData && sameIdx, "escapeData/raw@no-entry", c.ipos(st), "an input byte is emitted raw only when the table has no entry for that very byte", "a byte can be emitted raw although the table has an entry for it (or the entry of a different byte was tested)")
		}
	})
	c.check(kinds["leader"] == 1 && kinds["code"] == 1 && kinds["raw"] == 1, "escapeData/three-stores", c.pos(f.Pos()), "exactly raw | leader+code are written", fmt.Sprintf("unexpected set of output stores %v", kinds))
}

func c04R2(c *Ctx) {
	f := c.fn("unescapeData")
	leader := c.leaderByte()
	// (1) lone trailing leader
	lone := false
	full := false
	for _, b := range f.Blocks {
		i := blockIf(b)
		if i == nil {
			continue
		}
		op, x0, y0, ok := cmpFact(normFact(fact{V: i.Cond, Pol: true}))
		if !ok || (op != token.EQL && op != token.NEQ) || b.Succs[0] == b.Succs[1] {
			continue
		}
		eqSucc := b.Succs[0] // the edge taken when the two sides are equal, however the test is written
		if op == token.NEQ {
			eqSucc = b.Succs[1]
		}
		for _, pair := range [][2]ssa.Value{{x0, y0}, {y0, x0}} {
			x, y := pair[0], pair[1]
			// i == size-1 under data[i] == leader
			if bo, isB := strip(y).(*ssa.BinOp); isB && bo.Op == token.SUB && isConstIntV(1)(bo.Y) {
				onLeader := factCmp(factsAt(b), token.EQL, anyValue, isConstIntV(leader))
				// the true edge returns data[i:] as second result, without error
				okRet := false
				for _, in := range eqSucc.Instrs {
					if r, isR := in.(*ssa.Return); isR && len(r.Results) == 3 && isNilConst(retVal(r, 2)) {
						if sl, isS := strip(r.Results[1]).(*ssa.Slice); isS && isVar("data")(sl.X) && sl.Low != nil && sameValue(sl.Low, x) && sl.High == nil {
							okRet = true
						}
					}
				}
				if onLeader && okRet {
					lone = true
				}
			}
			// idx == len(buf): return data[i+1:]
			if lc, _ := callOf(y); lc != nil && calleeID(&lc.Call) == "builtin len" {
				for _, in := range eqSucc.Instrs {
					if r, isR := in.(*ssa.Return); isR && len(r.Results) == 3 && isNilConst(retVal(r, 2)) {
						if sl, isS := strip(r.Results[1]).(*ssa.Slice); isS && isVar("data")(sl.X) && sl.Low != nil {
							if bo, isB := sl.Low.(*ssa.BinOp); isB && bo.Op == token.ADD && isConstIntV(1)(bo.Y) {
								full = true
							}
						}
					}
				}
			}
		}
	}
	// every byte the decoder outputs is either the input byte (no leader) or the table entry for the code
	nst := 0
	eachInstr(f, func(in ssa.Instruction) {
		st, ok := in.(*ssa.Store)
		if !ok {
			return
		}
		ia, ok := st.Addr.(*ssa.IndexAddr)
		if !ok {
			return
		}
		isOut := false
		for _, l := range origins(ia.X, originOpts{}) {
			if isVar("dst")(l.V) {
				isOut = true
			}
			if _, mk := l.V.(*ssa.MakeSlice); mk {
				isOut = true
			}
		}
		if !isOut {
			return
		}
		nst++
		good := false
		if u, ok := st.Val.(*ssa.UnOp); ok && u.Op == token.MUL {
			if inner, ok := u.X.(*ssa.UnOp); ok && inner.Op == token.MUL {
				if ia2, ok := inner.X.(*ssa.IndexAddr); ok && isFieldLoad("unescapeCodes")(ia2.X) {
					good = true // *table.unescapeCodes[code]
				}
			}
			if ia2, ok := u.X.(*ssa.IndexAddr); ok && isVar("data")(ia2.X) {
				// raw input byte: only when it is not the leader
				good = factCmp(factsAt(st.Block()), token.NEQ, isValue(st.Val), isConstIntV(leader))
			}
		}
		c.check(good, "unescapeData/output<-table-or-raw", c.ipos(st), "a decoded byte is the table's entry for the code, or the raw non-leader input byte", "the decoder outputs a byte that is neither the table entry nor a raw non-leader byte (an escape pair is guessed instead of looked up)")
	})
	c.check(nst == 2, "unescapeData/two-output-stores", c.pos(f.Pos()), "exactly raw | table entry are written", "unexpected set of output stores in the decoder")
	c.check(lone, "unescapeData/lone-leader-carried", c.pos(f.Pos()), "a leader that is the last byte is returned as 'remaining', not decoded", "a leader at the end of the input is decoded with the next buffer's byte missing")
	c.check(full, "unescapeData/tail-when-full", c.pos(f.Pos()), "when the destination is full the unread tail is returned", "bytes after a full destination are dropped")
	// unknown code: shared obligation
	c02Decode(c)
	// (2) stream reader carries remaining over
	r := c.fn("escapeReader.Read")
	calls := callsIn(r, idIs("trzsz.unescapeData"))
	if len(calls) != 1 {
		c.lost("unescapeData call in escapeReader.Read")
	}
	rem := extractOf(calls[0].(*ssa.Call), 1)
	// the undecoded rest itself, or a local that holds it on the decode path and nil otherwise
	// (`var pending []byte; if len(buffer) > 0 { …; pending = remaining }`)
	var carriesRem func(v ssa.Value, depth int) bool
	carriesRem = func(v ssa.Value, depth int) bool {
		if rem == nil || v == nil {
			return false
		}
		if sameValue(v, rem) {
			return true
		}
		ph, ok := v.(*ssa.Phi)
		if !ok || depth > 3 {
			return false
		}
		any := false
		for _, e := range ph.Edges {
			if isNilConst(e) {
				continue
			}
			if !carriesRem(e, depth+1) {
				return false
			}
			any = true
		}
		return any
	}
	keep, copied := false, false
	eachInstr(r, func(in ssa.Instruction) {
		if st, ok := in.(*ssa.Store); ok {
			if n, ok := fieldAddrName(st.Addr); ok && n == "escapeReader.buffer" && rem != nil && sameValue(st.Val, rem) {
				keep = true
			}
		}
		if call, ok := in.(*ssa.Call); ok && calleeID(&call.Call) == "builtin copy" && carriesRem(call.Call.Args[1], 0) {
			copied = true
		}
	})
	{
		// universal forms: after a decode, every successful return has put the undecoded rest back as the buffer; and the
		// refill read is reached only after the rest was copied to the front of the new buffer
		uc := calls[0].(*ssa.Call)
		isKeep := func(in ssa.Instruction) bool {
			st, ok := in.(*ssa.Store)
			if !ok {
				return false
			}
			n, ok := fieldAddrName(st.Addr)
			return ok && n == "escapeReader.buffer" && rem != nil && sameValue(st.Val, rem)
		}
		isCarry := func(in ssa.Instruction) bool {
			call, ok := in.(*ssa.Call)
			return ok && calleeID(&call.Call) == "builtin copy" && carriesRem(call.Call.Args[1], 0)
		}
		isRefill := func(in ssa.Instruction) bool {
			call, ok := in.(*ssa.Call)
			return ok && call.Call.IsInvoke() && call.Call.Method.Name() == "Read"
		}
		hitK, pathK := reachAvoid(uc, isNilErrReturn, isKeep)
		c.check(hitK == nil, "escapeReader/keep-remaining-on-every-return", c.ipos(uc), "every successful return after a decode leaves the undecoded rest as the buffer", "a successful return after a decode can leave the old buffer in place (decoded bytes are delivered again) or drop the rest", c.pathStr(pathK)...)
		hitC, pathC := reachAvoid(uc, isRefill, isCarry)
		c.check(hitC == nil, "escapeReader/carry-before-every-refill", c.ipos(uc), "after a decode the reader refills only with the undecoded rest copied to the front", "the reader can refill after a decode without carrying the undecoded rest over (a split escape pair loses its leader)", c.pathStr(pathC)...)
	}
	c.check(keep, "escapeReader/keep-remaining", c.ipos(calls[0]), "after delivering bytes the undecoded rest stays buffered", "the undecoded rest is dropped after a partial decode")
	c.check(copied, "escapeReader/carry-over", c.ipos(calls[0]), "a lone leader is copied to the front of the next read buffer", "a trailing leader is dropped when the reader refills")
	// the refill read starts after the carried bytes
	eachInstr(r, func(in ssa.Instruction) {
		call, ok := in.(*ssa.Call)
		if !ok || !call.Call.IsInvoke() || call.Call.Method.Name() != "Read" {
			return
		}
		sl, ok := strip(call.Call.Args[0]).(*ssa.Slice)
		good := false
		if ok && sl.Low != nil {
			for _, l := range origins(sl.Low, originOpts{}) {
				if lc, _ := callOf(l.V); lc != nil && calleeID(&lc.Call) == "builtin len" && carriesRem(lc.Call.Args[0], 0) {
					good = true
				}
			}
		}
		if isFieldLoad("table")(call.Call.Value) || !ok {
			return
		}
		c.check(good, "escapeReader/refill-after-carry", c.ipos(call), "the refill does not overwrite the carried bytes", "the refill overwrites the carried leader")
	})
}

// ---- R3: tables from the AST ----

type escPair struct {
	b    byte
	code []byte
}

func (c *Ctx) strConst(e ast.Expr) (string, bool) {
	tv, ok := c.Pkg.TypesInfo.Types[e]
	if !ok || tv.Value == nil || tv.Value.Kind() != constant.String {
		return "", false
	}
	return constant.StringVal(tv.Value), true
}

func latin1(s string) ([]byte, bool) {
	var out []byte
	for _, r := range s {
		if r > 255 {
			return nil, false
		}
		out = append(out, byte(r))
	}
	return out, true
}

func c04R3(c *Ctx) {
	fd := c.decls["getEscapeChars"]
	if fd == nil {
		c.lost("declaration of getEscapeChars")
	}
	leader := byte(c.leaderByte())
	var basic []escPair
	var all []escPair
	okBasic, okGen := false, false
	ast.Inspect(fd.Body, func(n ast.Node) bool {
		switch x := n.(type) {
		case *ast.CompositeLit:
			// [][]unicode{{a,b},...}
			if len(x.Elts) > 0 {
				var ps []escPair
				for _, e := range x.Elts {
					cl, ok := e.(*ast.CompositeLit)
					if !ok || len(cl.Elts) != 2 {
						return true
					}
					s0, ok0 := c.strConst(cl.Elts[0])
					s1, ok1 := c.strConst(cl.Elts[1])
					b0, k0 := latin1(s0)
					b1, k1 := latin1(s1)
					if !ok0 || !ok1 || !k0 || !k1 || len(b0) != 1 {
						return true
					}
					ps = append(ps, escPair{b0[0], b1})
				}
				if len(ps) == len(x.Elts) && basic == nil {
					basic = ps
					okBasic = true
				}
			}
		case *ast.RangeStmt:
			// for _, c := range chars { append(..., []unicode{unicode(c), unicode(leader)+unicode(e)}); e += 1 }
			s, ok := c.strConst(x.X)
			if !ok {
				return true
			}
			chars, okL := latin1(s)
			if !okL {
				return true
			}
			hasAppend, hasInc := false, false
			counter := "" // the code counter: the variable the loop increments (identified by role)
			var start int64 = -1
			ast.Inspect(x.Body, func(m ast.Node) bool {
				switch y := m.(type) {
				case *ast.CallExpr:
					if id, ok := y.Fun.(*ast.Ident); ok && id.Name == "append" && len(y.Args) == 2 {
						if cl, ok := y.Args[1].(*ast.CompositeLit); ok && len(cl.Elts) == 2 {
							if be, ok := cl.Elts[1].(*ast.BinaryExpr); ok && be.Op == token.ADD {
								if lv, ok := c.Pkg.TypesInfo.Types[be.X]; ok && lv.Value != nil {
									if lb, okL := latin1(constant.StringVal(lv.Value)); okL && len(lb) == 1 && lb[0] == leader {
										hasAppend = true
									}
								}
							}
						}
					}
				case *ast.AssignStmt:
					if y.Tok == token.ADD_ASSIGN && len(y.Rhs) == 1 && len(y.Lhs) == 1 {
						if v, ok := c.Pkg.TypesInfo.Types[y.Rhs[0]]; ok && v.Value != nil {
							if n, _ := constant.Int64Val(v.Value); n == 1 {
								hasInc = true
								if id, ok := y.Lhs[0].(*ast.Ident); ok {
									counter = id.Name
								}
							}
						}
					}
				case *ast.IncDecStmt:
					hasInc = y.Tok == token.INC
					if id, ok := y.X.(*ast.Ident); ok && hasInc {
						counter = id.Name
					}
				}
				return true
			})
			// the start value: e := byte('A') in the enclosing block
			ast.Inspect(fd.Body, func(m ast.Node) bool {
				if as, ok := m.(*ast.AssignStmt); ok && as.Tok == token.DEFINE && len(as.Lhs) == 1 && len(as.Rhs) == 1 {
					if id, ok := as.Lhs[0].(*ast.Ident); ok && counter != "" && id.Name == counter {
						if v, ok := c.Pkg.TypesInfo.Types[as.Rhs[0]]; ok && v.Value != nil {
							start, _ = constant.Int64Val(v.Value)
						}
					}
				}
				return true
			})
			if hasAppend && hasInc && start >= 0 {
				okGen = true
				for i, ch := range chars {
					all = append(all, escPair{ch, []byte{leader, byte(int(start) + i)}})
				}
			}
		}
		return true
	})
	if !okBasic || !okGen {
		c.undecided("getEscapeChars/shape", "the table generator is not in the recognised form (literal pairs + range over a constant string with an incrementing code)")
		return
	}
	c.Anchors = append(c.Anchors, fmt.Sprintf("built-in escape pairs: %d basic + %d escape-all", len(basic), len(all)))
	want := []byte{0x02, 0x0d, 0x10, 0x11, 0x13, 0x18, 0x1b, 0x1d, 0x8d, 0x90, 0x91, 0x93, 0x9d}
	check := func(name string, ps []escPair, protectedWant []byte) {
		have := map[byte][]byte{}
		for _, p := range ps {
			have[p.b] = p.code
		}
		_, hasL := have[leader]
		_, hasT := have['~']
		c.check(hasL, name+"/leader-escaped", "", "the leader byte itself has an entry", "the leader byte is not escaped: a raw 0xEE in the payload is decoded as a leader")
		c.check(hasT, name+"/tilde-escaped", "", "'~' has an entry", "'~' is not escaped")
		var got []byte
		for b := range have {
			if b != leader && b != '~' {
				got = append(got, b)
			}
		}
		sort.Slice(got, func(i, j int) bool { return got[i] < got[j] })
		c.check(string(got) == string(protectedWant), name+"/protected-set", "", "protected control bytes are exactly the ones the property names", fmt.Sprintf("protected set is % x, expected % x", got, protectedWant))
		codes := map[byte]byte{}
		for _, p := range ps {
			okForm := len(p.code) == 2 && p.code[0] == leader
			c.check(okForm, fmt.Sprintf("%s/code-form.%02x", name, p.b), "", "code = leader + one byte", "code is not leader + one byte")
			if !okForm {
				continue
			}
			if prev, dup := codes[p.code[1]]; dup {
				c.bad(fmt.Sprintf("%s/injective.%02x", name, p.b), "", fmt.Sprintf("bytes %02x and %02x share the code %02x: decoding is ambiguous", prev, p.b, p.code[1]))
			} else {
				codes[p.code[1]] = p.b
			}
			if _, prot := have[p.code[1]]; prot && p.code[1] != leader {
				c.bad(fmt.Sprintf("%s/code-not-protected.%02x", name, p.b), "", fmt.Sprintf("code byte %02x is itself a protected byte: it would appear raw on the wire", p.code[1]))
			}
		}
		c.ok(name+"/injective", "", fmt.Sprintf("%d pairs, codes pairwise distinct", len(ps)))
	}
	check("table.default", basic, nil)
	check("table.escape-all", append(append([]escPair{}, basic...), all...), want)
	// the table builder
	f := c.fn("escapeCharsToTable")
	var stE, stU *ssa.Store
	eachInstr(f, func(in ssa.Instruction) {
		st, ok := in.(*ssa.Store)
		if !ok {
			return
		}
		ia, ok := st.Addr.(*ssa.IndexAddr)
		if !ok {
			return
		}
		if isFieldLoad("escapeCodes")(ia.X) {
			stE = st
		}
		if isFieldLoad("unescapeCodes")(ia.X) {
			stU = st
		}
	})
	if stE == nil || stU == nil {
		c.bad("escapeCharsToTable/both-directions", c.pos(f.Pos()), "the builder does not fill both the escape and the unescape table")
		return
	}
	// escapeCodes[bb[0]] = &cc[1] ; unescapeCodes[cc[1]] = &bb[0]
	idxOf := func(v ssa.Value) (ssa.Value, int64, bool) { // v = load of X[k]  or  &X[k]
		if u, ok := v.(*ssa.UnOp); ok && u.Op == token.MUL {
			v = u.X
		}
		ia, ok := v.(*ssa.IndexAddr)
		if !ok {
			return nil, 0, false
		}
		k, ok := constInt(ia.Index)
		return ia.X, k, ok
	}
	eKeyX, eKeyK, ok1 := idxOf(stE.Addr.(*ssa.IndexAddr).Index)
	eValX, eValK, ok2 := idxOf(stE.Val)
	uKeyX, uKeyK, ok3 := idxOf(stU.Addr.(*ssa.IndexAddr).Index)
	uValX, uValK, ok4 := idxOf(stU.Val)
	inverse := ok1 && ok2 && ok3 && ok4 && eKeyX == uValX && eKeyK == 0 && uValK == 0 && eValX == uKeyX && eValK == 1 && uKeyK == 1
	c.check(inverse, "escapeCharsToTable/inverse-by-construction", c.ipos(stE), "escape[b]=&code[1] and unescape[code[1]]=&b come from the same pair", "the two tables are not filled from the same (byte, code) pair")
	ldr := factCmp(factsAt(stE.Block()), token.EQL, anyValue, isConstIntV(int64(leader)))
	c.check(ldr, "escapeCharsToTable/leader-required", c.ipos(stE), "pairs whose first code byte is not the leader are rejected", "a code that does not start with the leader is accepted")
	lens := factCmp(factsAt(stE.Block()), token.EQL, func(v ssa.Value) bool { lc, _ := callOf(v); return lc != nil && calleeID(&lc.Call) == "builtin len" }, isConstIntV(2)) &&
		factCmp(factsAt(stE.Block()), token.EQL, func(v ssa.Value) bool { lc, _ := callOf(v); return lc != nil && calleeID(&lc.Call) == "builtin len" }, isConstIntV(1))
	c.check(lens, "escapeCharsToTable/lengths", c.ipos(stE), "byte is exactly one byte, code exactly two", "table entries of other lengths are accepted")
}

// ---- R4: placement ----

type codecArm struct {
	binary, compress string // "T", "F", "?"
	chain            []string
	pos              string
}

// codecArms extracts, for each call of the innermost constructor, the nesting chain of
// constructors up to the value that reaches the stage's writer/reader variable.
func (c *Ctx) codecArms(f *ssa.Function, innermost string) []codecArm {
	var out []codecArm
	for _, ci := range callsIn(f, idIs("trzsz."+innermost)) {
		call := ci.(*ssa.Call)
		chain := []string{innermost}
		var cur ssa.Value = call
		for {
			var next *ssa.Call
			for _, r := range referrersOf(cur) {
				switch x := r.(type) {
				case *ssa.Call:
					next = x
				case *ssa.MakeInterface, *ssa.ChangeInterface, *ssa.ChangeType:
					for _, r2 := range referrersOf(x.(ssa.Value)) {
						if c2, ok := r2.(*ssa.Call); ok {
							next = c2
						}
					}
				}
			}
			if next == nil || !strings.HasPrefix(calleeID(&next.Call), "trzsz.new") {
				break
			}
			chain = append([]string{strings.TrimPrefix(calleeID(&next.Call), "trzsz.")}, chain...)
			if e := extractOf(next, 0); e != nil && next.Call.Signature().Results().Len() > 1 {
				cur = e
			} else {
				cur = next
			}
		}
		arm := codecArm{binary: "?", compress: "?", chain: chain, pos: c.ipos(call)}
		for _, fc := range factsAt(call.Block()) {
			v := "F"
			if fc.Pol {
				v = "T"
			}
			if isFieldLoad("Binary")(fc.V) {
				arm.binary = v
			}
			if isVar("compress")(fc.V) {
				arm.compress = v
			}
		}
		out = append(out, arm)
	}
	if len(out) != 4 {
		if alt := c.codecArmsUnder(f, innermost); len(alt) == 4 {
			out = alt
		}
	}
	sort.Slice(out, func(i, j int) bool { return out[i].binary+out[i].compress < out[j].binary+out[j].compress })
	return out
}

func c04R4(c *Ctx) {
	enc := c.codecArms(c.fn("trzszTransfer.pipelineEncodeData$1"), "newSendDataWriter")
	if len(enc) != 4 {
		c.bad("encode/arms", "", fmt.Sprintf("expected four (binary x compress) arms, found %d", len(enc)))
		return
	}
	for _, a := range enc {
		key := "encode/arm.binary=" + a.binary + ".compress=" + a.compress
		n := len(a.chain)
		direct := n >= 2 && a.chain[n-1] == "newSendDataWriter"
		inner := ""
		if n >= 2 {
			inner = a.chain[n-2]
		}
		switch a.binary {
		case "T":
			c.check(direct && inner == "newEscapeWriter", key+"/escaper-at-framer", a.pos, "the escaper sits directly in front of the chunk framer", "in binary mode something other than the escaper feeds the framer: "+strings.Join(a.chain, " > "))
		case "F":
			c.check(direct && inner == "newBase64Writer", key+"/base64-at-framer", a.pos, "base64 sits directly in front of the chunk framer", "in text mode something other than base64 feeds the framer: "+strings.Join(a.chain, " > "))
		default:
			c.bad(key, a.pos, "arm not conditioned on the binary flag")
		}
		if a.compress == "T" {
			c.check(n == 3 && a.chain[0] == "newZstdWriter", key+"/compress-outside", a.pos, "compression is the outermost layer", "compression is not outside the escaper: "+strings.Join(a.chain, " > "))
		} else {
			c.check(n == 2, key+"/no-compress", a.pos, "no compressor on the no-compress arm", "unexpected layer on the no-compress arm: "+strings.Join(a.chain, " > "))
		}
	}
	// v1 sender: raw branch writes escapeData output only
	sd := c.fn("trzszTransfer.sendData")
	for _, ci := range callsIn(sd, idIs(tT+"writeAll")) {
		arg := ci.Common().Args[1]
		good := false
		for _, l := range origins(arg, originOpts{}) {
			if call, _ := callOf(l.V); call != nil && idIs("trzsz.escapeData", "fmt.Sprintf")(calleeID(&call.Call)) {
				good = true
			} else {
				good = false
				break
			}
		}
		c.check(good, "sendData/escaped-or-header", c.ipos(ci), "v1 binary sender writes only the length header and escaped data", "v1 binary sender writes unescaped payload to the connection")
	}
	// writers of the connection: only trzszTransfer.writeAll uses t.writer
	nw := 0
	for _, f := range c.AllFns {
		eachInstr(f, func(in ssa.Instruction) {
			u, ok := in.(*ssa.UnOp)
			if !ok || u.Op != token.MUL {
				return
			}
			if n, ok := fieldAddrName(u.X); ok && n == "trzszTransfer.writer" {
				nw++
				c.check(c.fnName(f) == "trzszTransfer.writeAll", "writer/reader."+c.fnName(f), c.ipos(u), "the connection writer is used only by the transfer's writeAll", "the connection writer is used outside writeAll")
			}
		})
	}
	if nw == 0 {
		c.undecided("writer/users", "no use of the connection writer found")
	}
	// callers of writeAll: payload classes
	w := c.fn("trzszTransfer.writeAll")
	for _, cs := range c.callersOf(w) {
		caller := c.fnName(cs.Caller)
		arg := cs.Instr.Common().Args[1]
		cls := classifyPayload(c, cs.Caller, arg)
		c.check(cls != "", "writeAll<-"+caller, c.ipos(cs.Instr), "writes "+cls, "a caller writes bytes of unknown provenance to the connection (could carry protected bytes unescaped)")
	}
}

// classifyPayload names the provenance class of a byte slice written to the connection.
func classifyPayload(c *Ctx, f *ssa.Function, v ssa.Value) string {
	cls := ""
	for _, l := range origins(v, originOpts{throughSlice: true}) {
		call, _ := callOf(l.V)
		switch {
		case call != nil && calleeID(&call.Call) == "fmt.Sprintf":
			fm, _ := constString(call.Call.Args[0])
			if strings.HasPrefix(fm, "#") {
				cls = "a protocol line built from type name, integers or encoded text"
			} else {
				return ""
			}
		case call != nil && calleeID(&call.Call) == "trzsz.escapeData":
			cls = "escaped data"
		case func() bool { k, ok := constString(l.V); return ok && strings.HasPrefix(k, "#") }():
			cls = "a constant protocol fragment"
		case isFieldLoad("Newline")(l.V):
			cls = "the negotiated newline"
		case func() bool {
			p, ok := l.V.(*ssa.Parameter)
			return ok && (paramName(p) == "buffer" || paramName(p) == "buf")
		}():
			// sendDataV2(buffer): produced by the framer / split of framer data — traced by C01-R1's placement
			cls = "framer output handed in by the send stage"
		default:
			// "#" + type + ":" + ... : the same protocol line, concatenated instead of formatted
			if parts, ok := stringParts(l.V); ok && len(parts) > 1 && strings.HasPrefix(parts[0].lit, "#") {
				cls = "a protocol line built from type name, integers or encoded text"
				continue
			}
			return ""
		}
	}
	return cls
}

// c04R5: completeness of the decoder's and encoder's exits (added after seeded change C04-a/b).
func c04R5(c *Ctx) {
	f := c.fn("unescapeData")
	n := 0
	eachInstr(f, func(in ssa.Instruction) {
		r, ok := in.(*ssa.Return)
		if !ok || len(r.Results) != 3 || !isNilConst(retVal(r, 2)) {
			return
		}
		n++
		if !isNilConst(retVal(r, 1)) {
			// remaining = data[k:]
			sl, ok := strip(r.Results[1]).(*ssa.Slice)
			c.check(ok && isVar("data")(sl.X) && sl.High == nil, "unescapeData/remaining-is-tail", c.ipos(r), "'remaining' is a tail of the input", "'remaining' is not a tail of the input")
			return
		}
		// nil remaining: pass-through of the whole input without a table, or the loop consumed everything
		passThrough := isVar("data")(r.Results[0])
		noTable := false
		for _, b := range []*ssa.BasicBlock{r.Block()} {
			for _, p := range b.Preds {
				if i := blockIf(p); i != nil {
					op, x, y, ok := cmpFact(normFact(fact{V: i.Cond, Pol: true}))
					if ok && op == token.EQL && ((isVar("table")(x) && isNilConst(y)) || (isFieldLoad("totalCount")(x) && isConstIntV(0)(y))) {
						noTable = true
					}
				}
			}
		}
		consumed := factCmp(factsAt(r.Block()), token.GEQ, anyValue, func(v ssa.Value) bool {
			lc, _ := callOf(v)
			return lc != nil && calleeID(&lc.Call) == "builtin len" && isVar("data")(lc.Call.Args[0])
		})
		c.check((passThrough && noTable) || consumed, "unescapeData/nil-remaining-only-when-consumed", c.ipos(r),
			"'remaining' is nil only when the whole input was consumed (or passed through without a table)", "an exit returns no 'remaining' although input may be unconsumed: the rest of the window is dropped")
	})
	if n < 4 {
		c.undecided("unescapeData/returns", "fewer successful exits than expected")
	}
	// encoder exits
	g := c.fn("escapeData")
	eachInstr(g, func(in ssa.Instruction) {
		r, ok := in.(*ssa.Return)
		if !ok {
			return
		}
		if isVar("data")(r.Results[0]) {
			noTable := false
			for _, p := range r.Block().Preds {
				if i := blockIf(p); i != nil {
					op, x, y, ok := cmpFact(normFact(fact{V: i.Cond, Pol: true}))
					if ok && op == token.EQL && ((isVar("table")(x) && isNilConst(y)) || (isFieldLoad("totalCount")(x) && isConstIntV(0)(y))) {
						noTable = true
					}
				}
			}
			c.check(noTable, "escapeData/raw-only-without-table", c.ipos(r), "input is returned unescaped only when there is no table", "input can be returned unescaped although a table is in effect")
			return
		}
		sl, ok := strip(r.Results[0]).(*ssa.Slice)
		_, isMk := func() (*ssa.MakeSlice, bool) {
			if !ok {
				return nil, false
			}
			m, k := sl.X.(*ssa.MakeSlice)
			return m, k
		}()
		c.check(isMk, "escapeData/returns-output", c.ipos(r), "the escaped buffer is returned", "escapeData returns something other than its output buffer")
	})
	// the stream escaper: only escapeData(p, table) reaches the inner writer
	w := c.fn("escapeWriter.Write")
	nw := 0
	for _, f2 := range withAnons(w) {
		eachInstr(f2, func(in ssa.Instruction) {
			call, ok := in.(*ssa.Call)
			if !ok {
				return
			}
			var payload ssa.Value
			if calleeID(&call.Call) == "trzsz.writeAll" {
				payload = call.Call.Args[1]
			} else if call.Call.IsInvoke() && call.Call.Method.Name() == "Write" {
				payload = call.Call.Args[0]
			} else {
				return
			}
			nw++
			good := true
			nl := 0
			for _, l := range origins(payload, originOpts{throughSlice: true}) {
				nl++
				ec, _ := callOf(l.V)
				if ec == nil || calleeID(&ec.Call) != "trzsz.escapeData" || !isVar("p")(ec.Call.Args[0]) || !isFieldLoad("table")(ec.Call.Args[1]) {
					good = false
				}
			}
			c.check(good && nl > 0, "escapeWriter.Write/only-escaped-output", c.ipos(call), "only escapeData(p, table) reaches the framer", "bytes reach the framer without going through escapeData")
		})
	}
	if nw == 0 {
		c.bad("escapeWriter.Write/writes", c.pos(w.Pos()), "the stream escaper writes nothing")
	}
	// the stream unescaper: bytes handed to the caller come from unescapeData (or the raw reader without a table)
	rd := c.fn("escapeReader.Read")
	eachInstr(rd, func(in ssa.Instruction) {
		r, ok := in.(*ssa.Return)
		if !ok || len(r.Results) != 2 || !isNilConst(retVal(r, 1)) {
			return
		}
		good := false
		for _, l := range origins(r.Results[0], originOpts{}) {
			if lc, _ := callOf(l.V); lc != nil && calleeID(&lc.Call) == "builtin len" {
				if uc, idx := callOf(lc.Call.Args[0]); uc != nil && idx == 0 && calleeID(&uc.Call) == "trzsz.unescapeData" {
					good = true
				}
			}
		}
		c.check(good, "escapeReader.Read/count-from-unescape", c.ipos(r), "the count returned is the number of bytes unescapeData produced into p", "the stream unescaper reports bytes that did not come from unescapeData")
	})
}

// c04FrameLen: '#DATA:<n>' announces exactly the bytes that follow, at every place that builds a binary frame.
func c04FrameLen(c *Ctx) {
	// (a) the framer: Itoa(len(data)) then data
	d := c.fn("sendDataWriter.deliver")
	okA := false
	for _, ci := range callsIn(d, idIs("strconv.Itoa")) {
		if isLenOf(ci.Common().Args[0], isVar("data")) {
			okA = true
		}
	}
	c.check(okA, "deliver/header=len(data)", c.pos(d.Pos()), "the framer announces len(data) and writes data", "the framer's header does not announce len(data)")
	// (b) the re-split path: deliver(data[index:next], n, false) with next = index + n
	sd := c.fn("trzszTransfer.pipelineSendData$2")
	n := 0
	for _, ci := range callsIn(sd, anyID) {
		if closureInCell(ci.Common().Value) == nil && calleeID(ci.Common()) != "dynamic" {
			continue
		}
		args := ci.Common().Args
		if len(args) != 3 {
			continue
		}
		sl, isSl := strip(args[0]).(*ssa.Slice)
		if !isSl {
			// whole pre-framed buffer: length = len(data.data)
			continue
		}
		n++
		good := false
		if b, ok := sl.High.(*ssa.BinOp); ok && b.Op == token.ADD && sl.Low != nil {
			if (sameValue(b.X, sl.Low) && sameValue(b.Y, args[1])) || (sameValue(b.Y, sl.Low) && sameValue(b.X, args[1])) {
				good = true
			}
		}
		c.check(good, "pipelineSendData/split-length=slice-length", c.ipos(ci), "a re-split packet announces exactly the bytes of its slice (next = index + n)", "a re-split packet's announced length differs from the slice that is written: the receiver's framing breaks")
		// and the cursor continues at that same end
		adv := false
		eachInstr(sd, func(in ssa.Instruction) {
			if st, ok := in.(*ssa.Store); ok {
				if nm, _ := fieldAddrName(st.Addr); nm == "trzszData.index" && sameValue(st.Val, sl.High) {
					adv = true
				}
			}
		})
		c.check(adv, "pipelineSendData/split-continues-at-end", c.ipos(ci), "the next packet starts where this one ended", "the next packet does not start where the previous one ended")
	}
	if n != 1 {
		c.undecided("pipelineSendData/split", "expected one re-split delivery")
	}
	// (c) sendDataV2 writes the header with its length parameter and then the buffer parameter
	v2 := c.fn("trzszTransfer.sendDataV2")
	okC := false
	for _, ci := range callsIn(v2, idIs("fmt.Sprintf")) {
		if fm, _ := constString(ci.Common().Args[0]); strings.HasPrefix(fm, "#DATA:%d") {
			el, ok := sliceElems(ci.Common().Args[1])
			if ok && len(el) >= 1 && isVar("length")(strip(el[0].V)) {
				okC = true
			}
		}
	}
	c.check(okC, "sendDataV2/header=length", c.pos(v2.Pos()), "the binary header carries the length handed in with the buffer", "sendDataV2's header does not carry its length parameter")
	// (d) the protocol-1 sender: the header announces the length of the escaped buffer that is written after it
	v1 := c.fn("trzszTransfer.sendData")
	okD := false
	var body ssa.Value
	for _, ci := range callsIn(v1, idIs(tT+"writeAll")) {
		if call, _ := callOf(ci.Common().Args[1]); call != nil && calleeID(&call.Call) == "trzsz.escapeData" {
			body = ci.Common().Args[1]
		}
	}
	for _, ci := range callsIn(v1, idIs("fmt.Sprintf")) {
		if fm, _ := constString(ci.Common().Args[0]); strings.HasPrefix(fm, "#DATA:%d") {
			el, ok := sliceElems(ci.Common().Args[1])
			if ok && len(el) >= 1 && body != nil && isLenOf(strip(el[0].V), func(v ssa.Value) bool { return sameValue(v, body) }) {
				okD = true
			}
		}
	}
	c.check(okD, "sendData/header=len(escaped)", c.pos(v1.Pos()), "the protocol-1 binary header announces the length of the escaped bytes written after it", "the protocol-1 binary header does not announce the length of the escaped buffer it is followed by (the receiver cuts the escaped stream short)")
}

// c04FreshStaging: the sender's staging buffer is handed to the send stage by reference (the chunk travels as
// data.data through sendDataChan and is read again, piece by piece, on the split-send path). It is therefore a fresh
// allocation every time it is (re)placed: every store to sendDataWriter.buffer — and the one in its constructor — is
// bytes.NewBuffer of a make([]byte, …) done right there, or the result of a package function that returns exactly
// that on every path (two levels). A buffer taken from a pool or free list is storage the send stage may still be reading.
func c04FreshStaging(c *Ctx) {
	var fresh func(v ssa.Value, depth int) (bool, string)
	fresh = func(v ssa.Value, depth int) (bool, string) {
		for _, l := range origins(v, originOpts{}) {
			call, idx := callOf(l.V)
			if call == nil {
				return false, "value " + l.V.String()
			}
			id := calleeID(&call.Call)
			if id == "bytes.NewBuffer" {
				if !isFreshBuffer(call.Call.Args[0]) {
					return false, "bytes.NewBuffer over storage that is not allocated on the spot"
				}
				continue
			}
			g := call.Call.StaticCallee()
			if g == nil || !c.inPkg(g) || len(g.Blocks) == 0 || depth >= 2 {
				return false, "the result of " + id
			}
			okAll, why := true, ""
			if idx < 0 {
				idx = 0
			}
			eachInstr(g, func(x ssa.Instruction) {
				if r, isR := x.(*ssa.Return); isR && idx < len(r.Results) && x.Block().Comment != "recover" {
					if ok, w := fresh(retVal(r, idx), depth+1); !ok {
						okAll, why = false, w
					}
				}
			})
			if !okAll {
				return false, c.fnName(g) + " can return " + why
			}
		}
		return true, ""
	}
	n := 0
	for _, f := range c.AllFns {
		eachInstr(f, func(in ssa.Instruction) {
			st, ok := in.(*ssa.Store)
			if !ok {
				return
			}
			if nm, _ := fieldAddrName(st.Addr); nm != "sendDataWriter.buffer" {
				return
			}
			n++
			ok2, why := fresh(st.Val, 0)
			c.check(ok2, "staging-buffer-fresh/"+c.fnName(f), c.ipos(st), "the staging buffer is a fresh allocation", "the staging buffer is not a fresh allocation ("+why+"): the send stage may still be reading the storage when the encoder fills it with the next chunk, and the bytes on the wire no longer decode to the payload")
		})
	}
	if n < 2 {
		c.undecided("staging-buffer-fresh/sites", "fewer placements of the staging buffer than expected")
	}
}

// codecArmsUnder: the same four (binary x compress) chains when the construction is not written as four separate
// arms but as one chain with two ifs (`w := frame; if binary { w = escape(w) } else { w = base64(w) }; if compress
// { w = zstd(w) }`). For each combination the function is walked under the assumption, and the chain is what the
// innermost object is wrapped in on the blocks that can run.
func (c *Ctx) codecArmsUnder(f *ssa.Function, innermost string) []codecArm {
	var out []codecArm
	for _, bin := range []bool{true, false} {
		for _, cmp := range []bool{true, false} {
			as := []assumption{{pred: isFieldLoad("Binary"), val: bin}, {pred: isVar("compress"), val: cmp}}
			reach := blocksUnder(f, as)
			no := contradicts(as)
			var start *ssa.Call
			n := 0
			for _, ci := range callsIn(f, idIs("trzsz."+innermost)) {
				if call, ok := ci.(*ssa.Call); ok && reach[call.Block()] {
					start = call
					n++
				}
			}
			if n != 1 {
				return nil
			}
			chain := []string{innermost}
			cur := map[ssa.Value]bool{start: true}
			if e := extractOf(start, 0); e != nil && start.Call.Signature().Results().Len() > 1 {
				cur = map[ssa.Value]bool{e: true}
			}
			for steps := 0; steps < 6; steps++ {
				// everything the current object flows into without being wrapped
				for grew := true; grew; {
					grew = false
					for v := range cur {
						for _, r := range referrersOf(v) {
							switch x := r.(type) {
							case *ssa.MakeInterface, *ssa.ChangeInterface, *ssa.ChangeType:
								if !cur[x.(ssa.Value)] {
									cur[x.(ssa.Value)] = true
									grew = true
								}
							case *ssa.Phi:
								for i, e := range x.Edges {
									pred := x.Block().Preds[i]
									if e == v && reach[pred] && !no(pred, x.Block()) && !cur[x] {
										cur[x] = true
										grew = true
									}
								}
							}
						}
					}
				}
				var next *ssa.Call
				for v := range cur {
					for _, r := range referrersOf(v) {
						if call, ok := r.(*ssa.Call); ok && reach[call.Block()] && strings.HasPrefix(calleeID(&call.Call), "trzsz.new") {
							next = call
						}
					}
				}
				if next == nil {
					break
				}
				chain = append([]string{strings.TrimPrefix(calleeID(&next.Call), "trzsz.")}, chain...)
				cur = map[ssa.Value]bool{next: true}
				if e := extractOf(next, 0); e != nil && next.Call.Signature().Results().Len() > 1 {
					cur = map[ssa.Value]bool{e: true}
				}
			}
			tf := map[bool]string{true: "T", false: "F"}
			out = append(out, codecArm{binary: tf[bin], compress: tf[cmp], chain: chain, pos: c.ipos(start)})
		}
	}
	return out
}
