package main

// Backward value-origin tracing on SSA (intraprocedural), used by GUARD-DOM rules.

import (
	"go/token"
	"go/types"

	"trzszlint/xssa"
)

// leaf is an origin of a value: the defining value after looking through phis,
// conversions, slicing and string concatenation, with the phi edges passed.
type leaf struct {
	V     ssa.Value
	Via   []*ssa.BasicBlock // predecessor blocks of the phi edges traversed (outermost first)
	ViaTo []*ssa.BasicBlock // the phi's own block for each of those edges
}

// facts that hold when the leaf's value flows: facts at each phi-edge block plus
// facts at the leaf's own defining block.
func (l leaf) facts() []fact {
	var out []fact
	for k, b := range l.Via {
		out = append(out, factsAt(b)...)
		// the edge itself: if b ends in If and the phi block is exactly one of its successors
		if i := blockIf(b); i != nil && k < len(l.ViaTo) && b.Succs[0] != b.Succs[1] {
			if b.Succs[0] == l.ViaTo[k] {
				out = append(out, normFact(fact{V: i.Cond, Pol: true, If: i}))
			} else if b.Succs[1] == l.ViaTo[k] {
				out = append(out, normFact(fact{V: i.Cond, Pol: false, If: i}))
			}
		}
	}
	if in, ok := l.V.(ssa.Instruction); ok && in.Block() != nil {
		out = append(out, factsAt(in.Block())...)
	}
	return out
}

type originOpts struct {
	throughConcat bool // string a+b -> both
	throughSlice  bool // x[i:j] -> x
	throughElems  bool // load of x[i] -> x (element of)
}

func origins(v ssa.Value, o originOpts) []leaf {
	var out []leaf
	seen := map[ssa.Value]bool{}
	type leafKey struct {
		v        ssa.Value
		from, to *ssa.BasicBlock
	}
	seenLeaf := map[leafKey]bool{}
	var walk func(v ssa.Value, via, viaTo []*ssa.BasicBlock)
	walk = func(v ssa.Value, via, viaTo []*ssa.BasicBlock) {
		v = strip(v)
		// inner nodes (phis and looked-through operations) are expanded once; a leaf is reported once per phi edge it
		// arrives over, because the facts under which it flows differ from edge to edge
		if _, isPhi := v.(*ssa.Phi); isPhi || len(via) == 0 {
			if seen[v] {
				return
			}
			seen[v] = true
		} else {
			k := leafKey{v, via[len(via)-1], viaTo[len(viaTo)-1]}
			if seenLeaf[k] {
				return
			}
			seenLeaf[k] = true
		}
		switch x := v.(type) {
		case *ssa.Phi:
			for i, e := range x.Edges {
				nv := append(append([]*ssa.BasicBlock{}, via...), x.Block().Preds[i])
				nt := append(append([]*ssa.BasicBlock{}, viaTo...), x.Block())
				walk(e, nv, nt)
			}
			return
		case *ssa.Slice:
			if o.throughSlice {
				walk(x.X, via, viaTo)
				return
			}
		case *ssa.BinOp:
			if o.throughConcat && x.Op == token.ADD {
				walk(x.X, via, viaTo)
				walk(x.Y, via, viaTo)
				return
			}
		case *ssa.UnOp:
			if o.throughElems && x.Op == token.MUL {
				if ia, ok := x.X.(*ssa.IndexAddr); ok {
					walk(ia.X, via, viaTo)
					return
				}
			}
		}
		out = append(out, leaf{V: v, Via: via, ViaTo: viaTo})
	}
	walk(v, nil, nil)
	return out
}

// elem is one element of a variadic / literal slice argument.
type elem struct {
	V      ssa.Value
	Spread bool // V is a slice whose elements are all appended
}

// sliceElems reconstructs the ordered elements of a slice value built by the
// compiler idioms: slice of a fresh array filled by constant-index stores
// (varargs / slice literal), append(a, b...), append(a, x, y).
// ok=false when the shape is not recognised.
func sliceElems(v ssa.Value) ([]elem, bool) {
	v = strip(v)
	switch x := v.(type) {
	case *ssa.Slice:
		al, ok := x.X.(*ssa.Alloc)
		if !ok || x.Low != nil || x.High != nil {
			return []elem{{V: v, Spread: true}}, true
		}
		// collect stores to al[i]
		byIdx := map[int64]ssa.Value{}
		max := int64(-1)
		for _, r := range referrersOf(al) {
			ia, ok := r.(*ssa.IndexAddr)
			if !ok {
				continue
			}
			idx, ok := constInt(ia.Index)
			if !ok {
				return nil, false
			}
			for _, r2 := range referrersOf(ia) {
				if st, ok := r2.(*ssa.Store); ok && st.Addr == ia {
					byIdx[idx] = st.Val
					if idx > max {
						max = idx
					}
				}
			}
		}
		var out []elem
		for i := int64(0); i <= max; i++ {
			e, ok := byIdx[i]
			if !ok {
				return nil, false
			}
			out = append(out, elem{V: e})
		}
		return out, true
	case *ssa.Call:
		if b, ok := x.Call.Value.(*ssa.Builtin); ok && b.Name() == "append" {
			first, ok := sliceElems(x.Call.Args[0])
			if !ok {
				return nil, false
			}
			rest, ok := sliceElems(x.Call.Args[1])
			if !ok {
				rest = []elem{{V: x.Call.Args[1], Spread: true}}
			}
			return append(first, rest...), true
		}
	case *ssa.Const:
		if x.Value == nil {
			return nil, true
		}
	}
	return []elem{{V: v, Spread: true}}, true
}

// isParam: v is parameter #i (by name) of its function.
func isParam(v ssa.Value, name string) bool {
	p, ok := strip(v).(*ssa.Parameter)
	return ok && (p.Name() == name || paramName(p) == name)
}

// mapLookupOf: v is (an extract of) a map lookup m[k]; returns the map value.
func mapLookupOf(v ssa.Value) (ssa.Value, bool) {
	v = strip(v)
	if e, ok := v.(*ssa.Extract); ok {
		v = e.Tuple
	}
	if l, ok := v.(*ssa.Lookup); ok {
		if _, isMap := l.X.Type().Underlying().(*types.Map); isMap {
			return l.X, true
		}
	}
	return nil, false
}
