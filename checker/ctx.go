package main

// Check context: obligations, anchors, known findings, evidence.

import (
	"bufio"
	"encoding/json"
	"fmt"
	"os"
	"path/filepath"
	"runtime/debug"
	"sort"
	"strings"
	"time"

	"trzszlint/xssa"
)

type Obligation struct {
	Key    string   `json:"key"`    // rule/function/construct — never a line number
	Rule   string   `json:"rule"`   // the rule applied, in words
	Status string   `json:"status"` // discharged | violated | known-finding | undecided
	Pos    string   `json:"pos,omitempty"`
	Detail string   `json:"detail,omitempty"`
	Path   []string `json:"path,omitempty"`
	Config string   `json:"config,omitempty"`
}

type Ctx struct {
	*Program
	Prop     string
	Tier     string
	Obs      []*Obligation
	Anchors  []string
	Notes    []string
	rule     string // current rule text
	rid      string // current rule id prefix, e.g. "C07-R2"
	sites    int    // call sites / constructs inspected
	goT      map[*ssa.Function]bool
	nnMemo   map[*ssa.Function]int
	wrapMemo map[string]map[*ssa.Function]int
}

type lostAnchor struct{ what string }

func (c *Ctx) setRule(id, text string) { c.rid, c.rule = id, text }

func (c *Ctx) add(status, key, pos, detail string, path ...string) *Obligation {
	if status == "violated" {
		// A function the reference tree does not know and that could not be expanded into its callers (a goroutine
		// body, a function passed as a value): no rule was written with it in view. A report that is about that
		// function is "cannot vouch", not a violation.
		for _, n := range c.NewKept {
			if keyNames(key, n) {
				status, path = "undecided", nil
				detail = "the code was restructured into " + n + ", a function the reference tree does not have and that is not an ordinary call (goroutine body / function value): the rule cannot follow it. Would have reported: " + detail
				break
			}
		}
	}
	o := &Obligation{Key: c.rid + "/" + key, Rule: c.rule, Status: status, Pos: pos, Detail: detail, Path: path,
		Config: c.GOOS + "/" + c.GOARCH}
	c.Obs = append(c.Obs, o)
	return o
}

func (c *Ctx) ok(key, pos, detail string) { c.add("discharged", key, pos, detail) }
func (c *Ctx) bad(key, pos, detail string, path ...string) {
	c.add("violated", key, pos, detail, path...)
}
func (c *Ctx) undecided(key, detail string) { c.add("undecided", key, "", detail) }
func (c *Ctx) note(format string, a ...any) { c.Notes = append(c.Notes, fmt.Sprintf(format, a...)) }

// check records ok/bad depending on cond.
func (c *Ctx) check(cond bool, key, pos, okDetail, badDetail string, path ...string) bool {
	if cond {
		c.ok(key, pos, okDetail)
	} else {
		c.bad(key, pos, badDetail, path...)
	}
	return cond
}

// fn resolves an anchor function; a lost anchor makes the current rule undecided.
func (c *Ctx) fn(name string) *ssa.Function {
	f := c.Funcs[name]
	if f == nil {
		panic(lostAnchor{"function " + name})
	}
	c.Anchors = append(c.Anchors, "func "+name+" @ "+c.pos(f.Pos()))
	return f
}

func (c *Ctx) hasFn(name string) bool { return c.Funcs[name] != nil }

func (c *Ctx) lost(what string) { panic(lostAnchor{what}) }

// run executes one rule body, converting lost anchors / panics into undecided obligations.
func (c *Ctx) run(id, text string, body func(c *Ctx)) {
	c.setRule(id, text)
	defer func() {
		if r := recover(); r != nil {
			if la, ok := r.(lostAnchor); ok {
				c.undecided("anchor", "lost anchor: "+la.what)
				return
			}
			c.undecided("panic", fmt.Sprintf("checker panic: %v\n%s", r, debug.Stack()))
		}
	}()
	body(c)
}

// ---- known findings ----

type knownFinding struct {
	Prop, Key, What string
}

func loadKnown(verifDir string) ([]knownFinding, error) {
	f, err := os.Open(filepath.Join(verifDir, "known_findings.txt"))
	if err != nil {
		if os.IsNotExist(err) {
			return nil, nil
		}
		return nil, err
	}
	defer f.Close()
	var out []knownFinding
	sc := bufio.NewScanner(f)
	for sc.Scan() {
		line := strings.TrimSpace(sc.Text())
		if !strings.HasPrefix(line, "finding:") {
			continue // "fixed:" entries and comments suppress nothing
		}
		var k knownFinding
		rest := strings.TrimSpace(strings.TrimPrefix(line, "finding:"))
		for _, fld := range strings.Fields(rest) {
			if strings.HasPrefix(fld, "property=") && k.Prop == "" {
				k.Prop = strings.TrimPrefix(fld, "property=")
			} else if strings.HasPrefix(fld, "key=") && k.Key == "" {
				k.Key = strings.TrimPrefix(fld, "key=")
			}
		}
		if i := strings.Index(rest, "key="+k.Key); i >= 0 {
			k.What = strings.TrimSpace(rest[i+len("key="+k.Key):])
		}
		if k.Prop != "" && k.Key != "" {
			out = append(out, k)
		}
	}
	return out, sc.Err()
}

// ---- evidence ----

type evidence struct {
	PropertyID  string         `json:"property_id"`
	Tier        string         `json:"tier"`
	Seed        int            `json:"seed"`
	Level       string         `json:"level"`
	Coverage    map[string]any `json:"coverage"`
	Assumptions []string       `json:"assumptions"`
	WallS       float64        `json:"wall_s"`
	Violations  int            `json:"violations"`
}

type propResult struct {
	obs      []*Obligation
	anchors  []string
	notes    []string
	configs  []string
	funcs    int
	blocks   int
	instrs   int
	explain  string
	minObs   int
	selftest map[string]any
}

func finish(prop, tier, verifDir string, start time.Time, r *propResult) int {
	known, err := loadKnown(verifDir)
	if err != nil {
		fmt.Printf("UNDECIDED property=%s cannot read known_findings.txt: %v\n", prop, err)
		return 2
	}
	sort.SliceStable(r.obs, func(i, j int) bool { return r.obs[i].Key < r.obs[j].Key })
	var nOK, nKnown, nBad, nUndec int
	var bads []*Obligation
	printedKnown := map[string]bool{}
	for _, o := range r.obs {
		switch o.Status {
		case "discharged":
			nOK++
		case "violated":
			isKnown := false
			for _, k := range known {
				if k.Prop == prop && k.Key == o.Key {
					isKnown = true
					o.Status = "known-finding"
					if !printedKnown[o.Key] {
						printedKnown[o.Key] = true
						fmt.Printf("KNOWN-FINDING: property=%s key=%s %s (%s)\n", prop, o.Key, k.What, o.Pos)
					}
				}
			}
			if isKnown {
				nKnown++
			} else {
				nBad++
				bads = append(bads, o)
			}
		case "undecided":
			nUndec++
		}
	}
	// reference instances: every obligation key confirmed on the unchanged tree (baseline/<id>.keys)
	// must still be produced; a vanished key means a rule lost the construct it was attached to
	var vanished []string
	if base, err := os.ReadFile(filepath.Join(verifDir, "baseline", prop+".keys")); err == nil {
		have := map[string]bool{}
		for _, o := range r.obs {
			if o.Config == "" || o.Config == "linux/amd64" {
				have[o.Key] = true
			}
		}
		for _, k := range strings.Split(string(base), "\n") {
			k = strings.TrimSpace(k)
			if k != "" && !have[k] {
				vanished = append(vanished, k)
			}
		}
	}
	vacuous := nUndec == 0 && nBad == 0 && nOK+nKnown < r.minObs
	exit := 0
	vdir := filepath.Join(verifDir, "evidence", "violations")
	if nBad > 0 {
		exit = 1
		os.MkdirAll(vdir, 0o755)
		seen := map[string]bool{}
		n := 0
		for _, o := range bads {
			id := o.Key + "@" + o.Pos
			if seen[id] {
				continue
			}
			seen[id] = true
			n++
			path := filepath.Join(vdir, fmt.Sprintf("%s-%d.json", prop, n))
			b, _ := json.MarshalIndent(map[string]any{"property_id": prop, "obligation": o}, "", " ")
			os.WriteFile(path, b, 0o644)
			fmt.Printf("VIOLATION property=%s replay=%s\n", prop, path)
			fmt.Printf("  rule: %s\n  key:  %s\n  at:   %s [%s]\n  what: %s\n", o.Rule, o.Key, o.Pos, o.Config, o.Detail)
			for _, s := range o.Path {
				fmt.Printf("    path: %s\n", s)
			}
		}
	} else if nUndec > 0 || vacuous || len(vanished) > 0 {
		exit = 2
		for _, k := range vanished {
			fmt.Printf("UNDECIDED property=%s obligation %s, confirmed on the reference tree, is no longer produced: the construct the rule was attached to is gone (cannot vouch for it)\n", prop, k)
		}
		for _, o := range r.obs {
			if o.Status == "undecided" {
				fmt.Printf("UNDECIDED property=%s key=%s %s\n", prop, o.Key, o.Detail)
			}
		}
		if vacuous {
			fmt.Printf("UNDECIDED property=%s only %d obligations matched, expected at least %d (rule lost its instances)\n", prop, nOK+nKnown, r.minObs)
		}
	}
	samples := []any{}
	for i, o := range r.obs {
		if i%maxInt(1, len(r.obs)/12) == 0 || o.Status != "discharged" {
			samples = append(samples, o)
		}
		if len(samples) >= 40 {
			break
		}
	}
	keys := map[string]bool{}
	for _, o := range r.obs {
		keys[o.Key] = true
	}
	cov := map[string]any{
		"explanation":              r.explain,
		"obligations":              len(r.obs),
		"discharged":               nOK,
		"known_findings":           nKnown,
		"violated":                 nBad,
		"undecided":                nUndec,
		"distinct_obligation_keys": len(keys),
		"min_obligations_expected": r.minObs,
		"reference_keys_vanished":  vanished,
		"configurations":           r.configs,
		"functions_with_bodies":    r.funcs,
		"ssa_blocks":               r.blocks,
		"ssa_instructions":         r.instrs,
		"anchors":                  uniq(r.anchors),
		"notes":                    uniq(r.notes),
		"obligation_list":          r.obs,
		"samples":                  samples,
		"checker_cmd":              fmt.Sprintf("bin/trzszlint check %s --tier %s", prop, tier),
		"trusted_base": []string{"go/types; go/ssa of golang.org/x/tools v0.29.0 as copied into checker/xssa, with the expander / branch normaliser added to it (xssa/inline.go: meaning-preserving except that panics inside an expanded helper with defer are not modelled; every function it touches is re-checked with go/ssa's sanityCheck)", "go list export data of the default toolchain",
			"the rule tables frozen in /verif/checker (exception tables with reasons)", "/repo builds with the tags the checker loads"},
		"exhaustive": false,
	}
	if r.selftest != nil {
		cov["mutation_selftest"] = r.selftest
	}
	ev := evidence{PropertyID: prop, Tier: tier, Seed: 0, Level: "other", Coverage: cov,
		Assumptions: []string{
			"static analysis only: no repository code is executed; a discharged obligation holds for every path/call site of the current source, the behavioural remainder listed in the explanation is not decided",
			"dependencies (stdlib, zstd, json) behave as documented",
		},
		WallS: time.Since(start).Seconds(), Violations: nBad}
	if s := os.Getenv("VERIF_SEED"); s != "" {
		fmt.Sscanf(s, "%d", &ev.Seed)
	}
	os.MkdirAll(filepath.Join(verifDir, "evidence"), 0o755)
	b, _ := json.MarshalIndent(ev, "", " ")
	if err := os.WriteFile(filepath.Join(verifDir, "evidence", prop+".json"), b, 0o644); err != nil {
		fmt.Printf("UNDECIDED property=%s cannot write evidence: %v\n", prop, err)
		return 2
	}
	fmt.Printf("%s [%s] configs=%v obligations=%d discharged=%d known=%d violated=%d undecided=%d wall=%.1fs\n",
		prop, tier, r.configs, len(r.obs), nOK, nKnown, nBad, nUndec, time.Since(start).Seconds())
	return exit
}

func uniq(in []string) []string {
	seen := map[string]bool{}
	out := []string{}
	for _, s := range in {
		if !seen[s] {
			seen[s] = true
			out = append(out, s)
		}
	}
	return out
}

func maxInt(a, b int) int {
	if a > b {
		return a
	}
	return b
}

// keyNames: the obligation key mentions the function name n (whole identifier, with or without its receiver type).
func keyNames(key, n string) bool {
	cands := []string{n}
	if i := strings.LastIndex(n, "."); i >= 0 {
		cands = append(cands, n[i+1:])
	}
	isId := func(b byte) bool {
		return b == '_' || b >= '0' && b <= '9' || b >= 'a' && b <= 'z' || b >= 'A' && b <= 'Z'
	}
	for _, cand := range cands {
		for from := 0; ; {
			i := strings.Index(key[from:], cand)
			if i < 0 {
				break
			}
			i += from
			j := i + len(cand)
			if (i == 0 || !isId(key[i-1])) && (j == len(key) || !isId(key[j])) {
				return true
			}
			from = i + 1
		}
	}
	return false
}
