package main

// Loading /repo's current working tree: type-checked syntax for the module's own
// packages, export data for dependencies, SSA for the module's packages.

import (
	"fmt"
	"go/ast"
	"go/token"
	"go/types"
	"os"
	"sort"
	"strings"

	"golang.org/x/tools/go/packages"
	"trzszlint/xssa"
	"trzszlint/xssa/ssautil"
)

const trzszPath = "github.com/trzsz/trzsz-go/trzsz"

type Program struct {
	Dir                string
	GOOS               string
	GOARCH             string
	Fset               *token.FileSet
	Pkgs               []*packages.Package
	Pkg                *packages.Package // the trzsz package
	Prog               *ssa.Program
	SPkg               *ssa.Package
	Funcs              map[string]*ssa.Function // "name", "Recv.name", "name$1"
	AllFns             []*ssa.Function          // all functions with bodies in trzsz (incl. anonymous)
	decls              map[string]*ast.FuncDecl
	Blocks             int
	Instrs             int
	ConstBranches      int      // branches on a constant condition whose dead side was pruned
	Inlined            int      // call sites of helpers unknown to the reference tree that were expanded (inlinenew.go)
	InlinedAway        []string // such helpers with no remaining use
	Normalized         int      // functions whose merged-condition branches were threaded (xssa.NormalizeBranches)
	NewKept            []string // functions unknown to the reference tree that remain (started with go, used as a value, exported)
	NormalisationError string   // set when the tree had to be analysed without normalisation
	Reordered          []string // functions whose parameter order was put back to the reference tree's
	cgCache            *CG
}

func repoDir() string {
	if d := os.Getenv("VERIF_REPO"); d != "" {
		return d
	}
	return "/repo"
}

// loadProgram loads and normalises the tree (inlinenew.go). Should the normalisation itself fail on some shape of
// code (inconsistent SSA after an expansion, a panic in the expander), the tree is loaded again and analysed as it
// is, and the evidence says so: a defect of the expander must not make twenty checks undecidable.
func loadProgram(goos, goarch string) (*Program, error) {
	p, err := loadProgramOpt(goos, goarch, true)
	if err != nil && strings.Contains(err.Error(), "normalisation failed") {
		msg := err.Error()
		p, err = loadProgramOpt(goos, goarch, false)
		if p != nil {
			p.NormalisationError = msg
		}
	}
	return p, err
}

func loadProgramOpt(goos, goarch string, normalise bool) (*Program, error) {
	dir := repoDir()
	env := append(os.Environ(), "GOFLAGS=-mod=mod", "GOPROXY=off", "GOSUMDB=off", "GOTOOLCHAIN=local", "GOWORK=off", "CGO_ENABLED=0")
	if goos != "" {
		env = append(env, "GOOS="+goos)
	}
	if goarch != "" {
		env = append(env, "GOARCH="+goarch)
	}
	cfg := &packages.Config{
		Mode: packages.NeedName | packages.NeedFiles | packages.NeedCompiledGoFiles | packages.NeedImports |
			packages.NeedDeps | packages.NeedTypes | packages.NeedSyntax | packages.NeedTypesInfo | packages.NeedTypesSizes,
		Dir:   dir,
		Env:   env,
		Tests: false,
	}
	pkgs, err := packages.Load(cfg, "./...")
	if err != nil {
		return nil, fmt.Errorf("load: %v", err)
	}
	if len(pkgs) < 4 {
		return nil, fmt.Errorf("only %d packages loaded from %s (expected >= 4)", len(pkgs), dir)
	}
	var errs []string
	packages.Visit(pkgs, nil, func(p *packages.Package) {
		for _, e := range p.Errors {
			errs = append(errs, e.Error())
		}
	})
	if len(errs) > 0 {
		if len(errs) > 5 {
			errs = errs[:5]
		}
		return nil, fmt.Errorf("type/load errors: %s", strings.Join(errs, "; "))
	}
	p := &Program{Dir: dir, GOOS: goos, GOARCH: goarch, Pkgs: pkgs, Funcs: map[string]*ssa.Function{}, decls: map[string]*ast.FuncDecl{}}
	for _, pk := range pkgs {
		if pk.PkgPath == trzszPath {
			p.Pkg = pk
		}
	}
	if p.Pkg == nil {
		return nil, fmt.Errorf("package %s not found", trzszPath)
	}
	p.Fset = p.Pkg.Fset
	prog, spkgs := ssautil.Packages(pkgs, ssa.InstantiateGenerics)
	p.Prog = prog
	for i, sp := range spkgs {
		if sp == nil {
			return nil, fmt.Errorf("no SSA package for %s", pkgs[i].PkgPath)
		}
		sp.Build()
		if pkgs[i] == p.Pkg {
			p.SPkg = sp
		}
	}
	var dropped map[*ssa.Function]bool
	if normalise {
		func() {
			defer func() {
				if r := recover(); r != nil {
					err = fmt.Errorf("normalisation failed: panic: %v", r)
				}
			}()
			dropped, err = inlineNewHelpers(p)
			if err != nil {
				err = fmt.Errorf("normalisation failed: %v", err)
			}
		}()
		if err != nil {
			return nil, err
		}
	}
	// index functions
	var addFn func(name string, f *ssa.Function)
	addFn = func(name string, f *ssa.Function) {
		if f == nil || len(f.Blocks) == 0 || dropped[f] {
			return
		}
		p.Funcs[name] = f
		p.AllFns = append(p.AllFns, f)
		for _, b := range f.Blocks {
			p.Blocks++
			p.Instrs += len(b.Instrs)
		}
		for i, an := range f.AnonFuncs {
			addFn(fmt.Sprintf("%s$%d", name, i+1), an)
		}
	}
	for _, m := range p.SPkg.Members {
		switch m := m.(type) {
		case *ssa.Function:
			addFn(m.Name(), m)
		case *ssa.Type:
			nt, ok := m.Type().(*types.Named)
			if !ok {
				continue
			}
			for _, t := range []types.Type{nt, types.NewPointer(nt)} {
				ms := prog.MethodSets.MethodSet(t)
				for i := 0; i < ms.Len(); i++ {
					f := prog.MethodValue(ms.At(i))
					if f == nil || f.Synthetic != "" || f.Pkg != p.SPkg {
						continue
					}
					name := nt.Obj().Name() + "." + f.Name()
					if _, dup := p.Funcs[name]; !dup {
						addFn(name, f)
					}
				}
			}
		}
	}
	if init := p.SPkg.Func("init"); init != nil {
		// package-level var initialisers live here (regexps, errStopped...)
		if _, ok := p.Funcs["init"]; !ok {
			addFn("init", init)
		}
	}
	for _, f := range p.AllFns {
		n := pruneConstBranches(f)
		p.ConstBranches += n
		if n > 0 && expanded[f] {
			ssa.Cleanup(f)
		}
	}
	sort.Slice(p.AllFns, func(i, j int) bool { return p.AllFns[i].Pos() < p.AllFns[j].Pos() })
	if len(p.AllFns) < 300 {
		return nil, fmt.Errorf("only %d SSA functions with bodies in trzsz (expected >= 300)", len(p.AllFns))
	}
	for _, f := range p.Pkg.Syntax {
		for _, d := range f.Decls {
			if fd, ok := d.(*ast.FuncDecl); ok {
				name := fd.Name.Name
				if fd.Recv != nil && len(fd.Recv.List) == 1 {
					t := fd.Recv.List[0].Type
					if st, ok := t.(*ast.StarExpr); ok {
						t = st.X
					}
					if id, ok := t.(*ast.Ident); ok {
						name = id.Name + "." + name
					}
				}
				p.decls[name] = fd
			}
		}
	}
	curProg = p
	loadVarSlots()
	return p, nil
}

func (p *Program) pos(ps token.Pos) string {
	if !ps.IsValid() {
		return "-"
	}
	po := p.Fset.Position(ps)
	fn := po.Filename
	if strings.HasPrefix(fn, p.Dir+"/") {
		fn = fn[len(p.Dir)+1:]
	}
	return fmt.Sprintf("%s:%d", fn, po.Line)
}

// fnName gives the index name ("Recv.method$2") of an SSA function of the trzsz package.
func (p *Program) fnName(f *ssa.Function) string {
	if f == nil {
		return "?"
	}
	if par := f.Parent(); par != nil {
		for i, a := range par.AnonFuncs {
			if a == f {
				return fmt.Sprintf("%s$%d", p.fnName(par), i+1)
			}
		}
	}
	if recv := f.Signature.Recv(); recv != nil {
		t := recv.Type()
		if pt, ok := t.(*types.Pointer); ok {
			t = pt.Elem()
		}
		if nt, ok := t.(*types.Named); ok {
			return nt.Obj().Name() + "." + f.Name()
		}
	}
	return f.Name()
}
