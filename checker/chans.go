package main

// Interprocedural tracing of channel (and other reference) values back to their
// allocation sites, through closures' free variables, parameters, returned values
// and struct fields. Package-local, bounded depth.

import (
	"go/token"
	"go/types"

	"trzszlint/xssa"
)

// makeSites returns the allocation sites (MakeChan, MakeSlice, Alloc, ...) a value may originate from.
// unresolved is true when some origin could not be followed (external call, global...).
func (c *Ctx) makeSites(v ssa.Value) (sites []ssa.Value, unresolved bool) {
	seen := map[ssa.Value]bool{}
	var walk func(v ssa.Value, depth int)
	walk = func(v ssa.Value, depth int) {
		v = strip(v)
		if v == nil || seen[v] {
			return
		}
		seen[v] = true
		if depth > 12 {
			unresolved = true
			return
		}
		switch x := v.(type) {
		case *ssa.MakeChan:
			sites = append(sites, x)
		case *ssa.Const:
			// nil channel
		case *ssa.Phi:
			for _, e := range x.Edges {
				walk(e, depth+1)
			}
		case *ssa.Parameter:
			f := x.Parent()
			idx := paramIndex(f, x)
			callers := c.callersOf(f)
			if len(callers) == 0 {
				unresolved = true
			}
			for _, cs := range callers {
				args := cs.Instr.Common().Args
				if cs.Instr.Common().IsInvoke() {
					// receiver is not in Args for invoke mode
					if idx == 0 {
						walk(cs.Instr.Common().Value, depth+1)
						continue
					}
					if idx-1 < len(args) {
						walk(args[idx-1], depth+1)
					}
					continue
				}
				if idx < len(args) {
					walk(args[idx], depth+1)
				} else {
					unresolved = true
				}
			}
		case *ssa.FreeVar:
			b := freeVarBinding(x)
			if b == nil {
				unresolved = true
				return
			}
			walk(b, depth+1)
		case *ssa.Alloc:
			// a variable cell: follow the values stored into it
			n := 0
			for _, r := range referrersOf(x) {
				if st, ok := r.(*ssa.Store); ok && st.Addr == ssa.Value(x) {
					n++
					walk(st.Val, depth+1)
				}
			}
			// cells captured by closures may be stored from inside them
			for _, an := range x.Parent().AnonFuncs {
				c.storesViaFreeVar(an, x, func(val ssa.Value) { n++; walk(val, depth+1) })
			}
			if n == 0 {
				sites = append(sites, x)
			}
		case *ssa.UnOp:
			if x.Op == token.MUL {
				switch a := x.X.(type) {
				case *ssa.FieldAddr:
					c.walkFieldStores(a, func(val ssa.Value) { walk(val, depth+1) }, &unresolved)
				default:
					walk(x.X, depth+1)
				}
				return
			}
			if x.Op == token.ARROW {
				unresolved = true
				return
			}
			unresolved = true
		case *ssa.Extract:
			call, ok := x.Tuple.(*ssa.Call)
			if !ok {
				unresolved = true
				return
			}
			c.walkCallResult(call, x.Index, func(val ssa.Value) { walk(val, depth+1) }, &unresolved)
		case *ssa.Call:
			c.walkCallResult(x, 0, func(val ssa.Value) { walk(val, depth+1) }, &unresolved)
		case *ssa.MakeClosure, *ssa.Function:
			sites = append(sites, x)
		default:
			unresolved = true
		}
	}
	walk(v, 0)
	return
}

func (c *Ctx) storesViaFreeVar(fn *ssa.Function, cell *ssa.Alloc, visit func(ssa.Value)) {
	for _, fv := range fn.FreeVars {
		if freeVarBinding(fv) != ssa.Value(cell) {
			continue
		}
		for _, r := range referrersOf(fv) {
			if st, ok := r.(*ssa.Store); ok && st.Addr == ssa.Value(fv) {
				visit(st.Val)
			}
		}
	}
	for _, an := range fn.AnonFuncs {
		c.storesViaFreeVar(an, cell, visit)
	}
}

func (c *Ctx) walkCallResult(call *ssa.Call, idx int, visit func(ssa.Value), unresolved *bool) {
	callee := call.Call.StaticCallee()
	if callee == nil || !c.inPkg(callee) || len(callee.Blocks) == 0 {
		*unresolved = true
		return
	}
	eachInstr(callee, func(in ssa.Instruction) {
		if r, ok := in.(*ssa.Return); ok && idx < len(r.Results) {
			visit(retVal(r, idx))
		}
	})
}

// walkFieldStores visits every value stored (anywhere in the package) into the same
// field of the same struct type as fa.
func (c *Ctx) walkFieldStores(fa *ssa.FieldAddr, visit func(ssa.Value), unresolved *bool) {
	st := fa.X.Type().Underlying().(*types.Pointer).Elem()
	n := 0
	for _, f := range c.AllFns {
		eachInstr(f, func(in ssa.Instruction) {
			s, ok := in.(*ssa.Store)
			if !ok {
				return
			}
			fb, ok := s.Addr.(*ssa.FieldAddr)
			if !ok || fb.Field != fa.Field {
				return
			}
			if !types.Identical(fb.X.Type().Underlying().(*types.Pointer).Elem(), st) {
				return
			}
			n++
			visit(s.Val)
		})
	}
	if n == 0 {
		*unresolved = true
	}
}

// sameSites: two values provably denote channels from the same (single) make site.
func (c *Ctx) sharesSite(a, b ssa.Value) bool {
	sa, ua := c.makeSites(a)
	sb, ub := c.makeSites(b)
	if ua || ub || len(sa) == 0 || len(sb) == 0 {
		return false
	}
	for _, x := range sa {
		for _, y := range sb {
			if x == y {
				return true
			}
		}
	}
	return false
}

// goTargets: functions started by a go statement somewhere in the package.
func (c *Ctx) goTargets() map[*ssa.Function]bool {
	if c.goT != nil {
		return c.goT
	}
	c.goT = map[*ssa.Function]bool{}
	for _, f := range c.AllFns {
		eachInstr(f, func(in ssa.Instruction) {
			if g, ok := in.(*ssa.Go); ok {
				if callee := g.Call.StaticCallee(); callee != nil {
					c.goT[callee] = true
				}
			}
		})
	}
	return c.goT
}

// owner: the goroutine body on whose behalf f runs, when that is unique:
// a go target is its own owner; a function all of whose (non-go) call sites lie in
// functions with one common owner inherits it; a method of a type with a single
// constructor inherits the owner of the constructor (objects built and used inside one stage).
func (c *Ctx) owner(f *ssa.Function) *ssa.Function {
	return c.ownerD(f, 0)
}

func (c *Ctx) ownerD(f *ssa.Function, depth int) *ssa.Function {
	if f == nil || depth > 8 || c.goTargets()[f] {
		return f
	}
	var common *ssa.Function
	n, ambiguous := 0, false
	for _, cs := range c.callersOf(f) {
		if _, isGo := cs.Instr.(*ssa.Go); isGo {
			continue
		}
		if cs.Caller == f {
			continue
		}
		n++
		o := c.ownerD(cs.Caller, depth+1)
		if common == nil {
			common = o
		} else if common != o {
			ambiguous = true
		}
	}
	if n > 0 && !ambiguous {
		return common
	}
	if recv := f.Signature.Recv(); recv != nil {
		if k := c.constructorOf(recv.Type()); k != nil && k != f {
			return c.ownerD(k, depth+1)
		}
	}
	return f
}

// constructorOf: the unique package function that allocates a value of the (pointed-to) named type.
func (c *Ctx) constructorOf(t types.Type) *ssa.Function {
	if p, ok := t.(*types.Pointer); ok {
		t = p.Elem()
	}
	var k *ssa.Function
	for _, f := range c.AllFns {
		eachInstr(f, func(in ssa.Instruction) {
			al, ok := in.(*ssa.Alloc)
			if !ok {
				return
			}
			if types.Identical(al.Type().Underlying().(*types.Pointer).Elem(), t) {
				if k == nil {
					k = f
				} else if k != f {
					k = nil
					return
				}
			}
		})
	}
	return k
}
