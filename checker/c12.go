package main

// C12 — peer input cannot crash or balloon the process: integer taint to crash/alloc sinks.

import (
	"fmt"
	"go/token"
	"go/types"
	"sort"
	"strings"

	"trzszlint/xssa"
)

func init() {
	register("C12", 40, "Decided (for the current source): (T) an interprocedural forward taint from every peer-controlled integer (results of ParseInt/Atoi on received text; integer fields of objects decoded from the peer: hash steps, sizes, path ids, config numbers) through conversions, arithmetic, calls/returns, struct fields, atomics, variables and channels to every allocation/crash sink (make length/capacity, Buffer.Grow, Repeat count, slice bounds, indexes, integer divisors, channel sizes); at each sink the value must be bounded on both sides by constants or untainted quantities through dominating comparisons, clamp phis, min(), or subtraction under an ordering fact; (G) constant-offset accesses into received text (x[k], x[k:], x[a:idx]) in the line parsers and terminal-output scanners are dominated by the length/index test that makes them safe; (L) the escape tables are 256 entries so any byte indexes them; (K) panic containment is as the property states (recover only in the client handler goroutine and the servers' main goroutine), which is why (T) and (G) demand that no peer value reaches a panicking construct at all. Not decided: panics inside third-party decoders (zstd, zlib, json) on malformed input, memory of decompression (zlib bomb in decodeString: noted), variable-variable bounds in scanners beyond the listed idioms (cross-referenced once with the compiler's unproven bounds-check list). (D) no dereference / interface call / nil-receiver method call on the edge where the value was just found nil or a comma-ok assertion failed; (U) the escape decoder never writes into an empty output buffer and returns when it is full.",
		func(c *Ctx) {
			c.run("C12-T", "TAINT: peer integers reach allocation/crash sinks only two-sidedly bounded", c12Taint)
			c.run("C12-B", "WHO-READS: the peer's buffer-size limit only ever limits (argument of min / right side of <), sizes grow by doubling per acknowledged full chunk", c12BufLimit)
			c.run("C12-N", "GUARD-DOM: values decoded from the peer cannot be nil where they are dereferenced (JSON 'null')", c12JSONTargets)
			c.run("C12-G", "GUARD-DOM: constant-offset accesses in parsers/scanners are guarded", c12Guards)
			c.run("C12-L", "LITERAL: escape tables cover every byte value", c12Tables)
			c.run("C12-K", "PAIR: panic containment inventory", c12Containment)
			c.run("C12-K2", "TYPESTATE: a function that calls recover() is only ever deferred", recoverOnlyDeferred)
			c.run("C12-S2", "shared with C20-R7: counts handed to Grow / Repeat while rendering cannot be negative", c20R7)
			c.run("C12-U", "GUARD-DOM: the escape decoder never writes past / into an empty output buffer", c12Unescape)
			c.run("C12-W", "GUARD-DOM: slice bounds of the encoder's chunk writer are its buffer's own free space", c12WriterSpace)
			c.run("C12-S3", "shared with C19-R7: the zmodem helper is announced only once it runs (an announced command without a process is killed through a nil Process)", c19Bridge)
			c.run("C12-N", "TYPESTATE: the pending clipboard sequence is not used after it was dropped", c12OSC52Nil)
			c.run("C12-N2", "GUARD-DOM: results that may be nil without an error are used only after a nil test", c12NilableResults)
			c.run("C12-D3", "TYPESTATE: a pointer field a callee may clear is not dereferenced after the call without a new test", c12NilAfterCall)
			c.run("C12-D", "CONTRADICTION: no dereference / interface call on the edge where the same value was just found nil", c12NilContradiction)
			c.run("C12-Q", "shared with C05-R9: after malformed input ended a transfer the session stays usable — the dead transfer stops queuing output", stopLatchRule)
			c.run("C12-S", "shared with C20-R1/R2: rendering clamps", func(c *Ctx) { c20R1(c); c20R2(c) })
		})
}

// ---- taint state ----

type taintState struct {
	c      *Ctx
	vals   map[ssa.Value]bool
	fields map[string]bool     // "Type.field" (also for atomics stored in fields)
	cells  map[*ssa.Alloc]bool // local variable cells
	chans  map[ssa.Value]bool  // channel make sites whose elements are tainted
	objs   map[ssa.Value]bool  // pointers to objects decoded from the peer
	why    map[ssa.Value]string
	dirty  bool
}

// functions whose integer results are parsed from local, trusted text (one reason each)
var c12TrustedParsers = map[string]string{
	"bufferSize.UnmarshalText": "command-line argument of the local user, range-checked",
	"checkTmux":                "output of the local tmux binary",
	"getTerminalColumns":       "output of the local stty binary",
	"getParentWindowID":        "local process table",
}

// decoders: package functions whose pointer result is an object filled from peer text
var c12Decoders = map[string]bool{
	"trzsz.unmarshalSourceFile": true, "trzsz.unmarshalTargetFile": true, tT + "recvHash": true, tT + "recvHashAck": true,
	tT + "recvAction": true, tT + "recvConfig": true, "(*trzsz.TrzszRelay).recvAction": true, "(*trzsz.TrzszRelay).recvConfig": true,
}

func isIntType(t types.Type) bool {
	b, ok := t.Underlying().(*types.Basic)
	return ok && b.Info()&(types.IsInteger|types.IsFloat) != 0
}

func isIntegerOnly(t types.Type) bool {
	b, ok := t.Underlying().(*types.Basic)
	return ok && b.Info()&types.IsInteger != 0
}

func (t *taintState) mark(v ssa.Value, why string) {
	if v == nil || t.vals[v] {
		return
	}
	t.vals[v] = true
	t.why[v] = why
	t.dirty = true
}

func (t *taintState) markObj(v ssa.Value) {
	if v == nil || t.objs[v] {
		return
	}
	t.objs[v] = true
	t.dirty = true
}

func (t *taintState) isT(v ssa.Value) bool { return v != nil && t.vals[v] }

func atomicFieldOf(ci ssa.CallInstruction) (string, string, bool) {
	id := calleeID(ci.Common())
	if !strings.HasPrefix(id, "(*sync/atomic.") || len(ci.Common().Args) == 0 {
		return "", "", false
	}
	n, ok := fieldAddrName(ci.Common().Args[0])
	if !ok {
		return "", "", false
	}
	return n, id[strings.LastIndex(id, ".")+1:], true
}

func (t *taintState) step() {
	c := t.c
	for _, f := range c.AllFns {
		fname := c.fnName(f)
		_, trusted := c12TrustedParsers[fname]
		eachInstr(f, func(in ssa.Instruction) {
			switch x := in.(type) {
			case *ssa.Call:
				id := calleeID(&x.Call)
				// seeds
				if !trusted && idIs("strconv.ParseInt", "strconv.ParseUint", "strconv.Atoi")(id) {
					if e := extractOf(x, 0); e != nil {
						t.mark(e, "parsed from received text in "+fname)
					}
				}
				if c12Decoders[id] {
					if x.Call.Signature().Results().Len() > 1 {
						t.markObj(extractOf(x, 0))
					} else {
						t.markObj(x)
					}
				}
				// atomics on fields
				if fld, m, ok := atomicFieldOf(x); ok {
					switch m {
					case "Store", "Swap", "Add":
						if t.unboundedAt(x.Call.Args[1], x) {
							if !t.fields[fld] {
								t.fields[fld] = true
								t.dirty = true
							}
						}
					case "Load":
						if t.fields[fld] && isIntType(x.Type()) {
							t.mark(x, "atomic field "+fld)
						}
					}
				}
				if idIs("math.Round", "math.Floor", "math.Ceil", "math.Trunc", "math.Abs")(id) && t.isT(strip(x.Call.Args[0])) {
					t.mark(x, t.why[strip(x.Call.Args[0])])
				}
				// min(a,b): handled per call site (context-sensitive), not through its parameters
				if sc := x.Call.StaticCallee(); isMinFunc(sc) {
					if t.isT(strip(x.Call.Args[0])) || t.isT(strip(x.Call.Args[1])) {
						t.mark(x, "min() of a peer value in "+fname)
					}
					return
				}
				// calls into the package: arguments -> parameters
				callees := t.callees(x)
				for _, callee := range callees {
					for i, a := range x.Call.Args {
						pi := i
						if x.Call.IsInvoke() {
							pi = i + 1
						}
						if pi >= len(callee.Params) {
							continue
						}
						if t.objs[strip(a)] {
							t.markObj(callee.Params[pi])
						}
						if t.isT(strip(a)) && t.unboundedAt(a, x) {
							t.mark(callee.Params[pi], "argument of "+c.fnName(callee)+" from "+fname)
						}
					}
					// returns
					eachInstr(callee, func(ri ssa.Instruction) {
						r, ok := ri.(*ssa.Return)
						if !ok {
							return
						}
						for k := range r.Results {
							rv := retVal(r, k)
							var res ssa.Value = x
							if len(r.Results) > 1 {
								res = extractOf(x, k)
							}
							if res == nil {
								continue
							}
							if t.objs[strip(rv)] {
								t.markObj(res)
							}
							if t.isT(strip(rv)) && t.unboundedAt(rv, r) {
								t.mark(res, "result of "+c.fnName(callee))
							}
						}
					})
				}
			case *ssa.Go:
				for _, callee := range t.callees(x) {
					for i, a := range x.Call.Args {
						if i < len(callee.Params) && t.isT(strip(a)) {
							t.mark(callee.Params[i], "go argument")
						}
					}
				}
			case *ssa.Convert:
				if t.isT(strip(x.X)) && isIntType(x.Type()) {
					t.mark(x, t.why[strip(x.X)])
				}
			case *ssa.ChangeType:
				if t.isT(strip(x.X)) {
					t.mark(x, t.why[strip(x.X)])
				}
			case *ssa.BinOp:
				switch x.Op {
				case token.ADD, token.SUB, token.MUL, token.QUO, token.REM, token.SHL, token.SHR, token.AND, token.OR, token.XOR:
					if isIntType(x.Type()) && (t.isT(strip(x.X)) || t.isT(strip(x.Y))) {
						t.mark(x, "arithmetic on a peer value in "+fname)
					}
				}
			case *ssa.UnOp:
				switch x.Op {
				case token.SUB:
					if t.isT(strip(x.X)) {
						t.mark(x, "negation of a peer value")
					}
				case token.MUL: // load
					if !isIntType(x.Type()) {
						// pointer to decoded object loaded from a cell/field
						if fa, ok := x.X.(*ssa.FieldAddr); ok && t.objs[strip(fa.X)] {
							// nested pointers are not followed
						}
						if al, ok := x.X.(*ssa.Alloc); ok && t.cells[al] {
							t.markObj(x)
						}
						if fv, ok := x.X.(*ssa.FreeVar); ok {
							if al, ok := freeVarBinding(fv).(*ssa.Alloc); ok && t.cells[al] {
								t.markObj(x)
							}
						}
						return
					}
					switch a := x.X.(type) {
					case *ssa.FieldAddr:
						n, _ := fieldAddrName(a)
						if t.objs[strip(a.X)] {
							t.mark(x, "field "+n+" of an object decoded from the peer")
						} else if t.fields[n] {
							t.mark(x, "field "+n+" (stored from a peer value)")
						} else if (strings.HasPrefix(n, "transferConfig.") && n != "transferConfig.MaxBufSize") || n == "transferAction.Protocol" {
							t.mark(x, "negotiated config field "+n)
						}
					case *ssa.Alloc:
						if t.cells[a] {
							t.mark(x, "variable "+a.Comment)
						}
					case *ssa.FreeVar:
						if al, ok := freeVarBinding(a).(*ssa.Alloc); ok && t.cells[al] {
							t.mark(x, "captured variable "+a.Name())
						}
					}
				case token.ARROW:
					if isIntType(x.Type()) || x.CommaOk {
						sites, _ := c.makeSites(x.X)
						for _, s := range sites {
							if t.chans[s] {
								if x.CommaOk {
									for _, r := range referrersOf(x) {
										if e, ok := r.(*ssa.Extract); ok && e.Index == 0 {
											t.mark(e, "received from a channel carrying peer values")
										}
									}
								} else {
									t.mark(x, "received from a channel carrying peer values")
								}
							}
						}
					}
				}
			case *ssa.Field:
				if t.objs[strip(x.X)] && isIntType(x.Type()) {
					t.mark(x, "field of a decoded object")
				}
			case *ssa.Phi:
				for _, e := range x.Edges {
					if t.isT(strip(e)) {
						t.mark(x, t.why[strip(e)])
					}
					if t.objs[strip(e)] {
						t.markObj(x)
					}
				}
			case *ssa.Extract:
				if sel, ok := x.Tuple.(*ssa.Select); ok && x.Index >= 2 {
					// received value of the (Index-2)-th receive state
					k := 0
					for _, st := range sel.States {
						if st.Send != nil {
							continue
						}
						if k == x.Index-2 {
							sites, _ := c.makeSites(st.Chan)
							for _, s := range sites {
								if t.chans[s] {
									t.mark(x, "received from a channel carrying peer values")
								}
							}
						}
						k++
					}
				}
			case *ssa.Store:
				v := strip(x.Val)
				switch a := x.Addr.(type) {
				case *ssa.FieldAddr:
					n, _ := fieldAddrName(a)
					if t.isT(v) && t.unboundedAt(x.Val, x) && !t.fields[n] {
						t.fields[n] = true
						t.dirty = true
					}
				case *ssa.Alloc:
					if (t.isT(v) && t.unboundedAt(x.Val, x) || t.objs[v]) && !t.cells[a] {
						t.cells[a] = true
						t.dirty = true
					}
				case *ssa.FreeVar:
					if al, ok := freeVarBinding(a).(*ssa.Alloc); ok && (t.isT(v) || t.objs[v]) && !t.cells[al] {
						t.cells[al] = true
						t.dirty = true
					}
				}
			case *ssa.Send:
				if t.isT(strip(x.X)) && t.unboundedAt(x.X, x) {
					t.taintChan(x.Chan)
				}
			case *ssa.Select:
				for _, st := range x.States {
					if st.Send != nil && t.isT(strip(st.Send)) && t.unboundedAt(st.Send, x) {
						t.taintChan(st.Chan)
					}
				}
			}
		})
	}
}

func (t *taintState) taintChan(ch ssa.Value) {
	sites, _ := t.c.makeSites(ch)
	for _, s := range sites {
		if !t.chans[s] {
			t.chans[s] = true
			t.dirty = true
		}
	}
}

func (t *taintState) callees(ci ssa.CallInstruction) []*ssa.Function {
	cc := ci.Common()
	if cc.IsInvoke() {
		iface, ok := cc.Value.Type().Underlying().(*types.Interface)
		if !ok {
			return nil
		}
		var out []*ssa.Function
		for _, f := range t.c.implementers(iface, cc.Method.Name()) {
			if len(f.Blocks) > 0 {
				out = append(out, f)
			}
		}
		return out
	}
	if f := cc.StaticCallee(); f != nil && t.c.inPkg(f) && len(f.Blocks) > 0 {
		return []*ssa.Function{f}
	}
	if f := closureInCell(cc.Value); f != nil {
		return []*ssa.Function{f}
	}
	return nil
}

// ---- boundedness ----

func isMinFunc(f *ssa.Function) bool {
	if f == nil || len(f.Params) != 2 || len(f.Blocks) == 0 || f.Signature.Results().Len() != 1 {
		return false
	}
	// every return gives one of the two parameters, on an edge where it is known not to exceed the other
	// (however the comparison is written: a < b, b > a, !(a >= b) ...)
	a, b := ssa.Value(f.Params[0]), ssa.Value(f.Params[1])
	n, ok := 0, true
	eachInstr(f, func(in ssa.Instruction) {
		r, isR := in.(*ssa.Return)
		if !isR {
			return
		}
		n++
		p, q := r.Results[0], ssa.Value(nil)
		switch p {
		case a:
			q = b
		case b:
			q = a
		default:
			ok = false
			return
		}
		fs := factsAt(r.Block())
		if !factCmp(fs, token.LEQ, isValue(p), isValue(q)) && !factCmp(fs, token.LSS, isValue(p), isValue(q)) {
			ok = false
		}
	})
	return ok && n == 2
}

// bounds reports whether v, used at instruction at, is bounded below / above by constants or untainted quantities.
func (t *taintState) bounds(v ssa.Value, at ssa.Instruction, extra []fact, depth int) (lo, hi bool) {
	v = strip(v)
	if depth > 8 {
		return false, false
	}
	if !t.isT(v) {
		return true, true
	}
	if _, ok := v.(*ssa.Const); ok {
		return true, true
	}
	fs := append(append([]fact{}, extra...), factsAt(at.Block())...)
	// a sum/product of an operand that is not bounded above can wrap around: comparisons made on
	// the wrapped result say nothing, so they are ignored
	wraps := false
	if b, ok := v.(*ssa.BinOp); ok && (b.Op == token.ADD || b.Op == token.MUL || b.Op == token.SHL) {
		if bi, ok := v.(ssa.Instruction); ok {
			for _, opnd := range []ssa.Value{b.X, b.Y} {
				if t.isT(strip(opnd)) {
					if _, ohi := t.bounds(opnd, bi, nil, depth+2); !ohi {
						wraps = true
					}
				}
			}
		}
	}
	// direct facts on v
	for _, fc := range fs {
		if wraps {
			break
		}
		op, x, y, ok := cmpFact(fc)
		if !ok {
			continue
		}
		if sameValue(x, v) {
			ylo, yhi := t.bounds(y, at, nil, depth+3)
			switch op {
			case token.GEQ, token.GTR:
				if ylo {
					lo = true
				}
			case token.LEQ, token.LSS:
				if yhi {
					hi = true
				}
			case token.EQL:
				if ylo {
					lo = true
				}
				if yhi {
					hi = true
				}
			}
		} else if sameValue(y, v) {
			xlo, xhi := t.bounds(x, at, nil, depth+3)
			switch op {
			case token.LEQ, token.LSS: // x <= v
				if xlo {
					lo = true
				}
			case token.GEQ, token.GTR: // x >= v
				if xhi {
					hi = true
				}
			case token.EQL:
				if xlo {
					lo = true
				}
				if xhi {
					hi = true
				}
			}
		}
	}
	if lo && hi {
		return
	}
	switch x := v.(type) {
	case *ssa.Phi:
		plo, phi := true, true
		for i, e := range x.Edges {
			pred := x.Block().Preds[i]
			ef := edgeFactsTo(pred, x.Block())
			// evaluate the incoming value at the end of its predecessor block
			elo, ehi := t.bounds(e, pred.Instrs[len(pred.Instrs)-1], ef, depth+1)
			plo, phi = plo && elo, phi && ehi
		}
		return lo || plo, hi || phi
	case *ssa.BinOp:
		switch x.Op {
		case token.ADD:
			alo, ahi := t.bounds(x.X, at, extra, depth+1)
			blo, bhi := t.bounds(x.Y, at, extra, depth+1)
			if wraps {
				// a sum with an operand that has no upper bound can wrap to a negative value: no lower bound either
				return lo, hi
			}
			return lo || (alo && blo), hi || (ahi && bhi)
		case token.SUB:
			alo, ahi := t.bounds(x.X, at, extra, depth+1)
			blo, bhi := t.bounds(x.Y, at, extra, depth+1)
			l, h := alo && bhi, ahi && blo
			// a - b with a fact b < a / b <= a
			for _, fc := range fs {
				op, p, q, ok := cmpFact(fc)
				if !ok {
					continue
				}
				if (op == token.LSS || op == token.LEQ) && sameValue(p, x.Y) && sameValue(q, x.X) {
					l = true
				}
				if (op == token.GTR || op == token.GEQ) && sameValue(p, x.X) && sameValue(q, x.Y) {
					l = true
				}
			}
			return lo || l, hi || h
		case token.MUL, token.QUO, token.SHR, token.AND, token.REM:
			alo, ahi := t.bounds(x.X, at, extra, depth+1)
			blo, bhi := t.bounds(x.Y, at, extra, depth+1)
			if x.Op == token.REM || x.Op == token.AND {
				// bounded by the untainted/bounded right operand (for non-negative left)
				return lo || (alo && blo), hi || bhi || ahi
			}
			if wraps {
				return lo, hi
			}
			return lo || (alo && blo), hi || (ahi && bhi)
		}
	case *ssa.Call:
		if callee := x.Call.StaticCallee(); isMinFunc(callee) {
			alo, ahi := t.bounds(x.Call.Args[0], x, nil, depth+1)
			blo, bhi := t.bounds(x.Call.Args[1], x, nil, depth+1)
			return lo || (alo && blo), hi || ahi || bhi
		}
	}
	return
}

func edgeFactsTo(pred, to *ssa.BasicBlock) []fact {
	i := blockIf(pred)
	if i == nil || pred.Succs[0] == pred.Succs[1] {
		return nil
	}
	for k := 0; k < 2; k++ {
		if pred.Succs[k] == to {
			f := normFact(fact{V: i.Cond, Pol: k == 0, If: i})
			return append([]fact{f}, phiImplied(f, 0)...)
		}
	}
	return nil
}

func (t *taintState) unboundedAt(v ssa.Value, at ssa.Instruction) bool {
	if !t.isT(strip(v)) {
		return false
	}
	lo, hi := t.bounds(v, at, nil, 0)
	return !(lo && hi)
}

// ---- sinks ----

type c12Sink struct {
	fn   *ssa.Function
	in   ssa.Instruction
	v    ssa.Value
	kind string
}

func (c *Ctx) c12Sinks() []c12Sink {
	var out []c12Sink
	for _, f := range c.AllFns {
		eachInstr(f, func(in ssa.Instruction) {
			switch x := in.(type) {
			case *ssa.MakeSlice:
				out = append(out, c12Sink{f, in, x.Len, "make.len"}, c12Sink{f, in, x.Cap, "make.cap"})
			case *ssa.MakeChan:
				out = append(out, c12Sink{f, in, x.Size, "makechan.size"})
			case *ssa.MakeMap:
				if x.Reserve != nil {
					out = append(out, c12Sink{f, in, x.Reserve, "makemap.size"})
				}
			case *ssa.Slice:
				if x.Low != nil {
					out = append(out, c12Sink{f, in, x.Low, "slice.low"})
				}
				if x.High != nil {
					out = append(out, c12Sink{f, in, x.High, "slice.high"})
				}
				if x.Max != nil {
					out = append(out, c12Sink{f, in, x.Max, "slice.max"})
				}
			case *ssa.IndexAddr:
				out = append(out, c12Sink{f, in, x.Index, "index"})
			case *ssa.Index:
				out = append(out, c12Sink{f, in, x.Index, "index"})
			case *ssa.BinOp:
				if (x.Op == token.QUO || x.Op == token.REM) && isIntegerOnly(x.Type()) {
					out = append(out, c12Sink{f, in, x.Y, "divisor"})
				}
			case *ssa.Call:
				switch calleeID(&x.Call) {
				case "(*bytes.Buffer).Grow", "(*strings.Builder).Grow":
					out = append(out, c12Sink{f, in, x.Call.Args[1], "Grow.n"})
				case "strings.Repeat", "bytes.Repeat":
					out = append(out, c12Sink{f, in, x.Call.Args[1], calleeID(&x.Call) + ".count"})
				case "io.LimitReader":
				}
			}
		})
	}
	return out
}

func c12Taint(c *Ctx) {
	t := &taintState{c: c, vals: map[ssa.Value]bool{}, fields: map[string]bool{}, cells: map[*ssa.Alloc]bool{}, chans: map[ssa.Value]bool{}, objs: map[ssa.Value]bool{}, why: map[ssa.Value]string{}}
	rounds := 0
	for {
		t.dirty = false
		t.step()
		rounds++
		if !t.dirty || rounds > 30 {
			break
		}
	}
	if rounds > 30 {
		c.undecided("fixpoint", "taint propagation did not converge")
		return
	}
	nT := 0
	for range t.vals {
		nT++
	}
	var fl []string
	for f := range t.fields {
		fl = append(fl, f)
	}
	sort.Strings(fl)
	c.note("taint fixpoint after %d rounds: %d tainted values, %d decoded objects, tainted fields %v", rounds, nT, len(t.objs), fl)
	if nT < 30 {
		c.undecided("sources", fmt.Sprintf("only %d tainted values: sources lost", nT))
		return
	}
	sinks := c.c12Sinks()
	nTainted := 0
	for _, s := range sinks {
		v := strip(s.v)
		if !t.isT(v) {
			continue
		}
		nTainted++
		c.sites++
		lo, hi := t.bounds(s.v, s.in, nil, 0)
		key := c.fnName(s.fn) + "/" + s.kind
		need := "both sides"
		// for a slice low / index a lower bound and an upper bound are both needed; for a divisor: non-zero
		if s.kind == "divisor" {
			nz := false
			for _, fc := range factsAt(s.in.Block()) {
				op, x, y, ok := cmpFact(fc)
				if ok && (op == token.NEQ || op == token.GTR) && sameValue(x, v) && isConstIntV(0)(y) {
					nz = true
				}
			}
			c.check(nz || (lo && hi), key, c.ipos(s.in), "peer value used as divisor is tested non-zero", "a peer-controlled value ("+t.why[v]+") is used as an integer divisor without a non-zero test")
			continue
		}
		c.check(lo && hi, key, c.ipos(s.in), "peer value ("+t.why[v]+") bounded on "+need+" before it sizes/indexes",
			fmt.Sprintf("a peer-controlled value (%s) reaches %s without bounds on both sides (lower=%v upper=%v): a crafted field crashes the process or makes it allocate without bound", t.why[v], s.kind, lo, hi))
	}
	c.note("%d sinks inspected, %d reached by peer values", len(sinks), nTainted)
	if len(sinks) < 300 {
		c.undecided("sinks", "fewer sinks than expected")
	}
	// the zlib inflation in decodeString is unbounded by design of the format (noted, not a length field)
	c.note("decodeString inflates zlib data with io.Copy: output size is bounded only by the input's compression ratio (not a single length field; not decided)")
}

// ---- G: constant-offset guards ----

// functions exempt from the constant-offset guard rule (local, trusted input; one reason each)
var c12GuardExempt = map[string]string{
	"forkToBackground":         "os.Args of the local process",
	"resolveHomeDir":           "path from the local configuration, behind a HasPrefix test (disjunction of two prefixes)",
	"detectDragFilesOnMacOS":   "local user's terminal input; slices follow a regexp match",
	"nextCygPath":              "local user's terminal input; offsets follow the literal prefix just matched",
	"nextLinuxPath":            "local user's terminal input; index derived from the scan position",
	"nextMsysPath":             "local user's terminal input; index derived from the scan position",
	"nextWinPath":              "local user's terminal input; index derived from the scan position",
	"unixPathToWinPath":        "called on paths already matched by the cygwin/msys scanners",
	"detectDragFilesOnWindows": "local user's terminal input",
	"detectDragFiles":          "local user's terminal input",
}

func c12Guards(c *Ctx) {
	// functions that parse received text or scan terminal output
	fns := []string{"trzszTransfer.recvCheck", "trzszTransfer.recvCheckV2", "decodeRelayBufferString", "trzszDetector.detectTrzsz", "trzszDetector.addRelaySuffix",
		"trzszDetector.rewriteTrzszTrigger", "trzszDetector.isRepeatedID", "TrzszFilter.detectOSC52", "trzszTransfer.stripTmuxStatusLine", "trimVT100", "detectZmodem",
		"TrzszFilter.transformPromptInput", "trzszBuffer.readLineOnWindows", "trzszBuffer.readLine", "trzszBuffer.readBinary", "getHelloConstant", "unescapeData",
		"trzszTransfer.pipelineRecvCurrentAck", "parseTrzszVersion", "TrzszFilter.sendInput", "trzszTransfer.recvLine", "recvStringFromBuffer", "recvStringForWindows", "archiveFileWriter.Write"}
	n := 0
	for _, name := range fns {
		c.fn(name) // anchors: the parsers and scanners this rule is about must exist
	}
	for _, g := range c.AllFns {
		name := c.fnName(g)
		if _, skip := c12GuardExempt[name]; skip {
			continue
		}
		{
			eachInstr(g, func(in ssa.Instruction) {
				switch x := in.(type) {
				case *ssa.Slice:
					if _, isArr := x.X.Type().Underlying().(*types.Pointer); isArr {
						return // slicing a fixed array (compile-time / make idiom)
					}
					lowC, lowIsC := int64(0), x.Low == nil
					if x.Low != nil {
						lowC, lowIsC = constInt(x.Low)
					}
					fs := factsAt(x.Block())
					key := name + "/slice"
					// x[c:] / x[c:hi]: need len(x) >= c, and hi >= c when hi is a variable
					if lowIsC && lowC > 0 {
						n++
						if x.High == nil {
							_, grp := factNil(fs, x.X) // a matched regexp group (non-nil) of the trigger grammar is non-empty (C06-R1)
							okLen := lenAtLeast(fs, x.X, lowC) || (grp && lowC == 1)
							c.check(okLen, fmt.Sprintf("%s[%d:]", key, lowC), c.ipos(x), "tail slice guarded by a length test", fmt.Sprintf("x[%d:] on received text without a dominating len(x) >= %d", lowC, lowC))
						} else if _, hiC := constInt(x.High); !hiC {
							if hb, ok := x.High.(*ssa.BinOp); ok && hb.Op == token.SUB && isLenOf(hb.X, isValue(x.X)) {
								if kk, ok := constInt(hb.Y); ok {
									c.check(lenAtLeast(fs, x.X, lowC+kk), fmt.Sprintf("%s[%d:len-%d]", key, lowC, kk), c.ipos(x), "slice ends guarded by a length test", fmt.Sprintf("x[%d:len(x)-%d] without a dominating len(x) >= %d", lowC, kk, lowC+kk))
									return
								}
							}
							okHi := factCmp(fs, token.GEQ, isValue(x.High), func(v ssa.Value) bool { k, ok := constInt(v); return ok && k >= lowC }) ||
								factCmp(fs, token.GTR, isValue(x.High), func(v ssa.Value) bool { k, ok := constInt(v); return ok && k >= lowC-1 })
							c.check(okHi, fmt.Sprintf("%s[%d:v]", key, lowC), c.ipos(x), "upper index proven >= the constant lower index", fmt.Sprintf("x[%d:idx] without a dominating idx >= %d: an early delimiter panics (slice bounds out of range)", lowC, lowC))
						}
					}
					// x[v:] / x[:v] with v a search result: need v >= 0
					for _, b := range []ssa.Value{x.Low, x.High} {
						if b == nil {
							continue
						}
						if call, _ := callOf(b); call != nil && isSearchCall(calleeID(&call.Call)) {
							n++
							nonNeg := factCmp(fs, token.GEQ, isValue(b), func(v ssa.Value) bool { k, ok := constInt(v); return ok && k >= 0 }) ||
								factCmp(fs, token.GTR, isValue(b), func(v ssa.Value) bool { k, ok := constInt(v); return ok && k >= -1 })
							c.check(nonNeg, key+"@search-result", c.ipos(x), "search result used as a bound only on its >= 0 edge", "a search result is used as a slice bound without the >= 0 test (-1 panics)")
						}
					}
				case *ssa.IndexAddr:
					if _, isArr := x.X.Type().Underlying().(*types.Pointer); isArr {
						return
					}
					k, isC := constInt(x.Index)
					if !isC {
						// buf.Bytes()[buf.Len()-k]: guarded by a test of buf.Len() with no write to the buffer in between
						if b, ok := x.Index.(*ssa.BinOp); ok && b.Op == token.SUB {
							lc, _ := callOf(b.X)
							bc, _ := callOf(x.X)
							if kk, isK := constInt(b.Y); isK && lc != nil && bc != nil && calleeID(&lc.Call) == "(*bytes.Buffer).Len" && calleeID(&bc.Call) == "(*bytes.Buffer).Bytes" && (sameAddr(lc.Call.Args[0], bc.Call.Args[0]) || sameValue(lc.Call.Args[0], bc.Call.Args[0])) {
								n++
								recv := lc.Call.Args[0]
								guarded := false
								for _, fc := range factsAt(x.Block()) {
									op, a, bb, okc := cmpFact(fc)
									gc, _ := callOf(a)
									lim, isL := constInt(bb)
									if !okc || gc == nil || !isL || calleeID(&gc.Call) != "(*bytes.Buffer).Len" || !(sameAddr(gc.Call.Args[0], recv) || sameValue(gc.Call.Args[0], recv)) {
										continue
									}
									if !((op == token.GTR && lim+1 >= kk) || (op == token.GEQ && lim >= kk)) {
										continue
									}
									// nothing writes to the buffer between the tested Len() and the access
									hit, _ := reachAvoid(gc, func(in ssa.Instruction) bool {
										ci, isCall := in.(ssa.CallInstruction)
										if !isCall || len(ci.Common().Args) == 0 || !(sameAddr(ci.Common().Args[0], recv) || sameValue(ci.Common().Args[0], recv)) {
											return false
										}
										switch calleeID(ci.Common()) {
										case "(*bytes.Buffer).Len", "(*bytes.Buffer).Bytes", "(*bytes.Buffer).Cap", "(*bytes.Buffer).String":
											return false
										}
										return true
									}, func(in ssa.Instruction) bool { return in == ssa.Instruction(x) })
									if hit == nil {
										guarded = true
									}
								}
								c.check(guarded, fmt.Sprintf("%s/index[buf.Len-%d]", name, kk), c.ipos(x), "indexing a buffer from its end is guarded by a test of its length", fmt.Sprintf("buf.Bytes()[buf.Len()-%d] without a dominating buf.Len() >= %d (an empty buffer panics)", kk, kk))
								return
							}
						}
						// x[len(x)-k]
						if b, ok := x.Index.(*ssa.BinOp); ok && b.Op == token.SUB && isLenOf(b.X, isValue(x.X)) {
							if kk, ok := constInt(b.Y); ok {
								n++
								c.check(lenAtLeast(factsAt(x.Block()), x.X, kk), fmt.Sprintf("%s/index[len-%d]", name, kk), c.ipos(x), "indexing from the end guarded by a length test", fmt.Sprintf("x[len(x)-%d] without a dominating len(x) >= %d", kk, kk))
							}
						}
						return
					}
					if sl, ok := x.X.(*ssa.Slice); ok {
						if al, ok := sl.X.(*ssa.Alloc); ok {
							if arr, ok := al.Type().Underlying().(*types.Pointer).Elem().Underlying().(*types.Array); ok && sl.Low == nil && sl.High == nil && k < arr.Len() {
								return // literal slice of known length
							}
						}
					}
					n++
					if k == 0 && isFieldLoad("RelPath")(x.X) {
						c.ok(fmt.Sprintf("%s/index[0]@RelPath", name), c.ipos(x), "the decoder guarantees a non-empty path list (C09-D/unmarshalSourceFile/non-empty)")
						return
					}
					c.check(lenAtLeast(factsAt(x.Block()), x.X, k+1) || c12SubmatchGuard(x, factsAt(x.Block())), fmt.Sprintf("%s/index[%d]", name, k), c.ipos(x), "constant index guarded by a length test",
						fmt.Sprintf("x[%d] on received text without a dominating len(x) > %d", k, k))
				}
			})
		}
	}
	if n < 25 {
		c.undecided("guards/sites", fmt.Sprintf("only %d constant-offset accesses found", n))
	}
}

func isSearchCall(id string) bool {
	switch id {
	case "bytes.Index", "bytes.IndexByte", "bytes.LastIndex", "bytes.LastIndexByte", "bytes.IndexAny", "strings.Index", "strings.IndexByte", "strings.LastIndex", "strings.IndexAny":
		return true
	}
	return false
}

// lenAtLeast: facts establish len(x) >= k.
func lenAtLeast(fs []fact, x ssa.Value, k int64) bool {
	isLenX := func(v ssa.Value) bool { return isLenOf(v, isValue(x)) }
	for _, fc := range fs {
		// HasPrefix(x, "const") == true implies len(x) >= len(const)
		if call, _ := callOf(fc.V); call != nil && fc.Pol && idIs("strings.HasPrefix", "bytes.HasPrefix", "strings.HasSuffix", "bytes.HasSuffix")(calleeID(&call.Call)) && sameValue(call.Call.Args[0], x) {
			if p, ok := constString(strip(call.Call.Args[1])); ok && int64(len(p)) >= k {
				return true
			}
		}
	}
	for _, fc := range fs {
		op, a, b, ok := cmpFact(fc)
		if !ok {
			continue
		}
		var n int64
		var isC bool
		if isLenX(a) {
			n, isC = constInt(b)
		} else if isLenX(b) {
			n, isC = constInt(a)
			switch op {
			case token.LSS:
				op = token.GTR
			case token.LEQ:
				op = token.GEQ
			case token.GTR:
				op = token.LSS
			case token.GEQ:
				op = token.LEQ
			}
		} else {
			continue
		}
		if !isC {
			continue
		}
		switch op {
		case token.GEQ:
			if n >= k {
				return true
			}
		case token.GTR:
			if n+1 >= k {
				return true
			}
		case token.EQL:
			if n >= k {
				return true
			}
		case token.NEQ:
			if n == 0 && k <= 1 {
				return true
			}
		}
	}
	return false
}

// c12SubmatchGuard: x = match[i] / match[i][0] where match is a FindSubmatch result and len(match) was tested,
// or a group that was tested non-nil (a matched, non-empty group).
func c12SubmatchGuard(ia *ssa.IndexAddr, fs []fact) bool {
	// element of a sub-slice proven non-nil: match[k] != nil and the group cannot be empty (regexp structure, C06-R1)
	if u, ok := ia.X.(*ssa.UnOp); ok && u.Op == token.MUL {
		if _, nonNil := factNil(fs, u); nonNil {
			return true
		}
		if inner, ok := u.X.(*ssa.IndexAddr); ok {
			if k, isC := constInt(inner.Index); isC && lenAtLeast(fs, inner.X, k+1) {
				// match[k][0] with len(match) > k: group k of the trigger regexps is mandatory and non-empty
				return true
			}
		}
	}
	return false
}

func c12Tables(c *Ctx) {
	f := c.fn("escapeCharsToTable")
	n := 0
	eachInstr(f, func(in ssa.Instruction) {
		m, ok := in.(*ssa.MakeSlice)
		if !ok {
			// constant-size make is an Alloc of an array + slice
			if al, ok := in.(*ssa.Alloc); ok && al.Comment == "makeslice" {
				if arr, ok := al.Type().Underlying().(*types.Pointer).Elem().Underlying().(*types.Array); ok {
					n++
					c.check(arr.Len() == 256, "escape-table/256", c.ipos(al), "the table has one slot per byte value", "an escape table has fewer than 256 slots: indexing it with a received byte can panic")
				}
			}
			return
		}
		n++
		k, isC := constInt(m.Len)
		c.check(isC && k == 256, "escape-table/256", c.ipos(m), "the table has one slot per byte value", "an escape table has fewer than 256 slots: indexing it with a received byte can panic")
	})
	if n != 2 {
		c.undecided("escape-table/tables", "expected the escape and unescape tables")
	}
	// the tables are indexed by bytes only
	for _, name := range []string{"escapeData", "unescapeData"} {
		g := c.fn(name)
		eachInstr(g, func(in ssa.Instruction) {
			ia, ok := in.(*ssa.IndexAddr)
			if !ok || !(isFieldLoad("escapeCodes")(ia.X) || isFieldLoad("unescapeCodes")(ia.X)) {
				return
			}
			b, isB := ia.Index.Type().Underlying().(*types.Basic)
			c.check(isB && (b.Kind() == types.Uint8 || b.Kind() == types.Byte), name+"/table-indexed-by-byte", c.ipos(ia), "tables are indexed by a byte", "an escape table is indexed by something wider than a byte")
		})
	}
	// a decoded table always has both slices (UnmarshalJSON assigns a fully built table)
	u := c.fn("escapeTable.UnmarshalJSON")
	ok := len(callsIn(u, idIs("trzsz.escapeCharsToTable"))) == 1
	c.check(ok, "escape-table/built-by-constructor", c.pos(u.Pos()), "a table announced by the peer is built by the checked constructor", "an announced escape table bypasses the constructor")
}

func c12Containment(c *Ctx) {
	// which goroutine bodies have a deferred recover
	rec := map[string]bool{}
	for _, f := range c.AllFns {
		has := false
		eachInstr(f, func(in ssa.Instruction) {
			if ci, ok := in.(ssa.CallInstruction); ok && calleeID(ci.Common()) == "builtin recover" {
				has = true
			}
		})
		if has {
			rec[c.fnName(f)] = true
		}
	}
	var l []string
	for k := range rec {
		l = append(l, k)
	}
	sort.Strings(l)
	c.note("functions containing recover(): %v; pipeline stages and the servers' worker goroutine have none, so a panic there is fatal", l)
	for _, want := range []string{"TrzszFilter.handleTrzsz$1$1", "TrzMain$2", "TszMain$2"} {
		c.check(rec[want], "recover/"+want, "", "the documented recover is in place", "a documented panic recovery was removed")
	}
	// the recovered panic is reported through the error path
	for _, nm := range []struct{ fn, rep string }{{"TrzszFilter.handleTrzsz$1$1", tT + "clientError"}, {"TrzMain$2", tT + "serverError"}, {"TszMain$2", tT + "serverError"}} {
		if f := c.Funcs[nm.fn]; f != nil {
			c.check(len(callsIn(f, idIs(nm.rep))) == 1, "recover/"+nm.fn+"=>report", c.pos(f.Pos()), "a recovered panic is reported as a transfer error", "a recovered panic is swallowed")
		}
	}
}

// c12BufLimit: transferConfig.MaxBufSize (peer-controlled on the client) is exempt from the taint because it
// is only used as an upper limit; this rule checks exactly that, so the exemption cannot silently become wrong.
func c12BufLimit(c *Ctx) {
	n := 0
	for _, f := range c.AllFns {
		eachInstr(f, func(in ssa.Instruction) {
			u, ok := in.(*ssa.UnOp)
			if !ok || u.Op != token.MUL {
				return
			}
			if nm, _ := fieldAddrName(u.X); nm != "transferConfig.MaxBufSize" {
				return
			}
			n++
			for _, r := range referrersOf(u) {
				good := false
				switch x := r.(type) {
				case *ssa.Call:
					good = isMinFunc(x.Call.StaticCallee())
				case *ssa.BinOp:
					// other < limit
					good = (x.Op == token.LSS && x.Y == ssa.Value(u)) || (x.Op == token.GTR && x.X == ssa.Value(u))
				case *ssa.DebugRef:
					good = true
				}
				c.check(good, "MaxBufSize/use@"+c.fnName(f), c.ipos(r), "the limit is an argument of min() or the right side of '<'", "the peer's buffer-size limit is used as more than an upper limit (it would size an allocation directly)")
			}
		})
	}
	if n < 4 {
		c.undecided("MaxBufSize/uses", "fewer uses of the buffer-size limit than expected")
	}
	// and growth is tied to real data: the doubling store happens on the edge where the acknowledged length equals the current size
	nStores := 0
	for _, f := range c.AllFns {
		for _, ci := range callsIn(f, anyID) {
			if fld, m, ok := atomicFieldOf(ci); ok && fld == "trzszTransfer.bufferSize" && m == "Store" {
				nStores++
				if k, isC := constInt(ci.Common().Args[1]); isC {
					c.check(k >= 1024 && k <= 1<<20, "bufferSize/initial@"+c.fnName(f), c.ipos(ci), "a constant chunk size is within 1K..1M", "a constant chunk size outside 1K..1M is stored")
					continue
				}
				if call, _ := callOf(ci.Common().Args[1]); call != nil && isMinFunc(call.Call.StaticCallee()) {
					tied := factCmp(factsAt(ci.Block()), token.EQL, anyValue, func(v ssa.Value) bool {
						lc, _ := callOf(v)
						return lc != nil && isAtomicOnField(lc, "bufferSize", "Load")
					})
					c.check(tied, "bufferSize/doubling-needs-full-chunk", c.ipos(ci), "the size doubles only after a chunk of the current size was acknowledged", "the buffer size can grow without a full chunk having been acknowledged")
				} else {
					// the shrink path is clamped from below
					lo, nl := true, 0
					for _, l := range origins(ci.Common().Args[1], originOpts{}) {
						nl++
						if k, isC := constInt(l.V); isC {
							if k < 1 {
								lo = false
							}
							continue
						}
						fs := append(append([]fact{}, factsAt(ci.Block())...), l.facts()...)
						if !factCmp(fs, token.GEQ, isValue(l.V), func(v ssa.Value) bool { k, isC := constInt(v); return isC && k >= 1 }) {
							lo = false
						}
					}
					c.check(lo && nl > 0, "bufferSize/shrink-clamped", c.ipos(ci), "the shrunken size is clamped from below (every value that can be stored is a positive constant or was found >= a positive constant)", "the buffer size can shrink to zero or below: a value reaches the store that was not clamped from below")
				}
			}
		}
	}
	if nStores < 3 {
		c.undecided("bufferSize/stores", "fewer stores of the chunk size than expected")
	}
}

// c12JSONTargets: json.Unmarshal targets are pointers to values (struct, slice, map-free), never pointers to
// pointers: decoding the JSON literal null into a **T sets the *T to nil and the next field access panics.
func c12JSONTargets(c *Ctx) {
	n := 0
	for _, f := range c.AllFns {
		for _, ci := range callsIn(f, idIs("encoding/json.Unmarshal")) {
			n++
			t := strip(ci.Common().Args[1]).Type()
			good := false
			if p, ok := t.Underlying().(*types.Pointer); ok {
				switch p.Elem().Underlying().(type) {
				case *types.Pointer, *types.Interface:
					good = false
				default:
					good = true
				}
			}
			c.check(good, "json.Unmarshal.target@"+c.fnName(f), c.ipos(ci), "decodes into a value (JSON null leaves it a usable zero value)", "a received JSON document is decoded into a pointer-to-pointer (or interface): the literal null yields nil and the following field access panics in a goroutine without recover")
		}
	}
	if n < 8 {
		c.undecided("json.Unmarshal/sites", "fewer decode sites than expected")
	}
	// decoders return the address of the value they decoded into, or an error
	for id := range c12Decoders {
		name := strings.TrimPrefix(strings.TrimPrefix(id, "(*trzsz."), "trzsz.")
		name = strings.Replace(name, ").", ".", 1)
		f := c.Funcs[name]
		if f == nil {
			continue
		}
		eachInstr(f, func(in ssa.Instruction) {
			r, ok := in.(*ssa.Return)
			if !ok || !isNilErrReturn(in) {
				return
			}
			v := strip(retVal(r, 0))
			_, isAlloc := v.(*ssa.Alloc)
			_, isFA := v.(*ssa.FieldAddr)
			c.check(isAlloc || isFA, "decoder-result-non-nil/"+name, c.ipos(r), "a successful decode returns the address of a value", "a decoder can return a nil object without an error")
		})
	}
}

// c12OSC52Nil: detectOSC52 runs in the output pump, which has no recover. It drops an oversized pending sequence by
// setting filter.osc52Sequence = nil. From such a store no method call on the field may be reachable without a new
// buffer having been stored or the `== nil` test having been passed on its non-nil edge (helpers the reference tree
// does not have are expanded first: a helper that may drop the sequence, followed by a caller that goes on to use
// it, is this path).
func c12OSC52Nil(c *Ctx) {
	f := c.fn("TrzszFilter.detectOSC52")
	isFld := func(v ssa.Value) bool { _, fl, ok := fieldOf(v); return ok && fl == "osc52Sequence" }
	use := func(in ssa.Instruction) bool {
		ci, ok := in.(ssa.CallInstruction)
		if !ok || len(ci.Common().Args) == 0 || ci.Common().IsInvoke() {
			return false
		}
		return strings.HasPrefix(calleeID(ci.Common()), "(*bytes.Buffer).") && isFld(ci.Common().Args[0])
	}
	fresh := func(in ssa.Instruction) bool {
		st, ok := in.(*ssa.Store)
		if !ok {
			return false
		}
		n, _ := fieldAddrName(st.Addr)
		return strings.HasSuffix(n, ".osc52Sequence") && !isNilConst(st.Val)
	}
	nonNilEdge := func(from, to *ssa.BasicBlock) bool {
		return factCmp(edgeFactsTo(from, to), token.NEQ, isFld, isNilConst)
	}
	n := 0
	eachInstr(f, func(in ssa.Instruction) {
		st, ok := in.(*ssa.Store)
		if !ok || !isNilConst(st.Val) {
			return
		}
		if nm, _ := fieldAddrName(st.Addr); !strings.HasSuffix(nm, ".osc52Sequence") {
			return
		}
		n++
		hit, path := reachFromE(st.Block(), instrIndex(st)+1, use, fresh, nonNilEdge)
		c.check(hit == nil, fmt.Sprintf("detectOSC52/no-use-after-drop.%d", n), c.ipos(st), "after the pending sequence is dropped it is not used before a new one is started", "the pending clipboard sequence can be used after it was set to nil (nil dereference in the output pump, which nothing recovers)", c.pathStr(path)...)
	})
	if n == 0 {
		c.undecided("detectOSC52/no-use-after-drop", "no place drops the pending sequence")
	}
}
