package main

// C01 — end-to-end fidelity: protocol symmetry between the two roles.

import (
	"fmt"
	"go/token"
	"sort"
	"strings"

	"trzszlint/xssa"
)

func init() {
	register("C01", 30, "Decided (structural necessary conditions, for the current source): (R1) on each of the four (binary x compress) arms the decoder stack is the encoder stack with every writer replaced by its reader, and each wrapper uses the matching library codec; (R2) every line type one role can send is a type the other role expects, for the file exchange and the ACT/CFG/EXIT handshake; (R3) both ends decide compression through the same pure function of the negotiated config and the size, and exchange COMP exactly on its undecided edge; (R4) the per-file exchange order (name, size, data, MD5; nil file skips) and the protocol-version dispatch constants agree between sender and receiver; (R5) the negotiated protocol is min(client, server); plus the shared gates of C02 (digest/size) and C07-R5 (reported name = used name). Not decided: byte-for-byte equality for all trees x configurations x segmentations, that a fault-free transfer always completes, that each codec inverts its partner on all data. Added after the mutation campaign (DESIGN §13): (R7) paired steps run under the same range of negotiated versions; (R8) directory / archive / plain-file dispatch has the same polarity on both ends; (R9) every name produced by the name step is in the reported list; (R10) v1/v2 NAME payload and its decoding agree on directory mode; (R11) number of per-file rounds = announced number; (R12) length-prefixed frames exactly on the binary edge; (R13) the receive stage forwards every non-empty chunk as a faithful copy and stops on the empty one; the decoded compress setting is stored.",
		func(c *Ctx) {
			c.run("C01-R1", "SIBLING: codec stacks mirror each other", c01R1)
			c.run("C01-R2", "LITERAL: every line type sent by one role is expected by the other", c01R2)
			c.run("C01-R3", "SIBLING: compression decided by one shared pure function", c01R3)
			c.run("C01-R4", "SIBLING: per-file exchange order and version dispatch agree", c01R4)
			c.run("C01-R5", "GUARD-DOM: negotiated protocol is the minimum of both ends", func(c *Ctx) { c14R3(c) })
			c.run("C01-R6", "PAIR: open files do not accumulate over the per-file loops", c01R6)
			c.run("C01-R7", "SIBLING: paired steps run under the same range of negotiated versions", c01R7)
			c.run("C01-R9", "MUST-PASS: every name produced by the name step is in the list reported to the user", func(c *Ctx) { c01R9(c); c01Contains(c) })
			c.run("C01-R10", "SIBLING: v1/v2 name payload and its decoding agree on directory mode", c01R10)
			c.run("C01-R11", "SIBLING: number of per-file rounds = announced number on both ends", c01R11)
			c.run("C01-R12", "SIBLING: length-prefixed frames are produced and parsed exactly on the binary-mode edge", c01R12)
			c.run("C01-R13", "MUST-PASS: the receive stage forwards every non-empty chunk faithfully and stops on the empty one", c01R13)
			c.run("C01-R8", "SIBLING: directory / archive / plain-file dispatch has the same polarity on both ends", c01R8)
			c.run("C01-S4", "shared with C15-R3: archive reader/writer close the previous entry's file", c15R3)
			c.run("C01-S5", "shared with C04-R4/R6: everything written to the connection is a protocol line with the negotiated newline, or framed/escaped payload whose announced length is its real length", func(c *Ctx) { c04R4(c); c04FrameLen(c) })
			c.run("C01-S1", "shared with C02: digest compare and saved==size gates dominate success", func(c *Ctx) { c02Digest(c); c02SavedSize(c); c02OneStream(c) })
			c.run("C01-S2", "shared with C07-R5: the names shown are the names written", c07R5)
			c.run("C01-S3", "shared with C08-R1/R2/R4: a resumed file is cut at the offset both ends proved equal, and the compression probe gives the sender's offset back", func(c *Ctx) { c08R1(c); c08R2(c); c08R4(c) })
			c.run("C01-S7", "shared with C11-R10: the size-probing hand-shake between the encoder and the ack reader cannot stall a fault-free transfer", c11BufInit)
			c.run("C01-S8", "shared with C11-R12: stages and the input pump run concurrently (a fault-free transfer cannot stall on a stage that was never started)", c11Launch)
			c.run("C01-S9", "TYPESTATE: no file or connection is used after an in-line Close of the same value", noUseAfterClose)
			c.run("C01-S10", "shared with C04-R7: the sender's staging buffer is never storage the send stage may still be reading", c04FreshStaging)
			c.run("C01-S11", "shared with C11-R2: every read of the transfer waits on a timer of its own (a shared, re-armed timer can have fired unseen and fails the first read after a long pause)", c11R2)
			c.run("C01-S12", "shared with C18-R6: a read that timed out across a pause keeps the timeout sentinel all the way up (a fault-free transfer that is paused and continued completes)", c18Sentinel)
			c.run("C01-S6", "shared with C07-R2b: one local name per source path id (two sources with the same base name are not merged)", c07MapKey)
		})
}

var codecPair = map[string]string{
	"newZstdWriter": "newZstdReader", "newEscapeWriter": "newEscapeReader", "newBase64Writer": "newBase64Reader", "newSendDataWriter": "newRecvDataReader",
}

func c01R1(c *Ctx) {
	enc := c.codecArms(c.fn("trzszTransfer.pipelineEncodeData$1"), "newSendDataWriter")
	dec := c.codecArms(c.fn("trzszTransfer.pipelineDecodeData$1"), "newRecvDataReader")
	if len(enc) != 4 || len(dec) != 4 {
		c.bad("arms", "", fmt.Sprintf("expected 4 encode and 4 decode arms, found %d and %d", len(enc), len(dec)))
		return
	}
	for i := range enc {
		e, d := enc[i], dec[i]
		key := "arm.binary=" + e.binary + ".compress=" + e.compress
		if e.binary != d.binary || e.compress != d.compress || e.binary == "?" || e.compress == "?" {
			c.bad(key+"/conditions", d.pos, "encode and decode arms are not conditioned on the same (binary, compress) values")
			continue
		}
		var want []string
		for _, w := range e.chain {
			want = append(want, codecPair[w])
		}
		c.check(strings.Join(want, ">") == strings.Join(d.chain, ">"), key+"/mirror", d.pos, "decode stack "+strings.Join(d.chain, " > ")+" mirrors encode stack "+strings.Join(e.chain, " > "),
			"decode stack "+strings.Join(d.chain, " > ")+" does not mirror encode stack "+strings.Join(e.chain, " > "))
	}
	// the condition variables are the same objects: Binary field of transferConfig, the compress parameter
	// wrappers use the matching library codec
	uses := func(fn string, ids ...string) bool {
		f := c.fn(fn)
		return len(callsIn(f, idIs(ids...))) > 0
	}
	c.check(uses("newZstdWriter", "github.com/klauspost/compress/zstd.NewWriter") && uses("newZstdReader", "github.com/klauspost/compress/zstd.NewReader"), "codec/zstd", "", "zstd writer/reader pair", "zstd wrappers do not use the matching zstd encoder/decoder")
	b64 := func(fn, id string) bool {
		f := c.fn(fn)
		for _, ci := range callsIn(f, idIs(id)) {
			u, ok := ci.Common().Args[0].(*ssa.UnOp)
			if ok {
				if g, ok := u.X.(*ssa.Global); ok && g.Name() == "StdEncoding" {
					return true
				}
			}
		}
		return false
	}
	c.check(b64("newBase64Writer", "encoding/base64.NewEncoder") && b64("newBase64Reader", "encoding/base64.NewDecoder"), "codec/base64", "", "base64 writer/reader use the same standard alphabet", "base64 wrappers do not use the same encoding")
	c.check(uses("escapeWriter.Write", "trzsz.escapeData") && uses("escapeReader.Read", "trzsz.unescapeData"), "codec/escape", "", "escape writer/reader use escapeData/unescapeData", "escape wrappers do not use the escape coder")
	// both use the same table object: transferConfig.EscapeTable
	for _, fn := range []string{"trzszTransfer.pipelineEncodeData$1", "trzszTransfer.pipelineDecodeData$1"} {
		f := c.fn(fn)
		for _, ci := range callsIn(f, idIs("trzsz.newEscapeWriter", "trzsz.newEscapeReader")) {
			c.check(isFieldLoad("EscapeTable")(ci.Common().Args[0]), fn+"/table", c.ipos(ci), "the negotiated escape table is used", "a different escape table is used on one side")
		}
	}
}

// senders / receivers of typed lines: callee id -> index of the type argument
var lineSenders = map[string]int{
	tT + "sendLine": 1, tT + "sendInteger": 1, tT + "sendString": 1, tT + "sendBinary": 1, tT + "checkStopAndPause": 1,
}
var lineReceivers = map[string]int{
	tT + "recvLine": 1, tT + "recvCheck": 1, tT + "recvCheckV2": 1, tT + "recvInteger": 1, tT + "recvString": 1, tT + "recvBinary": 1,
}

// lineTypes: constant line types sent / expected in functions reachable from root.
func (c *Ctx) lineTypes(root *ssa.Function) (sent, expected map[string]string, dynamic []string) {
	sent, expected = map[string]string{}, map[string]string{}
	reach := c.reachableNarrow(root)
	for _, f := range c.AllFns {
		if !reach[f] {
			continue
		}
		fname := c.fnName(f)
		// the generic helpers pass their own parameter on: skip them as origins
		eachInstr(f, func(in ssa.Instruction) {
			ci, ok := in.(ssa.CallInstruction)
			if !ok {
				return
			}
			id := calleeID(ci.Common())
			if idx, ok := lineSenders[id]; ok {
				arg := ci.Common().Args[idx]
				if s, ok := constString(arg); ok {
					setMin(sent, s, fname)
				} else if _, isP := strip(arg).(*ssa.Parameter); !isP {
					dynamic = append(dynamic, fname+" sends a non-constant type at "+c.ipos(in))
				}
			}
			if idx, ok := lineReceivers[id]; ok {
				arg := ci.Common().Args[idx]
				if s, ok := constString(arg); ok {
					setMin(expected, s, fname)
				} else if _, isP := strip(arg).(*ssa.Parameter); !isP {
					dynamic = append(dynamic, fname+" expects a non-constant type at "+c.ipos(in))
				}
			}
			// raw writes of "#TYPE:" prefixes
			if id == "fmt.Sprintf" {
				if fm, ok := constString(ci.Common().Args[0]); ok && strings.HasPrefix(fm, "#") && !strings.HasPrefix(fm, "#%s") {
					if k := strings.Index(fm, ":"); k > 1 {
						setMin(sent, fm[1:k], fname)
					}
				}
			}
		})
		// byte-slice literals "#DATA:" written by the framer / v2 sender
		eachInstr(f, func(in ssa.Instruction) {
			cv, ok := in.(*ssa.Convert)
			if !ok {
				return
			}
			if s, ok := constString(cv.X); ok && strings.HasPrefix(s, "#") && strings.HasSuffix(s, ":") && len(s) > 2 {
				setMin(sent, s[1:len(s)-1], fname)
			}
		})
	}
	return
}

// setMin keeps the lexicographically smallest origin so that evidence text does not depend on map order.
func setMin(m map[string]string, k, v string) {
	if old, ok := m[k]; !ok || v < old {
		m[k] = v
	}
}

func keys(m map[string]string) []string {
	var out []string
	for k := range m {
		out = append(out, k)
	}
	sort.Strings(out)
	return out
}

func c01R2(c *Ctx) {
	pairs := []struct{ a, b, name string }{
		{"trzszTransfer.sendFiles", "trzszTransfer.recvFiles", "files"},
		{"trzszTransfer.sendAction", "trzszTransfer.recvAction", "action"},
		{"trzszTransfer.sendConfig", "trzszTransfer.recvConfig", "config"},
		{"trzszTransfer.clientExit", "trzszTransfer.recvExit", "exit"},
	}
	for _, p := range pairs {
		sa, ea, da := c.lineTypes(c.fn(p.a))
		sb, eb, db := c.lineTypes(c.fn(p.b))
		for _, d := range append(da, db...) {
			c.undecided(p.name+"/dynamic-type", d)
		}
		errTypes := map[string]bool{"fail": true, "FAIL": true, "EXIT": true}
		for _, dir := range []struct {
			from, to string
			sent     map[string]string
			exp      map[string]string
		}{{p.a, p.b, sa, eb}, {p.b, p.a, sb, ea}} {
			for _, t := range keys(dir.sent) {
				if errTypes[t] && p.name == "files" {
					continue
				}
				_, ok := dir.exp[t]
				c.check(ok, p.name+"/"+dir.from+"=>"+t, "", "line type "+t+" sent by "+dir.sent[t]+" is expected by the peer role", "line type "+t+" (sent in "+dir.sent[t]+") is never expected by "+dir.to+": the peer would reject or hang")
			}
		}
		// and the converse: every type a role waits for is a type the peer role sends (a reader waiting for a type nobody
		// sends turns the peer's line into a "type mismatch" error, or waits until the timeout)
		for _, dir := range []struct {
			waiter string
			exp    map[string]string
			sent   map[string]string
		}{{p.b, eb, sa}, {p.a, ea, sb}} {
			for _, t := range keys(dir.exp) {
				_, ok := dir.sent[t]
				c.check(ok, p.name+"/"+dir.waiter+"<="+t, "", "line type "+t+" awaited in "+dir.exp[t]+" is sent by the peer role", "line type "+t+" (awaited in "+dir.exp[t]+") is never sent by the peer role")
			}
		}
		if p.name == "files" {
			c.note("types sent by sender %v, expected by receiver %v; sent by receiver %v, expected by sender %v", keys(sa), keys(eb), keys(sb), keys(ea))
			need := []string{"NUM", "NAME", "SIZE", "DATA", "MD5"}
			for _, t := range need {
				_, s := sa[t]
				_, e := eb[t]
				c.check(s && e, "files/core-type."+t, "", t+" is both sent and expected", "core line type "+t+" is missing on one side")
			}
		}
	}
	// the relay's copies use the same types
	for _, nm := range []struct{ fn, typ, callee string }{
		{"TrzszRelay.recvAction", "ACT", "(*trzsz.TrzszRelay).recvStringFromClient"}, {"TrzszRelay.sendAction", "ACT", "(*trzsz.TrzszRelay).sendStringToServer"},
		{"TrzszRelay.recvConfig", "CFG", "(*trzsz.TrzszRelay).recvStringFromServer"}, {"TrzszRelay.sendConfig", "CFG", "(*trzsz.TrzszRelay).sendStringToClient"},
	} {
		f := c.fn(nm.fn)
		ok := false
		for _, ci := range callsIn(f, idIs(nm.callee)) {
			if s, isC := constString(ci.Common().Args[1]); isC && s == nm.typ {
				ok = true
			}
		}
		c.check(ok, "relay/"+nm.fn+"="+nm.typ, c.pos(f.Pos()), "relay uses line type "+nm.typ, "relay's handshake copy uses a different line type")
	}
}

func c01R3(c *Ctx) {
	dec := c.fn("trzszTransfer.isCompressFixed")
	// purity: no calls, only reads of transferConfig fields and the parameter
	pure := true
	eachInstr(dec, func(in ssa.Instruction) {
		switch x := in.(type) {
		case ssa.CallInstruction:
			pure = false
		case *ssa.Store, *ssa.MapUpdate, *ssa.Send:
			pure = false
		case *ssa.FieldAddr:
			n, _ := fieldAddrName(x)
			if !strings.HasPrefix(n, "transferConfig.") && n != "trzszTransfer.transferConfig" {
				pure = false
			}
		}
	})
	c.check(pure, "isCompressFixed/pure", c.pos(dec.Pos()), "the decision reads only the negotiated config and the size", "the compression decision depends on something other than the negotiated config and the size (the two ends can disagree)")
	// ... and the negotiated compress setting really arrives on the client: the JSON hook stores the decoded number
	// into the receiver on its success path (otherwise the client decides with the default while the server uses -c)
	uj := c.fn("compressType.UnmarshalJSON")
	um := callsIn(uj, idIs("encoding/json.Unmarshal"))
	if len(um) != 1 {
		c.lost("json.Unmarshal in compressType.UnmarshalJSON")
	}
	stored := false
	var target ssa.Value
	if mi, ok := um[0].Common().Args[1].(*ssa.MakeInterface); ok {
		target = mi.X
	}
	eachInstr(uj, func(in ssa.Instruction) {
		st, ok := in.(*ssa.Store)
		if !ok || !isVar("c")(st.Addr) && st.Addr != ssa.Value(uj.Params[0]) {
			return
		}
		if ld, isLd := strip(st.Val).(*ssa.UnOp); isLd && ld.Op == token.MUL && ld.X == target && domI(um[0].(ssa.Instruction), st) {
			stored = true
		}
	})
	hit, _ := reachFrom(uj.Blocks[0], 0, isNilErrReturn, func(in ssa.Instruction) bool {
		st, ok := in.(*ssa.Store)
		return ok && st.Addr == ssa.Value(uj.Params[0])
	})
	c.check(stored && hit == nil, "compressType/decoded-value-stored", c.pos(uj.Pos()), "the compress setting decoded from the config is stored on every successful decode", "the decoded compress setting is dropped: the client decides compression from the default, the server from its -c option")
	for _, side := range []struct {
		fn, comp string
		send     bool
	}{{"trzszTransfer.sendCompressFlag", tT + "sendLine", true}, {"trzszTransfer.recvCompressFlag", tT + "recvCheck", false}} {
		f := c.fn(side.fn)
		dc := callsIn(f, idIs(tT+"isCompressFixed"))
		if len(dc) != 1 {
			c.bad(side.fn+"/shared-decision", c.pos(f.Pos()), "does not decide through the shared function")
			continue
		}
		call := dc[0].(*ssa.Call)
		fixed, comp := extractOf(call, 0), extractOf(call, 1)
		// size argument: file.getSize() on the sender, the size parameter on the receiver
		// returns compress on the fixed edge
		okFixed := false
		eachInstr(f, func(in ssa.Instruction) {
			r, ok := in.(*ssa.Return)
			if !ok || !isNilErrReturn(in) {
				return
			}
			for _, fc := range factsAt(r.Block()) {
				if fc.Pol && fixed != nil && fc.V == fixed && comp != nil && sameValue(retVal(r, 0), comp) {
					okFixed = true
				}
			}
		})
		c.check(okFixed, side.fn+"/fixed=>shared-answer", c.ipos(call), "when the decision is fixed both ends return the shared answer", "on the fixed edge the role does not return the shared function's answer")
		// COMP exchanged exactly on the other edge
		for _, ci := range callsWithConstArg(f, side.comp, 1, "COMP") {
			notFixed := false
			for _, fc := range factsAt(ci.Block()) {
				if !fc.Pol && fixed != nil && fc.V == fixed {
					notFixed = true
				}
			}
			c.check(notFixed, side.fn+"/COMP@undecided", c.ipos(ci), "COMP is exchanged only when the decision is not fixed", "COMP is exchanged although the decision is fixed (the peer does not expect it)")
		}
		// universal forms: nothing succeeds before the shared decision was asked; every success on the fixed edge returns the
		// shared answer; every success on the other edge has exchanged COMP
		{
			hit0, path0 := reachFrom(f.Blocks[0], 0, c.maySucceed, func(in ssa.Instruction) bool { return in == ssa.Instruction(call) })
			c.check(hit0 == nil, side.fn+"/decides-first", c.pos(f.Pos()), "no successful exit precedes the shared decision", "the role can answer without asking the shared decision function (a private shortcut: the two codec stacks disagree)", c.pathStr(path0)...)
			onFixed := func(pol bool) func(from, to *ssa.BasicBlock) bool {
				return func(from, to *ssa.BasicBlock) bool {
					for _, fc := range edgeFactsTo(from, to) {
						if fixed != nil && fc.V == fixed && fc.Pol == pol {
							return true
						}
					}
					return false
				}
			}
			eachInstr(f, func(in ssa.Instruction) {
				r, ok := in.(*ssa.Return)
				if !ok || !c.maySucceed(in) || !domI(call, in) {
					return
				}
				// reachable without crossing the not-fixed edge => must return the shared answer
				viaFixed, _ := reachFromE(call.Block(), instrIndex(call)+1, func(x ssa.Instruction) bool { return x == in }, nil, onFixed(false))
				if viaFixed != nil {
					isNot := false
					for _, fc := range factsAt(in.Block()) {
						if fixed != nil && fc.V == fixed && !fc.Pol {
							isNot = true
						}
					}
					if !isNot {
						c.check(comp != nil && sameValue(retVal(r, 0), comp), side.fn+"/every-fixed-exit-shared-answer", c.ipos(in), "a success on the fixed edge returns the shared answer", "a success on the fixed edge returns something other than the shared answer")
					}
				}
			})
			hitC, pathC := reachFromE(call.Block(), instrIndex(call)+1, c.maySucceed, func(in ssa.Instruction) bool {
				ci, ok := in.(*ssa.Call)
				if !ok || calleeID(&ci.Call) != side.comp {
					return false
				}
				k, _ := constString(ci.Call.Args[1])
				return k == "COMP"
			}, onFixed(true))
			c.check(hitC == nil, side.fn+"/undecided=>COMP-exchanged", c.ipos(call), "when the decision is not fixed every success has exchanged COMP", "with the decision not fixed the role can succeed without the COMP exchange (the peer waits for / never sends the line)", c.pathStr(pathC)...)
		}
		c.check(len(callsWithConstArg(f, side.comp, 1, "COMP")) == 1, side.fn+"/COMP-once", c.pos(f.Pos()), "exactly one COMP exchange", "COMP exchange missing or duplicated")
	}
	// what the sender announces is what it uses
	sf := c.fn("trzszTransfer.sendCompressFlag")
	for _, ci := range callsWithConstArg(sf, tT+"sendLine", 1, "COMP") {
		fb, _ := callOf(ci.Call.Args[2])
		good := fb != nil && calleeID(&fb.Call) == "strconv.FormatBool"
		if good {
			eachInstr(sf, func(in ssa.Instruction) {
				if r, ok := in.(*ssa.Return); ok && domI(ci, r) {
					if !sameValue(retVal(r, 0), fb.Call.Args[0]) {
						good = false
					}
				}
			})
		}
		c.check(good, "sendCompressFlag/announce=use", c.ipos(ci), "the flag announced is the flag returned to the caller", "the sender announces one compression flag and uses another")
	}
	// both drivers pass the decision on to their codec stage
	for _, d := range []struct {
		fn, flag, stage string
		idx             int
	}{
		{"trzszTransfer.sendFileDataV2", tT + "sendCompressFlag", tT + "pipelineEncodeData", 3}, {"trzszTransfer.recvFileDataV2", tT + "recvCompressFlag", tT + "pipelineDecodeData", 3}} {
		f := c.fn(d.fn)
		fl := callsIn(f, idIs(d.flag))
		st := callsIn(f, idIs(d.stage))
		good := len(fl) == 1 && len(st) == 1
		if good {
			call := fl[0].(*ssa.Call)
			good = sameValue(st[0].Common().Args[d.idx], extractOf(call, 0))
		}
		c.check(good, d.fn+"/flag->stage", c.pos(f.Pos()), "the negotiated flag drives the codec stage", "the codec stage does not use the negotiated compression flag")
	}
}

func protoDispatch(c *Ctx, f *ssa.Function) []string {
	seen := map[string]bool{}
	for _, b := range f.Blocks {
		i := blockIf(b)
		if i == nil {
			continue
		}
		op, x, y, ok := cmpFact(normFact(fact{V: i.Cond, Pol: true}))
		if ok && isFieldLoad("Protocol")(x) {
			if n, isC := constInt(y); isC {
				seen[fmt.Sprintf("%s%d", op, n)] = true
			}
		}
	}
	var out []string
	for k := range seen {
		out = append(out, k)
	}
	sort.Strings(out)
	return out
}

func c01R4(c *Ctx) {
	sf, rf := c.fn("trzszTransfer.sendFiles"), c.fn("trzszTransfer.recvFiles")
	ds, dr := protoDispatch(c, sf), protoDispatch(c, rf)
	// compare the version constants only: which side of each test a step sits on is compared, as ranges, by C01-R7
	consts := func(l []string) string {
		m := map[string]bool{}
		for _, s := range l {
			m[strings.TrimLeft(s, "<>=!")] = true
		}
		var o []string
		for k := range m {
			o = append(o, k)
		}
		sort.Strings(o)
		return strings.Join(o, ",")
	}
	c.check(consts(ds) == consts(dr) && len(ds) >= 2, "dispatch/files", "", "sender and receiver dispatch on the same protocol constants "+consts(ds), "sender dispatches on {"+strings.Join(ds, ",")+"}, receiver on {"+strings.Join(dr, ",")+"}")
	for _, pr := range [][2]string{{"trzszTransfer.sendPrefixHash", "trzszTransfer.recvPrefixHash"}, {"trzszTransfer.checkStopAndPause", "trzszTransfer.recvCheckV2"}} {
		a, b := protoDispatch(c, c.fn(pr[0])), protoDispatch(c, c.fn(pr[1]))
		// compare the sets of constants only (the operators may be mirrored)
		num := func(l []string) string {
			m := map[string]bool{}
			for _, s := range l {
				m[strings.TrimLeft(s, "<>=!")] = true
			}
			var o []string
			for k := range m {
				o = append(o, k)
			}
			sort.Strings(o)
			return strings.Join(o, ",")
		}
		c.check(num(a) == num(b) && len(a) > 0, "dispatch/"+pr[0]+"~"+pr[1], "", "both ends switch behaviour at the same protocol version", "the two ends switch behaviour at different protocol versions")
	}
	// role order in the per-file loop
	type role struct {
		name string
		ids  []string
	}
	for _, side := range []struct {
		f     *ssa.Function
		roles []role
	}{
		{sf, []role{{"name", []string{tT + "sendFileNameV3", tT + "sendFileName"}}, {"size", []string{tT + "sendFileSize"}}, {"data", []string{tT + "sendFileDataV2", tT + "sendFileData"}}, {"md5", []string{tT + "sendFileMD5"}}}},
		{rf, []role{{"name", []string{tT + "recvFileNameV3", tT + "recvFileName"}}, {"size", []string{tT + "recvFileSize"}}, {"data", []string{tT + "recvFileDataV2", tT + "recvFileData"}}, {"md5", []string{tT + "recvFileMD5"}}}},
	} {
		fname := c.fnName(side.f)
		var prev []ssa.CallInstruction
		for i, r := range side.roles {
			cur := callsIn(side.f, idIs(r.ids...))
			if len(cur) != len(r.ids) {
				c.bad(fname+"/role."+r.name, c.pos(side.f.Pos()), "per-file step '"+r.name+"' is not performed by the expected calls")
			}
			if i > 0 {
				good := len(cur) > 0
				for _, a := range prev {
					for _, b := range cur {
						hit, _ := reachAvoid(b.(ssa.Instruction), func(x ssa.Instruction) bool { return x == a.(ssa.Instruction) }, func(x ssa.Instruction) bool {
							// barrier: the loop header is re-entered (next file)
							return false
						})
						fwd, _ := reachAvoid(a.(ssa.Instruction), func(x ssa.Instruction) bool { return x == b.(ssa.Instruction) }, nil)
						_ = hit
						if fwd == nil {
							good = false
						}
					}
				}
				c.check(good, fname+"/order."+side.roles[i-1].name+"<"+r.name, c.pos(side.f.Pos()), "'"+side.roles[i-1].name+"' precedes '"+r.name+"' for each file", "per-file step order changed")
			}
			prev = cur
		}
		// nil file (directory entry) skips size/data/md5 on both sides
		skip := false
		for _, b := range side.f.Blocks {
			i := blockIf(b)
			if i == nil {
				continue
			}
			op, x, y, ok := cmpFact(normFact(fact{V: i.Cond, Pol: true}))
			if ok && (op == token.EQL || op == token.NEQ) && (isNilConst(y) || isNilConst(x)) {
				for _, l := range origins(x, originOpts{}) {
					if call, idx := callOf(l.V); call != nil && idx == 0 && idIs(side.roles[0].ids...)(calleeID(&call.Call)) {
						skip = true
					}
				}
			}
		}
		// universal form of the order: from each step's call, the next file's name step (or a successful return) is not
		// reachable without the following step — except, after the name step, over the edge where the entry has no content
		noContent := func(from, to *ssa.BasicBlock) bool {
			for _, fc := range edgeFactsTo(from, to) {
				op, x, y, ok := cmpFact(fc)
				if !ok || op != token.EQL || !isNilConst(y) {
					continue
				}
				for _, l := range origins(x, originOpts{}) {
					if call, idx := callOf(l.V); call != nil && idx == 0 && idIs(side.roles[0].ids...)(calleeID(&call.Call)) {
						return true
					}
				}
			}
			return false
		}
		isRole := func(r role) func(ssa.Instruction) bool {
			return func(in ssa.Instruction) bool {
				ci, ok := in.(ssa.CallInstruction)
				return ok && idIs(r.ids...)(calleeID(ci.Common()))
			}
		}
		for i := 0; i+1 < len(side.roles); i++ {
			for _, a := range callsIn(side.f, idIs(side.roles[i].ids...)) {
				var eb func(from, to *ssa.BasicBlock) bool
				if i == 0 {
					eb = noContent
				}
				hitO, pathO := reachFromE(a.Block(), instrIndex(a.(ssa.Instruction))+1, func(in ssa.Instruction) bool {
					return isNilErrReturn(in) || isRole(side.roles[0])(in)
				}, c.orWrapper("role:"+fname+":"+side.roles[i+1].name, isRole(side.roles[i+1])), eb)
				c.check(hitO == nil, fname+"/"+side.roles[i].name+"=>"+side.roles[i+1].name, c.ipos(a), "after '"+side.roles[i].name+"' the loop cannot go on to the next file (or succeed) without '"+side.roles[i+1].name+"'", "after the '"+side.roles[i].name+"' step the loop can go on to the next file or succeed without the '"+side.roles[i+1].name+"' step: the peer still waits for it", c.pathStr(pathO)...)
			}
		}
		c.check(skip, fname+"/nil-file-skips", c.pos(side.f.Pos()), "an entry without file content skips the data exchange", "entries without file content are no longer skipped on this side")
	}
}

// c01R6: open files do not accumulate over the per-file loops: no Close is deferred inside a
// loop, and every path from a non-nil file to the next file / return closes it (directly, or
// by handing it to a function that defers Close on that parameter at its entry).
func c01R6(c *Ctx) {
	closesParamAtEntry := func(f *ssa.Function, idx int) bool {
		if f == nil || len(f.Blocks) == 0 || idx >= len(f.Params) {
			return false
		}
		for _, in := range f.Blocks[0].Instrs {
			if d, ok := in.(*ssa.Defer); ok && d.Call.IsInvoke() && d.Call.Method.Name() == "Close" && d.Call.Value == ssa.Value(f.Params[idx]) {
				return true
			}
		}
		return false
	}
	for _, side := range []struct {
		fn    string
		names []string
	}{{"trzszTransfer.sendFiles", []string{tT + "sendFileNameV3", tT + "sendFileName"}}, {"trzszTransfer.recvFiles", []string{tT + "recvFileNameV3", tT + "recvFileName"}}} {
		f := c.fn(side.fn)
		// the file value: phi of the name stage's first result
		var fileV ssa.Value
		for _, b := range f.Blocks {
			i := blockIf(b)
			if i == nil {
				continue
			}
			op, x, y, ok := cmpFact(normFact(fact{V: i.Cond, Pol: true}))
			if !ok || (op != token.EQL && op != token.NEQ) || !isNilConst(y) {
				continue
			}
			for _, l := range origins(x, originOpts{}) {
				if call, idx := callOf(l.V); call != nil && idx == 0 && idIs(side.names...)(calleeID(&call.Call)) {
					fileV = x
					// non-nil edge
					start := b.Succs[1]
					if op == token.NEQ {
						start = b.Succs[0]
					}
					isCloseD := func(in ssa.Instruction, allowDefer bool) bool {
						ci, ok := in.(ssa.CallInstruction)
						if !ok {
							return false
						}
						if _, isDefer := in.(*ssa.Defer); isDefer && !allowDefer {
							return false
						}
						cc := ci.Common()
						if cc.IsInvoke() && cc.Method.Name() == "Close" && sameValue(cc.Value, fileV) {
							return true
						}
						if callee := cc.StaticCallee(); callee != nil {
							for ai, a := range cc.Args {
								if sameValue(a, fileV) && closesParamAtEntry(callee, ai) {
									return true
								}
							}
						}
						return false
					}
					// to the next file: only a real (non-deferred) close counts; to a return: a deferred close counts too
					hit, path := reachFrom(start, 0, func(in ssa.Instruction) bool {
						ci, ok := in.(ssa.CallInstruction)
						return ok && idIs(side.names...)(calleeID(ci.Common()))
					}, func(in ssa.Instruction) bool { return isCloseD(in, false) })
					if hit == nil {
						hit, path = reachFrom(start, 0, isReturn, func(in ssa.Instruction) bool { return isCloseD(in, true) })
					}
					c.check(hit == nil, side.fn+"/file-closed-per-iteration", c.ipos(i), "every file is closed before the next file is started or the function returns",
						"a file opened for one entry is still open when the next entry starts (or on return): open files grow with the number of files in a transfer", c.pathStr(path)...)
				}
			}
		}
		if fileV == nil {
			c.lost("file != nil test in " + side.fn)
		}
	}
	// no Close deferred inside a loop of the per-file code
	for _, name := range []string{"trzszTransfer.sendFiles", "archiveFileReader.Read", "archiveFileWriter.Write"} {
		f := c.fn(name)
		eachInstr(f, func(in ssa.Instruction) {
			d, ok := in.(*ssa.Defer)
			if !ok || !(d.Call.IsInvoke() && d.Call.Method.Name() == "Close") {
				return
			}
			hit, _ := reachAvoid(d, func(x ssa.Instruction) bool { return x == ssa.Instruction(d) }, nil)
			c.check(hit == nil, name+"/no-defer-close-in-loop", c.ipos(d), "Close is not deferred inside a loop", "Close is deferred inside a loop: every file of the transfer stays open until the function returns")
		})
	}
}

// protoRangeAt: the interval of negotiated protocol versions under which block b runs, from the
// dominating branch facts on loads of the Protocol field. "[lo,hi]" with hi=inf when unbounded.
func protoRangeAt(b *ssa.BasicBlock) string {
	lo, hi := int64(0), int64(1<<30)
	for _, f := range factsAt(b) {
		op, x, y, ok := cmpFact(f)
		if !ok {
			continue
		}
		if isFieldLoad("Protocol")(y) {
			x, y = y, x
			op = map[token.Token]token.Token{token.LSS: token.GTR, token.GTR: token.LSS, token.LEQ: token.GEQ, token.GEQ: token.LEQ, token.EQL: token.EQL, token.NEQ: token.NEQ}[op]
		}
		n, isC := constInt(y)
		if !isFieldLoad("Protocol")(x) || !isC {
			continue
		}
		switch op {
		case token.LSS:
			hi = min64(hi, n-1)
		case token.LEQ:
			hi = min64(hi, n)
		case token.GTR:
			lo = max64(lo, n+1)
		case token.GEQ:
			lo = max64(lo, n)
		case token.EQL:
			lo, hi = max64(lo, n), min64(hi, n)
		}
	}
	if hi == 1<<30 {
		return fmt.Sprintf("[%d,inf]", lo)
	}
	return fmt.Sprintf("[%d,%d]", lo, hi)
}

func min64(a, b int64) int64 {
	if a < b {
		return a
	}
	return b
}

func max64(a, b int64) int64 {
	if a > b {
		return a
	}
	return b
}

// c01R7: paired steps of the two roles run under the same range of negotiated versions
// (C01-R4 compares only which constants are switched on; this compares the side of the switch).
func c01R7(c *Ctx) {
	rangesOf := func(f *ssa.Function, match func(ssa.CallInstruction) bool) string {
		var out []string
		for _, ci := range callsIn(f, anyID) {
			if match(ci) {
				out = append(out, protoRangeAt(ci.Block()))
			}
		}
		sort.Strings(out)
		return strings.Join(out, " ")
	}
	byID := func(id string) func(ssa.CallInstruction) bool {
		return func(ci ssa.CallInstruction) bool { return calleeID(ci.Common()) == id }
	}
	typed := func(id, typ string) func(ssa.CallInstruction) bool {
		return func(ci ssa.CallInstruction) bool {
			if calleeID(ci.Common()) != id || len(ci.Common().Args) < 2 {
				return false
			}
			s, ok := constString(strip(ci.Common().Args[1]))
			return ok && s == typ
		}
	}
	sf, rf := c.fn("trzszTransfer.sendFiles"), c.fn("trzszTransfer.recvFiles")
	for _, p := range [][2]string{{"sendFileNameV3", "recvFileNameV3"}, {"sendFileName", "recvFileName"}, {"sendFileDataV2", "recvFileDataV2"}, {"sendFileData", "recvFileData"}} {
		a, b := rangesOf(sf, byID(tT+p[0])), rangesOf(rf, byID(tT+p[1]))
		c.check(a == b && a != "", "version-range/"+p[0]+"~"+p[1], c.pos(sf.Pos()), "both roles take this step under protocol range "+a, "the sender takes this step under protocol "+a+", the receiver under "+b)
	}
	sp, rp := c.fn("trzszTransfer.sendPrefixHash"), c.fn("trzszTransfer.recvPrefixHash")
	a, b := rangesOf(sp, typed(tT+"sendInteger", "SIZE")), rangesOf(rp, typed(tT+"recvInteger", "SIZE"))
	c.check(a == b && a != "", "version-range/prefix-hash-SIZE", c.pos(sp.Pos()), "the source size travels as a separate message under protocol range "+a+" on both ends", "the sender announces the size under protocol "+a+", the receiver expects it under "+b)
}

// boolFieldFactAt: the dominating facts fix bool field `name` to a value at block b.
func boolFieldFactAt(b *ssa.BasicBlock, name string) (val, known bool) {
	for _, f := range factsAt(b) {
		if isFieldLoad(name)(f.V) {
			return f.Pol, true
		}
	}
	return false, false
}

// c01R8: what kind of entry (directory / archive stream / plain file) each end treats a source entry as is
// decided by the same flags with the same polarity, so an entry is never sent as one kind and stored as another.
func c01R8(c *Ctx) {
	want := func(f *ssa.Function, ci ssa.CallInstruction, key, fld string, val bool, okMsg, badMsg string) {
		v, known := boolFieldFactAt(ci.Block(), fld)
		c.check(known && v == val, c.fnName(f)+"/"+key, c.ipos(ci), okMsg, badMsg)
	}
	nilFirstReturn := func(f *ssa.Function, fld string) {
		n := 0
		eachInstr(f, func(in ssa.Instruction) {
			r, ok := in.(*ssa.Return)
			if !ok || !isNilErrReturn(in) || !isNilConst(retVal(r, 0)) {
				return
			}
			n++
			v, known := boolFieldFactAt(in.Block(), fld)
			c.check(known && v, c.fnName(f)+"/no-stream-iff-"+fld, c.ipos(in), "success without a data stream only for a directory entry", "success without a data stream is returned for something that is not a directory entry (its size/data/MD5 steps are then skipped)")
		})
		if n == 0 {
			c.bad(c.fnName(f)+"/no-stream-iff-"+fld, c.pos(f.Pos()), "no directory-entry exit found")
		}
	}
	for _, name := range []string{"trzszTransfer.sendFileName", "trzszTransfer.sendFileNameV3"} {
		f := c.fn(name)
		opens := callsIn(f, idIs("os.Open"))
		if len(opens) != 1 {
			c.lost("os.Open in " + name)
		}
		want(f, opens[0], "open-iff-not-dir", "IsDir", false, "the source file is opened only for a non-directory entry", "the source is opened on the directory edge (and a plain file is announced without data)")
		nilFirstReturn(f, "IsDir")
	}
	v3 := c.fn("trzszTransfer.sendFileNameV3")
	for _, ci := range callsIn(v3, idIs(tT+"newArchiveReader")) {
		good := false
		for _, f := range factsAt(ci.Block()) {
			op, x, y, ok := cmpFact(f)
			if call, _ := callOf(x); ok && op == token.GTR && isConstIntV(0)(y) && call != nil && calleeID(&call.Call) == "builtin len" {
				if isFieldLoad("SubFiles")(call.Call.Args[0]) {
					good = true
				}
			}
		}
		c.check(good, "sendFileNameV3/archive-iff-subfiles", c.ipos(ci), "an archive stream is produced exactly for an entry with sub-files (the flag the receiver sees is computed from the same test)", "the archive reader is chosen on the wrong edge of the sub-files test")
	}
	// the converse, universally: an entry flagged as an archive never succeeds without its stream being built —
	// whatever other flags it carries (an archive root is also a directory with sub-files)
	{
		isLenSub := func(v ssa.Value) bool {
			call, _ := callOf(v)
			return call != nil && calleeID(&call.Call) == "builtin len" && isFieldLoad("SubFiles")(call.Call.Args[0])
		}
		hit, path := reachFromE(v3.Blocks[0], 0, isNilErrReturn, c.orWrapper("archive-reader", func(in ssa.Instruction) bool {
			ci, ok := in.(ssa.CallInstruction)
			return ok && calleeID(ci.Common()) == tT+"newArchiveReader"
		}), contradicts([]assumption{valueIs(isLenSub, 2)}))
		c.check(hit == nil, "sendFileNameV3/subfiles=>archive-stream", c.pos(v3.Pos()), "an entry with sub-files always gets the archive reader", "an entry with sub-files can be announced without building the archive stream (its files are never sent, both ends report success)", c.pathStr(path)...)
		cd := c.fn("trzszTransfer.createDirOrFile")
		hit, path = reachFromE(cd.Blocks[0], 0, isNilErrReturn, c.orWrapper("archive-writer", func(in ssa.Instruction) bool {
			ci, ok := in.(ssa.CallInstruction)
			return ok && calleeID(ci.Common()) == tT+"newArchiveWriter"
		}), contradicts([]assumption{{pred: isFieldLoad("Archive"), val: true}}))
		c.check(hit == nil, "createDirOrFile/archive=>archive-writer", c.pos(cd.Pos()), "an entry flagged as archive always gets the archive writer", "an entry flagged as archive can be created without the archive writer (its stream is never unpacked, both ends report success)", c.pathStr(path)...)
	}
	m := c.fn("sourceFile.marshalSourceFile")
	okFlag := false
	eachInstr(m, func(in ssa.Instruction) {
		st, ok := in.(*ssa.Store)
		if !ok {
			return
		}
		if n, _ := fieldAddrName(st.Addr); n == "sourceFile.Archive" {
			if factPositive([]fact{{V: st.Val, Pol: true}}, func(v ssa.Value) bool {
				call, _ := callOf(v)
				return call != nil && calleeID(&call.Call) == "builtin len" && isFieldLoad("SubFiles")(call.Call.Args[0])
			}) {
				okFlag = true
			}
		}
	})
	c.check(okFlag, "marshalSourceFile/archive-flag", c.pos(m.Pos()), "the archive flag announced is len(SubFiles) > 0", "the archive flag announced is not len(SubFiles) > 0")
	cf := c.fn("trzszTransfer.createDirOrFile")
	for _, ci := range callsIn(cf, idIs(tT+"newArchiveWriter")) {
		want(cf, ci, "archive-writer-iff-flag", "Archive", true, "the archive writer is used exactly when the sender flagged an archive stream", "the archive writer is chosen on the wrong edge of the archive flag")
	}
	for _, ci := range callsIn(cf, idIs(tT+"doCreateFile")) {
		want(cf, ci, "file-iff-not-dir", "IsDir", false, "a plain file is created only for a non-directory entry", "a plain file is created for a directory entry")
		want(cf, ci, "file-iff-not-archive", "Archive", false, "a plain file is created only for a non-archive entry", "a plain file is created for an archive stream")
	}
	nilFirstReturn(cf, "IsDir")
}

// c01R9: the list of names reported to the user. In both per-file loops every name produced by the
// name step is appended to the returned list unless it is already in it, and the success return
// returns that list.
func c01R9(c *Ctx) {
	for _, side := range []struct {
		fn    string
		names []string
	}{
		{"trzszTransfer.sendFiles", []string{tT + "sendFileNameV3", tT + "sendFileName"}},
		{"trzszTransfer.recvFiles", []string{tT + "recvFileNameV3", tT + "recvFileName"}},
	} {
		f := c.fn(side.fn)
		fname := c.fnName(f)
		nameCalls := callsIn(f, idIs(side.names...))
		if len(nameCalls) != 2 {
			c.lost("the two name steps of " + side.fn)
		}
		isNameResult := func(v ssa.Value) bool {
			call, idx := callOf(v)
			return call != nil && idx == 1 && idIs(side.names...)(calleeID(&call.Call))
		}
		// appends of a name result
		var apps []*ssa.Call
		for _, ci := range callsIn(f, idIs("builtin append")) {
			call := ci.(*ssa.Call)
			els, ok := sliceElems(call.Call.Args[1])
			if !ok || len(els) != 1 || els[0].Spread {
				continue
			}
			all := true
			for _, l := range origins(els[0].V, originOpts{}) {
				if !isNameResult(l.V) {
					all = false
				}
			}
			if all {
				apps = append(apps, call)
			}
		}
		if len(apps) != 1 {
			c.bad(fname+"/names-append", c.pos(f.Pos()), fmt.Sprintf("expected one append of the step's name to the reported list, found %d", len(apps)))
			continue
		}
		app := apps[0]
		// the success return gives the list that append feeds
		okRet, nRet := true, 0
		eachInstr(f, func(in ssa.Instruction) {
			r, ok := in.(*ssa.Return)
			if !ok || !isNilErrReturn(in) {
				return
			}
			nRet++
			feeds := false
			for _, l := range origins(retVal(r, 0), originOpts{}) {
				if l.V == ssa.Value(app) {
					feeds = true
				}
			}
			if !feeds {
				okRet = false
			}
		})
		c.check(okRet && nRet > 0, fname+"/names-returned", c.ipos(app), "the success return gives the list the names are appended to", "the list returned on success is not the list the names are appended to")
		// every name reaches the append unless it is already listed
		inList := func(from, to *ssa.BasicBlock) bool {
			for _, fc := range edgeFactsTo(from, to) {
				if call, _ := callOf(fc.V); call != nil && calleeID(&call.Call) == "trzsz.containsString" && fc.Pol {
					return true
				}
			}
			return false
		}
		for _, nc := range nameCalls {
			next := func(in ssa.Instruction) bool {
				if isNilErrReturn(in) {
					return true
				}
				ci, ok := in.(ssa.CallInstruction)
				return ok && idIs(side.names...)(calleeID(ci.Common()))
			}
			hit, path := reachFromE(nc.Block(), instrIndex(nc.(ssa.Instruction))+1, next, func(in ssa.Instruction) bool { return in == ssa.Instruction(app) }, inList)
			c.check(hit == nil, fname+"/every-name-listed@"+shortID(calleeID(nc.Common())), c.ipos(nc), "each name reaches the append (or is already in the list) before the next file or the success return", "a name can be left out of the reported list", c.pathStr(path)...)
		}
	}
}

// c01Contains: the membership test behind the name list answers yes exactly on an equal element.
func c01Contains(c *Ctx) {
	f := c.fn("containsString")
	nT, nF := 0, 0
	eachInstr(f, func(in ssa.Instruction) {
		r, ok := in.(*ssa.Return)
		if !ok {
			return
		}
		b, isC := constBool(retVal(r, 0))
		if !isC {
			c.bad("containsString/result", c.ipos(in), "result is not a constant true/false")
			return
		}
		if b {
			nT++
			eq := factCmp(factsAt(in.Block()), token.EQL, isVar("v"), anyValue) || factCmp(factsAt(in.Block()), token.EQL, anyValue, isVar("v"))
			c.check(eq, "containsString/true-iff-equal", c.ipos(in), "'contained' is answered on the edge where an element equals the value", "'contained' is answered without an element being equal to the value")
		} else {
			nF++
			// only after the range is exhausted: not reachable from the equal edge
		}
	})
	c.check(nT == 1 && nF == 1, "containsString/shape", c.pos(f.Pos()), "one 'contained' exit (on equality) and one 'not contained' exit", "the membership test no longer has exactly one yes and one no exit")
}

func shortID(id string) string {
	if i := strings.LastIndex(id, "."); i >= 0 {
		return id[i+1:]
	}
	return id
}

// c01R10: the v1/v2 name step. The sender sends the JSON description exactly when directory mode was
// negotiated and the bare file name otherwise; the receiver decodes JSON exactly in directory mode and
// otherwise uses the received text as the name.
func c01R10(c *Ctx) {
	sf := c.fn("trzszTransfer.sendFileName")
	names := callsWithConstArg(sf, tT+"sendString", 1, "NAME")
	if len(names) != 1 {
		c.lost("sendString(\"NAME\") in sendFileName")
	}
	good, n := true, 0
	for _, l := range origins(names[0].Call.Args[2], originOpts{}) {
		n++
		call, idx := callOf(l.V)
		dir, known := false, false
		for _, f := range l.facts() {
			if isFieldLoad("Directory")(f.V) {
				dir, known = f.Pol, true
			}
		}
		switch {
		case call != nil && idx == 0 && calleeID(&call.Call) == "(*trzsz.sourceFile).marshalSourceFile":
			good = good && known && dir
		case call != nil && calleeID(&call.Call) == "(*trzsz.sourceFile).getFileName":
			good = good && known && !dir
		default:
			good = false
		}
	}
	c.check(good && n == 2, "sendFileName/payload-by-mode", c.ipos(names[0]), "NAME carries the JSON description in directory mode and the bare name otherwise", "the NAME payload is not (JSON in directory mode | bare file name otherwise)")
	rf := c.fn("trzszTransfer.recvFileName")
	rn := callsWithConstArg(rf, tT+"recvString", 1, "NAME")
	if len(rn) != 1 {
		c.lost("recvString(\"NAME\") in recvFileName")
	}
	recvd := extractOf(rn[0], 0)
	for _, ci := range callsIn(rf, idIs("trzsz.unmarshalSourceFile")) {
		v, known := boolFieldFactAt(ci.Block(), "Directory")
		c.check(known && v && sameValue(ci.Common().Args[0], recvd), "recvFileName/json-iff-directory", c.ipos(ci), "the received NAME is decoded as JSON exactly in directory mode", "the received NAME is decoded as JSON outside directory mode (or something else is decoded)")
	}
	for _, ci := range callsIn(rf, idIs(tT+"createFile")) {
		v, known := boolFieldFactAt(ci.Block(), "Directory")
		c.check(known && !v && sameValue(ci.Common().Args[2], recvd), "recvFileName/plain-iff-not-directory", c.ipos(ci), "outside directory mode the received text itself is the file name", "the plain-name path runs in directory mode (or with another name)")
	}
	for _, ci := range callsIn(rf, idIs(tT+"createDirOrFile")) {
		v, known := boolFieldFactAt(ci.Block(), "Directory")
		call, idx := callOf(ci.Common().Args[2])
		c.check(known && v && call != nil && idx == 0 && calleeID(&call.Call) == "trzsz.unmarshalSourceFile", "recvFileName/dir-entry-from-json", c.ipos(ci), "in directory mode the entry created is the one decoded from the NAME", "directory-mode creation does not use the decoded NAME")
	}
}

// c01R11: the number of per-file rounds. The sender announces len(list) and ranges over that same list;
// the receiver runs a counter from 0 in steps of 1 while it is below the announced number.
func c01R11(c *Ctx) {
	sf := c.fn("trzszTransfer.sendFiles")
	nums := callsIn(sf, idIs(tT+"sendFileNum"))
	if len(nums) != 1 {
		c.lost("sendFileNum in sendFiles")
	}
	lenCall, _ := callOf(nums[0].Common().Args[1])
	var list ssa.Value
	if lenCall != nil && calleeID(&lenCall.Call) == "builtin len" {
		list = lenCall.Call.Args[0]
	}
	ranged := false
	if list != nil {
		for _, nc := range callsIn(sf, idIs(tT+"sendFileNameV3", tT+"sendFileName")) {
			// the entry handed to the name step is an element of that list
			for _, l := range origins(nc.Common().Args[1], originOpts{throughElems: true}) {
				if sameValue(l.V, list) {
					ranged = true
				}
			}
		}
	}
	c.check(list != nil && ranged, "sendFiles/num=len(list ranged)", c.ipos(nums[0]), "the announced number is the length of the list whose entries are then sent", "the announced number of files is not the length of the list that is sent")
	rf := c.fn("trzszTransfer.recvFiles")
	rn := callsIn(rf, idIs(tT+"recvFileNum"))
	if len(rn) != 1 {
		c.lost("recvFileNum in recvFiles")
	}
	num := extractOf(rn[0].(*ssa.Call), 0)
	// a counter whose trip count is the announced number, in any of the usual spellings:
	// i:=0;i<num;i++ | i:=1;i<=num;i++ | i:=num;i>0;i-- | i:=num;i>=1;i--
	counts := func(fc fact) bool {
		op, x, y, ok := cmpFact(fc)
		if !ok {
			return false
		}
		swap := map[token.Token]token.Token{token.LSS: token.GTR, token.GTR: token.LSS, token.LEQ: token.GEQ, token.GEQ: token.LEQ}
		ph, isPhi := strip(x).(*ssa.Phi)
		bound := y
		if !isPhi {
			if ph, isPhi = strip(y).(*ssa.Phi); !isPhi {
				return false
			}
			bound = x
			if op, ok = swap[op]; !ok {
				return false
			}
		}
		var init ssa.Value
		step := int64(0)
		for _, e := range ph.Edges {
			b, isB := strip(e).(*ssa.BinOp)
			if isB && strip(b.X) == ssa.Value(ph) && isConstIntV(1)(b.Y) && (b.Op == token.ADD || b.Op == token.SUB) {
				st := int64(1)
				if b.Op == token.SUB {
					st = -1
				}
				if step != 0 && step != st {
					return false
				}
				step = st
				continue
			}
			if init != nil && !sameValue(init, e) {
				return false
			}
			init = e
		}
		if init == nil || step == 0 {
			return false
		}
		isNum := func(v ssa.Value) bool { return sameValue(v, num) }
		switch {
		case step == 1 && op == token.LSS && isConstIntV(0)(init) && isNum(bound):
			return true
		case step == 1 && op == token.LEQ && isConstIntV(1)(init) && isNum(bound):
			return true
		case step == -1 && op == token.GTR && isNum(init) && isConstIntV(0)(bound):
			return true
		case step == -1 && op == token.GEQ && isNum(init) && isConstIntV(1)(bound):
			return true
		}
		return false
	}
	good := false
	for _, nc := range callsIn(rf, idIs(tT+"recvFileNameV3", tT+"recvFileName")) {
		good = false
		for _, fc := range factsAt(nc.Block()) {
			if counts(fc) {
				good = true
			}
		}
		if !good {
			break
		}
	}
	// neither loop is left early with success: from inside a round, the success return is reachable only through the
	// loop's own exit test (counter exhausted / list exhausted)
	for _, side := range []struct {
		f     *ssa.Function
		names []string
	}{{sf, []string{tT + "sendFileNameV3", tT + "sendFileName"}}, {rf, []string{tT + "recvFileNameV3", tT + "recvFileName"}}} {
		for _, nc := range callsIn(side.f, idIs(side.names...)) {
			// the loop header: the closest dominating block that ends in an If and has a back edge from inside the loop
			var header *ssa.BasicBlock
			for d := nc.Block(); d != nil; d = d.Idom() {
				if blockIf(d) == nil {
					continue
				}
				back := false
				for _, p := range d.Preds {
					if d.Dominates(p) {
						back = true
					}
				}
				if back {
					header = d
					break
				}
			}
			if header == nil {
				c.bad(c.fnName(side.f)+"/no-early-success@"+shortID(calleeID(nc.Common())), c.ipos(nc), "the per-file loop around the name step was not found")
				continue
			}
			exit := func(from, to *ssa.BasicBlock) bool {
				return from == header && !header.Dominates(to) || (from == header && !reachesBlock(to, header))
			}
			hit, path := reachFromE(nc.Block(), instrIndex(nc.(ssa.Instruction))+1, isNilErrReturn, nil, exit)
			c.check(hit == nil, c.fnName(side.f)+"/no-early-success@"+shortID(calleeID(nc.Common())), c.ipos(nc), "success is returned only after the loop's own exit test ended it (every announced file had its round)", "the per-file loop can be left with success before all files had their round", c.pathStr(path)...)
		}
	}
	c.check(good, "recvFiles/rounds=announced", c.ipos(rn[0]), "the receiver runs one round per announced file (counter from 0, +1 per round, while below the number)", "the number of rounds the receiver runs is not tied to the announced number of files")
}

// c01R12: framing by mode. A length-prefixed (escaped) DATA frame is produced exactly on the binary edge and
// parsed exactly on the binary edge; the base64 line form on the other edge, on all four data paths.
func c01R12(c *Ctx) {
	type site struct {
		fn, id string
		binary bool
	}
	for _, s := range []site{
		{"trzszTransfer.sendData", tT + "sendBinary", false},
		{"trzszTransfer.sendData", "trzsz.escapeData", true},
		{"trzszTransfer.recvData", tT + "recvBinary", false},
		{"trzszTransfer.recvData", "(*trzsz.trzszBuffer).readBinary", true},
		{"trzszTransfer.recvData", "trzsz.unescapeData", true},
		{"trzszTransfer.pipelineRecvData$1", tT + "pipelineRecvBinaryData", true},
		{"trzszTransfer.pipelineRecvData$1", tT + "pipelineRecvBase64Data", false},
		{"sendDataWriter.deliver", "strconv.Itoa", true},
		{"trzszTransfer.sendDataV2", "fmt.Sprintf", true},
	} {
		f := c.fn(s.fn)
		calls := callsIn(f, idIs(s.id))
		if len(calls) == 0 {
			c.bad(c.fnName(f)+"/"+shortID(s.id)+"@binary="+fmt.Sprint(s.binary), c.pos(f.Pos()), "the call "+s.id+" this rule was confirmed on is gone")
			continue
		}
		for _, ci := range calls {
			v, known := boolFieldFactAt(ci.Block(), "Binary")
			c.check(known && v == s.binary, c.fnName(f)+"/"+shortID(s.id)+"@binary="+fmt.Sprint(s.binary), c.ipos(ci), "this framing step runs on the binary="+fmt.Sprint(s.binary)+" edge", "this framing step runs on the wrong edge of the binary-mode test: the peer frames/parses the other form")
		}
	}
}

// selectOtherArmEdge: from ends in `if selectIndex == k`, and to is the edge on which a different arm was chosen
// than the (send) arm k at state index `arm` of select sel.
func selectOtherArmEdge(sel *ssa.Select, arm int) func(from, to *ssa.BasicBlock) bool {
	return func(from, to *ssa.BasicBlock) bool {
		for _, f := range edgeFactsTo(from, to) {
			op, x, y, ok := cmpFact(f)
			if !ok || op != token.NEQ {
				continue
			}
			if e, isE := x.(*ssa.Extract); isE && e.Tuple == ssa.Value(sel) && e.Index == 0 && isConstIntV(int64(arm))(y) {
				return true
			}
		}
		return false
	}
}

// c01R13: the receive stage of the pipeline forwards every non-empty chunk, as the chunk itself or a full copy of
// it, acknowledges its length, and stops on the empty chunk.
func c01R13(c *Ctx) {
	f := c.fn("trzszTransfer.pipelineRecvData$1")
	recvs := callsIn(f, idIs(tT+"pipelineRecvBinaryData", tT+"pipelineRecvBase64Data"))
	if len(recvs) != 2 {
		c.lost("the two chunk receivers in pipelineRecvData")
	}
	isData := func(v ssa.Value) bool {
		n := 0
		for _, l := range origins(v, originOpts{}) {
			call, idx := callOf(l.V)
			if call == nil || idx != 0 || !idIs(tT+"pipelineRecvBinaryData", tT+"pipelineRecvBase64Data")(calleeID(&call.Call)) {
				return false
			}
			n++
		}
		return n == 2
	}
	isLenData := func(v ssa.Value) bool {
		call, _ := callOf(v)
		return call != nil && calleeID(&call.Call) == "builtin len" && isData(call.Call.Args[0])
	}
	var fwd, ack *ssa.Select
	fwdArm, ackArm := -1, -1
	eachInstr(f, func(in ssa.Instruction) {
		sel, ok := in.(*ssa.Select)
		if !ok {
			return
		}
		for i, st := range sel.States {
			if st.Send == nil {
				continue
			}
			switch chanName(st.Chan) {
			case "recvDataChan":
				fwd, fwdArm = sel, i
			case "ackChan":
				ack, ackArm = sel, i
			}
		}
	})
	if fwd == nil || ack == nil {
		c.lost("the forward / ack selects of pipelineRecvData")
	}
	c.check(isLenData(ack.States[ackArm].Send), "pipelineRecvData/ack=len(chunk)", c.ipos(ack), "the length acknowledged is the length of the chunk just received", "the acknowledged length is not the length of the received chunk")
	sent := fwd.States[fwdArm].Send
	faithful := isData(sent)
	if mk, ok := strip(sent).(*ssa.MakeSlice); ok && isLenData(mk.Len) {
		for _, ci := range callsIn(f, idIs("builtin copy")) {
			if ci.Common().Args[0] == ssa.Value(mk) && isData(ci.Common().Args[1]) && domI(ci.(ssa.Instruction), fwd) {
				faithful = true
			}
		}
	}
	c.check(faithful, "pipelineRecvData/forwards-faithful-copy", c.ipos(fwd), "what is forwarded is the chunk or a full copy of it (same length, filled by copy before the send)", "what is forwarded to the decoder is not the received chunk (missing copy / wrong length)")
	other := selectOtherArmEdge(ack, ackArm)
	otherF := selectOtherArmEdge(fwd, fwdArm)
	empty := func(from, to *ssa.BasicBlock) bool {
		return factZero(edgeFactsTo(from, to), isLenData)
	}
	for _, rc := range recvs {
		hit, path := reachFromE(rc.Block(), instrIndex(rc.(ssa.Instruction))+1, func(in ssa.Instruction) bool {
			if isReturn(in) {
				return true
			}
			ci, ok := in.(ssa.CallInstruction)
			return ok && idIs(tT+"pipelineRecvBinaryData", tT+"pipelineRecvBase64Data")(calleeID(ci.Common()))
		}, func(in ssa.Instruction) bool { return in == ssa.Instruction(fwd) || isCancelWithError(in) }, func(from, to *ssa.BasicBlock) bool {
			return other(from, to) || otherF(from, to) || empty(from, to) || ctxErrEdge(from, to)
		})
		c.check(hit == nil, "pipelineRecvData/no-chunk-dropped@"+shortID(calleeID(rc.Common())), c.ipos(rc), "a non-empty chunk always reaches the forward before the next receive or the end of the stage (other exits: cancel, cancelled context, empty chunk)", "a received non-empty chunk can be skipped", c.pathStr(path)...)
	}
	// the empty chunk ends the stage: no further receive after it
	for _, b := range f.Blocks {
		for _, sx := range b.Succs {
			if len(b.Succs) == 2 && b.Succs[0] != b.Succs[1] && empty(b, sx) {
				h2, p2 := reachFrom(sx, 0, func(in ssa.Instruction) bool {
					ci, ok := in.(ssa.CallInstruction)
					return ok && idIs(tT+"pipelineRecvBinaryData", tT+"pipelineRecvBase64Data")(calleeID(ci.Common()))
				}, nil)
				c.check(h2 == nil, "pipelineRecvData/empty-chunk-ends-stage", c.pos(b.Instrs[len(b.Instrs)-1].Pos()), "after the end-of-data chunk the stage receives nothing more", "after the end-of-data chunk the stage goes on receiving: it swallows the MD5 line that follows", c.pathStr(p2)...)
			}
		}
	}
	// the sending side of the same convention: the only empty chunk a file's writer delivers is the closing one
	wc := c.fn("sendDataWriter.Close")
	nEmpty, nData := 0, 0
	for _, ci := range callsIn(wc, idIs("(*trzsz.sendDataWriter).deliver")) {
		arg := ci.Common().Args[1]
		if bc, _ := callOf(arg); bc != nil && calleeID(&bc.Call) == "(*bytes.Buffer).Bytes" {
			nData++
			pos := factPositive(factsAt(ci.Block()), func(v ssa.Value) bool {
				lc, _ := callOf(v)
				return lc != nil && calleeID(&lc.Call) == "(*bytes.Buffer).Len" && (sameAddr(lc.Call.Args[0], bc.Call.Args[0]) || sameValue(lc.Call.Args[0], bc.Call.Args[0]))
			})
			c.check(pos, "sendDataWriter.Close/flush-only-nonempty", c.ipos(ci), "the rest of the buffer is delivered only when it is not empty (an empty chunk means end of data)", "an empty rest of the buffer can be delivered: the receiver takes it for the end-of-data marker and the real marker that follows breaks the exchange")
			continue
		}
		if els, ok := sliceElems(arg); ok && len(els) == 0 {
			nEmpty++
		} else if sl, isS := strip(arg).(*ssa.Slice); isS {
			if al, isAl := sl.X.(*ssa.Alloc); isAl && arrayLen(al) == 0 {
				nEmpty++
			}
		}
	}
	{
		// universal form: no successful exit of Close without the end marker having been delivered
		isEnd := func(in ssa.Instruction) bool {
			ci, ok := in.(ssa.CallInstruction)
			if !ok || calleeID(ci.Common()) != "(*trzsz.sendDataWriter).deliver" {
				return false
			}
			arg := ci.Common().Args[1]
			if els, ok := sliceElems(arg); ok && len(els) == 0 {
				return true
			}
			if sl, isS := strip(arg).(*ssa.Slice); isS {
				if al, isAl := sl.X.(*ssa.Alloc); isAl && arrayLen(al) == 0 {
					return true
				}
			}
			return false
		}
		hitE, pathE := reachFrom(wc.Blocks[0], 0, isNilErrReturn, c.orWrapper("end-marker", isEnd))
		c.check(hitE == nil, "sendDataWriter.Close/always-end-marker", c.pos(wc.Pos()), "Close succeeds only after delivering the end-of-data marker", "Close can succeed without delivering the end-of-data marker: the sending stage never learns that the file is complete and both ends wait", c.pathStr(pathE)...)
	}
	c.check(nEmpty == 1 && nData == 1, "sendDataWriter.Close/one-end-marker", c.pos(wc.Pos()), "closing a file's writer delivers the rest of the buffer and then exactly one empty chunk", fmt.Sprintf("closing a file's writer delivers %d data chunk(s) and %d empty chunk(s); expected 1 and 1", nData, nEmpty))
	// the binary receiver reads a payload exactly when the announced chunk size is not zero
	bf := c.fn("trzszTransfer.pipelineRecvBinaryData")
	for _, ci := range callsIn(bf, idIs("(*trzsz.trzszBuffer).readBinary")) {
		sz := ci.Common().Args[1]
		good := factCmp(factsAt(ci.Block()), token.NEQ, func(v ssa.Value) bool { return sameValue(v, sz) }, isConstIntV(0)) ||
			factCmp(factsAt(ci.Block()), token.GTR, func(v ssa.Value) bool { return sameValue(v, sz) }, isConstIntV(0))
		c.check(good, "pipelineRecvBinaryData/payload-iff-size-nonzero", c.ipos(ci), "a payload is read on the size != 0 edge (size 0 is the end marker)", "the payload read sits on the wrong edge of the size == 0 test")
	}
	// the stage ends (without cancelling) only on the empty chunk or a cancelled context
	hit, path := reachFromE(fwd.Block(), instrIndex(fwd)+1, isReturn, func(in ssa.Instruction) bool {
		if ci, ok := in.(ssa.CallInstruction); ok && idIs(tT+"pipelineRecvBinaryData", tT+"pipelineRecvBase64Data")(calleeID(ci.Common())) {
			return true // the next round
		}
		return isCancelWithError(in)
	}, func(from, to *ssa.BasicBlock) bool {
		return otherF(from, to) || ctxErrEdge(from, to) || empty(from, to)
	})
	c.check(hit == nil, "pipelineRecvData/continues-after-forward", c.ipos(fwd), "after forwarding a chunk the stage goes on receiving", "the stage can end right after forwarding a chunk although more data is owed", c.pathStr(path)...)
}

// reachesBlock: block `to` is reachable from block `from` in the CFG.
func reachesBlock(from, to *ssa.BasicBlock) bool {
	seen := map[*ssa.BasicBlock]bool{}
	var walk func(b *ssa.BasicBlock) bool
	walk = func(b *ssa.BasicBlock) bool {
		if b == to {
			return true
		}
		if seen[b] {
			return false
		}
		seen[b] = true
		for _, s := range b.Succs {
			if walk(s) {
				return true
			}
		}
		return false
	}
	return walk(from)
}
