package main

// C10 — stopping: stop plumbing and deletion scope.

import (
	"go/token"
	"strings"

	"trzszlint/xssa"
)

func init() {
	register("C10", 30, "Decided (for every path of the current source): (R1) the buffer wait has a stop arm and stopBuffer is a non-blocking send on a buffered channel; (R2) the stop entry point latches once (first stop wins), records the flavour and wakes the reader on every path that latches; (R3) every function that emits DATA/SUCC payload or starts a read checks stop first and returns its error, every failed buffer read is translated through the stop check, the pause loop re-checks stop each iteration; (R4) RemoveAll only iterates the created-files list, which is appended only right after a successful OpenFile/MkdirAll-when-absent of that same path, and the deleting function is called only on the stop-and-delete edge (client) / the peer-said-stopped-and-deleted edge (server); (R5) the message compared on the server is the message of the error the stopping side sends; (R6) the flavour is published before (or atomically with) the latch, only by the call that latches. Success-for-incomplete-file is excluded by C02's gates (shared). Not decided: promptness in wall-clock time, every stop point x schedule, the peer's reaction. (R8) SIGINT/SIGTERM on the servers reach the stop entry point of the transfer they run; (R9) Ctrl-C reaches the stop question (pause first) and its answers map to continue / stop-keep / stop-delete; deleted paths are reported only when removed.",
		func(c *Ctx) {
			c.run("C10-R1", "SELECT-ARM: stop wakes the blocked reader", c10R1)
			c.run("C10-R2", "MUST-PASS: the stop entry point latches, records the flavour and wakes the reader", c10R2)
			c.run("C10-R3", "MUST-PASS: stop is observed before every send/receive and after every failed read", c10R3)
			c.run("C10-R4", "WHO-CALLS/GUARD-DOM: deletion scope", c10R4)
			c.run("C10-R5", "LITERAL: stop-and-delete message agreement", c10R5)
			c.run("C10-R6", "ORDER: flavour visible to whoever sees the latch; first stop wins", func(c *Ctx) { c10R6(c); c10R6Reader(c) })
			c.run("C10-R7", "WHO-CALLS: the stop error travels unwrapped from the stop check to the reporter", c10R7)
			c.run("C10-R9", "MUST-PASS/GUARD-DOM: Ctrl-C reaches the stop question; its answers map to their actions", c10R9)
			c.run("C10-R10", "LAUNCH: the stop question and the signal waiters are started with go", c10Launch)
			c.run("C10-R11", "GUARD-DOM: chunk times that feed the stop's clean-up wait are not recorded for chunks acknowledged across a pause", c10ChunkTimes)
			c.run("C10-R12", "ORDER: the receiver takes a chunk's begin time anew before every attempt to read its line", c10BeginPerAttempt)
			c.run("C10-R13", "WHO-CALLS: what a cancelled step reports is the recorded cause, not the context's own error", c10Cause)
			c.run("C10-S1", "shared with C07-R4: a directory is created — and so recorded for stop-and-delete — only when it did not exist", c07R4)
			c.run("C10-S2", "shared with C18-R3: resume records its time and clears the pause start, which keeps the time spent paused out of the chunk times that size the drain a stop waits for", c18R3)
			c.run("C10-R8", "MUST-PASS/WHO-CALLS: SIGINT/SIGTERM on the server reach the stop entry point", c10R8)
			c.run("C10-S", "shared with C02: success only after the digest compare and the saved==size gate", func(c *Ctx) { c02Digest(c); c02SavedSize(c) })
		})
}

func c10R1(c *Ctx) {
	nb := c.fn("trzszBuffer.nextBuffer")
	ok := false
	eachInstr(nb, func(in ssa.Instruction) {
		if sel, isSel := in.(*ssa.Select); isSel && sel.Blocking {
			for _, st := range sel.States {
				if st.Send == nil && chanName(st.Chan) == "stopCh" {
					ok = true
				}
			}
		}
	})
	c.check(ok, "nextBuffer/stop-arm", c.pos(nb.Pos()), "the blocking wait has a stop arm", "the buffer's blocking wait has no stop arm")
	// the stop arm returns errStopped
	sb := c.fn("trzszBuffer.stopBuffer")
	nonBlocking := false
	eachInstr(sb, func(in ssa.Instruction) {
		if sel, isSel := in.(*ssa.Select); isSel && !sel.Blocking {
			for _, st := range sel.States {
				if st.Send != nil && chanName(st.Chan) == "stopCh" {
					nonBlocking = true
				}
			}
		}
		if _, isSend := in.(*ssa.Send); isSend {
			nonBlocking = false
		}
	})
	c.check(nonBlocking, "stopBuffer/non-blocking", c.pos(sb.Pos()), "stopBuffer is a non-blocking send", "stopBuffer can block the caller (the UI goroutine)")
	nbuf := c.fn("newTrzszBuffer")
	capOK := false
	eachInstr(nbuf, func(in ssa.Instruction) {
		if mc, ok := in.(*ssa.MakeChan); ok {
			if n, isC := constInt(mc.Size); isC && n >= 1 {
				for _, r := range referrersOf(mc) {
					if st, ok := r.(*ssa.Store); ok {
						if nm, ok := fieldAddrName(st.Addr); ok && nm == "trzszBuffer.stopCh" {
							capOK = true
						}
					}
				}
			}
		}
	})
	c.check(capOK, "newTrzszBuffer/stopCh-buffered", c.pos(nbuf.Pos()), "the stop channel is buffered, so a stop sent while nobody reads is not lost", "the stop channel is unbuffered: a stop sent while the reader is busy is lost")
}

func isStoppedLatch(in ssa.Instruction) bool {
	ci, ok := in.(ssa.CallInstruction)
	if !ok {
		return false
	}
	if isAtomicOnField(ci, "stopped", "CompareAndSwap") {
		b, isC := constBool(ci.Common().Args[2])
		return isC && b
	}
	if isAtomicOnField(ci, "stopped", "Store") {
		b, isC := constBool(ci.Common().Args[1])
		return isC && b
	}
	return false
}

func c10R2(c *Ctx) {
	f := c.fn("trzszTransfer.stopTransferringFiles")
	var latch ssa.Instruction
	eachInstr(f, func(in ssa.Instruction) {
		if isStoppedLatch(in) {
			latch = in
		}
	})
	if latch == nil {
		c.bad("stop/latch", c.pos(f.Pos()), "the stop entry point never latches the stopped flag")
		return
	}
	isFlavour := func(in ssa.Instruction) bool {
		ci, ok := in.(ssa.CallInstruction)
		return ok && isAtomicOnField(ci, "stopAndDelete", "Store", "CompareAndSwap") && isVar("stopAndDelete")(ci.Common().Args[len(ci.Common().Args)-1])
	}
	isWake := func(in ssa.Instruction) bool {
		ci, ok := in.(ssa.CallInstruction)
		return ok && calleeID(ci.Common()) == "(*trzsz.trzszBuffer).stopBuffer"
	}
	// every path that passes the latch and reaches a return also passes flavour + wake (in any order relative to the latch)
	for name, pred := range map[string]func(ssa.Instruction) bool{"flavour": isFlavour, "wake": isWake} {
		// paths entry -> return that contain the latch winning: approximate by: pred dominates latch, or every path latch->return passes pred
		dom := false
		eachInstr(f, func(in ssa.Instruction) {
			if pred(in) && domI(in, latch) {
				dom = true
			}
		})
		if dom {
			c.ok("stop/"+name, c.ipos(latch), name+" is set before the latch on every latching path")
			continue
		}
		start := latch.Block()
		idx := instrIndex(latch) + 1
		eb := func(from, to *ssa.BasicBlock) bool { return false }
		// if the latch is a CAS, only the won edge counts
		if call, ok := latch.(*ssa.Call); ok {
			for _, r := range referrersOf(call) {
				if i, ok := r.(*ssa.If); ok {
					nf := normFact(fact{V: i.Cond, Pol: true})
					lost := i.Block().Succs[1]
					if !nf.Pol {
						lost = i.Block().Succs[0]
					}
					ib := i.Block()
					eb = func(from, to *ssa.BasicBlock) bool { return from == ib && to == lost }
				}
			}
		}
		hit, path := reachFromE(start, idx, isReturn, pred, eb)
		c.check(hit == nil, "stop/"+name, c.ipos(latch), "every latching path records the "+name, "a path latches the stop without "+name, c.pathStr(path)...)
	}
}

func c10R3(c *Ctx) {
	isStopCheck := func(in ssa.Instruction) bool {
		ci, ok := in.(ssa.CallInstruction)
		return ok && idIs(tT+"checkStop", tT+"checkStopAndPause")(calleeID(ci.Common()))
	}
	isIO := func(in ssa.Instruction) bool {
		ci, ok := in.(ssa.CallInstruction)
		if !ok {
			return false
		}
		return idIs(tT+"writeAll", tT+"sendBinary", tT+"sendLine", tT+"sendInteger", "(*trzsz.trzszBuffer).readLine", "(*trzsz.trzszBuffer).readLineOnWindows", "(*trzsz.trzszBuffer).readBinary")(calleeID(ci.Common()))
	}
	for _, name := range []string{"trzszTransfer.sendData", "trzszTransfer.sendDataV2", "trzszTransfer.recvLine"} {
		f := c.fn(name)
		hit, path := reachFrom(f.Blocks[0], 0, isIO, isStopCheck)
		c.check(hit == nil, name+"/stop-first", c.pos(f.Pos()), "the stop check precedes any send/receive", "data can be sent/received without checking stop first", c.pathStr(path)...)
		// and its error is returned
		for _, ci := range callsIn(f, idIs(tT+"checkStop", tT+"checkStopAndPause")) {
			call, ok := ci.(*ssa.Call)
			if !ok {
				continue
			}
			u := classifyErrUse(call)
			good := !u.dropped
			for _, t := range u.tests {
				if okE, _ := failEdge(c, t.Block(), nonNilEdge(t)); !okE {
					good = false
				}
			}
			c.check(good, name+"/stop-error-returned", c.ipos(call), "a pending stop is returned as the error", "the stop check's result is ignored")
		}
	}
	// ack writer: each ack write is gated in the same iteration
	sa := c.fn("trzszTransfer.pipelineSendAck$1")
	isAckWrite := func(in ssa.Instruction) bool {
		ci, ok := in.(ssa.CallInstruction)
		return ok && idIs(tT+"writeAll", tT+"sendInteger")(calleeID(ci.Common()))
	}
	hit, path := reachFrom(sa.Blocks[0], 0, isAckWrite, isStopCheck)
	c.check(hit == nil, "pipelineSendAck/gate-first", c.pos(sa.Pos()), "no ack is written before the stop/pause gate", "an ack can be written without passing the stop/pause gate", c.pathStr(path)...)
	n := 0
	eachInstr(sa, func(in ssa.Instruction) {
		if !isAckWrite(in) {
			return
		}
		n++
		hit, path := reachAvoid(in, isAckWrite, isStopCheck)
		c.check(hit == nil, "pipelineSendAck/gate-each-ack", c.ipos(in), "the gate is passed again before the next ack", "two acks can be written with no stop/pause gate in between", c.pathStr(path)...)
	})
	if n < 2 {
		c.undecided("pipelineSendAck/acks", "expected per-chunk and final ack writes")
	}
	// failed buffer reads are translated through the stop check
	nr := 0
	for _, f := range c.AllFns {
		if f.Signature.Recv() == nil || c.fnName(f)[:min(14, len(c.fnName(f)))] != "trzszTransfer." {
			continue
		}
		for _, ci := range callsIn(f, idIs("(*trzsz.trzszBuffer).readLine", "(*trzsz.trzszBuffer).readLineOnWindows", "(*trzsz.trzszBuffer).readBinary")) {
			call, ok := ci.(*ssa.Call)
			if !ok {
				continue
			}
			nr++
			u := classifyErrUse(errorValueOf(call))
			good := len(u.tests) > 0
			for _, t := range u.tests {
				k := nonNilEdge(t)
				// on the error edge, every return is preceded by a stop check
				hit, _ := reachFrom(t.Block().Succs[k], 0, isReturn, isStopCheck)
				if hit != nil {
					good = false
				}
			}
			c.check(good, c.fnName(f)+"/failed-read=>stop-check", c.ipos(call), "a failed read is reported as Stopped when a stop is pending", "a read that failed because of a stop is reported as a timeout/other error")
		}
	}
	if nr < 4 {
		c.undecided("read-sites", "expected four buffer read sites in the transfer")
	}
	// pause loop: re-check stop each iteration, and return the stop check at the end
	g := c.fn("trzszTransfer.checkStopAndPause")
	for _, ci := range callsIn(g, idIs("time.Sleep")) {
		hit, path := reachAvoid(ci.(ssa.Instruction), func(x ssa.Instruction) bool { return x == ci.(ssa.Instruction) }, func(x ssa.Instruction) bool {
			c2, ok := x.(ssa.CallInstruction)
			return ok && calleeID(c2.Common()) == tT+"checkStop"
		})
		c.check(hit == nil, "checkStopAndPause/loop-rechecks-stop", c.ipos(ci), "each pause-loop iteration re-checks stop", "the pause loop can spin without checking stop", c.pathStr(path)...)
	}
	// the same for every loop in the package that waits on the pause flag (the stop does not clear that flag: a pause loop
	// that does not look at the stop spins for ever after stop-during-pause): from the flag's true edge, the flag is not
	// read again without a stop check whose error leaves the function
	nPL := 0
	for _, pf := range c.AllFns {
		for _, b := range pf.Blocks {
			i := blockIf(b)
			if i == nil {
				continue
			}
			nf := normFact(fact{V: i.Cond, Pol: true})
			call, _ := callOf(nf.V)
			if call == nil || !isAtomicOnField(call, "pausing", "Load") {
				continue
			}
			k := 0
			if !nf.Pol {
				k = 1
			}
			// is it a loop: the load is reachable again from the true edge
			again, _ := reachFrom(b.Succs[k], 0, func(x ssa.Instruction) bool { return x == ssa.Instruction(call) }, nil)
			if again == nil {
				continue
			}
			nPL++
			hit, path := reachFrom(b.Succs[k], 0, func(x ssa.Instruction) bool { return x == ssa.Instruction(call) }, func(x ssa.Instruction) bool {
				c2, ok := x.(*ssa.Call)
				if !ok || calleeID(&c2.Call) != tT+"checkStop" {
					return false
				}
				u := classifyErrUse(c2)
				if len(u.tests) == 0 {
					return false
				}
				for _, t := range u.tests {
					if okE, _ := failEdge(c, t.Block(), nonNilEdge(t)); !okE {
						return false
					}
				}
				return true
			})
			c.check(hit == nil, "pause-loop/"+c.fnName(pf)+"/rechecks-stop", c.ipos(i), "each round of the pause wait checks for a stop and leaves with its error", "a wait on the pause flag can go round without checking for a stop (a stop during a pause is never seen: the wait spins for ever)", c.pathStr(path)...)
		}
	}
	if nPL < 2 {
		c.undecided("pause-loop/sites", "fewer waits on the pause flag than expected")
	}
	okTail := true
	nret := 0
	eachInstr(g, func(in ssa.Instruction) {
		r, ok := in.(*ssa.Return)
		if !ok {
			return
		}
		nret++
		v := retVal(r, 0)
		for _, l := range origins(v, originOpts{}) {
			call, _ := callOf(l.V)
			if call == nil || !idIs(tT+"checkStop", tT+"writeAll")(calleeID(&call.Call)) {
				okTail = false
			}
		}
	})
	c.check(okTail && nret > 0, "checkStopAndPause/returns-stop", c.pos(g.Pos()), "the gate returns the stop check's verdict", "the gate can return nil although a stop is pending")
}

func min(a, b int) int {
	if a < b {
		return a
	}
	return b
}

func c10R4(c *Ctx) {
	// removal only of created-files elements: shared with C07-R1 'remove' kind
	for _, s := range c.fsSites(c.recvRoots()) {
		if s.Kind != "remove" {
			continue
		}
		arg := s.Call.Common().Args[0]
		good := true
		n := 0
		for _, l := range origins(arg, originOpts{throughElems: true}) {
			n++
			if _, f, ok := fieldOf(l.V); !ok || f != "createdFiles" {
				good = false
			}
		}
		c.check(good && n > 0, c.fnName(s.Fn)+"/"+s.ID+"<-createdFiles", c.ipos(s.Call), "only recorded paths are removed", "a path that was not recorded as created can be removed")
	}
	// every recorded path is either already gone or removed: no other way round the loop
	df := c.fn("trzszTransfer.deleteCreatedFiles")
	var rm ssa.Instruction
	for _, ci := range callsIn(df, idIs("os.RemoveAll", "os.Remove")) {
		rm = ci.(ssa.Instruction)
	}
	if rm != nil {
		// the loop header: the block that loads the next element
		for _, b := range df.Blocks {
			if b.Comment != "rangeindex.body" {
				continue
			}
			goneEdge := func(from, to *ssa.BasicBlock) bool {
				i := blockIf(from)
				if i == nil || from.Succs[0] != to {
					return false
				}
				call, _ := callOf(i.Cond)
				return call != nil && calleeID(&call.Call) == "os.IsNotExist"
			}
			hit, path := reachFromE(b, 0, func(x ssa.Instruction) bool { return x.Block().Comment == "rangeindex.loop" && instrIndex(x) == 0 }, func(x ssa.Instruction) bool { return x == rm }, goneEdge)
			c.check(hit == nil, "deleteCreatedFiles/every-entry", c.pos(df.Pos()), "each recorded path is removed unless it no longer exists", "a recorded path can be skipped by the delete loop: stop-and-delete leaves files of this transfer behind", c.pathStr(path)...)
		}
	}
	// the loop is left only when the list is exhausted (no early break that leaves recorded paths behind)
	for _, b := range df.Blocks {
		if b.Comment != "rangeindex.body" {
			continue
		}
		exhausted := func(from, to *ssa.BasicBlock) bool {
			return from.Comment == "rangeindex.loop" && to.Comment == "rangeindex.done"
		}
		hit, path := reachFromE(b, 0, isReturn, nil, exhausted)
		c.check(hit == nil, "deleteCreatedFiles/whole-list", c.pos(df.Pos()), "the delete loop ends only when every recorded path has been visited", "the delete loop can end before the list is exhausted: stop-and-delete leaves files of this transfer behind", c.pathStr(path)...)
	}
	// what is reported as deleted: a path is put on the reported list only on the edge where its removal succeeded
	for _, ci := range callsIn(df, idIs("builtin append")) {
		if rm == nil {
			break
		}
		rmErr := rm.(*ssa.Call)
		good := factCmp(factsAt(ci.Block()), token.EQL, isValue(rmErr), isNilConst)
		els, ok := sliceElems(ci.Common().Args[1])
		same := ok && len(els) == 1 && sameValue(els[0].V, rmErr.Call.Args[0])
		c.check(good && same, "deleteCreatedFiles/reported=removed", c.ipos(ci), "a path is reported as deleted only on the edge where removing that path succeeded", "a path is reported as deleted although its removal failed (or another path is reported)")
	}
	// writers of createdFiles
	nw := 0
	for _, f := range c.AllFns {
		eachInstr(f, func(in ssa.Instruction) {
			st, ok := in.(*ssa.Store)
			if !ok {
				return
			}
			if n, ok := fieldAddrName(st.Addr); ok && n == "trzszTransfer.createdFiles" {
				nw++
				c.check(c.fnName(f) == "trzszTransfer.addCreatedFiles", "createdFiles/writer."+c.fnName(f), c.ipos(st), "the list is appended by its single recorder", "the created-files list is written outside its recorder")
			}
		})
	}
	if nw == 0 {
		c.undecided("createdFiles/writers", "no writer of the created-files list found")
	}
	rec := c.fn("trzszTransfer.addCreatedFiles")
	for _, cs := range c.callersOf(rec) {
		fs := factsAt(cs.Instr.Block())
		p := cs.Instr.Common().Args[1]
		good := false
		for _, ci := range callsIn(cs.Caller, idIs("os.OpenFile", "os.MkdirAll")) {
			call := ci.(*ssa.Call)
			if !sameValue(call.Call.Args[0], p) || !domI(call, cs.Instr.(ssa.Instruction)) {
				continue
			}
			if isNil, _ := factNil(fs, errorValueOf(call)); isNil {
				good = true
			}
		}
		c.check(good, "record/"+c.fnName(cs.Caller), c.ipos(cs.Instr), "a path is recorded only right after it was successfully created/opened by this transfer", "a path is recorded as created without a successful create of that same path")
	}
	// and the converse: whatever receiving creates is recorded — from the success edge of every create-file / create-directory
	// site reachable while receiving, no exit is reachable without the recorder being called for that same path
	nCreate := 0
	for _, s := range c.fsSites(c.recvRoots()) {
		if s.Kind != "open" && s.Kind != "mkdir" {
			continue
		}
		call, isCall := s.Call.(*ssa.Call)
		if !isCall {
			continue
		}
		nCreate++
		p := call.Call.Args[0]
		ev := errorValueOf(call)
		hit, path := reachFromE(call.Block(), instrIndex(call)+1, isReturn, func(in ssa.Instruction) bool {
			ci, ok := in.(ssa.CallInstruction)
			return ok && ci.Common().StaticCallee() == rec && sameValue(ci.Common().Args[1], p)
		}, func(from, to *ssa.BasicBlock) bool {
			_, nonNil := factNil(edgeFactsTo(from, to), ev)
			return nonNil
		})
		c.check(hit == nil, "created=>recorded/"+c.fnName(s.Fn)+"/"+s.ID, c.ipos(call), "what this site creates is always recorded for stop-and-delete", "a file or directory created while receiving is not recorded on some path: stop-and-delete leaves it behind", c.pathStr(path)...)
	}
	if nCreate < 2 {
		c.undecided("created=>recorded/sites", "fewer create sites than expected")
	}
	// the recorder always appends
	{
		hit, path := reachFrom(rec.Blocks[0], 0, isReturn, func(in ssa.Instruction) bool {
			st, ok := in.(*ssa.Store)
			if !ok {
				return false
			}
			n, _ := fieldAddrName(st.Addr)
			return n == "trzszTransfer.createdFiles"
		})
		c.check(hit == nil, "addCreatedFiles/always-appends", c.pos(rec.Pos()), "the recorder appends on every path", "the recorder can return without recording", c.pathStr(path)...)
	}
	// who deletes
	del := c.fn("trzszTransfer.deleteCreatedFiles")
	for _, cs := range c.callersOf(del) {
		caller := c.fnName(cs.Caller)
		fs := factsAt(cs.Instr.Block())
		good := false
		switch caller {
		case "trzszTransfer.clientError":
			for _, fc := range fs {
				if call, _ := callOf(fc.V); call != nil && fc.Pol && isAtomicOnField(call, "stopAndDelete", "Load") {
					good = true
				}
			}
		case "trzszTransfer.serverError":
			good = len(factCalls(fs, "(*trzsz.trzszError).isStopAndDelete", true)) > 0
		}
		c.check(good, "delete/"+caller, c.ipos(cs.Instr), "deletion only on the stop-and-delete edge", "created files can be deleted without a stop-and-delete")
	}
	// and the converse, universally: when the stop asks for deletion, no exit of the reporter avoids the delete
	{
		isCallTo := func(id string) func(ssa.Value) bool {
			return func(v ssa.Value) bool { call, _ := callOf(v); return call != nil && calleeID(&call.Call) == id }
		}
		okT := func(v ssa.Value) bool {
			e, isE := v.(*ssa.Extract)
			if !isE || e.Index != 1 {
				return false
			}
			_, ta := e.Tuple.(*ssa.TypeAssert)
			return ta
		}
		isDel := func(in ssa.Instruction) bool {
			ci, ok := in.(ssa.CallInstruction)
			return ok && ci.Common().StaticCallee() == del
		}
		se := c.fn("trzszTransfer.serverError")
		hit, path := reachFromE(se.Blocks[0], 0, isReturn, c.orWrapper("delete-created", isDel), contradicts([]assumption{{pred: okT, val: true}, {pred: isCallTo("(*trzsz.trzszError).isStopAndDelete"), val: true}}))
		c.check(hit == nil, "delete-always/trzszTransfer.serverError", c.pos(se.Pos()), "a peer's stop-and-delete always reaches the delete", "the server can finish reporting a peer's stop-and-delete without deleting what it created (the half-written files stay)", c.pathStr(path)...)
		ce := c.fn("trzszTransfer.clientError")
		hit, path = reachFromE(ce.Blocks[0], 0, isReturn, c.orWrapper("delete-created", isDel), contradicts([]assumption{
			{pred: func(v ssa.Value) bool {
				call, _ := callOf(v)
				return call != nil && isAtomicOnField(call, "stopAndDelete", "Load")
			}, val: true},
			{pred: isCallTo("(*trzsz.trzszError).isRemoteExit"), val: false},
			{pred: isCallTo("(*trzsz.trzszError).isRemoteFail"), val: false},
		}))
		c.check(hit == nil, "delete-always/trzszTransfer.clientError", c.pos(ce.Pos()), "the user's stop-and-delete always reaches the delete", "the client can finish reporting the user's stop-and-delete without deleting what it created", c.pathStr(path)...)
	}
}

func c10R5(c *Ctx) {
	f := c.fn("trzszError.isStopAndDelete")
	isGlobMsg := func(v ssa.Value) bool {
		base, fld, ok := fieldOf(v)
		if !ok || fld != "message" {
			return false
		}
		u, ok := base.(*ssa.UnOp)
		if !ok {
			return false
		}
		g, ok := u.X.(*ssa.Global)
		return ok && g.Name() == "errStoppedAndDeleted"
	}
	isOwnMsg := func(v ssa.Value) bool { return isFieldLoad("message")(v) && !isGlobMsg(v) }
	n := 0
	eachInstr(f, func(in ssa.Instruction) {
		r, ok := in.(*ssa.Return)
		if !ok {
			return
		}
		v := strip(r.Results[0])
		if b, isC := constBool(v); isC && !b {
			return // a "no" answer
		}
		n++
		// a "yes" (or a computed answer) is decided by equality of the whole message with the stop-and-delete error's own message
		eqHere := factCmp([]fact{{V: v, Pol: true}}, token.EQL, isOwnMsg, isGlobMsg)
		eqBefore := factCmp(factsAt(r.Block()), token.EQL, isOwnMsg, isGlobMsg)
		isTrue := false
		if b, isC := constBool(v); isC && b {
			isTrue = true
		}
		good := eqHere || (isTrue && eqBefore)
		c.check(good, "isStopAndDelete/message", c.ipos(r), "the peer's message is compared, as a whole, with the stop-and-delete error's own message", "stop-and-delete is not decided by equality with the message the stopping side sends (a prefix / substring test, or another stop error, also matches a plain stop: the server deletes files it must keep)")
		c.check(factCmp(factsAt(r.Block()), token.EQL, isFieldLoad("errType"), isConstStrV("fail")), "isStopAndDelete/type", c.ipos(r), "only a peer 'fail' line can request deletion", "stop-and-delete accepted for other line types")
	})
	if n == 0 {
		c.bad("isStopAndDelete/message", c.pos(f.Pos()), "isStopAndDelete never answers yes: stop-and-delete cannot reach the server")
	}
	// checkStop hands out exactly that error for the delete flavour
	g := c.fn("trzszTransfer.checkStop")
	eachInstr(g, func(in ssa.Instruction) {
		r, ok := in.(*ssa.Return)
		if !ok {
			return
		}
		u, ok := strip(r.Results[0]).(*ssa.UnOp)
		if !ok {
			return
		}
		gl, ok := u.X.(*ssa.Global)
		if !ok {
			return
		}
		del := false
		for _, fc := range factsAt(r.Block()) {
			if call, _ := callOf(fc.V); call != nil && fc.Pol && isAtomicOnField(call, "stopAndDelete", "Load") {
				del = true
			}
		}
		if gl.Name() == "errStoppedAndDeleted" {
			c.check(del, "checkStop/delete-flavour", c.ipos(r), "the delete error is returned on the stopAndDelete edge", "the delete error is returned without the delete flavour")
		} else if del {
			c.bad("checkStop/delete-flavour", c.ipos(r), "on the stopAndDelete edge a different error is returned")
		}
	})
	// truth table of checkStop: not stopped -> nil; stopped -> one of the two stop errors, chosen by the flavour, on EVERY exit
	atomLoad := func(field string) func(ssa.Value) bool {
		return func(v ssa.Value) bool {
			call, _ := callOf(v)
			return call != nil && isAtomicOnField(call, field, "Load")
		}
	}
	for _, row := range []struct {
		nm   string
		as   []assumption
		want string // "" = nil
	}{
		{"running", []assumption{{pred: atomLoad("stopped"), val: false}}, ""},
		{"stopped", []assumption{{pred: atomLoad("stopped"), val: true}, {pred: atomLoad("stopAndDelete"), val: false}}, "errStopped"},
		{"stopped+delete", []assumption{{pred: atomLoad("stopped"), val: true}, {pred: atomLoad("stopAndDelete"), val: true}}, "errStoppedAndDeleted"},
	} {
		reach := blocksUnder(g, row.as)
		nRet := 0
		eachInstr(g, func(in ssa.Instruction) {
			r, ok := in.(*ssa.Return)
			if !ok || !reach[in.Block()] {
				return
			}
			nRet++
			got := "?"
			if isNilConst(retVal(r, 0)) {
				got = ""
			} else if u, ok := strip(r.Results[0]).(*ssa.UnOp); ok {
				if gl, ok := u.X.(*ssa.Global); ok {
					got = gl.Name()
				}
			}
			c.check(got == row.want, "checkStop/answer@"+row.nm, c.ipos(r), "checkStop answers "+map[bool]string{true: "nil", false: row.want}[row.want == ""]+" here", "for '"+row.nm+"' checkStop answers "+map[bool]string{true: "nil (the stop is not seen by the step that asked)", false: got}[got == ""]+" instead of "+map[bool]string{true: "nil", false: row.want}[row.want == ""])
		})
		if nRet == 0 {
			c.bad("checkStop/answer@"+row.nm, c.pos(g.Pos()), "no exit of checkStop is reachable for this case")
		}
	}
	// the stopping client sends err.Error() with a non-trace type: errStoppedAndDeleted is created without trace
	init := c.fn("init")
	found := false
	eachInstr(init, func(in ssa.Instruction) {
		st, ok := in.(*ssa.Store)
		if !ok {
			return
		}
		gl, ok := st.Addr.(*ssa.Global)
		if !ok || gl.Name() != "errStoppedAndDeleted" {
			return
		}
		call, _ := callOf(st.Val)
		found = call != nil && calleeID(&call.Call) == "trzsz.simpleTrzszError"
	})
	c.check(found, "errStoppedAndDeleted/simple", "", "the stop-and-delete error is a plain (non-trace) error, so it travels as a 'fail' line", "the stop-and-delete error is not a plain error: it would be sent as FAIL and not be recognised")
}

func c10R6(c *Ctx) {
	f := c.fn("trzszTransfer.stopTransferringFiles")
	var latch, flavour ssa.Instruction
	eachInstr(f, func(in ssa.Instruction) {
		if isStoppedLatch(in) {
			latch = in
		}
		if ci, ok := in.(ssa.CallInstruction); ok && isAtomicOnField(ci, "stopAndDelete", "Store", "CompareAndSwap") {
			flavour = in
		}
	})
	if latch == nil || flavour == nil {
		c.lost("latch/flavour stores in stopTransferringFiles")
	}
	c.check(domI(flavour, latch) && flavour != latch, "stop/flavour-before-latch", c.ipos(flavour), "the flavour is stored before the latch becomes visible",
		"the flavour is stored after the latch is visible: a stage that checks in between reports plain 'Stopped', so the peer is not told to delete")
	// first stop wins: the flavour store is reached only by the call that latches
	lr := findLockAny(f)
	guarded := false
	for _, fc := range factsAt(flavour.Block()) {
		if call, _ := callOf(fc.V); call != nil && !fc.Pol && isAtomicOnField(call, "stopped", "Load") && lr != nil && lr.held(call) && lr.held(flavour) && lr.held(latch) {
			guarded = true
		}
		if call, _ := callOf(fc.V); call != nil && fc.Pol && call == latch {
			guarded = true // after winning the CAS
		}
	}
	c.check(guarded, "stop/first-stop-wins", c.ipos(flavour), "the flavour is written only by the call that latches (a later stop cannot change it)", "a second stop request can overwrite the flavour of the first")
}

func c10R6Reader(c *Ctx) {
	g := c.fn("trzszTransfer.checkStop")
	var ls, lf ssa.Instruction
	for _, ci := range callsIn(g, anyID) {
		if isAtomicOnField(ci, "stopped", "Load") && ls == nil {
			ls = ci.(ssa.Instruction)
		}
		if isAtomicOnField(ci, "stopAndDelete", "Load") && lf == nil {
			lf = ci.(ssa.Instruction)
		}
	}
	if ls == nil || lf == nil {
		c.lost("loads of stopped/stopAndDelete in checkStop")
	}
	c.check(domI(ls, lf) && ls != lf, "checkStop/latch-read-first", c.ipos(lf), "the reader loads the latch before the flavour (matching the writer's order)",
		"the reader loads the flavour before the latch: it can see flavour=false, then latch=true, and report a plain stop for a stop-and-delete")
}

// findLockAny: the first mutex Lock in f, whatever field.
func findLockAny(f *ssa.Function) *lockRegion {
	var field string
	eachInstr(f, func(in ssa.Instruction) {
		if ci, ok := in.(ssa.CallInstruction); ok && field == "" && calleeID(ci.Common()) == "(*sync.Mutex).Lock" {
			if n, ok := fieldAddrName(ci.Common().Args[0]); ok {
				field = n[len("trzszTransfer."):]
			}
		}
	})
	if field == "" {
		return nil
	}
	return findLock(f, field)
}

// stopErrFuncs: functions whose returned error may be the stop check's own error value
// (fixed point over "returns the error result of a function in the set, unwrapped").
func (c *Ctx) stopErrFuncs() map[*ssa.Function]bool {
	set := map[*ssa.Function]bool{c.fn("trzszTransfer.checkStop"): true}
	changed := true
	for changed {
		changed = false
		for _, f := range c.AllFns {
			if set[f] {
				continue
			}
			ei := errIndex(f.Signature)
			if ei < 0 {
				continue
			}
			eachInstr(f, func(in ssa.Instruction) {
				r, ok := in.(*ssa.Return)
				if !ok || set[f] {
					return
				}
				for _, l := range origins(retVal(r, ei), originOpts{}) {
					call, _ := callOf(l.V)
					if call == nil {
						continue
					}
					if callee := call.Call.StaticCallee(); callee != nil && set[callee] {
						set[f] = true
						changed = true
					}
				}
			})
		}
	}
	return set
}

var wrapCalls = map[string]bool{"trzsz.simpleTrzszError": true, "trzsz.newTrzszError": true, "fmt.Errorf": true, "fmt.Sprintf": true, "errors.New": true}

// c10R7: an error that may be the stop error is never re-wrapped on its way to the reporter
// (the peer recognises stop-and-delete by the exact message).
func c10R7(c *Ctx) {
	set := c.stopErrFuncs()
	n := 0
	for _, f := range c.AllFns {
		eachInstr(f, func(in ssa.Instruction) {
			call, ok := in.(*ssa.Call)
			if !ok {
				return
			}
			callee := call.Call.StaticCallee()
			if callee == nil || !set[callee] {
				return
			}
			ev := errorValueOf(call)
			if ev == nil {
				return
			}
			n++
			// does ev flow (through interface conversions / varargs slices) into a wrapping call?
			wrapped := ssa.Instruction(nil)
			seen := map[ssa.Value]bool{}
			var walk func(v ssa.Value)
			walk = func(v ssa.Value) {
				if seen[v] {
					return
				}
				seen[v] = true
				for _, r := range referrersOf(v) {
					switch x := r.(type) {
					case *ssa.MakeInterface:
						walk(x)
					case *ssa.ChangeInterface:
						walk(x)
					case *ssa.Phi:
						walk(x)
					case *ssa.Store:
						// element of a varargs array
						if ia, ok := x.Addr.(*ssa.IndexAddr); ok {
							for _, r2 := range referrersOf(ia.X) {
								if sl, ok := r2.(*ssa.Slice); ok {
									walk(sl)
								}
							}
						}
					case *ssa.Call:
						if wrapCalls[calleeID(&x.Call)] {
							wrapped = x
						}
					}
				}
			}
			walk(ev)
			c.check(wrapped == nil, "stop-error-unwrapped/"+c.fnName(f)+"<-"+c.fnName(callee), c.ipos(call),
				"an error that may be the stop error is passed on unchanged", "an error that may be 'Stopped and deleted' is re-wrapped in a new message: the peer no longer recognises it and does not delete")
		})
	}
	if n < 40 {
		c.undecided("stop-error-sites", "fewer call sites of stop-error functions than expected")
	}
}

// c10R8: the server's signal path. SIGINT and SIGTERM are routed to a channel; the goroutine that receives
// from that channel calls the stop entry point of the transfer the server then runs, on every path.
func c10R8(c *Ctx) {
	h := c.fn("handleServerSignal")
	g := c.fn("handleServerSignal$1")
	var notify ssa.CallInstruction
	for _, ci := range callsIn(h, idIs("os/signal.Notify")) {
		notify = ci
	}
	if notify == nil {
		c.bad("handleServerSignal/notify", c.pos(h.Pos()), "signals are no longer routed to the stop goroutine (no signal.Notify)")
		return
	}
	els, ok := sliceElems(notify.Common().Args[1])
	hasInt, hasTerm := false, false
	if ok {
		for _, e := range els {
			v := strip(e.V)
			if u, isU := v.(*ssa.UnOp); isU {
				if gl, isG := u.X.(*ssa.Global); isG && gl.Name() == "Interrupt" {
					hasInt = true
				}
			}
			if k, isK := constInt(v); isK && k == 15 {
				hasTerm = true
			}
		}
	}
	c.check(hasInt && hasTerm, "handleServerSignal/signals", c.ipos(notify), "SIGINT and SIGTERM are both routed to the stop goroutine", "SIGINT / SIGTERM is not routed to the stop goroutine")
	// the goroutine: receive on the notified channel, then stop
	var recv ssa.Instruction
	eachInstr(g, func(in ssa.Instruction) {
		if u, ok := in.(*ssa.UnOp); ok && u.Op == token.ARROW && c.sharesSite(u.X, notify.Common().Args[0]) {
			recv = in
		}
	})
	if recv == nil {
		c.bad("handleServerSignal/receives", c.pos(g.Pos()), "the stop goroutine does not receive from the channel the signals are delivered to")
		return
	}
	isStop := func(in ssa.Instruction) bool {
		ci, ok := in.(ssa.CallInstruction)
		return ok && calleeID(ci.Common()) == tT+"stopTransferringFiles" && isVar("transfer")(ci.Common().Args[0])
	}
	hit, path := reachAvoid(recv, isReturn, isStop)
	c.check(hit == nil, "handleServerSignal/signal=>stop", c.ipos(recv), "after a signal every path calls the stop entry point of the transfer it was given", "a signal can be consumed without stopping the transfer", c.pathStr(path)...)
	started := false
	eachInstr(h, func(in ssa.Instruction) {
		if gi, ok := in.(*ssa.Go); ok {
			if mc, ok := gi.Call.Value.(*ssa.MakeClosure); ok && mc.Fn == ssa.Value(g) && domI(notify.(ssa.Instruction), gi) {
				started = true
			}
		}
	})
	c.check(started, "handleServerSignal/goroutine-started", c.pos(h.Pos()), "the stop goroutine is started after the signals are routed", "the stop goroutine is not started")
	// both servers install it for the transfer they run, before running it
	for _, m := range []struct{ main, worker string }{{"TrzMain", "trzsz.recvFiles"}, {"TszMain", "trzsz.sendFiles"}} {
		mf := c.fn(m.main)
		calls := callsIn(mf, idIs("trzsz.handleServerSignal"))
		good := len(calls) == 1
		if good {
			tr := calls[0].Common().Args[0]
			found := false
			for _, sub := range withAnons(mf) {
				for _, w := range callsIn(sub, idIs(m.worker)) {
					if c.sharesSite(w.Common().Args[0], tr) || sameValue(w.Common().Args[0], tr) {
						found = true
					}
				}
			}
			good = found
		}
		c.check(good, m.main+"/installs-signal-stop", c.pos(mf.Pos()), "the server installs the signal handler for the transfer it runs", "the server does not install the signal handler for the transfer it runs")
	}
}

// c10R9: the client's stop question. Ctrl-C while a transfer is active always reaches the stop question (newer
// servers) or a plain stop (older ones); the question pauses the transfer first; and its answer maps to actions:
// 0 -> stop and keep, 1 -> stop and delete, 2 or a failed prompt -> continue. The public StopTransferringFiles
// forwards its flavour to the active transfer.
func c10R9(c *Ctx) {
	si := c.fn("TrzszFilter.sendInput")
	isStopish := func(in ssa.Instruction) bool {
		ci, ok := in.(ssa.CallInstruction)
		if !ok {
			return false
		}
		id := calleeID(ci.Common())
		return id == "(*trzsz.TrzszFilter).confirmStopTransfer" || id == tT+"stopTransferringFiles"
	}
	// the Ctrl-C edge: len(buf)==1 && buf[0]==3 while transfer != nil
	n := 0
	for _, b := range si.Blocks {
		i := blockIf(b)
		if i == nil {
			continue
		}
		op, _, y, ok := cmpFact(normFact(fact{V: i.Cond, Pol: true}))
		if !ok || op != token.EQL || !isConstIntV(3)(y) {
			continue
		}
		tr := false
		for _, fc := range factsAt(b) {
			o2, x2, y2, ok2 := cmpFact(fc)
			if ok2 && o2 == token.NEQ && isNilConst(y2) {
				if call, _ := callOf(x2); call != nil && isAtomicOnField(call, "transfer", "Load") {
					tr = true
				}
			}
		}
		if !tr {
			continue
		}
		n++
		hit, path := reachFrom(b.Succs[0], 0, isReturn, isStopish)
		c.check(hit == nil, "sendInput/ctrl-c=>stop", c.ipos(i), "a lone Ctrl-C during a transfer always reaches the stop question or a stop", "a Ctrl-C typed during a transfer can be swallowed without stopping or asking", c.pathStr(path)...)
	}
	if n == 0 {
		c.bad("sendInput/ctrl-c=>stop", c.pos(si.Pos()), "the Ctrl-C test of the input handler (under an active transfer) was not found")
	}
	cs := c.fn("TrzszFilter.confirmStopTransfer")
	g := c.fn("TrzszFilter.confirmStopTransfer$1")
	pauses := callsIn(cs, idIs(tT+"pauseTransferringFiles"))
	started := false
	eachInstr(cs, func(in ssa.Instruction) {
		if gi, ok := in.(*ssa.Go); ok {
			if mc, ok := gi.Call.Value.(*ssa.MakeClosure); ok && mc.Fn == ssa.Value(g) && len(pauses) == 1 && domI(pauses[0].(ssa.Instruction), gi) {
				started = true
			}
		}
	})
	c.check(started, "confirmStopTransfer/pause-before-question", c.pos(cs.Pos()), "the transfer is paused before the question is shown", "the stop question is shown without pausing the transfer first")
	runs := callsIn(g, idIs("(*github.com/trzsz/promptui.Select).Run"))
	if len(runs) != 1 {
		c.lost("prompt.Run in the stop question")
	}
	idx := extractOf(runs[0].(*ssa.Call), 0)
	perr := extractOf(runs[0].(*ssa.Call), 2)
	isIdx := func(v ssa.Value) bool { return sameValue(v, idx) }
	errIsNil := func(val bool) assumption {
		return assumption{val: val, cmp: func(op token.Token, x, y ssa.Value) (bool, bool) {
			if (op != token.EQL && op != token.NEQ) || !sameValue(x, perr) || !isNilConst(y) {
				return false, false
			}
			return true, op == token.EQL
		}}
	}
	type want struct {
		name   string
		as     []assumption
		resume bool
		stop   int // -1 none, 0 keep, 1 delete
	}
	for _, w := range []want{
		{"prompt-failed", []assumption{errIsNil(false)}, true, -1},
		{"continue", []assumption{errIsNil(true), valueIs(isIdx, 2)}, true, -1},
		{"stop-keep", []assumption{errIsNil(true), valueIs(isIdx, 0)}, false, 0},
		{"stop-delete", []assumption{errIsNil(true), valueIs(isIdx, 1)}, false, 1},
	} {
		reach := blocksUnder(g, w.as)
		gotResume, gotStop := false, -1
		bad := false
		for _, ci := range callsIn(g, idIs(tT+"resumeTransferringFiles", tT+"stopTransferringFiles")) {
			if !reach[ci.Block()] {
				continue
			}
			if calleeID(ci.Common()) == tT+"resumeTransferringFiles" {
				gotResume = true
				continue
			}
			b, isC := constBool(ci.Common().Args[1])
			k := 0
			if b {
				k = 1
			}
			if !isC || (gotStop != -1 && gotStop != k) {
				bad = true
			}
			gotStop = k
		}
		c.check(!bad && gotResume == w.resume && gotStop == w.stop, "confirmStopTransfer/answer="+w.name, c.ipos(runs[0]), "this answer leads to exactly its action (continue / stop and keep / stop and delete)", "the answer '"+w.name+"' of the stop question leads to the wrong action")
	}
	// SIGINT delivered to the wrapper process itself is a plain stop (files are kept)
	if hsf := c.Funcs["handleSignal$2"]; hsf != nil {
		for _, ci := range callsIn(hsf, idIs("(*trzsz.TrzszFilter).StopTransferringFiles")) {
			b, isC := constBool(ci.Common().Args[1])
			c.check(isC && !b, "handleSignal/plain-stop", c.ipos(ci), "a SIGINT to the wrapper stops the transfer and keeps the files", "a SIGINT to the wrapper stops AND DELETES the transferred files")
		}
	}
	api := c.fn("TrzszFilter.StopTransferringFiles")
	good := false
	for _, ci := range callsIn(api, idIs(tT+"stopTransferringFiles")) {
		if isVar("stopAndDelete")(ci.Common().Args[1]) {
			good = true
		}
	}
	c.check(good, "StopTransferringFiles/forwards", c.pos(api.Pos()), "the public stop call forwards its flavour to the active transfer", "the public stop call does not stop the active transfer with the requested flavour")
}

// c10ChunkTimes: how long the stop's clean-up waits for the line to go quiet is derived from the recorded chunk
// times (stopTransferringFiles: twice the largest, at least 500 ms). A chunk acknowledged across a pause took as
// long as the user looked at the stop question; recording it makes a later stop wait twice that long. In the ack
// stage the recording therefore sits with the statistics that the pause suspends: under "the post-pause countdown
// is still running and the size probing is over" no recording is reachable.
func c10ChunkTimes(c *Ctx) {
	af := c.fn("trzszTransfer.pipelineRecvAck$1")
	// the countdown, by role: an integer variable (phi) that is decremented by one somewhere in the stage
	isCountdown := func(v ssa.Value) bool {
		p, ok := v.(*ssa.Phi)
		if !ok {
			return false
		}
		for _, r := range referrersOf(p) {
			if b, isB := r.(*ssa.BinOp); isB && b.Op == token.SUB && b.X == ssa.Value(p) && isConstIntV(1)(b.Y) {
				return true
			}
		}
		return false
	}
	isPhase := func(v ssa.Value) bool {
		call, _ := callOf(v)
		return call != nil && isAtomicOnField(call, "bufInitPhase", "Load")
	}
	found := false
	eachInstr(af, func(in ssa.Instruction) {
		if p, ok := in.(*ssa.Phi); ok && isCountdown(p) {
			found = true
		}
	})
	if !found {
		// the countdown kept in a struct: `x.n = x.n - 1`. It has to be the same struct from ack to ack; a copy made
		// for each ack (a method with a value receiver, a struct passed by value) forgets the countdown at once.
		lost := false
		var where ssa.Instruction
		eachInstr(af, func(in ssa.Instruction) {
			st, ok := in.(*ssa.Store)
			if !ok {
				return
			}
			fa, ok := st.Addr.(*ssa.FieldAddr)
			if !ok {
				return
			}
			b, ok := st.Val.(*ssa.BinOp)
			if !ok || b.Op != token.SUB || !isConstIntV(1)(b.Y) {
				return
			}
			ld, ok := b.X.(*ssa.UnOp)
			if !ok || ld.Op != token.MUL {
				return
			}
			fa2, ok := ld.X.(*ssa.FieldAddr)
			if !ok || fa2.Field != fa.Field || fa2.X != fa.X {
				return
			}
			if intoLocalCopy(fa) {
				if a, isA := fa.X.(*ssa.Alloc); isA {
					for _, r := range referrersOf(a) {
						if s2, isS := r.(*ssa.Store); isS && s2.Addr == ssa.Value(a) {
							lost, where = true, in // the whole struct is stored into the local first: a copy
						}
					}
				}
			}
		})
		if lost {
			c.bad("pipelineRecvAck/post-pause-countdown-persists", c.ipos(where), "the countdown that suspends the chunk-time statistics after a pause is decremented in a copy of the struct that holds it (value receiver / by-value parameter): it never counts down, every ack in flight across a pause is timed with the pause included, and a later stop waits twice that long before telling the peer")
			return
		}
		c.undecided("pipelineRecvAck/post-pause-countdown", "the countdown that suspends the statistics after a pause was not found")
		return
	}
	reach := blocksUnder(af, []assumption{valueIs(isCountdown, 5), {pred: isPhase, val: false}})
	n := 0
	for _, ci := range callsIn(af, anyID) {
		g := ci.Common().StaticCallee()
		if g == nil {
			continue
		}
		records := calleeID(ci.Common()) == tT+"setLastChunkTime"
		if !records && c.inPkg(g) && len(g.Blocks) > 0 {
			// one level of helper
			records = len(callsIn(g, idIs(tT+"setLastChunkTime"))) > 0
		}
		if !records {
			continue
		}
		n++
		c.check(!reach[ci.Block()], "pipelineRecvAck/no-chunk-time-across-a-pause", c.ipos(ci), "chunk times are recorded only where the post-pause countdown has run out (or the size is still being probed)", "the time of a chunk acknowledged across a pause is recorded: the next stop waits twice the length of that pause before it tells the peer")
	}
	if n == 0 {
		c.undecided("pipelineRecvAck/no-chunk-time-across-a-pause", "the ack stage records no chunk time")
	}
}

// c10BeginPerAttempt: on the receiving side the time a chunk took is measured from the last attempt to read its line:
// every time recvCheckV2 goes round (a keep-alive of a paused peer, a read retried after a local pause) the begin time
// is taken again before the next read. Measured from the first attempt instead, the chunk acknowledged after a pause
// carries the whole pause, and the next stop waits twice that long (stopTransferringFiles) before telling the peer.
func c10BeginPerAttempt(c *Ctx) {
	f := c.fn("trzszTransfer.recvCheckV2")
	var read ssa.Instruction
	for _, ci := range callsIn(f, idIs(tT+"recvLine")) {
		read = ci.(ssa.Instruction)
	}
	if read == nil {
		c.lost("recvLine call in recvCheckV2")
	}
	isNow := func(in ssa.Instruction) bool {
		call, ok := in.(*ssa.Call)
		if !ok {
			return false
		}
		if u, isU := call.Call.Value.(*ssa.UnOp); isU {
			if g, isG := u.X.(*ssa.Global); isG && g.Name() == "timeNowFunc" {
				return true
			}
		}
		return calleeID(&call.Call) == "time.Now"
	}
	again, _ := reachAvoid(read, func(x ssa.Instruction) bool { return x == read }, nil)
	if again == nil {
		c.undecided("recvCheckV2/begin-time-per-attempt", "the line read is no longer retried in a loop")
		return
	}
	hit, path := reachAvoid(read, func(x ssa.Instruction) bool { return x == read }, isNow)
	c.check(hit == nil, "recvCheckV2/begin-time-per-attempt", c.ipos(read), "the begin time is taken anew before every attempt to read the line", "the line can be read again without taking the begin time again: a chunk acknowledged after a pause is recorded with the whole pause, and the next stop waits twice that long", c.pathStr(path)...)
}

// c10Cause: the per-file steps run under a context cancelled with a cause (the stop error, the peer's failure).
// What they return goes to clientError / serverError, which tell "Stopped and deleted" from anything else by the
// error's type and message. ctx.Err() of such a context is always context.Canceled: a step that returns it loses the
// stop, the peer is sent a traced failure instead of the stop message and keeps the partial file.
func c10Cause(c *Ctx) {
	n := 0
	for _, name := range []string{"trzszTransfer.sendPrefixHash", "trzszTransfer.recvPrefixHash", "trzszTransfer.sendFileDataV2", "trzszTransfer.recvFileDataV2"} {
		f := c.fn(name)
		ei := errIndex(f.Signature)
		if ei < 0 {
			continue
		}
		eachInstr(f, func(in ssa.Instruction) {
			r, ok := in.(*ssa.Return)
			if !ok {
				return
			}
			for _, l := range origins(retVal(r, ei), originOpts{}) {
				call, _ := callOf(l.V)
				if call == nil {
					continue
				}
				n++
				isErr := call.Call.IsInvoke() && call.Call.Method.Name() == "Err" && strings.HasSuffix(call.Call.Value.Type().String(), "context.Context")
				c.check(!isErr, name+"/returns-cause-not-ctx-err", c.ipos(r), "an error taken from the context is its recorded cause", "the step returns ctx.Err() — always 'context canceled' — instead of the recorded cause: a stop (and delete) is reported as an ordinary failure and the peer keeps the partial file")
			}
		})
	}
	if n == 0 {
		c.undecided("returns-cause-not-ctx-err", "no error returns found in the per-file steps")
	}
}
