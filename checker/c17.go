package main

// C17 — only the authenticated tunnel connection is ever used, and only one.

import (
	"go/token"
	"strings"

	"trzszlint/xssa"
)

func init() {
	register("C17", 20, "Decided (for every path of the current source): (R1) the server adopts a connection only by CAS from nil, only on the path where the read succeeded and the bytes read equal the client greeting derived by getHelloConstant; nothing is written to a connection before that equality; every other path closes it; (R2) tunnelConn is written at exactly the two adoption sites and tunnel-flagged input is wrapped only there; (R3) the client hands over a connection only when write ok, read ok, reply == server greeting and not timed out, all other paths close it; (R4) greetings come from getHelloConstant with the trigger's/server's id and port; (R5) in-band bytes are not enqueued once the tunnel is agreed; (R6) the client's wait is bounded by a timer arm and a deferred WaitGroup.Done, the writer switches only on a non-nil connection; (R7) the relay adopts by CAS only after both greetings matched. Not decided: arrival-order races in time, connector misbehaviour. Added to R7: the adopted pair is bound to the relay before both of its pumps start.",
		func(c *Ctx) {
			c.run("C17-R1", "GUARD-DOM/MUST-PASS: server adoption gate", c17R1)
			c.run("C17-R2", "WHO-WRITES: tunnelConn writers and tunnel-flagged input wrapping", c17R2)
			c.run("C17-R3", "GUARD-DOM/MUST-PASS: client hand-over gate", c17R3)
			c.run("C17-R4", "WHO-CALLS: greetings derive from the transfer's id and port", c17R4)
			c.run("C17-R5", "GUARD-DOM: in-band bytes are dropped once the tunnel is agreed", c17R5)
			c.run("C17-R6", "SELECT-ARM/PAIR: bounded wait for the tunnel, fallback keeps the in-band writer", c17R6)
			c.run("C17-S1", "shared with C13-R5: the tunnel pumps look up their relay per chunk (a finished transfer's tunnel cannot feed the next handshake), park first while handshaking, forward on their own direction", c13R5)
			c.run("C17-R7", "GUARD-DOM: relay adoption gate", c17R7)
			c.run("C17-R8", "LAUNCH: accept loops, greeting checks, the timed dial and the tunnel pumps are started with go", c17Launch)
			c.run("C17-S2", "shared with C14-R7: the relay routes its own lines through the tunnel only when both ends agreed to use it (else the answer lands in a connection nobody reads and the in-band fallback fails)", c14R7)
			c.run("C17-S3", "shared with C13-R7: each tunnel pump reads its own connection (bytes of one end are never looped back to it)", c13Sides)
		})
}

// greetingEq: fact that string(buf[:n]) of a Read on connection conn equals the variable named hello.
func greetingEqFacts(fs []fact, hello func(ssa.Value) bool) []*ssa.Call {
	var reads []*ssa.Call
	for _, f := range fs {
		op, x, y, ok := cmpFact(f)
		if !ok || op != token.EQL {
			continue
		}
		for _, pr := range [][2]ssa.Value{{x, y}, {y, x}} {
			if !hello(pr[1]) {
				continue
			}
			// pr[0] = string(buf[:n]) with n = result 0 of a Read into buf
			sl, ok := strip(pr[0]).(*ssa.Slice)
			if !ok || sl.High == nil || sl.Low != nil {
				continue
			}
			rc, idx := callOf(sl.High)
			if rc == nil || idx != 0 || !rc.Call.IsInvoke() || rc.Call.Method.Name() != "Read" {
				continue
			}
			if !sameValue(rc.Call.Args[0], sl.X) {
				continue
			}
			// the buffer must be larger than any greeting (fixed size, >= 64): read into a buffer of exactly the
			// greeting's length, "equal" only means "starts with" — a longer greeting (another port with the same
			// leading digits, a greeting followed by payload) is accepted
			if n := constBufLen(rc.Call.Args[0]); n < 64 {
				continue
			}
			reads = append(reads, rc)
		}
	}
	return reads
}

func isCloseOn(in ssa.Instruction, conn func(ssa.Value) bool) bool {
	call, ok := in.(*ssa.Call)
	return ok && call.Call.IsInvoke() && call.Call.Method.Name() == "Close" && conn(call.Call.Value)
}

func isAtomicOnField(ci ssa.CallInstruction, field string, methods ...string) bool {
	id := calleeID(ci.Common())
	if !strings.HasPrefix(id, "(*sync/atomic.") {
		return false
	}
	okM := false
	for _, m := range methods {
		if strings.HasSuffix(id, ")."+m) {
			okM = true
		}
	}
	if !okM || len(ci.Common().Args) == 0 {
		return false
	}
	n, ok := fieldAddrName(ci.Common().Args[0])
	return ok && strings.HasSuffix(n, "."+field)
}

func c17R1(c *Ctx) {
	f := c.fn("trzszTransfer.acceptOnTunnel$1$1")
	isConn := isVar("conn")
	var cas ssa.CallInstruction
	for _, ci := range callsIn(f, anyID) {
		if isAtomicOnField(ci, "tunnelConn", "CompareAndSwap") {
			cas = ci
		}
	}
	if cas == nil {
		c.bad("accept/adopt-by-CAS", c.pos(f.Pos()), "the server no longer adopts the tunnel connection by compare-and-swap")
		return
	}
	c.check(isNilConst(cas.Common().Args[1]), "accept/CAS-from-nil", c.ipos(cas), "adoption is a CAS from nil (at most one)", "adoption CAS does not start from nil")
	fs := factsAt(cas.Block())
	reads := greetingEqFacts(fs, helloPred(0))
	okRead := false
	for _, rc := range reads {
		if isConn(rc.Call.Value) {
			if isNil, _ := factNil(fs, extractOf(rc, 1)); isNil {
				okRead = true
			}
		}
	}
	c.check(okRead, "accept/CAS.guard", c.ipos(cas), "adoption only after Read succeeded and the bytes equal the client greeting", "adoption not dominated by read-ok && greeting == clientHello")
	// no write before the equality
	for _, ci := range callsIn(f, anyID) {
		call, ok := ci.(*ssa.Call)
		if !ok || !call.Call.IsInvoke() || call.Call.Method.Name() != "Write" || !isConn(call.Call.Value) {
			continue
		}
		g := len(greetingEqFacts(factsAt(call.Block()), helloPred(0))) > 0
		c.check(g, "accept/no-answer-before-auth", c.ipos(call), "nothing is written to the connection before the greeting matched", "the server answers a connection whose greeting was not verified")
		c.check(helloPred(1)(strip(call.Call.Args[0])), "accept/answer=serverHello", c.ipos(call), "the answer is the server greeting", "the answer written is not the server greeting")
	}
	// every path to return closes the connection or went through the CAS
	hit, path := reachFrom(f.Blocks[0], 0, isReturn, func(in ssa.Instruction) bool {
		return isCloseOn(in, isConn) || in == cas.(ssa.Instruction)
	})
	c.check(hit == nil, "accept/reject-closes", c.pos(f.Pos()), "every rejected connection is closed", "a path returns without closing a rejected connection", c.pathStr(path)...)
	// wrap as tunnel input only on the CAS-won edge
	for _, ci := range callsIn(f, idIs("trzsz.wrapTransferInput")) {
		won := false
		for _, fc := range factsAt(ci.Block()) {
			if fc.Pol && fc.V == cas.Value() {
				won = true
			}
		}
		c.check(won && isConn(strip(ci.Common().Args[1])), "accept/wrap-only-winner", c.ipos(ci), "only the connection that won the CAS feeds the transfer", "a connection is wrapped as transfer input without winning the CAS")
	}
	// clientHello/serverHello come from getHelloConstant in the enclosing goroutine
}

func anyID(string) bool { return true }

// c17HelloVars: in fn, the variables named in want are only assigned results (#index) of getHelloConstant.
func c17HelloVars(c *Ctx, fn *ssa.Function, key string, want map[string]int) {
	for name, idx := range want {
		found := false
		eachInstr(fn, func(in ssa.Instruction) {
			st, ok := in.(*ssa.Store)
			if !ok {
				return
			}
			al, ok := st.Addr.(*ssa.Alloc)
			if !ok || allocName(al) != name {
				return
			}
			call, i := callOf(st.Val)
			good := call != nil && calleeID(&call.Call) == "trzsz.getHelloConstant" && i == idx
			found = found || good
			if !good {
				c.bad(key+"/"+name+"<-getHelloConstant", c.ipos(st), "greeting variable assigned from something other than getHelloConstant")
			}
		})
		// not address-taken: a plain SSA value; look for uses through closures' bindings
		if !found {
			for _, ci := range callsIn(fn, idIs("trzsz.getHelloConstant")) {
				if call, ok := ci.(*ssa.Call); ok {
					if e := extractOf(call, idx); e != nil {
						found = true
					}
				}
			}
		}
		c.check(found, key+"/"+name+"<-getHelloConstant", c.pos(fn.Pos()), name+" is result "+string(rune('0'+idx))+" of getHelloConstant", name+" does not come from getHelloConstant")
	}
}

func c17R2(c *Ctx) {
	allowedStore := map[string]string{
		"trzszTransfer.acceptOnTunnel$1$1": "CompareAndSwap",
		"trzszTransfer.connectToTunnel$1":  "Store",
	}
	n := 0
	for _, f := range c.AllFns {
		fname := c.fnName(f)
		for _, ci := range callsIn(f, anyID) {
			if !isAtomicOnField(ci, "tunnelConn", "Store", "CompareAndSwap", "Swap") {
				continue
			}
			n++
			m := allowedStore[fname]
			c.check(m != "" && strings.HasSuffix(calleeID(ci.Common()), ")."+m), "tunnelConn/"+fname, c.ipos(ci),
				"tunnelConn written at an adoption site", "tunnelConn written outside the two adoption sites (server CAS, client Store after greeting)")
		}
		for _, ci := range callsIn(f, idIs("trzsz.wrapTransferInput")) {
			b, isC := constBool(ci.Common().Args[2])
			if !isC {
				c.bad("wrapTransferInput/"+fname+".tunnel-flag", c.ipos(ci), "tunnel flag is not a constant")
				continue
			}
			if b {
				_, ok := allowedStore[fname]
				c.check(ok, "wrapTransferInput/"+fname+".tunnel=true", c.ipos(ci), "tunnel-flagged input wrapped at an adoption site", "tunnel-flagged input wrapped outside an adoption site")
			} else {
				c.ok("wrapTransferInput/"+fname+".tunnel=false", c.ipos(ci), "in-band input is flagged non-tunnel")
			}
		}
	}
	if n != 2 {
		c.bad("tunnelConn/writers", "", "expected exactly two writers of tunnelConn, found a different number")
	}
	// addReceivedData(…, tunnel): only wrapTransferInput's pump passes a non-constant flag (its own parameter)
	for _, f := range c.AllFns {
		for _, ci := range callsIn(f, idIs(tT+"addReceivedData")) {
			fname := c.fnName(f)
			arg := ci.Common().Args[2]
			if b, ok := constBool(arg); ok {
				c.check(!b, "addReceivedData/"+fname, c.ipos(ci), "direct callers pass tunnel=false", "a caller marks bytes as tunnel bytes without going through an adopted connection")
			} else {
				c.check(fname == "wrapTransferInput$1" && isVar("tunnel")(arg), "addReceivedData/"+fname, c.ipos(ci), "the input pump forwards its own tunnel flag", "tunnel flag of received data comes from an unexpected source")
			}
		}
	}
}

func c17R3(c *Ctx) {
	f := c.fn("trzszTransfer.connectToTunnel$1$1")
	connV := firstConnValue(f)
	if connV == nil {
		c.lost("connector call in connectToTunnel$1$1")
	}
	isConn := isValue(connV)
	// the connector may fail (nil): its result is used only on the non-nil edge of a test
	nUse := 0
	eachInstr(f, func(in ssa.Instruction) {
		ci, ok := in.(ssa.CallInstruction)
		if !ok || !ci.Common().IsInvoke() || !isConn(ci.Common().Value) {
			return
		}
		nUse++
		_, nonNil := factNil(factsAt(in.Block()), connV)
		c.check(nonNil, "connect/connector-result-checked", c.ipos(in), "the connector's result is used only after it was found non-nil", "the connector's result is used without a nil test: a tunnel that cannot be established crashes the client instead of falling back to the in-band path")
	})
	if nUse == 0 {
		c.undecided("connect/connector-result-checked", "no use of the connector's result found")
	}
	// non-nil sends on connChan are fully guarded
	nGood := 0
	eachInstr(f, func(in ssa.Instruction) {
		s, ok := in.(*ssa.Send)
		if !ok {
			return
		}
		if isNilConst(s.X) {
			return
		}
		fs := factsAt(s.Block())
		reads := greetingEqFacts(fs, helloPred(1))
		okRead := false
		for _, rc := range reads {
			if isConn(rc.Call.Value) {
				if isNil, _ := factNil(fs, extractOf(rc, 1)); isNil {
					okRead = true
				}
			}
		}
		notTimeout := false
		for _, fc := range fs {
			if !fc.Pol && isVar("timeout")(fc.V) {
				notTimeout = true
			}
		}
		c.check(okRead, "connect/handover.guard", c.ipos(s), "connection handed over only when the reply equals the server greeting and the read succeeded", "connection handed over without reply == serverHello")
		c.check(notTimeout, "connect/handover.not-late", c.ipos(s), "connection handed over only when the grace period has not expired", "connection handed over after the grace period expired")
		c.check(isConn(s.X), "connect/handover.value", c.ipos(s), "the value handed over is the authenticated connection", "a different value is handed over")
		nGood++
	})
	if nGood != 1 {
		c.bad("connect/handover", c.pos(f.Pos()), "expected exactly one hand-over of a non-nil connection")
	}
	// every other path closes (unless the connector returned nil)
	hit, path := reachFrom(f.Blocks[0], 0, func(in ssa.Instruction) bool {
		if !isReturn(in) {
			return false
		}
		isNil, _ := factNil(factsAt(in.Block()), firstConnValue(f))
		return !isNil
	}, func(in ssa.Instruction) bool {
		if isCloseOn(in, isConn) {
			return true
		}
		s, ok := in.(*ssa.Send)
		return ok && !isNilConst(s.X)
	})
	c.check(hit == nil, "connect/reject-closes", c.pos(f.Pos()), "every connection not handed over is closed", "a path drops a connection without closing it", c.pathStr(path)...)
	// the greeting is written before the reply is read
	// adoption in the waiting goroutine: Store only for a non-nil value received from the channel
	g := c.fn("trzszTransfer.connectToTunnel$1")
	for _, ci := range callsIn(g, anyID) {
		if !isAtomicOnField(ci, "tunnelConn", "Store") {
			continue
		}
		fs := factsAt(ci.Block())
		nonNil := false
		for _, fc := range fs {
			op, x, y, ok := cmpFact(fc)
			if ok && op == token.NEQ && (isNilConst(x) || isNilConst(y)) {
				nonNil = true
			}
		}
		arm0 := factCmp(fs, token.EQL, func(v ssa.Value) bool { e, ok := v.(*ssa.Extract); return ok && e.Index == 0 }, isConstIntV(0))
		c.check(nonNil && arm0, "connect/adopt.guard", c.ipos(ci), "client adopts only a non-nil connection received from its connect goroutine", "client adoption not guarded by non-nil connection from the receive arm")
	}
}

func firstConnValue(f *ssa.Function) ssa.Value {
	var v ssa.Value
	eachInstr(f, func(in ssa.Instruction) {
		if v != nil {
			return
		}
		if call, ok := in.(*ssa.Call); ok && calleeID(&call.Call) == "dynamic" {
			v = call
		}
	})
	return v
}

func c17R4(c *Ctx) {
	type want struct {
		fn   string
		args [][2]string // descriptions of (uniqueID, port) origins, in call order
	}
	n := 0
	for _, f := range c.AllFns {
		fname := c.fnName(f)
		for _, ci := range callsIn(f, idIs("trzsz.getHelloConstant")) {
			n++
			a0, a1 := ci.Common().Args[0], ci.Common().Args[1]
			desc := func(v ssa.Value) string {
				v = strip(v)
				if _, fld, ok := fieldOf(v); ok {
					return "field:" + fld
				}
				if p, ok := v.(*ssa.Parameter); ok {
					return "param:" + paramName(p)
				}
				if u, ok := v.(*ssa.UnOp); ok && u.Op == token.MUL {
					if fv, ok := u.X.(*ssa.FreeVar); ok {
						return "var:" + freeVarName(fv)
					}
				}
				if fv, ok := v.(*ssa.FreeVar); ok {
					return "var:" + freeVarName(fv)
				}
				return v.String()
			}
			d0, d1 := desc(a0), desc(a1)
			okPair := false
			switch fname {
			case "trzszTransfer.acceptOnTunnel$1", "trzszTransfer.connectToTunnel$1$1":
				okPair = d0 == "var:uniqueID" && d1 == "var:port"
			case "TrzszRelay.handleTunnelConn":
				okPair = d0 == "field:uniqueID" && (d1 == "field:tunnelRelayPort" || d1 == "field:tunnelPort")
			}
			c.check(okPair, "getHelloConstant/"+fname+"("+d0+","+d1+")", c.ipos(ci), "greeting derived from the transfer's unique id and port", "greeting derived from unexpected values")
		}
	}
	if n != 4 {
		c.bad("getHelloConstant/sites", "", "expected four greeting derivation sites (server, client, relay x2)")
	}
	// callers of acceptOnTunnel / connectToTunnel pass the trigger's id/port resp. the server's own id and listening port
	h := c.fn("TrzszFilter.handleTrzsz")
	for _, ci := range callsIn(h, idIs(tT+"connectToTunnel")) {
		_, f0, ok0 := fieldOf(ci.Common().Args[2])
		_, f1, ok1 := fieldOf(ci.Common().Args[3])
		c.check(ok0 && ok1 && f0 == "uniqueID" && f1 == "tunnelPort", "connectToTunnel/args", c.ipos(ci), "client uses the trigger's unique id and tunnel port", "client derives the greeting from something other than the trigger's id and port")
	}
	for _, name := range []string{"TrzMain", "TszMain"} {
		f := c.fn(name)
		for _, ci := range callsIn(f, idIs(tT+"acceptOnTunnel")) {
			lc, li := callOf(ci.Common().Args[1])
			pc, pi := callOf(ci.Common().Args[3])
			sc, _ := callOf(ci.Common().Args[2])
			good := lc != nil && calleeID(&lc.Call) == "trzsz.listenForTunnel" && li == 0 && pc == lc && pi == 1 && sc != nil && calleeID(&sc.Call) == "fmt.Sprintf"
			c.check(good, name+"/acceptOnTunnel.args", c.ipos(ci), "server greets with its own printed id and its listening port", "server's greeting is not derived from its printed id and listening port")
		}
	}
}

func c17R5(c *Ctx) {
	f := c.fn("trzszTransfer.addReceivedData")
	adds := callsIn(f, idIs("(*trzsz.trzszBuffer).addBuffer"))
	if len(adds) == 0 {
		c.lost("addBuffer call in addReceivedData")
	}
	dropBlocks := 0
	for _, b := range f.Blocks {
		fs := factsAt(b)
		agreed, inband := false, false
		for _, fc := range fs {
			if fc.Pol && isFieldLoad("tunnelConnected")(fc.V) {
				agreed = true
			}
			if !fc.Pol && isVar("tunnel")(fc.V) {
				inband = true
			}
		}
		if !(agreed && inband) {
			continue
		}
		dropBlocks++
		hit, path := reachFromE(b, 0, func(in ssa.Instruction) bool {
			ci, ok := in.(ssa.CallInstruction)
			return ok && calleeID(ci.Common()) == "(*trzsz.trzszBuffer).addBuffer"
		}, func(ssa.Instruction) bool { return false }, func(from, to *ssa.BasicBlock) bool {
			// an edge that states the opposite of what holds in b is not taken from b (the same merged
			// condition tested a second time)
			for _, ef := range edgeFactsTo(from, to) {
				for _, bf := range fs {
					if ef.V == bf.V && ef.Pol != bf.Pol {
						return true
					}
				}
			}
			return false
		})
		c.check(hit == nil, "addReceivedData/inband-dropped", c.pos(f.Pos()), "in-band bytes are not enqueued once the tunnel is agreed", "in-band bytes can still reach the transfer buffer after the tunnel was agreed", c.pathStr(path)...)
	}
	{
		// the same as a truth table (universal): with the tunnel agreed and the bytes in-band the enqueue is unreachable,
		// whatever else is tested; with tunnel bytes, or no tunnel agreed, and the transfer running it is reached
		A := func(p func(ssa.Value) bool, v bool) assumption { return assumption{pred: p, val: v} }
		agreedP := isFieldLoad("tunnelConnected")
		tunP := isVar("tunnel")
		stoppedP := func(v ssa.Value) bool {
			call, _ := callOf(v)
			return call != nil && isAtomicOnField(call, "stopped", "Load")
		}
		for _, row := range []struct {
			name string
			as   []assumption
			enq  bool
		}{
			{"tunnel-agreed,in-band-bytes", []assumption{A(agreedP, true), A(tunP, false)}, false},
			{"tunnel-agreed,tunnel-bytes,running", []assumption{A(agreedP, true), A(tunP, true), A(stoppedP, false)}, true},
			{"no-tunnel,running", []assumption{A(agreedP, false), A(stoppedP, false)}, true},
		} {
			reach := blocksUnder(f, row.as)
			got := false
			for _, a := range adds {
				if reach[a.Block()] {
					got = true
				}
			}
			if row.enq {
				// and on every such path
				hitE, pathE := reachFromE(f.Blocks[0], 0, isReturn, func(in ssa.Instruction) bool {
					ci, ok := in.(ssa.CallInstruction)
					return ok && calleeID(ci.Common()) == "(*trzsz.trzszBuffer).addBuffer"
				}, contradicts(row.as))
				c.check(got && hitE == nil, "addReceivedData/enqueue@"+row.name, c.pos(f.Pos()), "in this case the bytes are always queued", "in the case '"+row.name+"' received bytes can be dropped", c.pathStr(pathE)...)
			} else {
				c.check(!got, "addReceivedData/enqueue@"+row.name, c.pos(f.Pos()), "in this case the bytes are never queued", "in the case '"+row.name+"' in-band bytes can reach the transfer although the tunnel is in use")
			}
		}
	}
	if dropBlocks == 0 {
		c.bad("addReceivedData/inband-dropped", c.pos(f.Pos()), "no branch drops in-band bytes when the tunnel is agreed")
	}
}

func c17R6(c *Ctx) {
	g := c.fn("trzszTransfer.connectToTunnel$1")
	deferred := false
	for _, in := range g.Blocks[0].Instrs {
		if d, ok := in.(*ssa.Defer); ok && calleeID(&d.Call) == "(*sync.WaitGroup).Done" {
			if n, ok := fieldAddrName(d.Call.Args[0]); ok && n == "trzszTransfer.tunnelInitWG" {
				deferred = true
			}
		}
	}
	c.check(deferred, "connect/defer-Done", c.pos(g.Pos()), "WaitGroup.Done is deferred in the entry block", "tunnelInitWG.Done is not deferred at entry: sendAction may wait forever")
	timer := false
	eachInstr(g, func(in ssa.Instruction) {
		sel, ok := in.(*ssa.Select)
		if !ok || !sel.Blocking {
			return
		}
		for _, st := range sel.States {
			if call, _ := callOf(st.Chan); call != nil && calleeID(&call.Call) == "time.After" {
				timer = true
			}
		}
	})
	c.check(timer, "connect/timer-arm", c.pos(g.Pos()), "the wait for the connect goroutine has a timer arm", "the wait for the tunnel has no timer arm")
	// universal form: every wait of this function for the connect goroutine is such a select — a bare receive on the result
	// channel (or a select without the timer) waits for as long as the dial or the peer's greeting takes
	{
		isTimer := func(v ssa.Value) bool {
			call, _ := callOf(v)
			return call != nil && calleeID(&call.Call) == "time.After"
		}
		eachInstr(g, func(in ssa.Instruction) {
			switch x := in.(type) {
			case *ssa.UnOp:
				if x.Op == token.ARROW && !isTimer(x.X) {
					c.bad("connect/every-wait-timed", c.ipos(in), "the waiting goroutine receives outside a timed select: the grace period does not bound this wait (sendAction, and with it the in-band fallback, is held up)")
				}
			case *ssa.Select:
				if !x.Blocking {
					return
				}
				has := false
				for _, st := range x.States {
					if st.Send == nil && isTimer(st.Chan) {
						has = true
					}
				}
				c.check(has, "connect/every-wait-timed", c.ipos(in), "each blocking wait of the tunnel set-up has the timer arm", "a blocking select of the tunnel set-up has no timer arm")
			}
		})
	}
	// the grace period covers the dial too: the connector is called by the goroutine that is waited for, never by the
	// function that does the timed wait (a connector that blocks would hold tunnelInitWG, and with it sendAction, for as long as it likes)
	nDial := 0
	for _, h := range withAnons(c.fn("trzszTransfer.connectToTunnel")) {
		for _, ci := range callsIn(h, idIs("dynamic")) {
			if !isVar("connector")(ci.Common().Value) {
				continue
			}
			nDial++
			waited := h != g && h.Parent() == g
			if waited {
				// launched with go from g before the select
				waited = false
				eachInstr(g, func(in ssa.Instruction) {
					if gi, ok := in.(*ssa.Go); ok {
						if mc, ok := gi.Call.Value.(*ssa.MakeClosure); ok && mc.Fn == h {
							waited = true
						}
					}
				})
			}
			c.check(waited, "connect/dial-under-grace-timer", c.ipos(ci), "the connector is called in the goroutine the timed wait waits for", "the connector is called outside the goroutine covered by the one-second wait: a dial that blocks delays the in-band fallback without bound")
		}
	}
	if nDial == 0 {
		c.undecided("connect/dial-under-grace-timer", "no call of the connector found")
	}
	// Add(1) before go in connectToTunnel
	p := c.fn("trzszTransfer.connectToTunnel")
	var add, gostmt ssa.Instruction
	eachInstr(p, func(in ssa.Instruction) {
		if ci, ok := in.(ssa.CallInstruction); ok {
			if calleeID(ci.Common()) == "(*sync.WaitGroup).Add" {
				add = in
			}
		}
		if _, ok := in.(*ssa.Go); ok {
			gostmt = in
		}
	})
	c.check(add != nil && gostmt != nil && domI(add, gostmt), "connect/Add-before-go", c.pos(p.Pos()), "WaitGroup.Add precedes starting the goroutine", "WaitGroup.Add does not precede the goroutine start")
	// sendAction: Wait before Load; writer switch only on conn != nil
	sa := c.fn("trzszTransfer.sendAction")
	var wait, load ssa.Instruction
	for _, ci := range callsIn(sa, anyID) {
		if calleeID(ci.Common()) == "(*sync.WaitGroup).Wait" {
			wait = ci.(ssa.Instruction)
		}
		if isAtomicOnField(ci, "tunnelConn", "Load") {
			load = ci.(ssa.Instruction)
		}
	}
	c.check(wait != nil && load != nil && domI(wait, load), "sendAction/wait-then-load", c.pos(sa.Pos()), "the tunnel decision is read after the bounded wait", "sendAction reads the tunnel connection without waiting for the connect attempt")
	// "both ends agree": the server takes the tunnel into use only when the client's action says so,
	// the client only when it holds an adopted connection; nobody else sets the flag
	for _, f := range c.AllFns {
		fname := c.fnName(f)
		eachInstr(f, func(in ssa.Instruction) {
			st, ok := in.(*ssa.Store)
			if !ok {
				return
			}
			if n, _ := fieldAddrName(st.Addr); n != "trzszTransfer.tunnelConnected" {
				return
			}
			b, isC := constBool(st.Val)
			fs := factsAt(st.Block())
			switch fname {
			case "trzszTransfer.recvAction":
				agreed := false
				for _, fc := range fs {
					if fc.Pol && isFieldLoad("TunnelConnected")(fc.V) {
						agreed = true
					}
				}
				// and from here on the answers go over the tunnel: no successful exit without the writer switched to the connection
				hit, path := reachAvoid(st, func(in ssa.Instruction) bool {
					r, isR := in.(*ssa.Return)
					if !isR || len(r.Results) == 0 {
						return false
					}
					_ = r
					return c.maySucceed(in)
				}, c.orWrapper("writer-switch", func(in ssa.Instruction) bool {
					s2, isS := in.(*ssa.Store)
					if !isS {
						return false
					}
					n2, _ := fieldAddrName(s2.Addr)
					return n2 == "trzszTransfer.writer"
				}))
				c.check(hit == nil, "tunnelConnected@recvAction/writer-switched", c.ipos(st), "once the tunnel is declared in use every successful exit has switched the writer to the connection", "the tunnel is declared in use but the function can succeed without switching the writer: the server answers in-band while the client ignores in-band bytes", c.pathStr(path)...)
				c.check(isC && b && agreed, "tunnelConnected@recvAction", c.ipos(st), "the server uses the tunnel only when the client's action announces it", "the server decides on its own that the tunnel is in use (the client may have fallen back to in-band after its grace period)")
			case "trzszTransfer.sendAction":
				held := false
				for _, fc := range fs {
					op, x, y, okC := cmpFact(fc)
					if okC && op == token.NEQ && (isNilConst(x) || isNilConst(y)) {
						for _, v := range []ssa.Value{x, y} {
							if call, _ := callOf(v); call != nil && isAtomicOnField(call, "tunnelConn", "Load") {
								held = true
							}
						}
					}
				}
				c.check(isC && b && held, "tunnelConnected@sendAction", c.ipos(st), "the client announces the tunnel only when it holds the adopted connection", "the client announces a tunnel it does not hold")
			default:
				c.bad("tunnelConnected/writer."+fname, c.ipos(st), "the tunnel-in-use flag is written outside the action exchange")
			}
		})
	}
	// the action the client sends carries that same decision
	sa2 := c.fn("trzszTransfer.sendAction")
	announced := false
	eachInstr(sa2, func(in ssa.Instruction) {
		if st, ok := in.(*ssa.Store); ok {
			if n, _ := fieldAddrName(st.Addr); n == "transferAction.TunnelConnected" {
				if b, isC := constBool(st.Val); isC && b {
					for _, x := range st.Block().Instrs {
						if s2, ok := x.(*ssa.Store); ok {
							if n2, _ := fieldAddrName(s2.Addr); n2 == "trzszTransfer.tunnelConnected" {
								announced = true
							}
						}
					}
				}
			}
		}
	})
	c.check(announced, "sendAction/announce=use", c.pos(sa2.Pos()), "the client's announcement and its own use of the tunnel are set together", "the client's announcement of the tunnel is not tied to its own use of it")
	for _, fn := range []string{"trzszTransfer.sendAction", "trzszTransfer.recvAction"} {
		f := c.fn(fn)
		eachInstr(f, func(in ssa.Instruction) {
			st, ok := in.(*ssa.Store)
			if !ok {
				return
			}
			n, ok := fieldAddrName(st.Addr)
			if !ok || n != "trzszTransfer.writer" {
				return
			}
			// value is *conn with conn = tunnelConn.Load() != nil
			u, isU := strip(st.Val).(*ssa.UnOp)
			good := false
			if isU && u.Op == token.MUL {
				if call, _ := callOf(u.X); call != nil && isAtomicOnField(call, "tunnelConn", "Load") {
					_, good = factNil(factsAt(st.Block()), u.X)
				}
			}
			c.check(good, fn+"/writer<-conn", c.ipos(st), "the writer is switched only to a non-nil adopted connection", "writer replaced by something other than the non-nil adopted connection")
		})
	}
}

func c17R7(c *Ctx) {
	f := c.fn("TrzszRelay.handleTunnelConn")
	var cas ssa.CallInstruction
	for _, ci := range callsIn(f, anyID) {
		if isAtomicOnField(ci, "tunnelRelay", "CompareAndSwap") {
			cas = ci
		}
	}
	if cas == nil {
		c.bad("relay/adopt-by-CAS", c.pos(f.Pos()), "the relay no longer adopts the tunnel pair by compare-and-swap")
		return
	}
	c.check(isNilConst(cas.Common().Args[1]), "relay/CAS-from-nil", c.ipos(cas), "relay adoption is a CAS from nil", "relay adoption CAS does not start from nil")
	// the pair is built with the accepted connection as the client side and the connector's result as the server side
	for _, ci := range callsIn(f, idIs("trzsz.newTunnelRelay")) {
		a := ci.Common().Args
		cliOK := len(a) == 3 && isVar("clientConn")(a[1])
		srvOK := false
		if len(a) == 3 {
			if call, _ := callOf(a[2]); call != nil && call.Call.StaticCallee() == nil && !call.Call.IsInvoke() {
				srvOK = true // the connector's result
			}
		}
		c.check(cliOK && srvOK, "relay/pair-sides", c.ipos(ci), "the tunnel pair is (accepted connection = client side, connector result = server side)", "the tunnel pair is built with the two connections swapped: client bytes are pumped as server output and the other way round")
	}
	// the relay hop of the trigger: the port in the forwarded trigger is replaced by the relay's own listening port, same id
	lf := c.fn("TrzszRelay.listenForTunnel")
	okHop := false
	for _, ci := range callsIn(lf, idIs("bytes.ReplaceAll")) {
		part := func(v ssa.Value) (string, string, string) {
			call, _ := callOf(strip(v))
			if call == nil || calleeID(&call.Call) != "fmt.Sprintf" {
				return "", "", ""
			}
			fm, _ := constString(call.Call.Args[0])
			els, ok := sliceElems(call.Call.Args[1])
			if !ok || len(els) != 2 {
				return fm, "", ""
			}
			_, f1, _ := fieldOf(strip(els[0].V))
			_, f2, _ := fieldOf(strip(els[1].V))
			return fm, f1, f2
		}
		fo, o1, o2 := part(ci.Common().Args[1])
		fn, n1, n2 := part(ci.Common().Args[2])
		okHop = fo == ":%s:%d" && fn == fo && o1 == "uniqueID" && n1 == "uniqueID" && o2 == "tunnelPort" && n2 == "tunnelRelayPort" && isVar("buf")(ci.Common().Args[0])
	}
	c.check(okHop, "relay/trigger-port-rewritten", c.pos(lf.Pos()), "the forwarded trigger carries the same id and the relay's own port in place of the server's", "the relay does not rewrite ':id:serverPort' to ':id:relayPort' in the forwarded trigger (arguments swapped / other values): the client dials the wrong port or greets with the wrong id")
	// the adopted pair learns which relay it belongs to before its pumps start (they park and reset through it)
	var bind ssa.Instruction
	for _, ci := range callsIn(f, anyID) {
		if isAtomicOnField(ci, "relay", "Store") && isVar("r")(ci.Common().Args[1]) {
			bind = ci.(ssa.Instruction)
		}
	}
	nGo := 0
	eachInstr(f, func(in ssa.Instruction) {
		if g, ok := in.(*ssa.Go); ok && (calleeID(&g.Call) == "(*trzsz.tunnelRelay).wrapInput" || calleeID(&g.Call) == "(*trzsz.tunnelRelay).wrapOutput") {
			nGo++
			c.check(bind != nil && domI(bind, g) && domI(cas.(ssa.Instruction), bind), "relay/pair-bound-before-pumps", c.ipos(g), "the adopted pair is bound to the relay before its pumps start", "the tunnel pumps start without being bound to the relay: chunks arriving during a handshake are not parked and end markers do not reset the relay")
		}
	})
	c.check(nGo == 2, "relay/both-pumps-started", c.ipos(cas), "both tunnel pumps are started for the adopted pair", "the adopted pair does not get both of its pumps")
	fs := factsAt(cas.Block())
	r1 := greetingEqFacts(fs, isHelloResult(0))
	r2 := greetingEqFacts(fs, isHelloResult(1))
	okC, okS := false, false
	for _, rc := range r1 {
		if isVar("clientConn")(rc.Call.Value) {
			okC = true
		}
	}
	for _, rc := range r2 {
		if !isVar("clientConn")(rc.Call.Value) {
			okS = true
		}
	}
	c.check(okC, "relay/client-greeting", c.ipos(cas), "pair adopted only after the client's greeting matched", "relay adopts without client greeting == clientHello")
	c.check(okS, "relay/server-greeting", c.ipos(cas), "pair adopted only after the server's reply matched", "relay adopts without server reply == serverHello")
	for _, in := range f.Blocks {
		for _, x := range in.Instrs {
			g, ok := x.(*ssa.Go)
			if !ok {
				continue
			}
			won := false
			for _, fc := range factsAt(g.Block()) {
				if fc.Pol && fc.V == cas.Value() {
					won = true
				}
			}
			c.check(won, "relay/pumps-only-winner", c.ipos(g), "tunnel pumps start only for the pair that won the CAS", "tunnel pumps started without winning the CAS")
		}
	}
	// no write to the client before its greeting matched
	for _, ci := range callsIn(f, anyID) {
		call, ok := ci.(*ssa.Call)
		if !ok || !call.Call.IsInvoke() || call.Call.Method.Name() != "Write" {
			continue
		}
		g := len(greetingEqFacts(factsAt(call.Block()), isHelloResult(0))) > 0
		c.check(g, "relay/no-answer-before-auth", c.ipos(call), "nothing is written on either side before the client greeting matched", "relay writes before the client greeting was verified")
	}
}

// freeVarBinding: the value bound to free variable fv where its closure is created.
func freeVarBinding(fv *ssa.FreeVar) ssa.Value {
	fn := fv.Parent()
	par := fn.Parent()
	if par == nil {
		return nil
	}
	idx := -1
	for i, x := range fn.FreeVars {
		if x == fv {
			idx = i
		}
	}
	var out ssa.Value
	eachInstr(par, func(in ssa.Instruction) {
		if mc, ok := in.(*ssa.MakeClosure); ok && mc.Fn == ssa.Value(fn) && idx >= 0 && idx < len(mc.Bindings) {
			out = mc.Bindings[idx]
		}
	})
	return out
}

// helloPred: v is result #idx of getHelloConstant, directly or through a captured variable
// whose only stores are such results.
func helloPred(idx int) func(ssa.Value) bool {
	direct := isHelloResult(idx)
	return func(v ssa.Value) bool {
		v = strip(v)
		if direct(v) {
			return true
		}
		u, ok := v.(*ssa.UnOp)
		if !ok || u.Op != token.MUL {
			return false
		}
		addr := u.X
		if fv, ok := addr.(*ssa.FreeVar); ok {
			addr = freeVarBinding(fv)
		}
		al, ok := addr.(*ssa.Alloc)
		if !ok {
			return false
		}
		n := 0
		for _, r := range referrersOf(al) {
			if st, ok := r.(*ssa.Store); ok && st.Addr == ssa.Value(al) {
				if !direct(st.Val) {
					return false
				}
				n++
			}
		}
		return n > 0
	}
}

func isHelloResult(idx int) func(ssa.Value) bool {
	return func(v ssa.Value) bool {
		call, i := callOf(v)
		return call != nil && i == idx && calleeID(&call.Call) == "trzsz.getHelloConstant"
	}
}

// constBufLen: the constant length of a freshly made byte buffer (make([]byte, K) / [K]byte sliced whole); -1 if not constant.
func constBufLen(v ssa.Value) int64 {
	v = strip(v)
	switch x := v.(type) {
	case *ssa.MakeSlice:
		if k, ok := constInt(x.Len); ok {
			return k
		}
	case *ssa.Slice:
		if al, ok := x.X.(*ssa.Alloc); ok && x.Low == nil {
			n := arrayLen(al)
			if x.High == nil {
				return n
			}
			if k, ok := constInt(x.High); ok {
				return k
			}
		}
	}
	return -1
}
