package main

// C05 — wrapper transparency: forwarding path rules of the filter's two pumps.

import (
	"go/token"
	"strings"

	"trzszlint/xssa"
)

func init() {
	register("C05", 30, "Decided (for every path of the current source): (R1) in the output pump every non-empty chunk is written to the terminal (the chunk itself, as returned by trace-log/detector) before the next read, or takes one of the enumerated claim edges (active transfer, zmodem session accepted it, trigger fired — written first, interrupting, matched echo of the drag-upload command), and is not written twice; (R2) in the input pump every path ends in writing the unmodified input to the server or in an enumerated claimer (prompt, transfer, zmodem transferring, drag detection / pending Windows path buffer that is later flushed verbatim); (R3) the claim flags are transient: interrupting is cleared on every path after it was set, skip-upload-command is cleared by the pump as soon as it is seen; (R4) the handler releases the session pointer by a deferred compare-and-swap registered at entry, non-nil stores are CAS from nil; the zmodem pointer is cleared on the decline edge; (R5) the detector returns its input (or the id-rewritten copy in relay+tmux mode) when it does not fire and never writes into its input; functions that receive the pump's reusable buffer do not retain it; (R6) the transfer hand-off never reuses a queued buffer; (R7) the wrapped command's exit code is returned after waiting. Not decided: exactly-once/in-order delivery across goroutines writing concurrently around a session's start/end, drag-path semantics, history effects at run time. (R8) the wrapper pumps hand on exactly what they read and end only on EOF; (R7) also: the four streams are wired stdin/stdout/pty.stdin/pty.stdout and the relay runs exactly with -r.",
		func(c *Ctx) {
			c.run("C05-R1", "MUST-PASS: output pump forwards unless claimed", c05R1)
			c.run("C05-R2", "MUST-PASS: input pump forwards unless claimed", c05R2)
			c.run("C05-R3", "PAIR/WHO-WRITES: claim flags are transient", c05R3)
			c.run("C05-R4", "PAIR: session pointers are released", c05R4)
			c.run("C05-R5", "GUARD-DOM: detectors return/leave their input untouched and do not retain the pump's buffer", c05R5)
			c.run("C05-R6", "FRESH: hand-off to a transfer never reuses a queued buffer", func(c *Ctx) {
				isAddRecv := func(in ssa.Instruction) bool {
					ci, ok := in.(ssa.CallInstruction)
					return ok && calleeID(ci.Common()) == tT+"addReceivedData"
				}
				freshAfterHandoff(c, c.fn("TrzszFilter.wrapOutput"), "TrzszFilter.wrapOutput", isAddRecv)
			})
			c.run("C05-R8", "MUST-PASS: the wrapper's pumps hand on exactly what they read and end only on EOF", c05R8)
			c.run("C05-R7", "ORDER: exit status passed on", c05R7)
			c.run("C05-R9", "ORDER/GUARD-DOM: a transfer that stopped reading no longer queues the pump's output", stopLatchRule)
			c.run("C05-R10", "LAUNCH: pumps and the handlers that wait on what the pumps deliver are started with go", c05Launch)
			c.run("C05-R11", "TYPESTATE: the transfer worker signals completion last, so the handler gives the session up only when the worker is done", func(c *Ctx) { completionClosedLast(c, "TrzszFilter.", 1) })
			c.run("C05-S3", "shared with C13-R7: the wrapper's input pump reads the user's side, its output pump the remote side", c13Sides)
			c.run("C05-R12", "GUARDED-BY: the drag buffers shared between the input pump and its delayed workers are only touched under their mutex", guardedBy)
			c.run("C05-R13", "GUARD-DOM: a drag detector answers with files only when its scan reached the end of the input", dragWholeInput)
			c.run("C05-S2", "shared with C19-R1: header detection and the five-CAN cancel marker", c19R1)
			c.run("C05-S4", "shared with C19-R2/R3: a zmodem session that ends — also one that fails before the helper exists — always arms its cleanup; until the cleanup runs the filter swallows all input and output", func(c *Ctx) { c19R2(c); c19R3(c) })
			c.run("C05-S1", "shared with C06-R3: the words that mark a finished transfer in scroll-back are the words the servers print (a replayed, finished handshake stays plain output)", c06R3)
		})
}

func isFieldOfName(v ssa.Value, name string) bool {
	_, f, ok := fieldOf(v)
	return ok && f == name
}

func c05R1(c *Ctx) {
	f := c.fn("TrzszFilter.wrapOutput")
	var read *ssa.Call
	eachInstr(f, func(in ssa.Instruction) {
		if call, ok := in.(*ssa.Call); ok && call.Call.IsInvoke() && call.Call.Method.Name() == "Read" {
			read = call
		}
	})
	if read == nil {
		c.lost("Read in the filter's output pump")
	}
	buffer, n := read.Call.Args[0], extractOf(read, 0)
	isChunk := func(v ssa.Value) bool {
		roots := chunkRoots(v)
		if len(roots) == 0 {
			return false
		}
		for _, r := range roots {
			sl, ok := r.(*ssa.Slice)
			if !ok || !sameValue(sl.X, buffer) || sl.High == nil || !sameValue(sl.High, n) {
				return false
			}
		}
		return true
	}
	isForward := func(in ssa.Instruction) bool {
		call, ok := in.(*ssa.Call)
		return ok && calleeID(&call.Call) == "trzsz.writeAll" && isFieldOfName(call.Call.Args[0], "clientOut") && isChunk(call.Call.Args[1])
	}
	isToTransfer := func(in ssa.Instruction) bool {
		call, ok := in.(*ssa.Call)
		return ok && calleeID(&call.Call) == tT+"addReceivedData" && isChunk(call.Call.Args[1])
	}
	isEchoReplace := func(in ssa.Instruction) bool {
		call, ok := in.(*ssa.Call)
		if !ok || calleeID(&call.Call) != "trzsz.writeAll" || !isFieldOfName(call.Call.Args[0], "clientOut") {
			return false
		}
		// the "\r\n" written instead of the echoed upload command: only where the echo matched the command
		return factCmp(factsAt(call.Block()), token.EQL, anyValue, func(v ssa.Value) bool {
			call2, _ := callOf(v)
			return call2 != nil && calleeID(&call2.Call) == "strings.TrimRight"
		})
	}
	claimEdge := func(from, to *ssa.BasicBlock) bool {
		i := blockIf(from)
		if i == nil || from.Succs[0] != to {
			return false
		}
		call, _ := callOf(i.Cond)
		if call == nil {
			return false
		}
		id := calleeID(&call.Call)
		if id == "(*trzsz.zmodemTransfer).handleServerOutput" && isChunk(call.Call.Args[1]) {
			return true
		}
		if isAtomicOnField(call, "interrupting", "Load") {
			return true
		}
		return false
	}
	var nz *ssa.BasicBlock
	for _, b := range f.Blocks {
		if i := blockIf(b); i != nil {
			op, x, y, ok := cmpFact(normFact(fact{V: i.Cond, Pol: true}))
			if ok && op == token.GTR && sameValue(x, n) && isConstIntV(0)(y) {
				nz = b.Succs[0]
			}
		}
	}
	if nz == nil {
		c.lost("n > 0 test in the filter's output pump")
	}
	hit, path := reachFromE(nz, 0, func(in ssa.Instruction) bool { return in == ssa.Instruction(read) || isReturn(in) },
		func(in ssa.Instruction) bool { return isForward(in) || isToTransfer(in) || isEchoReplace(in) }, claimEdge)
	c.check(hit == nil, "wrapOutput/never-swallowed", c.ipos(read), "every non-empty chunk is forwarded or claimed by an enumerated detector before the next read",
		"a chunk of remote output can be swallowed: a path reaches the next read without forwarding it and without an enumerated claim", c.pathStr(path)...)
	// not forwarded twice (except after the infeasible zmodem CAS failure: only this pump writes filter.zmodem and it is nil there)
	nF := 0
	eachInstr(f, func(in ssa.Instruction) {
		if !isForward(in) {
			return
		}
		nF++
		hit2, path2 := reachFromE(in.Block(), instrIndex(in)+1, func(x ssa.Instruction) bool { return isForward(x) || isToTransfer(x) }, func(x ssa.Instruction) bool { return x == ssa.Instruction(read) },
			func(from, to *ssa.BasicBlock) bool {
				i := blockIf(from)
				if i == nil || from.Succs[1] != to {
					return false
				}
				call, _ := callOf(i.Cond)
				return call != nil && isAtomicOnField(call, "zmodem", "CompareAndSwap") && isNilConst(call.Call.Args[1])
			})
		c.check(hit2 == nil, "wrapOutput/not-twice", c.ipos(in), "a forwarded chunk is not forwarded again", "a chunk can reach the terminal twice", c.pathStr(path2)...)
	})
	c.check(nF >= 3, "wrapOutput/forward-sites", c.pos(f.Pos()), "plain, trigger and zmodem-start chunks are all written to the terminal", "fewer forwarding sites than expected")
	// the zmodem pointer has a single writer function (makes the CAS-failure edge infeasible)
	for _, g := range c.AllFns {
		for _, ci := range callsIn(g, anyID) {
			if isAtomicOnField(ci, "zmodem", "Store", "CompareAndSwap", "Swap") {
				if nm, _ := fieldAddrName(ci.Common().Args[0]); nm == "TrzszFilter.zmodem" {
					c.check(c.fnName(g) == "TrzszFilter.wrapOutput", "zmodem-pointer/writer."+c.fnName(g), c.ipos(ci), "the zmodem session pointer is written only by the output pump", "the zmodem session pointer has another writer: the CAS in the pump can fail and the chunk is written twice")
				}
			}
		}
	}
	// trigger chunk is written before the handler starts
	eachInstr(f, func(in ssa.Instruction) {
		g, ok := in.(*ssa.Go)
		if !ok || calleeID(&g.Call) != "(*trzsz.TrzszFilter).handleTrzsz" {
			return
		}
		written := false
		eachInstr(f, func(x ssa.Instruction) {
			if isForward(x) && domI(x, g) && x.Block() == g.Block() {
				written = true
			}
		})
		c.check(written, "wrapOutput/trigger-shown-first", c.ipos(g), "the (rewritten) trigger chunk is shown before the handler starts", "the trigger chunk is not shown before the handler starts")
	})
}

func c05R2(c *Ctx) {
	f := c.fn("TrzszFilter.sendInput")
	isBuf := isVar("buf")
	isFwd := func(in ssa.Instruction) bool {
		call, ok := in.(*ssa.Call)
		return ok && calleeID(&call.Call) == "trzsz.writeAll" && isFieldOfName(call.Call.Args[0], "serverIn") && isBuf(call.Call.Args[1])
	}
	isClaim := func(in ssa.Instruction) bool {
		switch x := in.(type) {
		case *ssa.Go:
			return true // deferred flush of the pending Windows path buffer (checked below)
		case *ssa.Call:
			id := calleeID(&x.Call)
			if id == "(*trzsz.TrzszFilter).transformPromptInput" && isBuf(x.Call.Args[2]) {
				return true
			}
			if id == "(*trzsz.TrzszFilter).addDragFiles" {
				return true
			}
			if id == "(*bytes.Buffer).Write" && isFieldOfName(x.Call.Args[0], "dragInputBuffer") && isBuf(x.Call.Args[1]) {
				return true
			}
		}
		return false
	}
	claimEdge := func(from, to *ssa.BasicBlock) bool {
		i := blockIf(from)
		if i == nil {
			return false
		}
		nf := normFact(fact{V: i.Cond, Pol: true})
		op, x, y, ok := cmpFact(nf)
		if ok && op == token.NEQ && (isNilConst(x) || isNilConst(y)) && from.Succs[0] == to {
			for _, v := range []ssa.Value{x, y} {
				if call, _ := callOf(v); call != nil && isAtomicOnField(call, "transfer", "Load") {
					return true // a transfer is active: input belongs to it
				}
			}
		}
		if call, _ := callOf(nf.V); call != nil && calleeID(&call.Call) == "(*trzsz.zmodemTransfer).isTransferringFiles" && nf.Pol && from.Succs[0] == to {
			return true
		}
		return false
	}
	hit, path := reachFromE(f.Blocks[0], 0, isReturn, func(in ssa.Instruction) bool { return isFwd(in) || isClaim(in) }, claimEdge)
	c.check(hit == nil, "sendInput/never-swallowed", c.pos(f.Pos()), "typed input is forwarded unmodified or claimed by an enumerated consumer", "typed input can be swallowed: a path returns without forwarding it and without an enumerated claim", c.pathStr(path)...)
	// the delayed flush writes the buffered bytes verbatim unless they turned out to be dragged files
	g := c.fn("TrzszFilter.sendInput$1")
	isFlush := func(in ssa.Instruction) bool {
		call, ok := in.(*ssa.Call)
		if !ok || calleeID(&call.Call) != "trzsz.writeAll" || !isFieldOfName(call.Call.Args[0], "serverIn") {
			return false
		}
		bc, _ := callOf(call.Call.Args[1])
		return bc != nil && calleeID(&bc.Call) == "(*bytes.Buffer).Bytes"
	}
	hit, path = reachFrom(g.Blocks[0], 0, isReturn, func(in ssa.Instruction) bool {
		if isFlush(in) {
			return true
		}
		ci, ok := in.(ssa.CallInstruction)
		return ok && calleeID(ci.Common()) == "(*trzsz.TrzszFilter).addDragFiles"
	})
	c.check(hit == nil, "sendInput$1/flush-verbatim", c.pos(g.Pos()), "the pending path buffer is flushed verbatim unless it was a drag", "buffered input can be dropped by the delayed flush", c.pathStr(path)...)
	// the pending buffer is a transient claim: the delayed flush gives it up (sets it nil) on every path, and whoever
	// creates it starts that flush before returning — otherwise every later keystroke is appended to it and never sent
	{
		isBufStore := func(in ssa.Instruction, wantNil bool) bool {
			st, ok := in.(*ssa.Store)
			if !ok {
				return false
			}
			n, _ := fieldAddrName(st.Addr)
			return n == "TrzszFilter.dragInputBuffer" && isNilConst(st.Val) == wantNil
		}
		hitN, pathN := reachFrom(g.Blocks[0], 0, isReturn, c.orWrapper("drag-buffer=nil", func(in ssa.Instruction) bool { return isBufStore(in, true) }))
		c.check(hitN == nil, "sendInput$1/gives-the-buffer-up", c.pos(g.Pos()), "the delayed flush clears the pending buffer on every path", "the delayed flush can end with the pending buffer still set: all later input is appended to it and never reaches the server", c.pathStr(pathN)...)
		nSet := 0
		eachInstr(f, func(in ssa.Instruction) {
			if !isBufStore(in, false) {
				return
			}
			nSet++
			hitS, pathS := reachAvoid(in, isReturn, func(x ssa.Instruction) bool {
				gi, ok := x.(*ssa.Go)
				return ok && gi.Call.StaticCallee() == g
			})
			c.check(hitS == nil, "sendInput/pending-buffer=>flush-started", c.ipos(in), "creating the pending buffer always starts its delayed flush", "the pending buffer can be created without its delayed flush being started: input is held back for good", c.pathStr(pathS)...)
		})
		if nSet == 0 {
			c.undecided("sendInput/pending-buffer=>flush-started", "no creation of the pending buffer found")
		}
	}
	// drag detection only claims input when it found existing files
	for _, ci := range callsIn(f, idIs("(*trzsz.TrzszFilter).addDragFiles")) {
		_, nonNil := factNil(factsAt(ci.Block()), ci.Common().Args[1])
		c.check(nonNil, "sendInput/drag-claims-only-files", c.ipos(ci), "input is withheld only when drag detection returned files", "input is withheld although drag detection found no files")
	}
	// drag detection is off unless enabled
	on := false
	for _, ci := range callsIn(f, idIs("trzsz.detectDragFiles")) {
		for _, fc := range factsAt(ci.Block()) {
			if call, _ := callOf(fc.V); call != nil && fc.Pol && calleeID(&call.Call) == "(*sync/atomic.Bool).Load" {
				on = true
			}
		}
	}
	c.check(on, "sendInput/drag-detection-optional", c.pos(f.Pos()), "drag detection runs only when enabled", "drag detection runs unconditionally")
}

func c05R3(c *Ctx) {
	for _, f := range c.AllFns {
		fname := c.fnName(f)
		for _, ci := range callsIn(f, anyID) {
			if isAtomicOnField(ci, "interrupting", "Store") {
				c.check(fname == "TrzszFilter.uploadDragFiles", "interrupting/writer."+fname, c.ipos(ci), "flag written by the drag upload only", "the interrupting flag is written elsewhere")
			}
			if isAtomicOnField(ci, "skipUploadCommand", "Store") {
				b, _ := constBool(ci.Common().Args[1])
				want := map[bool]string{true: "TrzszFilter.uploadDragFiles", false: "TrzszFilter.wrapOutput"}
				c.check(want[b] == fname, "skipUploadCommand/writer."+fname, c.ipos(ci), "flag set by the drag upload, cleared by the pump", "skip-upload-command flag written by an unexpected function")
			}
		}
	}
	u := c.fn("TrzszFilter.uploadDragFiles")
	for _, ci := range callsIn(u, anyID) {
		if isAtomicOnField(ci, "interrupting", "Store") {
			if b, _ := constBool(ci.Common().Args[1]); b {
				hit, path := reachAvoid(ci.(ssa.Instruction), isReturn, func(x ssa.Instruction) bool {
					c2, ok := x.(ssa.CallInstruction)
					if !ok || !isAtomicOnField(c2, "interrupting", "Store") {
						return false
					}
					v, _ := constBool(c2.Common().Args[1])
					return !v
				})
				c.check(hit == nil, "interrupting/always-cleared", c.ipos(ci), "the output-swallowing window is closed on every path", "the interrupting flag can stay set: all later remote output is swallowed", c.pathStr(path)...)
			}
		}
	}
	// the drag upload types Ctrl-C and the upload command into the remote side. Whether the drag is still on is decided
	// AFTER any settling delay: from every sleep that can precede the typing, the typing (setting 'interrupting', writing
	// to the server) is not reachable without a fresh look at the dragging flag — a guard evaluated before the delay
	// still injects bytes into the session when the user typed something else in the meantime
	{
		isSleep := func(in ssa.Instruction) bool {
			ci, ok := in.(ssa.CallInstruction)
			return ok && calleeID(ci.Common()) == "time.Sleep"
		}
		isTyping := func(in ssa.Instruction) bool {
			ci, ok := in.(ssa.CallInstruction)
			if !ok {
				return false
			}
			if isAtomicOnField(ci, "interrupting", "Store") {
				b, _ := constBool(ci.Common().Args[1])
				return b
			}
			return false
		}
		looksAtDrag := func(in ssa.Instruction) bool {
			ci, ok := in.(ssa.CallInstruction)
			return ok && isAtomicOnField(ci, "dragging", "Load")
		}
		nSl := 0
		for _, g := range []*ssa.Function{u} {
			eachInstr(g, func(in ssa.Instruction) {
				if !isSleep(in) {
					return
				}
				// only sleeps that come before the typing
				if hitT, _ := reachAvoid(in, isTyping, nil); hitT == nil {
					return
				}
				nSl++
				hit, path := reachAvoid(in, isTyping, looksAtDrag)
				c.check(hit == nil, "uploadDragFiles/drag-rechecked-after-delay", c.ipos(in), "after a delay the dragging flag is looked at again before anything is typed into the session", "after a settling delay the upload goes ahead without looking at the dragging flag again: a drag the user cancelled by typing still injects Ctrl-C and the upload command", c.pathStr(path)...)
			})
		}
		// the delayed launcher: its sleep is followed by the call of uploadDragFiles, whose first action is the guard
		firstIsGuard := false
		for _, in := range u.Blocks[0].Instrs {
			if _, isDbg := in.(*ssa.DebugRef); isDbg {
				continue
			}
			if looksAtDrag(in) {
				firstIsGuard = true
			}
			if _, isCall := in.(ssa.CallInstruction); isCall {
				break
			}
		}
		c.check(firstIsGuard || nSl > 0, "uploadDragFiles/starts-with-drag-guard", c.pos(u.Pos()), "the upload starts by looking at the dragging flag", "the upload no longer starts by checking that the drag is still on")
	}
	// the prompt claim: while promptPipe is set the input pump hands every key to the stop question. Whoever sets it
	// (compare-and-swap from nil) must, on the won edge, reach the worker that clears it — or clear it itself — before
	// returning; and that worker clears it on every exit. Otherwise typed input is eaten for the rest of the session.
	nClaim := 0
	for _, f := range c.AllFns {
		for _, ci := range callsIn(f, anyID) {
			if !isAtomicOnField(ci, "promptPipe", "CompareAndSwap") || isNilConst(ci.Common().Args[2]) {
				continue
			}
			call, isCall := ci.(*ssa.Call)
			if !isCall {
				continue
			}
			nClaim++
			clears := func(in ssa.Instruction) bool {
				c2, ok := in.(ssa.CallInstruction)
				if !ok {
					return false
				}
				if _, isGo := in.(*ssa.Go); !isGo && (isAtomicOnField(c2, "promptPipe", "Store") || isAtomicOnField(c2, "promptPipe", "CompareAndSwap")) {
					return isNilConst(c2.Common().Args[len(c2.Common().Args)-1])
				}
				return false
			}
			startsClearingWorker := func(in ssa.Instruction) bool {
				g, ok := in.(*ssa.Go)
				if !ok {
					return false
				}
				wk := g.Call.StaticCallee()
				if wk == nil || len(wk.Blocks) == 0 {
					return false
				}
				// the worker clears the claim on every exit: a deferred clear in its entry block, or a clear on every path
				for _, x := range wk.Blocks[0].Instrs {
					if d, isD := x.(*ssa.Defer); isD && clearsDeferred(d) {
						return true
					}
				}
				hit, _ := reachFrom(wk.Blocks[0], 0, isReturn, clears)
				return hit == nil
			}
			var won *ssa.BasicBlock
			for _, r := range referrersOf(call) {
				if i, ok := r.(*ssa.If); ok {
					nf := normFact(fact{V: i.Cond, Pol: true})
					won = i.Block().Succs[0]
					if !nf.Pol {
						won = i.Block().Succs[1]
					}
				}
			}
			if won == nil {
				c.bad("promptPipe/claim-released@"+c.fnName(f), c.ipos(call), "the result of claiming the prompt pipe is not branched on")
				continue
			}
			hit, path := reachFrom(won, 0, isReturn, func(in ssa.Instruction) bool { return clears(in) || startsClearingWorker(in) })
			c.check(hit == nil, "promptPipe/claim-released@"+c.fnName(f), c.ipos(call), "once the prompt pipe is claimed, the worker that releases it is started (or it is released) before the function returns", "the prompt pipe can stay claimed after the function returned: every later key is handed to a prompt that does not exist and typed input never reaches the server again", c.pathStr(path)...)
		}
	}
	if nClaim == 0 {
		c.undecided("promptPipe/claims", "no claim of the prompt pipe found")
	}
	w := c.fn("TrzszFilter.wrapOutput")
	for _, ci := range callsIn(w, anyID) {
		if !isAtomicOnField(ci, "skipUploadCommand", "Load") {
			continue
		}
		call := ci.(*ssa.Call)
		for _, r := range referrersOf(call) {
			i, ok := r.(*ssa.If)
			if !ok {
				continue
			}
			hit, path := reachFrom(i.Block().Succs[0], 0, func(x ssa.Instruction) bool {
				if isReturn(x) {
					return true
				}
				c2, ok := x.(*ssa.Call)
				return ok && ((c2.Call.IsInvoke() && c2.Call.Method.Name() == "Read") || calleeID(&c2.Call) == "trzsz.writeAll")
			}, func(x ssa.Instruction) bool {
				c2, ok := x.(ssa.CallInstruction)
				if !ok || !isAtomicOnField(c2, "skipUploadCommand", "Store") {
					return false
				}
				v, _ := constBool(c2.Common().Args[1])
				return !v
			})
			c.check(hit == nil, "skipUploadCommand/one-shot", c.ipos(call), "the flag is cleared as soon as it is seen, before anything is written or read", "the skip flag stays armed after it was seen: a later chunk equal to the command is replaced by a bare newline", c.pathStr(path)...)
		}
	}
}

func c05R4(c *Ctx) {
	h := c.fn("TrzszFilter.handleTrzsz")
	var d *ssa.Defer
	eachInstr(h, func(in ssa.Instruction) {
		if df, ok := in.(*ssa.Defer); ok && isAtomicOnField(df, "transfer", "CompareAndSwap") {
			d = df
		}
	})
	good := d != nil && isNilConst(d.Call.Args[2])
	if good {
		// before the handler goroutine starts and before anything that can return
		eachInstr(h, func(in ssa.Instruction) {
			if _, ok := in.(*ssa.Go); ok && !domI(d, in) {
				good = false
			}
			if isReturn(in) && !domI(d, in) && in.Block().Comment != "recover" {
				good = false
			}
		})
	}
	c.check(good, "handleTrzsz/deferred-release", c.pos(h.Pos()), "the session pointer is released by a deferred CAS(x, nil) registered before the work starts", "the session pointer is not released on every exit of the handler: the wrapper stays in transfer mode and swallows output")
	for _, f := range c.AllFns {
		for _, ci := range callsIn(f, anyID) {
			if !isAtomicOnField(ci, "transfer", "Store", "CompareAndSwap", "Swap") {
				continue
			}
			if nm, _ := fieldAddrName(ci.Common().Args[0]); nm != "TrzszFilter.transfer" {
				continue
			}
			args := ci.Common().Args
			fname := c.fnName(f)
			if isNilConst(args[len(args)-1]) {
				c.ok("transfer-pointer/release@"+fname, c.ipos(ci), "release of the session pointer")
				continue
			}
			okSet := strings.HasSuffix(calleeID(ci.Common()), ".CompareAndSwap") && isNilConst(args[1]) && (fname == "TrzszFilter.downloadFiles" || fname == "TrzszFilter.uploadFiles")
			c.check(okSet, "transfer-pointer/set@"+fname, c.ipos(ci), "the session pointer is set by CAS from nil in the handler's work functions", "the session pointer is set outside the handler or not by CAS from nil")
		}
	}
	// zmodem decline edge clears the pointer
	w := c.fn("TrzszFilter.wrapOutput")
	for _, ci := range callsIn(w, idIs("(*trzsz.zmodemTransfer).handleServerOutput")) {
		call := ci.(*ssa.Call)
		for _, r := range referrersOf(call) {
			i, ok := r.(*ssa.If)
			if !ok {
				continue
			}
			hit, path := reachFrom(i.Block().Succs[1], 0, func(x ssa.Instruction) bool {
				c2, ok := x.(*ssa.Call)
				return isReturn(x) || (ok && (calleeID(&c2.Call) == "trzsz.writeAll" || (c2.Call.IsInvoke() && c2.Call.Method.Name() == "Read")) && !isFieldOfName(c2.Call.Args[0], "clientOut"))
			}, func(x ssa.Instruction) bool {
				c2, ok := x.(ssa.CallInstruction)
				return ok && isAtomicOnField(c2, "zmodem", "CompareAndSwap") && isNilConst(c2.Common().Args[2])
			})
			c.check(hit == nil, "zmodem-pointer/cleared-on-decline", c.ipos(call), "a session that declines output is dropped at once", "a finished zmodem session keeps its pointer: output keeps being offered to it", c.pathStr(path)...)
		}
	}
}

// retains: the function stores (a slice of) parameter p somewhere that outlives the call.
func retains(c *Ctx, f *ssa.Function, p *ssa.Parameter, depth int) (bool, string) {
	if depth > 2 || len(f.Blocks) == 0 {
		return false, ""
	}
	derived := map[ssa.Value]bool{p: true}
	changed := true
	for changed {
		changed = false
		eachInstr(f, func(in ssa.Instruction) {
			v, ok := in.(ssa.Value)
			if !ok || derived[v] {
				return
			}
			switch x := in.(type) {
			case *ssa.Slice:
				if derived[x.X] {
					derived[v], changed = true, true
				}
			case *ssa.Phi:
				for _, e := range x.Edges {
					if derived[e] {
						derived[v], changed = true, true
					}
				}
			case *ssa.ChangeType:
				if derived[x.X] {
					derived[v], changed = true, true
				}
			case *ssa.Call:
				if calleeID(&x.Call) == "bytes.NewBuffer" && derived[x.Call.Args[0]] {
					derived[v], changed = true, true
				}
			}
		})
	}
	why := ""
	eachInstr(f, func(in ssa.Instruction) {
		switch x := in.(type) {
		case *ssa.Store:
			if !derived[x.Val] {
				return
			}
			switch x.Addr.(type) {
			case *ssa.FieldAddr, *ssa.Global:
				why = "stored into longer-lived state at " + c.ipos(x)
			}
		case *ssa.Send:
			if derived[x.X] {
				why = "sent on a channel at " + c.ipos(x)
			}
		case *ssa.Call:
			callee := x.Call.StaticCallee()
			if callee == nil || !c.inPkg(callee) {
				return
			}
			for i, a := range x.Call.Args {
				if derived[a] && i < len(callee.Params) {
					if r, w := retains(c, callee, callee.Params[i], depth+1); r {
						why = "passed to " + c.fnName(callee) + " which retains it: " + w
					}
				}
			}
		}
	})
	return why != "", why
}

func c05R5(c *Ctx) {
	det := c.fn("trzszDetector.detectTrzsz")
	out := det.Params[1]
	eachInstr(det, func(in ssa.Instruction) {
		r, ok := in.(*ssa.Return)
		if !ok || len(r.Results) != 2 || !isNilConst(retVal(r, 1)) {
			return
		}
		good := true
		for _, l := range origins(r.Results[0], originOpts{}) {
			if l.V == ssa.Value(out) {
				continue
			}
			if call, _ := callOf(l.V); call != nil && calleeID(&call.Call) == "(*trzsz.trzszDetector).rewriteTrzszTrigger" {
				// only in relay+tmux mode
				rl, tm := false, false
				for _, fc := range l.facts() {
					if fc.Pol && isFieldLoad("relay")(fc.V) {
						rl = true
					}
					if fc.Pol && isFieldLoad("tmux")(fc.V) {
						tm = true
					}
				}
				if rl && tm {
					continue
				}
			}
			good = false
		}
		c.check(good, "detectTrzsz/returns-input", c.ipos(r), "without a trigger the detector returns its input", "the detector returns modified output although it did not fire")
	})
	// no writes into the input's backing array, in any function given the pump's chunk
	pumps := map[string][]string{
		"TrzszFilter.wrapOutput": {"(*trzsz.trzszDetector).detectTrzsz", "(*trzsz.TrzszFilter).detectOSC52", "trzsz.detectZmodem", "(*trzsz.zmodemTransfer).handleServerOutput", "(*trzsz.traceLogger).writeTraceLog", "trzsz.trimVT100"},
		// the input pump reads into one buffer for the whole session and hands slices of it to the input handler
		"TrzszFilter.wrapInput": {"(*trzsz.TrzszFilter).sendInput"},
	}
	for pump, callees := range pumps {
		pf := c.fn(pump)
		for _, ci := range callsIn(pf, idIs(callees...)) {
			callee := ci.Common().StaticCallee()
			if callee == nil {
				continue
			}
			for i, a := range ci.Common().Args {
				if i >= len(callee.Params) || !strings.HasPrefix(callee.Params[i].Type().String(), "[]byte") {
					continue
				}
				_ = a
				p := callee.Params[i]
				// element stores, appends and copies through the parameter, here or in a function the chunk is handed on to
				wrote, where := writesChunk(c, callee, p, 0, map[*ssa.Function]bool{})
				if wrote {
					where = " (" + where + ")"
				}
				c.check(!wrote, c.fnName(callee)+"/input-not-written", c.ipos(ci), "the scanner does not write into the chunk", "a scanner writes into the chunk it was only meant to look at"+where)
				ret, why := retains(c, callee, p, 0)
				c.check(!ret, c.fnName(callee)+"/input-not-retained", c.ipos(ci), "the scanner does not keep a reference to the pump's reusable buffer", "a scanner keeps a reference to the pump's reusable read buffer ("+why+"): the next read overwrites what it kept, or its appends overwrite live output")
			}
		}
	}
	// trace logger returns its argument except on the two marker edges
	tl := c.fn("traceLogger.writeTraceLog")
	eachInstr(tl, func(in ssa.Instruction) {
		r, ok := in.(*ssa.Return)
		if !ok {
			return
		}
		if isVar("buf")(r.Results[0]) {
			return
		}
		call, _ := callOf(r.Results[0])
		marker := call != nil && calleeID(&call.Call) == "bytes.ReplaceAll" && len(factCalls(factsAt(r.Block()), "bytes.Contains", true)) > 0
		c.check(marker, "writeTraceLog/returns-input", c.ipos(r), "the trace logger changes output only where a trace-log marker was found", "the trace logger alters output without a marker")
	})
}

func c05R7(c *Ctx) {
	f := c.fn("TrzszMain")
	var wait ssa.Instruction
	for _, ci := range callsIn(f, idIs("(*trzsz.trzszPty).Wait")) {
		wait = ci.(ssa.Instruction)
	}
	if wait == nil {
		c.bad("TrzszMain/wait", c.pos(f.Pos()), "the wrapper does not wait for the wrapped command")
		return
	}
	n := 0
	eachInstr(f, func(in ssa.Instruction) {
		r, ok := in.(*ssa.Return)
		if !ok || !domI(wait, r) {
			return
		}
		n++
		call, _ := callOf(retVal(r, 0))
		c.check(call != nil && calleeID(&call.Call) == "(*trzsz.trzszPty).ExitCode", "TrzszMain/exit-code", c.ipos(r), "after waiting, the wrapped command's exit code is returned", "the wrapper does not return the wrapped command's exit code")
	})
	if n == 0 {
		c.bad("TrzszMain/exit-code", c.pos(f.Pos()), "no return after waiting for the wrapped command")
	}
	// wiring: terminal input/output on the client side, the wrapped command's pty on the server side; relay only with -r
	isStd := func(name string) func(ssa.Value) bool {
		return func(v ssa.Value) bool {
			u, ok := strip(v).(*ssa.UnOp)
			if !ok || u.Op != token.MUL {
				return false
			}
			g, isG := u.X.(*ssa.Global)
			return isG && g.Name() == name
		}
	}
	for _, w := range []struct {
		callee string
		relay  bool
	}{{"trzsz.NewTrzszFilter", false}, {"trzsz.NewTrzszRelay", true}} {
		calls := callsIn(f, idIs(w.callee))
		if len(calls) != 1 {
			c.bad("TrzszMain/wiring."+shortID(w.callee), c.pos(f.Pos()), "expected exactly one construction of the wrapper / relay")
			continue
		}
		a := calls[0].Common().Args
		good := len(a) >= 4 && isStd("Stdin")(a[0]) && isStd("Stdout")(a[1]) && isFieldLoad("stdin")(a[2]) && isFieldLoad("stdout")(a[3])
		c.check(good, "TrzszMain/wiring."+shortID(w.callee), c.ipos(calls[0]), "client side = this process's stdin/stdout, server side = the wrapped command's pty", "the wrapper's four streams are not wired (stdin, stdout, pty.stdin, pty.stdout)")
		v, known := boolFieldFactAt(calls[0].Block(), "Relay")
		c.check(known && v == w.relay, "TrzszMain/relay-iff-asked."+shortID(w.callee), c.ipos(calls[0]), "the relay runs exactly when -r was given, the wrapper otherwise", "wrapper and relay are chosen on the wrong edge of the -r option")
	}
}

// c05R8: the wrapper's own two pumps. The input pump hands exactly buffer[0:n] of every non-empty read to sendInput and
// ends only when the terminal's input reported EOF; the output pump likewise ends only on EOF of the remote output.
func c05R8(c *Ctx) {
	isEOF := func(v ssa.Value) bool {
		u, ok := strip(v).(*ssa.UnOp)
		if !ok || u.Op != token.MUL {
			return false
		}
		g, isG := u.X.(*ssa.Global)
		return isG && g.Name() == "EOF"
	}
	for _, name := range []string{"TrzszFilter.wrapInput", "TrzszFilter.wrapOutput"} {
		f := c.fn(name)
		var read *ssa.Call
		eachInstr(f, func(in ssa.Instruction) {
			if call, ok := in.(*ssa.Call); ok && call.Call.IsInvoke() && call.Call.Method.Name() == "Read" {
				read = call
			}
		})
		if read == nil {
			c.lost("Read in " + name)
		}
		n, rerr := extractOf(read, 0), extractOf(read, 1)
		eofEdge := func(from, to *ssa.BasicBlock) bool {
			return factCmp(edgeFactsTo(from, to), token.EQL, isValue(rerr), isEOF)
		}
		hit, path := reachFromE(read.Block(), instrIndex(read)+1, isReturn, nil, eofEdge)
		c.check(hit == nil, name+"/ends-only-on-EOF", c.ipos(read), "the pump ends only on the edge where its source reported EOF", "the pump can end although its source is still open: that direction of the session goes dead", c.pathStr(path)...)
		if name != "TrzszFilter.wrapInput" {
			continue
		}
		var deliver ssa.Instruction
		exact := false
		for _, ci := range callsIn(f, idIs("(*trzsz.TrzszFilter).sendInput")) {
			sl, isS := ci.Common().Args[1].(*ssa.Slice)
			if isS && sameValue(sl.X, read.Call.Args[0]) {
				deliver = ci.(ssa.Instruction)
				exact = (sl.Low == nil || isConstIntV(0)(sl.Low)) && sl.High != nil && sameValue(sl.High, n)
			}
		}
		c.check(deliver != nil && exact, name+"/delivers-buf[:n]", c.ipos(read), "what is handed to the input handler is exactly buffer[0:n] of the read just done", "the input handler is not given exactly the bytes the read returned")
		if deliver == nil {
			continue
		}
		empty := func(from, to *ssa.BasicBlock) bool {
			fs := edgeFactsTo(from, to)
			return factCmp(fs, token.LEQ, isValue(n), isConstIntV(0)) || factCmp(fs, token.EQL, isValue(n), isConstIntV(0)) || factCmp(fs, token.LSS, isValue(n), isConstIntV(1))
		}
		hit, path = reachFromE(read.Block(), instrIndex(read)+1, func(in ssa.Instruction) bool { return in == ssa.Instruction(read) || isReturn(in) }, func(in ssa.Instruction) bool { return in == deliver }, empty)
		c.check(hit == nil, name+"/no-read-dropped", c.ipos(read), "typed bytes (n > 0) always reach the input handler before the next read or the exit", "typed bytes can be skipped by the input pump", c.pathStr(path)...)
		// after EOF the pump does not read again (off Windows, where EOF of the console is answered with Ctrl-Z and reading goes on)
		notWin := func(from, to *ssa.BasicBlock) bool {
			for _, fc := range edgeFactsTo(from, to) {
				if call, _ := callOf(fc.V); call != nil && calleeID(&call.Call) == "trzsz.isRunningOnWindows" && fc.Pol {
					return true
				}
			}
			return false
		}
		for _, b := range f.Blocks {
			for _, sx := range b.Succs {
				if len(b.Succs) == 2 && b.Succs[0] != b.Succs[1] && eofEdge(b, sx) {
					hit, path = reachFromE(sx, 0, func(in ssa.Instruction) bool { return in == ssa.Instruction(read) }, nil, notWin)
					c.check(hit == nil, name+"/EOF-ends-pump", c.pos(b.Instrs[len(b.Instrs)-1].Pos()), "after EOF the pump does not read again", "after EOF the pump reads again: it spins on a closed input and never closes the remote side's input", c.pathStr(path)...)
				}
			}
		}
		// leaving the pump closes the remote side's input (the wrapped command sees EOF)
		closes := func(in ssa.Instruction) bool {
			ci, ok := in.(ssa.CallInstruction)
			return ok && ci.Common().IsInvoke() && ci.Common().Method.Name() == "Close" && isFieldOfName(ci.Common().Value, "serverIn")
		}
		hit, path = reachFromE(read.Block(), instrIndex(read)+1, isReturn, closes, nil)
		c.check(hit == nil, name+"/EOF-closes-remote-input", c.ipos(read), "when the terminal's input ends the remote side's input is closed", "the pump can end without closing the remote side's input", c.pathStr(path)...)
	}
}

// stopLatchRule: once nobody reads the transfer's queue any more, nothing is put into it.
// cleanInput (the wind-up of a failed transfer) latches 'stopped' before it drains, and the
// pump-side entry enqueues only where 'stopped' was just read false. Without either half the
// wrapper's single output pump fills the bounded queue of a dead transfer and blocks for good.
func stopLatchRule(c *Ctx) {
	ci := c.fn("trzszTransfer.cleanInput")
	drains := callsIn(ci, idIs("(*trzsz.trzszBuffer).drainBuffer"))
	if len(drains) == 0 {
		c.lost("drainBuffer call in cleanInput")
	}
	var latch ssa.Instruction
	eachInstr(ci, func(in ssa.Instruction) {
		if isStoppedLatch(in) && latch == nil {
			latch = in
		}
	})
	for _, d := range drains {
		c.check(latch != nil && domI(latch, d), "cleanInput/latches-stopped-before-drain", c.ipos(d), "the wind-up sets 'stopped' before draining the queue", "the wind-up of a failed transfer drains the queue without first setting 'stopped': later output is queued where nobody reads it, and the output pump blocks when the queue is full")
	}
	ar := c.fn("trzszTransfer.addReceivedData")
	adds := callsIn(ar, idIs("(*trzsz.trzszBuffer).addBuffer"))
	if len(adds) == 0 {
		c.lost("addBuffer call in addReceivedData")
	}
	for _, a := range adds {
		gated := false
		for _, fc := range factsAt(a.Block()) {
			if call, _ := callOf(fc.V); call != nil && !fc.Pol && isAtomicOnField(call, "stopped", "Load") {
				gated = true
			}
		}
		c.check(gated, "addReceivedData/enqueue-only-while-running", c.ipos(a), "bytes are queued only where 'stopped' was read false", "bytes are queued for a transfer that has stopped reading")
	}
}

// clearsDeferred: a deferred call that stores nil into the prompt pipe.
func clearsDeferred(d *ssa.Defer) bool {
	if !isAtomicOnField(d, "promptPipe", "Store") {
		return false
	}
	return isNilConst(d.Call.Args[1])
}

// guardedBy: every access of a field that the code protects with a mutex happens with that mutex held. The table is
// what the tree does today (confirmed by reading: all accesses of each field sit between Lock and the deferred Unlock
// of the named mutex in their function); an access moved outside the region — "the lock is only needed for the
// append" — races with the delayed flush / the upload goroutine.
func guardedBy(c *Ctx) {
	for _, g := range []struct{ field, mutex, why string }{
		{"TrzszFilter.dragInputBuffer", "dragBufferMutex", "the pending Windows-path buffer is appended to by the input pump and taken by the delayed flush"},
		{"TrzszFilter.dragFiles", "dragMutex", "the dragged-files list is appended to by the input pump and taken by the upload goroutine"},
	} {
		n := 0
		for _, f := range c.AllFns {
			var lr *lockRegion
			looked := false
			eachInstr(f, func(in ssa.Instruction) {
				fa, ok := in.(*ssa.FieldAddr)
				if !ok {
					return
				}
				if nm, _ := fieldAddrName(fa); nm != g.field {
					return
				}
				if !looked {
					lr, looked = findLock(f, g.mutex), true
				}
				n++
				c.check(lr != nil && lr.held(in), "guarded-by/"+g.field+"@"+c.fnName(f), c.ipos(in), "accessed with "+g.mutex+" held", "accessed without "+g.mutex+" held: "+g.why)
			})
		}
		if n < 3 {
			c.undecided("guarded-by/"+g.field, "fewer accesses than expected")
		}
	}
}

// dragWholeInput: typed input is claimed as a drag only when it is, entirely, a list of paths (C05: "input that is
// entirely a list of existing local paths"). Decided here: the structural part — each platform detector answers with
// a file list only on the exit edge of its scanning loop, where the scan position has reached the input's length
// (or, for the one-path Windows form, after the whole input but its closing quote was checked as one path). A loop
// that stops early ("the rest is too short to be a path") claims input with an unscanned tail. Not decided: what
// counts as a path on each platform.
func dragWholeInput(c *Ctx) {
	for _, nm := range []string{"detectDragFilesOnLinux", "detectDragFilesOnMacOS", "detectDragFilesOnWindows"} {
		f := c.fn(nm)
		buf := f.Params[0]
		isLen := func(v ssa.Value) bool {
			for _, l := range origins(v, originOpts{}) {
				if !isLenOf(strip(l.V), func(x ssa.Value) bool {
					for _, o := range origins(x, originOpts{throughSlice: true}) {
						if call, _ := callOf(o.V); call != nil {
							continue // buf = append(buf, ' ') / TrimSpace(buf[1:]): still the input
						}
						if strip(o.V) != ssa.Value(buf) {
							return false
						}
					}
					return true
				}) {
					return false
				}
			}
			return true
		}
		n := 0
		eachInstr(f, func(in ssa.Instruction) {
			r, ok := in.(*ssa.Return)
			if !ok || isNilConst(retVal(r, 0)) {
				return
			}
			n++
			fs := factsAt(in.Block())
			scanned := factCmp(fs, token.GEQ, anyValue, isLen)
			if !scanned {
				// the one-path form: detectFilePath(string(buf[:length-1])) was true
				for _, call := range factCalls(fs, "trzsz.detectFilePath", true) {
					var arg ssa.Value = call.Call.Args[0]
					if cv, isConv := arg.(*ssa.Convert); isConv {
						arg = cv.X
					}
					if sl, isSl := arg.(*ssa.Slice); isSl && (sl.Low == nil || isConstIntV(0)(sl.Low)) && sl.High != nil {
						if b, isB := sl.High.(*ssa.BinOp); isB && b.Op == token.SUB && isLen(b.X) && isConstIntV(1)(b.Y) {
							scanned = true
						}
					}
				}
			}
			c.check(scanned, nm+"/answers-only-after-whole-input", c.ipos(in), "a file list is answered only when the scan reached the end of the input", "the detector can answer with a file list although the scan stopped before the end of the input: typed bytes after the last recognised path are swallowed with the claim")
		})
		if n == 0 {
			c.undecided(nm+"/answers-only-after-whole-input", "no successful answer found in the detector")
		}
	}
}

// subsliceFuncs: library functions whose result is a sub-slice of their first argument.
var subsliceFuncs = map[string]bool{"bytes.TrimPrefix": true, "bytes.TrimSuffix": true, "bytes.TrimSpace": true, "bytes.Trim": true,
	"bytes.TrimLeft": true, "bytes.TrimRight": true, "bytes.TrimFunc": true, "bytes.TrimLeftFunc": true, "bytes.TrimRightFunc": true}

// aliasesParam: v may share p's backing array (slices of it, trimmed forms, appends onto such a slice).
func aliasesParam(v ssa.Value, p *ssa.Parameter, depth int) bool {
	if depth > 8 {
		return false
	}
	for _, l := range origins(v, originOpts{throughSlice: true}) {
		if l.V == ssa.Value(p) {
			return true
		}
		if call, ok := l.V.(*ssa.Call); ok && len(call.Call.Args) > 0 {
			id := calleeID(&call.Call)
			if id == "builtin append" && fullCapSlice(call.Call.Args[0]) {
				continue // append onto x[:n:n] always allocates: the result shares nothing with x
			}
			if subsliceFuncs[id] || id == "builtin append" {
				if aliasesParam(call.Call.Args[0], p, depth+1) {
					return true
				}
			}
		}
	}
	return false
}

// writesChunk: f writes into the backing array of its []byte parameter p — an element store, an append onto a slice of
// it, a copy into it — or hands it to a function of the package that does.
func writesChunk(c *Ctx, f *ssa.Function, p *ssa.Parameter, depth int, seen map[*ssa.Function]bool) (bool, string) {
	if depth > 5 || seen[f] || f.Blocks == nil {
		return false, ""
	}
	seen[f] = true
	wrote, where := false, ""
	eachInstr(f, func(in ssa.Instruction) {
		if wrote {
			return
		}
		switch x := in.(type) {
		case *ssa.Store:
			if ia, ok := x.Addr.(*ssa.IndexAddr); ok && aliasesParam(ia.X, p, 0) {
				wrote, where = true, "element store in "+c.fnName(f)+" at "+c.ipos(in)
			}
		case *ssa.Call:
			id := calleeID(&x.Call)
			if id == "builtin append" && len(x.Call.Args) > 0 && fullCapSlice(x.Call.Args[0]) {
				return
			}
			if (id == "builtin append" || id == "builtin copy") && len(x.Call.Args) > 0 && aliasesParam(x.Call.Args[0], p, 0) {
				wrote, where = true, strings.TrimPrefix(id, "builtin ")+" onto a slice of it in "+c.fnName(f)+" at "+c.ipos(in)
				return
			}
			g := x.Call.StaticCallee()
			if g == nil || g.Blocks == nil || g.Pkg != f.Pkg {
				return
			}
			for i, a := range x.Call.Args {
				if i < len(g.Params) && strings.HasPrefix(g.Params[i].Type().String(), "[]byte") && aliasesParam(a, p, 0) {
					if w, wh := writesChunk(c, g, g.Params[i], depth+1, seen); w {
						wrote, where = true, wh
					}
				}
			}
		}
	})
	return wrote, where
}

// fullCapSlice: v is x[i:n:n] — no spare capacity, so appending to it copies.
func fullCapSlice(v ssa.Value) bool {
	sl, ok := strip(v).(*ssa.Slice)
	return ok && sl.Max != nil && sl.High != nil && strip(sl.Max) == strip(sl.High)
}
