package main

// C19 — zmodem hands the terminal back: life-cycle flag discipline.

import (
	"fmt"
	"go/token"
	"strings"

	"trzszlint/xssa"
)

func init() {
	register("C19", 14, "Decided (for every path of the current source): (R1) a session is created only when the init header matched and neither the cancel sub-sequence nor the cannot-open text is in the same chunk; (R2) every place that sets 'stopped' arms the end of the session on every path — the cleanup timer, 'cleaned' directly, or killing the helper (whose exit watcher arms the timer); (R3) every error path and the helper's exit path send the cancel sequence to the server, and a helper that cannot be started leads to the error path; (R4) the output pump's decline condition and the input gate use the same two flags, the decline happens only when both are set; (R5) 'cleaned' is set only by the timer callback and by the cancelled-before-start edge. Not decided: liveness for all event orders, the 500 ms bound. (R7) the bridge: remote->helper on the helper-running edge, helper->remote as exactly buffer[:n], loop left only for a reason, helper published before the loop, pipes and writers installed before use, header type selects sz/rz, Ctrl-C and the start-up check reach the error path, pre-start end only on cancel / cannot-open, kill-iff-helper.",
		func(c *Ctx) {
			c.run("C19-R1", "GUARD-DOM: header detection with cancel / cannot-open veto", c19R1)
			c.run("C19-R2", "MUST-PASS: whoever stops the session arms its end", c19R2)
			c.run("C19-R3", "MUST-PASS: errors and helper exit cancel the server side", c19R3)
			c.run("C19-R6", "MUST-PASS: a finished session stops reading the helper, makes it exit, and the exit watcher always arms the cleanup", c19Stream)
			c.run("C19-R7", "MUST-PASS/GUARD-DOM/WHO-WRITES: the bridge hands traffic on unchanged in both directions, from installed pipes, with the matching helper", c19Bridge)
			c.run("C19-R8", "LAUNCH: the helper's exit watcher is started with go", c19Launch)
			c.run("C19-S1", "shared with C05-R4: the filter gives a finished or declined session up, so the next rz/sz header starts a new one", c05R4)
			c.run("C19-S2", "shared with C05-R2: typed input is withheld only while the session is transferring (not merely while its pointer is set)", c05R2)
			c.run("C19-R4", "SIBLING: decline condition and input gate agree", c19R4)
			c.run("C19-R5", "WHO-WRITES: the 'cleaned' flag", c19R5)
		})
}

func globalName(v ssa.Value) string {
	u, ok := strip(v).(*ssa.UnOp)
	if !ok {
		return ""
	}
	g, ok := u.X.(*ssa.Global)
	if !ok {
		return ""
	}
	return g.Name()
}

func c19R1(c *Ctx) {
	f := c.fn("detectZmodem")
	n := 0
	eachInstr(f, func(in ssa.Instruction) {
		r, ok := in.(*ssa.Return)
		if !ok || isNilConst(retVal(r, 0)) {
			return
		}
		n++
		fs := factsAt(r.Block())
		matched := factCmp(fs, token.GEQ, func(v ssa.Value) bool { lc, _ := callOf(v); return lc != nil && calleeID(&lc.Call) == "builtin len" }, isConstIntV(2))
		vetoes := map[string]bool{}
		for _, call := range factCalls(fs, "bytes.Contains", false) {
			vetoes[globalName(call.Call.Args[1])] = true
		}
		c.check(matched, "detectZmodem/header-matched", c.ipos(r), "a session is created only when the init header matched", "a zmodem session can be created without a matching init header")
		c.check(vetoes["zmodemCancelSubSequence"], "detectZmodem/cancel-veto", c.ipos(r), "a chunk carrying the cancel sequence starts no session", "a chunk that also carries a cancel sequence starts a session")
		c.check(vetoes["zmodemCanNotOpenFile"], "detectZmodem/cannot-open-veto", c.ipos(r), "a chunk carrying 'cannot open' starts no session", "a chunk that also carries 'cannot open' starts a session")
	})
	if n == 0 {
		c.bad("detectZmodem/creates", c.pos(f.Pos()), "the detector never creates a session")
	}
	// the header regexp is the one matched
	uses := false
	for _, ci := range callsIn(f, idIs("(*regexp.Regexp).FindSubmatch")) {
		if globalName(ci.Common().Args[0]) == "zmodemInitRegexp" {
			uses = true
		}
	}
	c.check(uses, "detectZmodem/init-regexp", c.pos(f.Pos()), "detection uses the init-header regexp", "detection no longer uses the init-header regexp")
	// the cancel marker itself: five CAN bytes (what ZMODEM defines as an abort; real aborts carry 5, 8 or 10 of them, in one read
	// or split), a literal, contained in the sequence this code sends, and the marker both places look for
	sub, okS := c.globalBytes("zmodemCancelSubSequence")
	full, okF := c.globalBytes("zmodemCancelFullSequence")
	c.check(okS && sub == "\x18\x18\x18\x18\x18", "cancel-marker/five-CAN", "", "the cancel marker is the literal five-CAN sequence", "the cancel marker is not the literal five-CAN sequence: shorter or split aborts from the remote side are no longer recognised")
	c.check(okS && okF && strings.Contains(full, sub), "cancel-marker/sent-sequence-contains-it", "", "the cancel sequence this code sends contains the marker it looks for", "the cancel sequence sent does not contain the marker looked for")
	so := c.fn("zmodemTransfer.handleServerOutput")
	pre := false
	for _, ci := range callsIn(so, idIs("bytes.Contains")) {
		if globalName(ci.Common().Args[1]) == "zmodemCancelSubSequence" {
			pre = true
		}
	}
	pre2 := false
	for _, ci := range callsIn(so, idIs("bytes.Contains")) {
		if globalName(ci.Common().Args[1]) == "zmodemCanNotOpenFile" && isVar("buf")(ci.Common().Args[0]) {
			pre2 = true
		}
		if globalName(ci.Common().Args[1]) == "zmodemCancelSubSequence" && !isVar("buf")(ci.Common().Args[0]) {
			pre = false
		}
	}
	c.check(pre2, "handleServerOutput/pre-start-cannot-open", c.pos(so.Pos()), "before the helper runs, the remote side's 'cannot open' message is looked for in the chunk", "before the helper runs, 'cannot open' is not looked for in the chunk (arguments swapped or test gone): the session keeps waiting for a helper")
	c.check(pre, "handleServerOutput/pre-start-cancel-marker", c.pos(so.Pos()), "before the helper runs, a remote cancel is recognised by the five-CAN marker", "before the helper runs, a remote cancel is not looked for with the five-CAN marker (an 8-CAN abort or a split sequence leaves the session waiting)")
}

// globalBytes: the constant string a package-level []byte / string variable is initialised from.
func (c *Ctx) globalBytes(name string) (string, bool) {
	init := c.Funcs["init"]
	if init == nil {
		return "", false
	}
	val, found := "", false
	eachInstr(init, func(in ssa.Instruction) {
		st, ok := in.(*ssa.Store)
		if !ok {
			return
		}
		g, isG := st.Addr.(*ssa.Global)
		if !isG || g.Name() != name {
			return
		}
		if s, ok := constString(strip(st.Val)); ok {
			val, found = s, true
		}
	})
	return val, found
}

func isStoppedSet(in ssa.Instruction) bool {
	ci, ok := in.(ssa.CallInstruction)
	if !ok {
		return false
	}
	if n, _ := fieldAddrNameOfArg0(ci); n != "zmodemTransfer.stopped" {
		return false
	}
	if isAtomicOnField(ci, "stopped", "Store") {
		b, isC := constBool(ci.Common().Args[1])
		return isC && b
	}
	if isAtomicOnField(ci, "stopped", "CompareAndSwap") {
		b, isC := constBool(ci.Common().Args[2])
		return isC && b
	}
	return false
}

func fieldAddrNameOfArg0(ci ssa.CallInstruction) (string, bool) {
	if len(ci.Common().Args) == 0 {
		return "", false
	}
	return fieldAddrName(ci.Common().Args[0])
}

func c19R2(c *Ctx) {
	arms := func(in ssa.Instruction) bool {
		ci, ok := in.(ssa.CallInstruction)
		if !ok {
			return false
		}
		switch calleeID(ci.Common()) {
		case "(*trzsz.zmodemTransfer).resetCleanupTimer", "(*trzsz.zmodemTransfer).ensureClientExit":
			return true
		}
		if n, _ := fieldAddrNameOfArg0(ci); n == "zmodemTransfer.cleaned" && isAtomicOnField(ci, "cleaned", "Store") {
			b, isC := constBool(ci.Common().Args[1])
			return isC && b
		}
		return false
	}
	n := 0
	for _, f := range c.AllFns {
		fname := c.fnName(f)
		eachInstr(f, func(in ssa.Instruction) {
			if !isStoppedSet(in) {
				return
			}
			n++
			// armed before (dominating) or on every path after
			before := false
			eachInstr(f, func(x ssa.Instruction) {
				if arms(x) && domI(x, in) && x != in {
					before = true
				}
			})
			if before {
				c.ok(fname+"/stopped=>armed", c.ipos(in), "the end of the session is armed before 'stopped' is set")
				return
			}
			start, idx := in.Block(), instrIndex(in)+1
			var eb func(from, to *ssa.BasicBlock) bool
			if call, ok := in.(*ssa.Call); ok {
				// CAS: only the won edge
				for _, r := range referrersOf(call) {
					if i, ok := r.(*ssa.If); ok {
						nf := normFact(fact{V: i.Cond, Pol: true})
						lost := i.Block().Succs[1]
						if !nf.Pol {
							lost = i.Block().Succs[0]
						}
						ib := i.Block()
						eb = func(from, to *ssa.BasicBlock) bool { return from == ib && to == lost }
					}
				}
			}
			hit, path := reachFromE(start, idx, isReturn, arms, eb)
			c.check(hit == nil, fname+"/stopped=>armed", c.ipos(in), "every path after setting 'stopped' arms the cleanup (timer, cleaned, or helper kill whose exit watcher arms it)",
				"'stopped' is set but on some path nothing arms the cleanup: with a quiet remote side the session never ends and typed input stays swallowed", c.pathStr(path)...)
		})
	}
	if n < 3 {
		c.undecided("stopped-setters", "expected three places that set 'stopped'")
	}
	// the helper kill really leads to the exit watcher, which arms the timer
	w := c.fn("zmodemTransfer.checkClientExited")
	waits := len(callsIn(w, idIs("(*os/exec.Cmd).Wait"))) > 0
	armsT := len(callsIn(w, idIs("(*trzsz.zmodemTransfer).resetCleanupTimer"))) > 0
	c.check(waits && armsT, "checkClientExited/arms-after-exit", c.pos(w.Pos()), "the exit watcher arms the cleanup timer when the helper is gone", "the exit watcher no longer arms the cleanup timer")
	hs := c.fn("zmodemTransfer.handleZmodemStream")
	started := false
	eachInstr(hs, func(in ssa.Instruction) {
		if g, ok := in.(*ssa.Go); ok && calleeID(&g.Call) == "(*trzsz.zmodemTransfer).checkClientExited" {
			started = true
		}
	})
	c.check(started, "handleZmodemStream/starts-watcher", c.pos(hs.Pos()), "the exit watcher runs for every started helper", "no exit watcher is started for the helper")
	ke := c.fn("zmodemTransfer.ensureClientExit$1")
	kills := len(callsIn(ke, idIs("(*os.Process).Kill"))) > 0
	c.check(kills, "ensureClientExit/kills", c.pos(ke.Pos()), "ensureClientExit kills the helper", "ensureClientExit no longer kills the helper")
	// the timer callback sets cleaned
	cb := c.fn("zmodemTransfer.resetCleanupTimer$1")
	sets := false
	for _, ci := range callsIn(cb, anyID) {
		if isAtomicOnField(ci, "cleaned", "Store") {
			if b, _ := constBool(ci.Common().Args[1]); b {
				sets = true
			}
		}
	}
	c.check(sets, "resetCleanupTimer/callback-sets-cleaned", c.pos(cb.Pos()), "the cleanup timer sets 'cleaned'", "the cleanup timer no longer sets 'cleaned'")
}

func c19R3(c *Ctx) {
	isCancelWrite := func(in ssa.Instruction) bool {
		call, ok := in.(*ssa.Call)
		return ok && calleeID(&call.Call) == "trzsz.writeAll" && isFieldOfName(call.Call.Args[0], "serverIn") && globalName(call.Call.Args[1]) == "zmodemCancelFullSequence"
	}
	f := c.fn("zmodemTransfer.handleZmodemError")
	// on the CAS-won path
	var cas *ssa.Call
	eachInstr(f, func(in ssa.Instruction) {
		if isStoppedSet(in) {
			cas, _ = in.(*ssa.Call)
		}
	})
	if cas == nil {
		c.lost("stopped CAS in handleZmodemError")
	}
	var won *ssa.BasicBlock
	for _, r := range referrersOf(cas) {
		if i, ok := r.(*ssa.If); ok {
			nf := normFact(fact{V: i.Cond, Pol: true})
			won = i.Block().Succs[0]
			if !nf.Pol {
				won = i.Block().Succs[1]
			}
		}
	}
	if won == nil {
		c.lost("branch on the stopped CAS")
	}
	{
		// no exit of the error handler precedes the attempt to latch 'stopped' (an early "nothing to do" return makes the session immune to Ctrl-C and to the timeout)
		h0, p0 := reachFrom(f.Blocks[0], 0, isReturn, c.orWrapper("zm-latch", func(in ssa.Instruction) bool { return isStoppedSet(in) }))
		c.check(h0 == nil, "handleZmodemError/always-latches", c.pos(f.Pos()), "every call of the error handler tries to latch 'stopped'", "the error handler can return without trying to stop the session", c.pathStr(p0)...)
		st := c.fn("zmodemTransfer.stopTransferringFiles")
		h1, p1 := reachFrom(st.Blocks[0], 0, isReturn, c.orWrapper("zm-error-path", func(in ssa.Instruction) bool {
			c2, ok := in.(ssa.CallInstruction)
			return ok && calleeID(c2.Common()) == "(*trzsz.zmodemTransfer).handleZmodemError"
		}))
		c.check(h1 == nil, "stopTransferringFiles/always-error-path", c.pos(st.Pos()), "a stop request always takes the error path", "a stop request (Ctrl-C) can return without taking the error path", c.pathStr(p1)...)
	}
	hit, path := reachFrom(won, 0, isReturn, isCancelWrite)
	c.check(hit == nil, "handleZmodemError/cancels-server", c.pos(f.Pos()), "every error tells the server side to cancel", "an error path does not send the cancel sequence to the server", c.pathStr(path)...)
	w := c.fn("zmodemTransfer.checkClientExited")
	hit, path = reachFrom(w.Blocks[0], 0, isReturn, isCancelWrite)
	c.check(hit == nil, "checkClientExited/cancels-server", c.pos(w.Pos()), "after the helper exits the server side is told to cancel", "a helper exit path does not send the cancel sequence to the server", c.pathStr(path)...)
	for _, name := range []string{"zmodemTransfer.uploadFiles", "zmodemTransfer.downloadFiles"} {
		g := c.fn(name)
		for _, ci := range callsIn(g, idIs("(*trzsz.zmodemTransfer).launchZmodemCmd")) {
			call := ci.(*ssa.Call)
			u := classifyErrUse(errorValueOf(call))
			good := len(u.tests) > 0
			for _, t := range u.tests {
				h, _ := reachFrom(t.Block().Succs[nonNilEdge(t)], 0, isReturn, func(x ssa.Instruction) bool {
					c2, ok := x.(ssa.CallInstruction)
					return ok && calleeID(c2.Common()) == "(*trzsz.zmodemTransfer).handleZmodemError"
				})
				if h != nil {
					good = false
				}
			}
			c.check(good, name+"/start-failure=>error-path", c.ipos(ci), "a helper that cannot be started leads to the error path", "a helper start failure is not reported through the error path")
		}
	}
	// universal forms over the helpers every other rule takes as "the outcome": an upload / download attempt always ends
	// in the bridge or in the error path; the exit guard always arms the kill; re-arming the clean-up always ends with a
	// running timer whose callback declares the session cleaned
	{
		callTo := func(ids ...string) func(ssa.Instruction) bool {
			return func(in ssa.Instruction) bool {
				ci, ok := in.(ssa.CallInstruction)
				return ok && idIs(ids...)(calleeID(ci.Common()))
			}
		}
		for _, name := range []string{"zmodemTransfer.uploadFiles", "zmodemTransfer.downloadFiles"} {
			g := c.fn(name)
			hit, path := reachFrom(g.Blocks[0], 0, isReturn, c.orWrapper("zm-bridge-or-error", callTo("(*trzsz.zmodemTransfer).handleZmodemStream", "(*trzsz.zmodemTransfer).handleZmodemError")))
			c.check(hit == nil, name+"/always-bridge-or-error", c.pos(g.Pos()), "the attempt always ends in the bridge or in the error path", "the attempt can return having neither started the bridge nor reported an error: the session hangs with the remote program waiting", c.pathStr(path)...)
		}
		ece := c.fn("zmodemTransfer.ensureClientExit")
		hit, path := reachFrom(ece.Blocks[0], 0, isReturn, func(in ssa.Instruction) bool {
			g, ok := in.(*ssa.Go)
			return ok && g.Call.StaticCallee() != nil // the guard's goroutine: a closure of the guard, or a function of its own
		})
		c.check(hit == nil, "ensureClientExit/always-arms", c.pos(ece.Pos()), "the exit guard is always armed", "the exit guard can return without arming the kill", c.pathStr(path)...)
		if k := c.Funcs["zmodemTransfer.ensureClientExit$1"]; k != nil {
			hit, path = reachFrom(k.Blocks[0], 0, isReturn, func(in ssa.Instruction) bool {
				ci, ok := in.(ssa.CallInstruction)
				return ok && calleeID(ci.Common()) == "(*os.Process).Kill"
			})
			c.check(hit == nil, "ensureClientExit/always-kills", c.pos(k.Pos()), "the armed guard always kills the helper", "the armed guard can end without killing the helper (a helper that hangs after its finish header is immune)", c.pathStr(path)...)
		}
		// the two watchdog timers end in the error path, and so do the bridge's own I/O failures
		for _, nm := range []string{"zmodemTransfer.resetClientTimer$1", "zmodemTransfer.resetServerTimer$1"} {
			cb := c.fn(nm)
			hitT, pathT := reachFrom(cb.Blocks[0], 0, isReturn, c.orWrapper("zm-error-path", callTo("(*trzsz.zmodemTransfer).handleZmodemError")))
			c.check(hitT == nil, nm+"/timeout=>error-path", c.pos(cb.Pos()), "a watchdog that fires takes the error path", "a watchdog timer can fire without the error path being taken: a stalled session is never cancelled and never handed back", c.pathStr(pathT)...)
		}
		hs := c.fn("zmodemTransfer.handleZmodemStream")
		nIO := 0
		eachInstr(hs, func(in ssa.Instruction) {
			call, ok := in.(*ssa.Call)
			if !ok {
				return
			}
			isWrite := calleeID(&call.Call) == "trzsz.writeAll" && isFieldOfName(call.Call.Args[0], "serverIn")
			isRead := call.Call.IsInvoke() && call.Call.Method.Name() == "Read"
			if !isWrite && !isRead {
				return
			}
			nIO++
			ev := errorValueOf(call)
			// from the call, over edges on which its error is non-nil and not EOF, the function does not end without the error path
			for _, b := range hs.Blocks {
				for k, sx := range b.Succs {
					if len(b.Succs) != 2 || b.Succs[0] == b.Succs[1] {
						continue
					}
					fs := edgeFactsTo(b, sx)
					_, nonNil := factNil(fs, ev)
					if !nonNil {
						continue
					}
					_ = k
					hitE, pathE := reachFromE(sx, 0, isReturn, c.orWrapper("zm-error-path", callTo("(*trzsz.zmodemTransfer).handleZmodemError")), func(from, to *ssa.BasicBlock) bool {
						return factCmp(edgeFactsTo(from, to), token.EQL, isValue(ev), isEOFLoad)
					})
					what := "a failed write to the server"
					if isRead {
						what = "a failed read from the helper"
					}
					c.check(hitE == nil, "handleZmodemStream/"+map[bool]string{true: "read", false: "write"}[isRead]+"-failure=>error-path", c.ipos(call), "an I/O failure of the bridge takes the error path", what+" can end the bridge without the error path: nobody cancels the other side and the session is not handed back", c.pathStr(pathE)...)
				}
			}
		})
		if nIO < 2 {
			c.undecided("handleZmodemStream/io-sites", "expected the bridge's read and write")
		}
		// each direction of the bridge records the finish header of its own side, and the final "over and out" goes out
		// only when both sides have finished
		for _, w := range []struct{ fn, flag string }{{"zmodemTransfer.handleZmodemStream", "clientFinished"}, {"zmodemTransfer.handleServerOutput", "serverFinished"}} {
			g := c.fn(w.fn)
			n := 0
			for _, ci := range callsIn(g, anyID) {
				for _, fl := range []string{"clientFinished", "serverFinished"} {
					if isAtomicOnField(ci, fl, "CompareAndSwap", "Store") {
						n++
						c.check(fl == w.flag, "finish-flag/"+w.fn, c.ipos(ci), "the finish header seen in this direction sets this side's flag", "the finish header of one side sets the other side's flag: the final handshake is sent too early or never")
					}
				}
			}
			if n == 0 {
				c.bad("finish-flag/"+w.fn, c.pos(g.Pos()), "this direction no longer records its side's finish header")
			}
		}
		{
			eo := c.fn("zmodemTransfer.ensureOverAndOut")
			isL := func(fl string) func(ssa.Value) bool {
				return func(v ssa.Value) bool { call, _ := callOf(v); return call != nil && isAtomicOnField(call, fl, "Load") }
			}
			isOO := func(in ssa.Instruction) bool {
				call, ok := in.(*ssa.Call)
				return ok && calleeID(&call.Call) == "trzsz.writeAll" && globalName(call.Call.Args[1]) == "zmodemOverAndOut"
			}
			for _, row := range []struct {
				nm   string
				as   []assumption
				send bool
			}{
				{"both-finished", []assumption{{pred: isL("serverFinished"), val: true}, {pred: isL("clientFinished"), val: true}}, true},
				{"server-only", []assumption{{pred: isL("serverFinished"), val: true}, {pred: isL("clientFinished"), val: false}}, false},
				{"client-only", []assumption{{pred: isL("serverFinished"), val: false}, {pred: isL("clientFinished"), val: true}}, false},
			} {
				reach := blocksUnder(eo, row.as)
				got := false
				eachInstr(eo, func(in ssa.Instruction) {
					if isOO(in) && reach[in.Block()] {
						got = true
					}
				})
				c.check(got == row.send, "ensureOverAndOut/"+row.nm, c.pos(eo.Pos()), "the final handshake is sent exactly when both sides have finished", "for '"+row.nm+"' the final handshake is "+map[bool]string{true: "sent", false: "not sent"}[got])
			}
		}
		rct := c.fn("zmodemTransfer.resetCleanupTimer")
		hit, path = reachFrom(rct.Blocks[0], 0, isReturn, c.orWrapper("zm-afterfunc", callTo("time.AfterFunc")))
		c.check(hit == nil, "resetCleanupTimer/always-arms", c.pos(rct.Pos()), "re-arming always ends with a running clean-up timer", "re-arming the clean-up can return without a running timer: the session is never declared cleaned", c.pathStr(path)...)
		if cb := c.Funcs["zmodemTransfer.resetCleanupTimer$1"]; cb != nil {
			hit, path = reachFrom(cb.Blocks[0], 0, isReturn, func(in ssa.Instruction) bool {
				ci, ok := in.(ssa.CallInstruction)
				if !ok || !isAtomicOnField(ci, "cleaned", "Store") {
					return false
				}
				b, isC := constBool(ci.Common().Args[1])
				return isC && b
			})
			c.check(hit == nil, "resetCleanupTimer/callback-always-sets-cleaned", c.pos(cb.Pos()), "the clean-up callback always declares the session cleaned", "the clean-up callback can return without declaring the session cleaned", c.pathStr(path)...)
		}
	}
	ev := c.fn("zmodemTransfer.handleZmodemEvent")
	for _, ci := range callsIn(ev, idIs("dynamic")) {
		call, ok := ci.(*ssa.Call)
		if !ok || errIndex(call.Call.Signature()) < 0 {
			continue
		}
		u := classifyErrUse(errorValueOf(call))
		good := len(u.tests) > 0
		for _, t := range u.tests {
			h, _ := reachFrom(t.Block().Succs[nonNilEdge(t)], 0, isReturn, func(x ssa.Instruction) bool {
				c2, ok := x.(ssa.CallInstruction)
				return ok && calleeID(c2.Common()) == "(*trzsz.zmodemTransfer).handleZmodemError"
			})
			if h != nil {
				good = false
			}
		}
		c.check(good, "handleZmodemEvent/chooser-error=>error-path", c.ipos(ci), "a failed/cancelled chooser leads to the error path", "a chooser error is not reported through the error path")
	}
}

// c19Stream: once the session is over (error, or both sides finished) the helper's output loop ends,
// so the helper is made to exit and the exit watcher arms the cleanup.
func c19Stream(c *Ctx) {
	f := c.fn("zmodemTransfer.handleZmodemStream")
	var read *ssa.Call
	eachInstr(f, func(in ssa.Instruction) {
		if call, ok := in.(*ssa.Call); ok && call.Call.IsInvoke() && call.Call.Method.Name() == "Read" {
			read = call
		}
	})
	if read == nil {
		c.lost("stdout.Read in handleZmodemStream")
	}
	n := 0
	for _, b := range f.Blocks {
		i := blockIf(b)
		if i == nil {
			continue
		}
		call, _ := callOf(i.Cond)
		if call == nil || !(isAtomicOnField(call, "errorOccurred", "Load") || isAtomicOnField(call, "clientFinished", "Load")) {
			continue
		}
		n++
		hit, path := reachFrom(b.Succs[0], 0, func(x ssa.Instruction) bool { return x == ssa.Instruction(read) }, nil)
		c.check(hit == nil, "handleZmodemStream/over=>leave-loop", c.ipos(i), "when the session is over the output loop ends (the helper is then made to exit)", "the helper's output keeps being read after the session is over: a helper that keeps talking is never killed and the terminal is never handed back", c.pathStr(path)...)
	}
	if n < 2 {
		c.undecided("handleZmodemStream/over-tests", "the session-over tests were not found")
	}
	// leaving the loop leads to ensureClientExit on every path
	hit, path := reachFrom(f.Blocks[0], 0, isReturn, func(x ssa.Instruction) bool {
		ci, ok := x.(ssa.CallInstruction)
		return ok && calleeID(ci.Common()) == "(*trzsz.zmodemTransfer).ensureClientExit"
	})
	c.check(hit == nil, "handleZmodemStream/exit=>kill-helper", c.pos(f.Pos()), "every way out of the stream handler makes sure the helper exits", "a way out of the stream handler leaves the helper running", c.pathStr(path)...)
	// the exit watcher arms the timer unconditionally
	w := c.fn("zmodemTransfer.checkClientExited")
	hit, path = reachFrom(w.Blocks[0], 0, isReturn, func(x ssa.Instruction) bool {
		ci, ok := x.(ssa.CallInstruction)
		return ok && calleeID(ci.Common()) == "(*trzsz.zmodemTransfer).resetCleanupTimer"
	})
	c.check(hit == nil, "checkClientExited/always-arms", c.pos(w.Pos()), "the exit watcher arms the cleanup timer on every path", "the exit watcher can return without arming the cleanup timer (e.g. when 'stopped' was already set by Ctrl-C): with a quiet server the session never ends", c.pathStr(path)...)
}

func c19R4(c *Ctx) {
	f := c.fn("zmodemTransfer.handleServerOutput")
	n := 0
	eachInstr(f, func(in ssa.Instruction) {
		r, ok := in.(*ssa.Return)
		if !ok {
			return
		}
		b, isC := constBool(r.Results[0])
		if !isC || b {
			return
		}
		n++
		fs := factsAt(r.Block())
		st, cl := false, false
		for _, fc := range fs {
			if call, _ := callOf(fc.V); call != nil && fc.Pol {
				if isAtomicOnField(call, "stopped", "Load") {
					st = true
				}
				if isAtomicOnField(call, "cleaned", "Load") {
					cl = true
				}
			}
		}
		// or: this very path just set both flags
		setBoth := 0
		for _, x := range r.Block().Instrs {
			if ci, ok := x.(ssa.CallInstruction); ok {
				for _, fl := range []string{"stopped", "cleaned"} {
					if isAtomicOnField(ci, fl, "Store") {
						if v, _ := constBool(ci.Common().Args[1]); v {
							setBoth++
						}
					}
				}
			}
		}
		c.check((st && cl) || setBoth == 2, "handleServerOutput/decline-only-when-stopped+cleaned", c.ipos(r), "output is declined only when the session is stopped and cleaned", "the session declines output (and is dropped) although it is not both stopped and cleaned")
	})
	if n == 0 {
		c.bad("handleServerOutput/declines", c.pos(f.Pos()), "the session never hands the terminal back")
	}
	// and the converse: a session that is stopped and cleaned declines (hands the terminal back) on every path
	isLoadOf := func(fl string) func(ssa.Value) bool {
		return func(v ssa.Value) bool { call, _ := callOf(v); return call != nil && isAtomicOnField(call, fl, "Load") }
	}
	done := []assumption{{pred: isLoadOf("stopped"), val: true}, {pred: isLoadOf("cleaned"), val: true}}
	reachDone := blocksUnder(f, done)
	allDecline, nr := true, 0
	eachInstr(f, func(in ssa.Instruction) {
		r, ok := in.(*ssa.Return)
		if !ok || !reachDone[r.Block()] {
			return
		}
		nr++
		if b, known := evalBoolUnder(r.Results[0], done, reachDone, 0); !known || b {
			allDecline = false
		}
	})
	c.check(allDecline && nr > 0, "handleServerOutput/stopped+cleaned=>declines", c.pos(f.Pos()), "once the session is stopped and cleaned every path declines the output (the terminal is handed back)", "a session that is stopped and cleaned can still claim remote output: it is swallowed for ever")
	g := c.fn("zmodemTransfer.isTransferringFiles")
	for _, w := range []struct {
		name string
		as   []assumption
		want bool
	}{
		{"stopped+cleaned", []assumption{{pred: isLoadOf("stopped"), val: true}, {pred: isLoadOf("cleaned"), val: true}}, false},
		{"not-stopped", []assumption{{pred: isLoadOf("stopped"), val: false}}, true},
		{"stopped,not-cleaned", []assumption{{pred: isLoadOf("stopped"), val: true}, {pred: isLoadOf("cleaned"), val: false}}, true},
	} {
		rg := blocksUnder(g, w.as)
		good, n := true, 0
		eachInstr(g, func(in ssa.Instruction) {
			r, ok := in.(*ssa.Return)
			if !ok || !rg[r.Block()] {
				return
			}
			n++
			if b, known := evalBoolUnder(r.Results[0], w.as, rg, 0); !known || b != w.want {
				good = false
			}
		})
		c.check(good && n > 0, "isTransferringFiles@"+w.name, c.pos(g.Pos()), "the input gate is open exactly when the session is stopped and cleaned", "the input gate (typed input held back while a session runs) gives the wrong answer for '"+w.name+"'")
	}
	uses := map[string]bool{}
	for _, ci := range callsIn(g, anyID) {
		for _, fl := range []string{"stopped", "cleaned"} {
			if isAtomicOnField(ci, fl, "Load") {
				uses[fl] = true
			}
		}
	}
	c.check(uses["stopped"] && uses["cleaned"], "isTransferringFiles/same-flags", c.pos(g.Pos()), "the input gate looks at the same two flags", "the input gate does not use both 'stopped' and 'cleaned'")
	// while stopped and not yet cleaned, output re-arms the timer
	rearm := false
	for _, ci := range callsIn(f, idIs("(*trzsz.zmodemTransfer).resetCleanupTimer")) {
		for _, fc := range factsAt(ci.Block()) {
			if call, _ := callOf(fc.V); call != nil && fc.Pol && isAtomicOnField(call, "stopped", "Load") {
				rearm = true
			}
		}
	}
	c.check(rearm, "handleServerOutput/quiet-period", c.pos(f.Pos()), "output after the stop restarts the quiet period", "output after the stop no longer restarts the quiet period")
}

func c19R5(c *Ctx) {
	allowed := map[string]bool{"zmodemTransfer.resetCleanupTimer$1": true, "zmodemTransfer.handleServerOutput": true}
	n := 0
	for _, f := range c.AllFns {
		for _, ci := range callsIn(f, anyID) {
			if nm, _ := fieldAddrNameOfArg0(ci); nm != "zmodemTransfer.cleaned" {
				continue
			}
			if isAtomicOnField(ci, "cleaned", "Store", "CompareAndSwap", "Swap") {
				n++
				c.check(allowed[c.fnName(f)], "cleaned/writer."+c.fnName(f), c.ipos(ci), "'cleaned' written by a designated writer", "'cleaned' is written outside the timer callback / cancelled-before-start edge")
			}
		}
	}
	if n < 2 {
		c.undecided("cleaned/writers", "expected two writers of 'cleaned'")
	}
}

// c19Bridge: the bridge itself. Traffic is handed on in both directions exactly as read; the helper's pipes and the
// session's writers are installed before they are used; the header type selects the matching helper; the user's Ctrl-C
// and the start-up check reach the error path; a session that never got a helper ends only on the remote side's
// cancel / cannot-open.
func c19Bridge(c *Ctx) {
	zT := "(*trzsz.zmodemTransfer)."
	// (a) remote -> helper
	so := c.fn("zmodemTransfer.handleServerOutput")
	fwd := 0
	for _, ci := range callsIn(so, idIs("trzsz.writeAll")) {
		if !isFieldOfName(ci.Common().Args[0], "stdin") {
			continue
		}
		fwd++
		nonNil := false
		for _, fc := range factsAt(ci.Block()) {
			op, x, y, ok := cmpFact(fc)
			if call, _ := callOf(x); ok && op == token.NEQ && isNilConst(y) && call != nil && isAtomicOnField(call, "cmd", "Load") {
				nonNil = true
			}
		}
		c.check(nonNil && isVar("buf")(ci.Common().Args[1]), "handleServerOutput/remote->helper", c.ipos(ci), "remote output is handed to the helper, unchanged, on the edge where the helper is running", "remote output is not handed to the running helper unchanged (wrong edge of the helper test, or another value)")
	}
	if fwd != 1 {
		c.bad("handleServerOutput/remote->helper", c.pos(so.Pos()), "the one place that hands remote output to the helper was not found")
	}
	// (h) without a helper the session ends only on cancel / cannot-open
	noReason := []assumption{{pred: func(v ssa.Value) bool {
		call, _ := callOf(v)
		return call != nil && calleeID(&call.Call) == "bytes.Contains"
	}, val: false}}
	reach := blocksUnder(so, noReason)
	endsSilently := false
	for _, ci := range callsIn(so, anyID) {
		if (isAtomicOnField(ci, "stopped", "Store") || isAtomicOnField(ci, "cleaned", "Store")) && reach[ci.Block()] {
			endsSilently = true
		}
	}
	c.check(!endsSilently, "handleServerOutput/pre-start-end-has-a-reason", c.pos(so.Pos()), "before the helper runs the session is ended only by the remote side's cancel sequence or 'cannot open'", "before the helper runs, ordinary remote output can end the session (and a real cancel is then ignored)")
	// (b),(q) helper -> remote
	hs := c.fn("zmodemTransfer.handleZmodemStream")
	var read *ssa.Call
	eachInstr(hs, func(in ssa.Instruction) {
		if call, ok := in.(*ssa.Call); ok && call.Call.IsInvoke() && call.Call.Method.Name() == "Read" {
			read = call
		}
	})
	if read == nil {
		c.lost("Read of the helper's output")
	}
	n, rerr := extractOf(read, 0), extractOf(read, 1)
	var deliver ssa.Instruction
	for _, ci := range callsIn(hs, idIs("trzsz.writeAll")) {
		if isFieldOfName(ci.Common().Args[0], "serverIn") {
			sl, isS := strip(ci.Common().Args[1]).(*ssa.Slice)
			if isS && sameValue(sl.X, read.Call.Args[0]) && sl.Low == nil && sl.High != nil && sameValue(sl.High, n) {
				deliver = ci.(ssa.Instruction)
			}
		}
	}
	c.check(deliver != nil, "handleZmodemStream/helper->remote", c.ipos(read), "what the helper wrote is handed to the remote side as exactly buffer[:n]", "the helper's output is not handed to the remote side as exactly the bytes read")
	if deliver != nil {
		empty := func(from, to *ssa.BasicBlock) bool {
			return factZero(edgeFactsTo(from, to), isValue(n))
		}
		over := func(from, to *ssa.BasicBlock) bool { // the session is over / failed: output is ignored on purpose
			for _, fc := range edgeFactsTo(from, to) {
				if call, _ := callOf(fc.V); call != nil && (isAtomicOnField(call, "errorOccurred", "Load") || isAtomicOnField(call, "clientFinished", "Load")) && fc.Pol {
					return true
				}
			}
			return false
		}
		hit, path := reachFromE(read.Block(), instrIndex(read)+1, func(in ssa.Instruction) bool { return in == ssa.Instruction(read) || isReturn(in) }, func(in ssa.Instruction) bool { return in == deliver }, func(a, b *ssa.BasicBlock) bool { return empty(a, b) || over(a, b) })
		c.check(hit == nil, "handleZmodemStream/no-read-dropped", c.ipos(read), "bytes read from the helper (n > 0) reach the remote side before the next read or the exit, unless the session is over", "helper output can be skipped while the session is running", c.pathStr(path)...)
	}
	// the loop is left only on an error / EOF of the helper, a failed write, or the session being over
	leave := func(from, to *ssa.BasicBlock) bool {
		fs := edgeFactsTo(from, to)
		if factCmp(fs, token.NEQ, isValue(rerr), isNilConst) {
			return true
		}
		if factCmp(fs, token.EQL, isValue(rerr), func(v ssa.Value) bool {
			u, ok := strip(v).(*ssa.UnOp)
			if !ok {
				return false
			}
			g, isG := u.X.(*ssa.Global)
			return isG && g.Name() == "EOF"
		}) {
			return true
		}
		for _, fc := range fs {
			if call, _ := callOf(fc.V); call != nil && (isAtomicOnField(call, "errorOccurred", "Load") || isAtomicOnField(call, "clientFinished", "Load")) && fc.Pol {
				return true
			}
			// a failed write to the remote side
			op, x, y, ok := cmpFact(fc)
			if call, _ := callOf(x); ok && op == token.NEQ && isNilConst(y) && call != nil && calleeID(&call.Call) == "trzsz.writeAll" {
				return true
			}
		}
		return false
	}
	hit, path := reachFromE(read.Block(), instrIndex(read)+1, func(in ssa.Instruction) bool {
		ci, ok := in.(ssa.CallInstruction)
		return isReturn(in) || (ok && calleeID(ci.Common()) == zT+"ensureClientExit")
	}, nil, leave)
	c.check(hit == nil, "handleZmodemStream/leaves-for-a-reason", c.ipos(read), "the bridge loop is left only on EOF / an error of the helper, a failed write, or a finished session", "the bridge loop can be left although the helper is still producing output: the transfer is cut", c.pathStr(path)...)
	// (c) the helper is published before the loop
	pub := false
	for _, ci := range callsIn(hs, anyID) {
		if isAtomicOnField(ci, "cmd", "Store") && isVar("cmd")(ci.Common().Args[1]) && domI(ci.(ssa.Instruction), read) {
			pub = true
		}
	}
	c.check(pub, "handleZmodemStream/helper-published", c.ipos(read), "the running helper is published (so remote output is forwarded to it) before the bridge loop starts", "the helper is never published: remote output keeps being held back as 'waiting for the helper'")
	// (n) the pipes are installed from the command before it starts
	lc := c.fn("zmodemTransfer.launchZmodemCmd")
	starts := callsIn(lc, idIs("(*os/exec.Cmd).Start"))
	if len(starts) != 1 {
		c.lost("cmd.Start in launchZmodemCmd")
	}
	for fld, src := range map[string]string{"stdin": "(*os/exec.Cmd).StdinPipe", "stdout": "(*os/exec.Cmd).StdoutPipe"} {
		good := false
		eachInstr(lc, func(in ssa.Instruction) {
			st, ok := in.(*ssa.Store)
			if !ok {
				return
			}
			if nm, _ := fieldAddrName(st.Addr); nm == "zmodemTransfer."+fld {
				if call, idx := callOf(st.Val); call != nil && idx == 0 && calleeID(&call.Call) == src && domI(st, starts[0].(ssa.Instruction)) {
					good = true
				}
			}
		})
		c.check(good, "launchZmodemCmd/"+fld+"-installed", c.ipos(starts[0]), "the helper's "+fld+" pipe is installed before the helper starts", "the helper's "+fld+" pipe is not installed: the bridge uses a nil "+fld)
	}
	// (p) the session's writers are installed before anything else
	ev := c.fn("zmodemTransfer.handleZmodemEvent")
	for _, fld := range []string{"serverIn", "clientOut"} {
		good := false
		for _, in := range ev.Blocks[0].Instrs {
			if st, ok := in.(*ssa.Store); ok {
				if nm, _ := fieldAddrName(st.Addr); nm == "zmodemTransfer."+fld && isVar(fld)(st.Val) {
					good = true
				}
			}
		}
		c.check(good, "handleZmodemEvent/"+fld+"-installed", c.pos(ev.Pos()), "the session's "+fld+" writer is installed at the start of the handler", "the session's "+fld+" writer is not installed: the cancel sequence / messages go to a nil writer")
	}
	// (i) the handler ends only through the error path, a bridge, or because the session was already stopped
	isOutcome := func(in ssa.Instruction) bool {
		ci, ok := in.(ssa.CallInstruction)
		if !ok {
			return false
		}
		switch calleeID(ci.Common()) {
		case zT + "handleZmodemError", zT + "uploadFiles", zT + "downloadFiles":
			return true
		}
		return false
	}
	stoppedEdge := func(from, to *ssa.BasicBlock) bool {
		for _, fc := range edgeFactsTo(from, to) {
			if call, _ := callOf(fc.V); call != nil && isAtomicOnField(call, "stopped", "Load") && fc.Pol {
				return true
			}
		}
		return false
	}
	hit, path = reachFromE(ev.Blocks[0], 0, isReturn, isOutcome, stoppedEdge)
	c.check(hit == nil, "handleZmodemEvent/always-an-outcome", c.pos(ev.Pos()), "a started session always gets a helper or goes through the error path (unless the remote side already ended it)", "a started session can be left without helper and without error: remote output stays held back forever", c.pathStr(path)...)
	// (j) the header type selects the helper
	for _, w := range []struct {
		callee string
		upload bool
		helper string
	}{{zT + "uploadFiles", true, "sz"}, {zT + "downloadFiles", false, "rz"}} {
		for _, ci := range callsIn(ev, idIs(w.callee)) {
			v, known := boolFieldFactAt(ci.Block(), "upload")
			c.check(known && v == w.upload, "handleZmodemEvent/"+shortID(w.callee)+"@upload="+fmt.Sprint(w.upload), c.ipos(ci), "the helper direction matches the header type", "the helper is chosen on the wrong edge of the header type")
		}
		hf := c.fn("zmodemTransfer." + shortID(w.callee))
		okName := false
		for _, ci := range callsIn(hf, idIs(zT+"launchZmodemCmd")) {
			if s, ok := constString(ci.Common().Args[2]); ok && s == w.helper {
				okName = true
			}
		}
		c.check(okName, shortID(w.callee)+"/helper="+w.helper, c.pos(hf.Pos()), "this direction launches '"+w.helper+"'", "this direction does not launch '"+w.helper+"'")
	}
	dz := c.fn("detectZmodem")
	eachInstr(dz, func(in ssa.Instruction) {
		st, ok := in.(*ssa.Store)
		if !ok {
			return
		}
		if nm, _ := fieldAddrName(st.Addr); nm == "zmodemTransfer.upload" {
			b, isC := constBool(st.Val)
			one := factCmp(factsAt(st.Block()), token.EQL, anyValue, isConstIntV('1'))
			if !isC {
				// `upload: header == '1'`: the flag is the comparison itself
				if op, _, y, ok := cmpFact(normFact(fact{V: st.Val, Pol: true})); ok && op == token.EQL && isConstIntV('1')(y) {
					isC, b, one = true, true, true
				}
			}
			c.check(isC && b == one, "detectZmodem/upload-iff-ZRINIT", c.ipos(st), "a ZRINIT header (type 1: the remote side receives) means upload, ZRQINIT (type 0) download", "the header type is mapped to the wrong direction")
		}
	})
	// (d) the user's stop reaches the error path
	sf := c.fn("zmodemTransfer.stopTransferringFiles")
	c.check(len(callsIn(sf, idIs(zT+"handleZmodemError"))) == 1, "stopTransferringFiles=>error-path", c.pos(sf.Pos()), "the user's stop goes through the error path (cancel sequences, arming the end)", "the user's stop does not reach the error path")
	si := c.fn("TrzszFilter.sendInput")
	nCC := 0
	for _, ci := range callsIn(si, idIs(zT+"stopTransferringFiles")) {
		nCC++
		fs := factsAt(ci.Block())
		one := factCmp(fs, token.EQL, func(v ssa.Value) bool { lc, _ := callOf(v); return lc != nil && calleeID(&lc.Call) == "builtin len" }, isConstIntV(1))
		three := factCmp(fs, token.EQL, anyValue, isConstIntV(3))
		c.check(one && three, "sendInput/ctrl-c=>zmodem-stop", c.ipos(ci), "a lone Ctrl-C during a zmodem session stops it", "the zmodem stop is not on the lone-Ctrl-C edge")
	}
	if nCC == 0 {
		c.bad("sendInput/ctrl-c=>zmodem-stop", c.pos(si.Pos()), "Ctrl-C no longer stops a zmodem session")
	}
	// (f) the error path: helper running -> cancel it and make it exit; no helper -> arm the end directly
	he := c.fn("zmodemTransfer.handleZmodemError")
	for _, ci := range callsIn(he, idIs(zT+"ensureClientExit", zT+"resetCleanupTimer")) {
		nonNil, isNil := false, false
		for _, fc := range factsAt(ci.Block()) {
			op, x, y, ok := cmpFact(fc)
			if call, _ := callOf(x); ok && isNilConst(y) && call != nil && isAtomicOnField(call, "cmd", "Load") {
				nonNil, isNil = op == token.NEQ, op == token.EQL
			}
		}
		if calleeID(ci.Common()) == zT+"ensureClientExit" {
			c.check(nonNil, "handleZmodemError/kill-iff-helper", c.ipos(ci), "the helper is made to exit on the edge where there is one", "the helper-exit step runs on the edge where no helper exists (nil process)")
		} else {
			c.check(isNil, "handleZmodemError/arm-directly-iff-no-helper", c.ipos(ci), "with no helper to wait for, the end of the session is armed directly", "the direct arming runs on the wrong edge of the helper test")
		}
	}
}
