package main

// C19 — zmodem hands the terminal back: life-cycle flag discipline.

import (
	"go/token"

	"golang.org/x/tools/go/ssa"
)

func init() {
	register("C19", 14, "Decided (for every path of the current source): (R1) a session is created only when the init header matched and neither the cancel sub-sequence nor the cannot-open text is in the same chunk; (R2) every place that sets 'stopped' arms the end of the session on every path — the cleanup timer, 'cleaned' directly, or killing the helper (whose exit watcher arms the timer); (R3) every error path and the helper's exit path send the cancel sequence to the server, and a helper that cannot be started leads to the error path; (R4) the output pump's decline condition and the input gate use the same two flags, the decline happens only when both are set; (R5) 'cleaned' is set only by the timer callback and by the cancelled-before-start edge. Not decided: liveness for all event orders, the 500 ms bound.",
		func(c *Ctx) {
			c.run("C19-R1", "GUARD-DOM: header detection with cancel / cannot-open veto", c19R1)
			c.run("C19-R2", "MUST-PASS: whoever stops the session arms its end", c19R2)
			c.run("C19-R3", "MUST-PASS: errors and helper exit cancel the server side", c19R3)
			c.run("C19-R6", "MUST-PASS: a finished session stops reading the helper, makes it exit, and the exit watcher always arms the cleanup", c19Stream)
			c.run("C19-R4", "SIBLING: decline condition and input gate agree", c19R4)
			c.run("C19-R5", "WHO-WRITES: the 'cleaned' flag", c19R5)
		})
}

func globalName(v ssa.Value) string {
	u, ok := strip(v).(*ssa.UnOp)
	if !ok {
		return ""
	}
	g, ok := u.X.(*ssa.Global)
	if !ok {
		return ""
	}
	return g.Name()
}

func c19R1(c *Ctx) {
	f := c.fn("detectZmodem")
	n := 0
	eachInstr(f, func(in ssa.Instruction) {
		r, ok := in.(*ssa.Return)
		if !ok || isNilConst(r.Results[0]) {
			return
		}
		n++
		fs := factsAt(r.Block())
		matched := factCmp(fs, token.GEQ, func(v ssa.Value) bool { lc, _ := callOf(v); return lc != nil && calleeID(&lc.Call) == "builtin len" }, isConstIntV(2))
		vetoes := map[string]bool{}
		for _, call := range factCalls(fs, "bytes.Contains", false) {
			vetoes[globalName(call.Call.Args[1])] = true
		}
		c.check(matched, "detectZmodem/header-matched", c.ipos(r), "a session is created only when the init header matched", "a zmodem session can be created without a matching init header")
		c.check(vetoes["zmodemCancelSubSequence"], "detectZmodem/cancel-veto", c.ipos(r), "a chunk carrying the cancel sequence starts no session", "a chunk that also carries a cancel sequence starts a session")
		c.check(vetoes["zmodemCanNotOpenFile"], "detectZmodem/cannot-open-veto", c.ipos(r), "a chunk carrying 'cannot open' starts no session", "a chunk that also carries 'cannot open' starts a session")
	})
	if n == 0 {
		c.bad("detectZmodem/creates", c.pos(f.Pos()), "the detector never creates a session")
	}
	// the header regexp is the one matched
	uses := false
	for _, ci := range callsIn(f, idIs("(*regexp.Regexp).FindSubmatch")) {
		if globalName(ci.Common().Args[0]) == "zmodemInitRegexp" {
			uses = true
		}
	}
	c.check(uses, "detectZmodem/init-regexp", c.pos(f.Pos()), "detection uses the init-header regexp", "detection no longer uses the init-header regexp")
}

func isStoppedSet(in ssa.Instruction) bool {
	ci, ok := in.(ssa.CallInstruction)
	if !ok {
		return false
	}
	if n, _ := fieldAddrNameOfArg0(ci); n != "zmodemTransfer.stopped" {
		return false
	}
	if isAtomicOnField(ci, "stopped", "Store") {
		b, isC := constBool(ci.Common().Args[1])
		return isC && b
	}
	if isAtomicOnField(ci, "stopped", "CompareAndSwap") {
		b, isC := constBool(ci.Common().Args[2])
		return isC && b
	}
	return false
}

func fieldAddrNameOfArg0(ci ssa.CallInstruction) (string, bool) {
	if len(ci.Common().Args) == 0 {
		return "", false
	}
	return fieldAddrName(ci.Common().Args[0])
}

func c19R2(c *Ctx) {
	arms := func(in ssa.Instruction) bool {
		ci, ok := in.(ssa.CallInstruction)
		if !ok {
			return false
		}
		switch calleeID(ci.Common()) {
		case "(*trzsz.zmodemTransfer).resetCleanupTimer", "(*trzsz.zmodemTransfer).ensureClientExit":
			return true
		}
		if n, _ := fieldAddrNameOfArg0(ci); n == "zmodemTransfer.cleaned" && isAtomicOnField(ci, "cleaned", "Store") {
			b, isC := constBool(ci.Common().Args[1])
			return isC && b
		}
		return false
	}
	n := 0
	for _, f := range c.AllFns {
		fname := c.fnName(f)
		eachInstr(f, func(in ssa.Instruction) {
			if !isStoppedSet(in) {
				return
			}
			n++
			// armed before (dominating) or on every path after
			before := false
			eachInstr(f, func(x ssa.Instruction) {
				if arms(x) && domI(x, in) && x != in {
					before = true
				}
			})
			if before {
				c.ok(fname+"/stopped=>armed", c.ipos(in), "the end of the session is armed before 'stopped' is set")
				return
			}
			start, idx := in.Block(), instrIndex(in)+1
			var eb func(from, to *ssa.BasicBlock) bool
			if call, ok := in.(*ssa.Call); ok {
				// CAS: only the won edge
				for _, r := range referrersOf(call) {
					if i, ok := r.(*ssa.If); ok {
						nf := normFact(fact{V: i.Cond, Pol: true})
						lost := i.Block().Succs[1]
						if !nf.Pol {
							lost = i.Block().Succs[0]
						}
						ib := i.Block()
						eb = func(from, to *ssa.BasicBlock) bool { return from == ib && to == lost }
					}
				}
			}
			hit, path := reachFromE(start, idx, isReturn, arms, eb)
			c.check(hit == nil, fname+"/stopped=>armed", c.ipos(in), "every path after setting 'stopped' arms the cleanup (timer, cleaned, or helper kill whose exit watcher arms it)",
				"'stopped' is set but on some path nothing arms the cleanup: with a quiet remote side the session never ends and typed input stays swallowed", c.pathStr(path)...)
		})
	}
	if n < 3 {
		c.undecided("stopped-setters", "expected three places that set 'stopped'")
	}
	// the helper kill really leads to the exit watcher, which arms the timer
	w := c.fn("zmodemTransfer.checkClientExited")
	waits := len(callsIn(w, idIs("(*os/exec.Cmd).Wait"))) > 0
	armsT := len(callsIn(w, idIs("(*trzsz.zmodemTransfer).resetCleanupTimer"))) > 0
	c.check(waits && armsT, "checkClientExited/arms-after-exit", c.pos(w.Pos()), "the exit watcher arms the cleanup timer when the helper is gone", "the exit watcher no longer arms the cleanup timer")
	hs := c.fn("zmodemTransfer.handleZmodemStream")
	started := false
	eachInstr(hs, func(in ssa.Instruction) {
		if g, ok := in.(*ssa.Go); ok && calleeID(&g.Call) == "(*trzsz.zmodemTransfer).checkClientExited" {
			started = true
		}
	})
	c.check(started, "handleZmodemStream/starts-watcher", c.pos(hs.Pos()), "the exit watcher runs for every started helper", "no exit watcher is started for the helper")
	ke := c.fn("zmodemTransfer.ensureClientExit$1")
	kills := len(callsIn(ke, idIs("(*os.Process).Kill"))) > 0
	c.check(kills, "ensureClientExit/kills", c.pos(ke.Pos()), "ensureClientExit kills the helper", "ensureClientExit no longer kills the helper")
	// the timer callback sets cleaned
	cb := c.fn("zmodemTransfer.resetCleanupTimer$1")
	sets := false
	for _, ci := range callsIn(cb, anyID) {
		if isAtomicOnField(ci, "cleaned", "Store") {
			if b, _ := constBool(ci.Common().Args[1]); b {
				sets = true
			}
		}
	}
	c.check(sets, "resetCleanupTimer/callback-sets-cleaned", c.pos(cb.Pos()), "the cleanup timer sets 'cleaned'", "the cleanup timer no longer sets 'cleaned'")
}

func c19R3(c *Ctx) {
	isCancelWrite := func(in ssa.Instruction) bool {
		call, ok := in.(*ssa.Call)
		return ok && calleeID(&call.Call) == "trzsz.writeAll" && isFieldOfName(call.Call.Args[0], "serverIn") && globalName(call.Call.Args[1]) == "zmodemCancelFullSequence"
	}
	f := c.fn("zmodemTransfer.handleZmodemError")
	// on the CAS-won path
	var cas *ssa.Call
	eachInstr(f, func(in ssa.Instruction) {
		if isStoppedSet(in) {
			cas, _ = in.(*ssa.Call)
		}
	})
	if cas == nil {
		c.lost("stopped CAS in handleZmodemError")
	}
	var won *ssa.BasicBlock
	for _, r := range referrersOf(cas) {
		if i, ok := r.(*ssa.If); ok {
			nf := normFact(fact{V: i.Cond, Pol: true})
			won = i.Block().Succs[0]
			if !nf.Pol {
				won = i.Block().Succs[1]
			}
		}
	}
	if won == nil {
		c.lost("branch on the stopped CAS")
	}
	hit, path := reachFrom(won, 0, isReturn, isCancelWrite)
	c.check(hit == nil, "handleZmodemError/cancels-server", c.pos(f.Pos()), "every error tells the server side to cancel", "an error path does not send the cancel sequence to the server", c.pathStr(path)...)
	w := c.fn("zmodemTransfer.checkClientExited")
	hit, path = reachFrom(w.Blocks[0], 0, isReturn, isCancelWrite)
	c.check(hit == nil, "checkClientExited/cancels-server", c.pos(w.Pos()), "after the helper exits the server side is told to cancel", "a helper exit path does not send the cancel sequence to the server", c.pathStr(path)...)
	for _, name := range []string{"zmodemTransfer.uploadFiles", "zmodemTransfer.downloadFiles"} {
		g := c.fn(name)
		for _, ci := range callsIn(g, idIs("(*trzsz.zmodemTransfer).launchZmodemCmd")) {
			call := ci.(*ssa.Call)
			u := classifyErrUse(errorValueOf(call))
			good := len(u.tests) > 0
			for _, t := range u.tests {
				h, _ := reachFrom(t.Block().Succs[nonNilEdge(t)], 0, isReturn, func(x ssa.Instruction) bool {
					c2, ok := x.(ssa.CallInstruction)
					return ok && calleeID(c2.Common()) == "(*trzsz.zmodemTransfer).handleZmodemError"
				})
				if h != nil {
					good = false
				}
			}
			c.check(good, name+"/start-failure=>error-path", c.ipos(ci), "a helper that cannot be started leads to the error path", "a helper start failure is not reported through the error path")
		}
	}
	ev := c.fn("zmodemTransfer.handleZmodemEvent")
	for _, ci := range callsIn(ev, idIs("dynamic")) {
		call, ok := ci.(*ssa.Call)
		if !ok || errIndex(call.Call.Signature()) < 0 {
			continue
		}
		u := classifyErrUse(errorValueOf(call))
		good := len(u.tests) > 0
		for _, t := range u.tests {
			h, _ := reachFrom(t.Block().Succs[nonNilEdge(t)], 0, isReturn, func(x ssa.Instruction) bool {
				c2, ok := x.(ssa.CallInstruction)
				return ok && calleeID(c2.Common()) == "(*trzsz.zmodemTransfer).handleZmodemError"
			})
			if h != nil {
				good = false
			}
		}
		c.check(good, "handleZmodemEvent/chooser-error=>error-path", c.ipos(ci), "a failed/cancelled chooser leads to the error path", "a chooser error is not reported through the error path")
	}
}

// c19Stream: once the session is over (error, or both sides finished) the helper's output loop ends,
// so the helper is made to exit and the exit watcher arms the cleanup.
func c19Stream(c *Ctx) {
	f := c.fn("zmodemTransfer.handleZmodemStream")
	var read *ssa.Call
	eachInstr(f, func(in ssa.Instruction) {
		if call, ok := in.(*ssa.Call); ok && call.Call.IsInvoke() && call.Call.Method.Name() == "Read" {
			read = call
		}
	})
	if read == nil {
		c.lost("stdout.Read in handleZmodemStream")
	}
	n := 0
	for _, b := range f.Blocks {
		i := blockIf(b)
		if i == nil {
			continue
		}
		call, _ := callOf(i.Cond)
		if call == nil || !(isAtomicOnField(call, "errorOccurred", "Load") || isAtomicOnField(call, "clientFinished", "Load")) {
			continue
		}
		n++
		hit, path := reachFrom(b.Succs[0], 0, func(x ssa.Instruction) bool { return x == ssa.Instruction(read) }, nil)
		c.check(hit == nil, "handleZmodemStream/over=>leave-loop", c.ipos(i), "when the session is over the output loop ends (the helper is then made to exit)", "the helper's output keeps being read after the session is over: a helper that keeps talking is never killed and the terminal is never handed back", c.pathStr(path)...)
	}
	if n < 2 {
		c.undecided("handleZmodemStream/over-tests", "the session-over tests were not found")
	}
	// leaving the loop leads to ensureClientExit on every path
	hit, path := reachFrom(f.Blocks[0], 0, isReturn, func(x ssa.Instruction) bool {
		ci, ok := x.(ssa.CallInstruction)
		return ok && calleeID(ci.Common()) == "(*trzsz.zmodemTransfer).ensureClientExit"
	})
	c.check(hit == nil, "handleZmodemStream/exit=>kill-helper", c.pos(f.Pos()), "every way out of the stream handler makes sure the helper exits", "a way out of the stream handler leaves the helper running", c.pathStr(path)...)
	// the exit watcher arms the timer unconditionally
	w := c.fn("zmodemTransfer.checkClientExited")
	hit, path = reachFrom(w.Blocks[0], 0, isReturn, func(x ssa.Instruction) bool {
		ci, ok := x.(ssa.CallInstruction)
		return ok && calleeID(ci.Common()) == "(*trzsz.zmodemTransfer).resetCleanupTimer"
	})
	c.check(hit == nil, "checkClientExited/always-arms", c.pos(w.Pos()), "the exit watcher arms the cleanup timer on every path", "the exit watcher can return without arming the cleanup timer (e.g. when 'stopped' was already set by Ctrl-C): with a quiet server the session never ends", c.pathStr(path)...)
}

func c19R4(c *Ctx) {
	f := c.fn("zmodemTransfer.handleServerOutput")
	n := 0
	eachInstr(f, func(in ssa.Instruction) {
		r, ok := in.(*ssa.Return)
		if !ok {
			return
		}
		b, isC := constBool(r.Results[0])
		if !isC || b {
			return
		}
		n++
		fs := factsAt(r.Block())
		st, cl := false, false
		for _, fc := range fs {
			if call, _ := callOf(fc.V); call != nil && fc.Pol {
				if isAtomicOnField(call, "stopped", "Load") {
					st = true
				}
				if isAtomicOnField(call, "cleaned", "Load") {
					cl = true
				}
			}
		}
		// or: this very path just set both flags
		setBoth := 0
		for _, x := range r.Block().Instrs {
			if ci, ok := x.(ssa.CallInstruction); ok {
				for _, fl := range []string{"stopped", "cleaned"} {
					if isAtomicOnField(ci, fl, "Store") {
						if v, _ := constBool(ci.Common().Args[1]); v {
							setBoth++
						}
					}
				}
			}
		}
		c.check((st && cl) || setBoth == 2, "handleServerOutput/decline-only-when-stopped+cleaned", c.ipos(r), "output is declined only when the session is stopped and cleaned", "the session declines output (and is dropped) although it is not both stopped and cleaned")
	})
	if n == 0 {
		c.bad("handleServerOutput/declines", c.pos(f.Pos()), "the session never hands the terminal back")
	}
	g := c.fn("zmodemTransfer.isTransferringFiles")
	uses := map[string]bool{}
	for _, ci := range callsIn(g, anyID) {
		for _, fl := range []string{"stopped", "cleaned"} {
			if isAtomicOnField(ci, fl, "Load") {
				uses[fl] = true
			}
		}
	}
	c.check(uses["stopped"] && uses["cleaned"], "isTransferringFiles/same-flags", c.pos(g.Pos()), "the input gate looks at the same two flags", "the input gate does not use both 'stopped' and 'cleaned'")
	// while stopped and not yet cleaned, output re-arms the timer
	rearm := false
	for _, ci := range callsIn(f, idIs("(*trzsz.zmodemTransfer).resetCleanupTimer")) {
		for _, fc := range factsAt(ci.Block()) {
			if call, _ := callOf(fc.V); call != nil && fc.Pol && isAtomicOnField(call, "stopped", "Load") {
				rearm = true
			}
		}
	}
	c.check(rearm, "handleServerOutput/quiet-period", c.pos(f.Pos()), "output after the stop restarts the quiet period", "output after the stop no longer restarts the quiet period")
}

func c19R5(c *Ctx) {
	allowed := map[string]bool{"zmodemTransfer.resetCleanupTimer$1": true, "zmodemTransfer.handleServerOutput": true}
	n := 0
	for _, f := range c.AllFns {
		for _, ci := range callsIn(f, anyID) {
			if nm, _ := fieldAddrNameOfArg0(ci); nm != "zmodemTransfer.cleaned" {
				continue
			}
			if isAtomicOnField(ci, "cleaned", "Store", "CompareAndSwap", "Swap") {
				n++
				c.check(allowed[c.fnName(f)], "cleaned/writer."+c.fnName(f), c.ipos(ci), "'cleaned' written by a designated writer", "'cleaned' is written outside the timer callback / cancelled-before-start edge")
			}
		}
	}
	if n < 2 {
		c.undecided("cleaned/writers", "expected two writers of 'cleaned'")
	}
}
