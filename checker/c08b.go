package main

// C08-R5 — shape of the two ends' hash pipeline (added after the AST mutation campaign, DESIGN §13).

import (
	"go/token"
	"go/types"

	"trzszlint/xssa"
)

// ctxErrEdge: the CFG edge from->to is taken only when ctx.Err() != nil.
func ctxErrEdge(from, to *ssa.BasicBlock) bool {
	for _, f := range edgeFactsTo(from, to) {
		op, x, y, ok := cmpFact(f)
		if !ok || op != token.NEQ {
			continue
		}
		if call, _ := callOf(x); call != nil && calleeID(&call.Call) == "invoke context.Context.Err" && isNilConst(y) {
			return true
		}
	}
	return false
}

func isCtxErrCall(v ssa.Value) bool {
	call, _ := callOf(v)
	return call != nil && calleeID(&call.Call) == "invoke context.Context.Err"
}

// literalFields: stores into the fields of a composite literal (fresh alloc) in f.
func literalFields(f *ssa.Function, lit ssa.Value) map[string]ssa.Value {
	out := map[string]ssa.Value{}
	al, ok := strip(lit).(*ssa.Alloc)
	if !ok {
		return nil
	}
	eachInstr(f, func(in ssa.Instruction) {
		st, ok := in.(*ssa.Store)
		if !ok {
			return
		}
		if fa, ok := st.Addr.(*ssa.FieldAddr); ok && fa.X == ssa.Value(al) {
			out[fieldName(fa)] = st.Val
		}
	})
	return out
}

func c08R5(c *Ctx) {
	sf := c.fn("trzszTransfer.pipelineSendHash$1")
	reads := callsIn(sf, idIs("(*os.File).Read"))
	if len(reads) != 1 {
		c.lost("the one file Read of the sender's hash stage")
	}
	rd := reads[0].(*ssa.Call)
	n := extractOf(rd, 0)
	buf := rd.Call.Args[1]
	var stepCalls, overCalls []*ssa.Call
	for _, ci := range callsIn(sf, idIs(tT+"sendHash")) {
		call := ci.(*ssa.Call)
		fl := literalFields(sf, call.Call.Args[1])
		if fl == nil {
			c.bad("pipelineSendHash/literal", c.ipos(call), "hash message is not a fresh literal; cannot decide its fields")
			continue
		}
		if b, ok := constBool(fl["Over"]); ok && b {
			overCalls = append(overCalls, call)
			continue
		}
		stepCalls = append(stepCalls, call)
		// Step = accumulated count of bytes read
		good := false
		var acc *ssa.Phi
		if b, ok := strip(fl["Step"]).(*ssa.BinOp); ok && b.Op == token.ADD {
			for _, pair := range [][2]ssa.Value{{b.X, b.Y}, {b.Y, b.X}} {
				ph, isPhi := strip(pair[0]).(*ssa.Phi)
				if !isPhi || !sameValue(strip(pair[1]), n) {
					continue
				}
				good = true
				for _, e := range ph.Edges {
					if z, ok := constInt(e); ok && z == 0 {
						continue
					}
					if strip(e) != ssa.Value(b) {
						good = false
					}
				}
				acc = ph
			}
		}
		c.check(good, "pipelineSendHash/step=bytes-read", c.ipos(call), "the announced step is the running total of bytes actually read", "the announced step is not the running total of the bytes read")
		// Hash = digest of a hasher that was fed exactly the bytes read, after the read and before the digest
		goodH := false
		for _, l := range origins(fl["Hash"], originOpts{}) {
			sp, _ := callOf(l.V)
			if sp == nil || calleeID(&sp.Call) != "fmt.Sprintf" {
				continue
			}
			els, ok := sliceElems(sp.Call.Args[1])
			if !ok || len(els) != 1 {
				continue
			}
			sum, _ := callOf(strip(els[0].V))
			if mi, isMI := els[0].V.(*ssa.MakeInterface); isMI {
				sum, _ = callOf(mi.X)
			}
			if sum == nil || calleeID(&sum.Call) != "invoke hash.Hash.Sum" {
				continue
			}
			for _, w := range callsIn(sf, idIs("invoke hash.Hash.Write")) {
				wc := w.(*ssa.Call)
				if wc.Call.Value != sum.Call.Value {
					continue
				}
				sl, isS := wc.Call.Args[0].(*ssa.Slice)
				if isS && sl.Low == nil && sl.High != nil && sameValue(sl.High, n) && sameValue(sl.X, buf) && domI(rd, wc) && domI(wc, sum) && domI(sum, call) {
					goodH = true
				}
			}
		}
		c.check(goodH, "pipelineSendHash/hash-covers-read", c.ipos(call), "the digest sent is taken after feeding the hasher exactly buf[:n] of the preceding read", "the digest sent does not cover exactly the bytes of the preceding read")
		// the read never passes the compared range: buffer capped by size-step
		goodB := acc != nil
		for _, l := range origins(buf, originOpts{}) {
			isRem := func(v ssa.Value) bool {
				b, ok := strip(v).(*ssa.BinOp)
				return ok && b.Op == token.SUB && isVar("size")(b.X) && strip(b.Y) == ssa.Value(acc)
			}
			capLen := int64(-1)
			if sl, ok := l.V.(*ssa.Slice); ok && sl.High != nil {
				if k, isK := constInt(sl.High); isK {
					capLen = k // make([]byte, K): the whole buffer
				} else {
					if !isRem(sl.High) {
						goodB = false
					}
					continue
				}
			} else if sl, ok := l.V.(*ssa.Slice); ok {
				if al, ok := sl.X.(*ssa.Alloc); ok {
					capLen = arrayLen(al)
				}
			}
			// the whole buffer: only where the remainder is at least the buffer's length
			okEdge := capLen >= 0 && factCmp(l.facts(), token.GEQ, isRem, func(v ssa.Value) bool { k, isK := constInt(v); return isK && k >= capLen })
			if !okEdge {
				goodB = false
			}
		}
		if acc != nil {
			short := factCmp(factsAt(rd.Block()), token.LSS, isValue(acc), isVar("size"))
			c.check(short, "pipelineSendHash/reads-while-short", c.ipos(rd), "a block is read only while the total is strictly below the compared range", "a block can be read with nothing left to compare: an empty read repeats the same step and the receiver rejects it")
		}
		c.check(goodB, "pipelineSendHash/read-within-range", c.ipos(rd), "each read is capped by what is left of the compared range (size - step)", "a read can run past the compared range: the digest then covers bytes the receiver never hashes")
	}
	if len(stepCalls) == 0 || len(overCalls) == 0 {
		c.undecided("pipelineSendHash/messages", "step and over messages not both found")
	}
	// the closing message: every exit either sent Over, cancelled with a cause, or left because the context was already cancelled
	isOver := func(in ssa.Instruction) bool {
		for _, o := range overCalls {
			if in == ssa.Instruction(o) {
				return true
			}
		}
		return isCancelWithError(in)
	}
	hit, path := reachFromE(sf.Blocks[0], 0, isReturn, isOver, ctxErrEdge)
	c.check(hit == nil, "pipelineSendHash/over-sent", c.pos(sf.Pos()), "every exit of the hash stage sends the closing message, cancels with a cause, or follows a cancelled context",
		"the hash stage can end without the closing message on a live context: the receiver waits for it until the timeout", c.pathStr(path)...)

	// the ack stage
	af := c.fn("trzszTransfer.pipelineRecvHashAck$1")
	isSend := func(in ssa.Instruction) bool {
		_, ok := in.(*ssa.Send)
		return ok || isCancelWithError(in)
	}
	hit, path = reachFromE(af.Blocks[0], 0, isReturn, isSend, ctxErrEdge)
	c.check(hit == nil, "pipelineRecvHashAck/deliver-or-cancel", c.pos(af.Pos()), "every exit of the ack stage delivers an offset, cancels with a cause, or follows a cancelled context",
		"the ack stage can close its channel without a value and without a cause: the driver reads offset 0 from the closed channel and resumes from the start while the receiver kept a prefix", c.pathStr(path)...)
	eachInstr(af, func(in ssa.Instruction) {
		s, ok := in.(*ssa.Send)
		if !ok {
			return
		}
		fs := factsAt(s.Block())
		final := factCmp(fs, token.EQL, isVar("size"), isConstIntV(0)) // nothing to compare
		for _, f := range fs {
			if isFieldLoad("Match")(f.V) && !f.Pol { // the receiver stopped matching
				final = true
			}
		}
		if factCmp(fs, token.EQL, isFieldLoad("Step"), isVar("size")) || factCmp(fs, token.GEQ, isFieldLoad("Step"), isVar("size")) { // whole range confirmed
			final = true
		}
		c.check(final, "pipelineRecvHashAck/deliver-only-final", c.ipos(s), "an offset is delivered only when no later ack can change it (nothing to compare, first mismatch, or whole range matched)",
			"an offset is delivered while later acks can still confirm more: the receiver keeps a longer prefix than the sender resumes from")
	})

	// the driver: success only on a live context observed after both stages ended
	df := c.fn("trzszTransfer.sendPrefixHash")
	waits := callsIn(df, idIs("(*sync.WaitGroup).Wait"))
	if len(waits) != 1 {
		c.lost("wg.Wait in sendPrefixHash")
	}
	stage := callsIn(df, idIs(tT+"pipelineSendHash"))
	if len(stage) != 1 {
		c.lost("pipelineSendHash call in sendPrefixHash")
	}
	eachInstr(df, func(in ssa.Instruction) {
		if !isNilErrReturn(in) || !domI(stage[0].(ssa.Instruction), in) {
			return
		}
		good := false
		for _, f := range factsAt(in.Block()) {
			op, x, y, ok := cmpFact(f)
			if ok && op == token.EQL && isCtxErrCall(x) && isNilConst(y) {
				if call, _ := callOf(x); call != nil && domI(waits[0].(ssa.Instruction), call) {
					good = true
				}
			}
		}
		c.check(good, "sendPrefixHash/success-on-live-context", c.ipos(in), "the resumed offset is used only if, after both stages ended, the context is not cancelled", "success is returned without checking (after the stages ended) that no stage failed")
	})
	// both ends run the exchange only for a non-empty target
	for _, ci := range stage {
		good := factPositive(factsAt(ci.Block()), isFieldLoad("Size"))
		c.check(good, "sendPrefixHash/exchange-iff-target-nonempty", c.ipos(ci), "the sender starts the exchange on the target-size > 0 edge", "the sender's early exit is taken on the wrong edge")
	}
	rf := c.fn("trzszTransfer.recvPrefixHash")
	for _, ci := range callsIn(rf, idIs(tT+"recvHash")) {
		good := factPositive(factsAt(ci.Block()), isFieldLoad("Size"))
		c.check(good, "recvPrefixHash/exchange-iff-target-nonempty", c.ipos(ci), "the receiver runs the exchange on the target-size > 0 edge", "the receiver's early exit is taken on the wrong edge")
	}
	// the receiver leaves the loop on the closing message, and hashes only forward
	for _, ci := range callsIn(rf, idIs("(*os.File).Truncate")) {
		good := false
		for _, f := range factsAt(ci.Block()) {
			if isFieldLoad("Over")(f.V) && f.Pol {
				good = true
			}
		}
		c.check(good, "recvPrefixHash/cut-after-over", c.ipos(ci), "the file is cut only after the sender's closing message", "the file is cut before the sender's closing message: later hash messages meet a receiver that already moved on")
	}
	for _, ci := range callsIn(rf, idIs("io.CopyN")) {
		good := factPositive(factsAt(ci.Block()), isValue(ci.Common().Args[2]))
		c.check(good, "recvPrefixHash/forward-step", c.ipos(ci), "a block is hashed only when the peer's step moves forward", "the block length fed to the hasher is not known positive")
	}
}

func arrayLen(al *ssa.Alloc) int64 {
	if p, ok := al.Type().Underlying().(*types.Pointer); ok {
		if arr, ok := p.Elem().Underlying().(*types.Array); ok {
			return arr.Len()
		}
	}
	return -1
}
