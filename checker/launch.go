package main

// LAUNCH rules: the functions the other rules treat as concurrent workers (pumps, queue
// consumers, pipeline stages, handlers that wait on a queue their caller feeds) are started
// with `go` at every call site. A worker that is called synchronously holds its caller for
// the lifetime of its stream; where the caller is the feeder of the queue the worker waits
// on, neither makes progress. The worker tables are explicit and per property (below).

import (
	"fmt"
	"sort"
	"strings"

	"trzszlint/xssa"
)

// tailCall: nothing but jumps / deferred calls / the return follows ci in its function.
func tailCall(ci ssa.CallInstruction) bool {
	b := ci.Block()
	i := instrIndex(ci) + 1
	for steps := 0; steps < 8; steps++ {
		for ; i < len(b.Instrs); i++ {
			switch b.Instrs[i].(type) {
			case *ssa.DebugRef, *ssa.RunDefers:
			case *ssa.Return:
				return true
			case *ssa.Jump:
			default:
				return false
			}
		}
		if len(b.Succs) != 1 {
			return false
		}
		b, i = b.Succs[0], 0
	}
	return false
}

// goOnly: every call site of f is a go statement (f runs on a goroutine of its own).
func (c *Ctx) goOnly(f *ssa.Function) bool {
	n := 0
	all := true
	for _, g := range c.AllFns {
		for _, ci := range callsIn(g, anyID) {
			if ci.Common().StaticCallee() != f {
				continue
			}
			n++
			if _, isGo := ci.(*ssa.Go); !isGo {
				all = false
			}
		}
	}
	return n > 0 && all
}

// launchedWithGo: every call site of each worker is a go statement — or the last action of a
// function that itself runs only as a goroutine (`go func() { worker() }()`).
func launchedWithGo(c *Ctx, why string, names ...string) {
	for _, nm := range names {
		f := c.fn(nm)
		n := 0
		for _, g := range c.AllFns {
			for _, ci := range callsIn(g, anyID) {
				if ci.Common().StaticCallee() != f {
					continue
				}
				n++
				_, isGo := ci.(*ssa.Go)
				if !isGo {
					if _, isCall := ci.(*ssa.Call); isCall && tailCall(ci) && c.goOnly(g) {
						isGo = true
					}
				}
				c.check(isGo, "launch/"+nm+"<-"+c.fnName(g), c.ipos(ci), "the worker is started with go", "the worker "+nm+" is called synchronously by "+c.fnName(g)+": "+why)
			}
		}
		if n == 0 {
			c.undecided("launch/"+nm, "no call site of the worker found")
		}
	}
}

// cmdGoSites (dev helper): every go statement of the package with caller and callee.
func cmdGoSites(p *Program) {
	var out []string
	for _, f := range p.AllFns {
		eachInstr(f, func(in ssa.Instruction) {
			if g, ok := in.(*ssa.Go); ok {
				callee := "dynamic"
				if sc := g.Call.StaticCallee(); sc != nil {
					callee = p.fnName(sc)
				}
				out = append(out, fmt.Sprintf("%-45s -> %-45s %s", p.fnName(f), callee, p.Fset.Position(g.Pos())))
			}
		})
	}
	sort.Strings(out)
	for _, l := range out {
		fmt.Println(l)
	}
}

// The worker tables. One line of reason per group; every name was confirmed by reading the launch site.
func c05Launch(c *Ctx) {
	launchedWithGo(c, "the constructor must return with both directions running; a pump called synchronously never lets the other one start",
		"TrzszFilter.wrapInput", "TrzszFilter.wrapOutput")
	launchedWithGo(c, "the handler waits for bytes only its caller, the output pump, can deliver: called synchronously the pump stops and the session is dead",
		"TrzszFilter.handleTrzsz", "zmodemTransfer.handleZmodemEvent", "TrzszFilter.wrapOutput$2")
	launchedWithGo(c, "the delayed flush takes the drag-buffer mutex its caller still holds: called synchronously the input pump dead-locks",
		"TrzszFilter.sendInput$1")
}

func c10Launch(c *Ctx) {
	launchedWithGo(c, "the stop question reads its answer from a pipe that only its caller, the input pump, feeds: called synchronously the question can never be answered",
		"TrzszFilter.confirmStopTransfer$1")
	launchedWithGo(c, "a signal waiter blocks until the signal arrives: called synchronously the next waiter is never installed / the transfer never starts",
		"handleSignal$1", "handleSignal$2", "handleServerSignal$1")
}

func c11Launch(c *Ctx) {
	// the stage bodies: the function literals written directly in the pipeline* constructors
	var stages []string
	for _, g := range c.AllFns {
		nm := c.fnName(g)
		if g.Parent() != nil && g.Parent().Parent() == nil && strings.HasPrefix(nm, "trzszTransfer.pipeline") {
			stages = append(stages, nm)
		}
	}
	sort.Strings(stages)
	// the deliver callback of pipelineSendData ($1) is a plain closure passed to the writer, not a stage
	var st []string
	for _, nm := range stages {
		if nm != "trzszTransfer.pipelineSendData$1" {
			st = append(st, nm)
		}
	}
	if len(st) < 12 {
		c.undecided("launch/stages", fmt.Sprintf("expected 12 pipeline stage bodies, found %d", len(st)))
	}
	launchedWithGo(c, "a pipeline stage runs for the whole file and hands its output to the next stage over a bounded channel: called synchronously the consumer does not exist yet and the stage blocks for good", st...)
	launchedWithGo(c, "the input pump of a transfer reads until the stream ends: called synchronously the server never gets past it", "wrapTransferInput$1")
}

func c13Launch(c *Ctx) {
	launchedWithGo(c, "the relay's pumps and queue consumers each run for the whole session: called synchronously the constructor never starts the others and nothing is forwarded",
		"NewTrzszRelay$1", "NewTrzszRelay$2", "NewTrzszRelay$3", "TrzszRelay.wrapInput", "TrzszRelay.wrapOutput")
	launchedWithGo(c, "the handshake reads the lines its caller, the output pump, parks: called synchronously nothing is parked any more and both wait",
		"TrzszRelay.handshake")
}

func c17Launch(c *Ctx) {
	launchedWithGo(c, "the accept loop and the per-connection greeting check block on the network: called synchronously a silent connection holds up the transfer / the next connection",
		"trzszTransfer.acceptOnTunnel$1", "trzszTransfer.acceptOnTunnel$1$1", "TrzszRelay.acceptOnTunnel$1", "TrzszRelay.handleTunnelConn")
	launchedWithGo(c, "dial and greeting run under the one-second grace timer of their launcher: called synchronously the timer is not running while they block",
		"trzszTransfer.connectToTunnel$1", "trzszTransfer.connectToTunnel$1$1")
	launchedWithGo(c, "the tunnel relay's pumps run for the connection's lifetime, one per direction",
		"tunnelRelay.wrapInput", "tunnelRelay.wrapOutput", "newTunnelRelay$1", "newTunnelRelay$2")
}

func c19Launch(c *Ctx) {
	launchedWithGo(c, "the exit watcher waits for the helper to end: called synchronously the bridge that feeds the helper never starts",
		"zmodemTransfer.checkClientExited")
}
