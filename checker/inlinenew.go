package main

// Helpers the reference tree does not know are expanded into their callers before any rule runs.
//
// Every rule here is anchored on functions of the reference tree ("in recvFiles, the MD5 exchange lies on every path
// to the next file"). The most common honest edit — extracting a block into a new helper and calling it — moves the
// constructs a rule looks for out of the anchored function, and a rule that does not find them reports a violation
// of a property that still holds. baseline/funcs.json (written by devtools/update_baseline.sh) lists the functions
// and methods of the reference tree; a package-level function or method of the current tree that is not in it is
// "new", and each ordinary static call of a new function is replaced by a copy of its body (xssa/inline.go; callees
// with defer/recover, closures over variables, generic and recursive-beyond-depth-3 callees are left as calls). The
// rules then see the caller as it was before the extraction: same paths, same guards, same values. On the reference
// tree nothing is new and nothing is expanded. A new function whose every use was expanded (and that is not
// exported) is dropped from the function index, so inventory rules do not see its body twice.

import (
	"encoding/json"
	"fmt"
	"go/ast"
	"go/types"
	"os"
	"path/filepath"
	"sort"
	"strconv"
	"strings"

	"trzszlint/xssa"
	"trzszlint/xssa/ssautil"
)

func topName(f *ssa.Function) string {
	if f == nil || f.Parent() != nil {
		return ""
	}
	if recv := f.Signature.Recv(); recv != nil {
		t := recv.Type()
		if p, ok := t.(*types.Pointer); ok {
			t = p.Elem()
		}
		if n, ok := t.(*types.Named); ok {
			return n.Obj().Name() + "." + f.Name()
		}
		return ""
	}
	return f.Name()
}

// paramSig: "name|type" of every parameter (receiver first), as recorded in baseline/funcs.json.
func paramSig(f *ssa.Function) []string {
	out := []string{}
	for _, p := range f.Params {
		out = append(out, p.Name()+"|"+p.Type().String())
	}
	return out
}

var knownSigs map[string][]string

// fullName: topName for package-level functions, parent$k for closures (k counts from 1 in the parent's list).
func fullName(f *ssa.Function) string {
	if f == nil {
		return ""
	}
	if f.Parent() == nil {
		return topName(f)
	}
	pn := fullName(f.Parent())
	if pn == "" {
		return ""
	}
	for i, a := range f.Parent().AnonFuncs {
		if a == f {
			return fmt.Sprintf("%s$%d", pn, i+1)
		}
	}
	return ""
}

func loadKnownFuncs() map[string]bool {
	knownSigs = nil
	b, err := os.ReadFile(filepath.Join(verifDir(), "baseline", "funcs.json"))
	if err != nil {
		return nil
	}
	sigs := map[string][]string{}
	if json.Unmarshal(b, &sigs) != nil || len(sigs) < 300 {
		return nil
	}
	m := map[string]bool{}
	knownAnon = map[string]int{}
	for n, v := range sigs {
		if strings.HasPrefix(n, "#anon:") {
			if len(v) == 1 {
				k, _ := strconv.Atoi(v[0])
				knownAnon[strings.TrimPrefix(n, "#anon:")] = k
			}
			continue
		}
		m[n] = true
	}
	knownSigs = sigs
	return m
}

var knownAnon map[string]int

// restoreParamOrder: a function whose parameters are those of the reference tree in another order (same names and
// types, or — when the names changed too — pairwise distinct types) gets the reference order back, in its
// parameter list and at every static call site. Rules address arguments by position.
func restoreParamOrder(p *Program, fns []*ssa.Function) {
	perm := map[*ssa.Function][]int{} // perm[g][i] = index in the current order of the reference tree's i-th parameter
	for _, g := range fns {
		base, ok := knownSigs[topName(g)]
		if !ok || g.Parent() != nil {
			continue
		}
		cur := paramSig(g)
		if len(cur) != len(base) || len(cur) < 2 {
			continue
		}
		same := true
		for i := range cur {
			if cur[i] != base[i] {
				same = false
			}
		}
		if same {
			continue
		}
		match := func(key func(string) string) []int {
			idx := map[string]int{}
			for i, c := range cur {
				k := key(c)
				if _, dup := idx[k]; dup {
					return nil
				}
				idx[k] = i
			}
			var pm []int
			seen := map[string]bool{}
			for _, b := range base {
				k := key(b)
				i, ok := idx[k]
				if !ok || seen[k] {
					return nil
				}
				seen[k] = true
				pm = append(pm, i)
			}
			return pm
		}
		pm := match(func(s string) string { return s })
		if pm == nil {
			pm = match(func(s string) string { return s[strings.Index(s, "|")+1:] })
		}
		if pm == nil {
			continue
		}
		ident := true
		for i, j := range pm {
			if i != j {
				ident = false
			}
		}
		if ident {
			continue
		}
		off := 0
		if g.Signature.Recv() != nil {
			if pm[0] != 0 {
				continue
			}
			off = 1
		}
		if g.Signature.Variadic() && pm[len(pm)-1] != len(pm)-1 {
			continue
		}
		var vars []*types.Var
		for _, j := range pm[off:] {
			vars = append(vars, g.Signature.Params().At(j-off))
		}
		g.Signature = types.NewSignatureType(g.Signature.Recv(), nil, nil, types.NewTuple(vars...), g.Signature.Results(), g.Signature.Variadic())
		perm[g] = pm
	}
	if len(perm) == 0 {
		return
	}
	for g, pm := range perm {
		np := make([]*ssa.Parameter, len(pm))
		for i, j := range pm {
			np[i] = g.Params[j]
		}
		g.Params = np
		p.Reordered = append(p.Reordered, topName(g))
	}
	sort.Strings(p.Reordered)
	for _, f := range fns {
		for _, b := range f.Blocks {
			for _, in := range b.Instrs {
				var cc *ssa.CallCommon
				switch x := in.(type) {
				case *ssa.Call:
					cc = &x.Call
				case *ssa.Go:
					cc = &x.Call
				case *ssa.Defer:
					cc = &x.Call
				}
				if cc == nil || cc.IsInvoke() {
					continue
				}
				g, ok := cc.Value.(*ssa.Function)
				if !ok {
					continue
				}
				pm, ok := perm[g]
				if !ok || len(cc.Args) != len(pm) {
					continue
				}
				na := make([]ssa.Value, len(pm))
				for i, j := range pm {
					na[i] = cc.Args[j]
				}
				cc.Args = na
			}
		}
	}
}

var expanded = map[*ssa.Function]bool{}

// inlineNewHelpers returns the new functions that were expanded everywhere and can be dropped from the index.
func inlineNewHelpers(p *Program) (map[*ssa.Function]bool, error) {
	known := loadKnownFuncs()
	if known == nil {
		return nil, nil
	}
	var fns []*ssa.Function
	for f := range ssautil.AllFunctions(p.Prog) {
		if f.Pkg == p.SPkg && len(f.Blocks) > 0 {
			fns = append(fns, f)
		}
	}
	sort.Slice(fns, func(i, j int) bool { return fns[i].Pos() < fns[j].Pos() })
	isNew := func(g *ssa.Function) bool {
		if g.Pkg != p.SPkg || g.Synthetic != "" {
			return false
		}
		n := topName(g)
		return n != "" && n != "init" && !known[n]
	}
	restoreParamOrder(p, fns)
	// a function with more closures than on the reference tree has new ones; those that are only called on the spot
	// are expanded like new helpers
	ssa.WantLocalClosures = func(f *ssa.Function) bool {
		if len(knownAnon) == 0 {
			return false
		}
		n := fullName(f)
		if n == "" {
			return false
		}
		base, ok := knownAnon[n]
		return ok && len(f.AnonFuncs) > base
	}
	hasNewClosures := false
	for _, f := range fns {
		if ssa.WantLocalClosures(f) {
			hasNewClosures = true
		}
	}
	newFns := map[*ssa.Function]bool{}
	for _, f := range fns {
		if isNew(f) {
			newFns[f] = true
		}
	}
	if len(newFns) == 0 && !hasNewClosures {
		for _, f := range fns {
			if ssa.NormalizeBranches(f, false) {
				p.Normalized++
				expanded[f] = true
				if msg := ssa.SanityCheckInlined(f); msg != "" {
					return nil, fmt.Errorf("normalising the branches of %s produced inconsistent SSA: %s", f.String(), msg)
				}
			}
		}
		return nil, nil
	}
	for _, f := range fns {
		if n := ssa.InlineCalls(f, isNew, 3, nil); n > 0 {
			p.Inlined += n
			expanded[f] = true
			if msg := ssa.SanityCheckInlined(f); msg != "" {
				return nil, fmt.Errorf("expanding new helpers into %s produced inconsistent SSA: %s", f.String(), msg)
			}
		}
	}
	for _, f := range fns {
		if ssa.NormalizeBranches(f, expanded[f]) {
			p.Normalized++
			expanded[f] = true
			if msg := ssa.SanityCheckInlined(f); msg != "" {
				return nil, fmt.Errorf("normalising the branches of %s produced inconsistent SSA: %s", f.String(), msg)
			}
		}
	}
	// which new functions are still referred to?
	used := map[*ssa.Function]bool{}
	var rands []*ssa.Value
	for _, f := range fns {
		for _, b := range f.Blocks {
			for _, in := range b.Instrs {
				rands = in.Operands(rands[:0])
				for _, r := range rands {
					if g, ok := (*r).(*ssa.Function); ok && newFns[g] && g != f {
						used[g] = true
					}
				}
			}
		}
	}
	drop := map[*ssa.Function]bool{}
	for g := range newFns {
		if !used[g] && !ast.IsExported(g.Name()) {
			drop[g] = true
			p.InlinedAway = append(p.InlinedAway, topName(g))
		} else {
			p.NewKept = append(p.NewKept, topName(g))
		}
	}
	sort.Strings(p.InlinedAway)
	sort.Strings(p.NewKept)
	return drop, nil
}
