package main

// C02 — no silent corruption: every integrity gate dominates success.

import (
	"fmt"
	"go/token"
	"strings"

	"trzszlint/xssa"
)

func init() {
	register("C02", 30, "Decided (for every path of the current source): reporting success for a file is dominated by each integrity gate the protocol has, with the right polarity — (1) digest compare on both sides and the MD5 exchange on every path of the per-file loop, (2) the same slice feeds file and hash and the MD5 stage hashes every element and emits only after a clean close, (3) saved length == announced size gates the final ack and the drivers' success return, (4) echo checks NUM/SIZE/chunk/MD5, (5) typed-line framing and the COMP flag, (6) decode errors (unknown escape code, leftover bytes, reader error), (7) short source, (8) no error of the send/recv/check/write layer is dropped. Not decided: behaviour under each concrete fault pattern, sufficiency of MD5+length, what decoders do on every corrupted input. Added after the mutation campaign: the error rule demands a definitely non-nil error on every non-nil edge and covers the handshake/exit exchanges, the JSON hooks and the four drivers; (C02-10) protocol-1 loops send/write, hash and count the same chunk and stop at the size; the resume remainder is consumed once.",
		func(c *Ctx) {
			c.run("C02-1", "GUARD-DOM/MUST-PASS: success is reported only on the equal edge of the digest compare; the per-file loop cannot skip the MD5 exchange", c02Digest)
			c.run("C02-2", "SIBLING: one byte stream feeds file and hash; the MD5 stage hashes every element and emits the digest only after a clean close", c02OneStream)
			c.run("C02-3", "GUARD-DOM/WHO-WRITES: saved byte count must equal the announced size before success", c02SavedSize)
			c.run("C02-4", "GUARD-DOM: echo checks return success only on equality", c02Echo)
			c.run("C02-5", "GUARD-DOM: typed-line framing rejects wrong type / missing colon; COMP flag must be true or false", c02Framing)
			c.run("C02-6", "GUARD-DOM: decode failures are errors (unknown escape code, leftover bytes, reader error cancels)", c02Decode)
			c.run("C02-7", "GUARD-DOM: EOF before the announced length is an error", c02ShortSource)
			c.run("C02-9", "GUARD-DOM: after a resume the receiver cross-checks the sender's remaining size against its own truncation offset", c02Resume)
			c.run("C02-10", "WHO-CALLS: the receiving side's file writer hands every Write to the file itself", c02DirectWrite)
			c.run("C02-10", "GUARD-DOM: protocol-1 data loops send/write, hash and count the same chunk and stop at the announced size", c02V1Stream)
			c.run("C02-11", "GUARD-DOM (interprocedural): no acknowledgement of the MD5 step before the digest comparison", c02AckAfterVerify)
			c.run("C02-12", "SIBLING/LITERAL: the per-chunk ack line — separator, order of the two numbers, base and width", c02AckFormat)
			c.run("C02-S1", "shared with C08-R1: the receiver never leaves the resume step successfully without cutting the destination at the proven offset (else the digest of the re-sent tail matches over a destination that still carries old bytes)", c08R1)
			c.run("C02-8", "MUST-PASS: no error result of the transfer layer is dropped; every nil-test's non-nil edge fails", c02ErrorDiscipline)
		})
}

// successGuardedByBytesEqual: in f, every instruction selected by isSuccess lies on
// an edge where the two values matching pa/pb were compared equal.
func successGuardedByBytesEqual(c *Ctx, f *ssa.Function, key string, isSuccess func(ssa.Instruction) bool, pa, pb func(ssa.Value) bool) int {
	n := 0
	eachInstr(f, func(in ssa.Instruction) {
		if !isSuccess(in) {
			return
		}
		n++
		good := false
		for _, pr := range factBytesEqual(factsAt(in.Block())) {
			if (pa(pr[0]) && pb(pr[1])) || (pa(pr[1]) && pb(pr[0])) {
				good = true
			}
		}
		c.check(good, key, c.ipos(in), "on the equal edge of the byte compare", "success action not dominated by the equal edge of the digest/echo compare")
	})
	return n
}

func isNilErrReturn(in ssa.Instruction) bool {
	r, ok := in.(*ssa.Return)
	if !ok {
		return false
	}
	ei := errIndex(in.Parent().Signature)
	return ei >= 0 && ei < len(r.Results) && isNilConst(retVal(r, ei))
}

func c02Digest(c *Ctx) {
	// receiver: the function that receives "MD5"
	rf := c.fn("trzszTransfer.recvFileMD5")
	md5calls := callsWithConstArg(rf, tT+"recvBinary", 1, "MD5")
	if len(md5calls) != 1 {
		c.lost("recvBinary(\"MD5\") in recvFileMD5")
	}
	recvd := extractOf(md5calls[0], 0)
	n := successGuardedByBytesEqual(c, rf, "recvFileMD5/success", func(in ssa.Instruction) bool {
		if isNilErrReturn(in) {
			return true
		}
		if call, ok := in.(*ssa.Call); ok && calleeID(&call.Call) == tT+"sendBinary" {
			s, _ := constString(call.Call.Args[1])
			return s == "SUCC"
		}
		return false
	}, isVar("digest"), isValue(recvd))
	if n < 2 {
		c.undecided("recvFileMD5/success", "expected a SUCC reply and a nil return")
	}
	// sender mirror: checkBinary
	cb := c.fn("trzszTransfer.checkBinary")
	sc := callsWithConstArg(cb, tT+"recvBinary", 1, "SUCC")
	if len(sc) != 1 {
		c.lost("recvBinary(\"SUCC\") in checkBinary")
	}
	successGuardedByBytesEqual(c, cb, "checkBinary/success", isNilErrReturn, isVar("expect"), isValue(extractOf(sc[0], 0)))
	sm := c.fn("trzszTransfer.sendFileMD5")
	for _, call := range callsIn(sm, idIs(tT+"checkBinary")) {
		snd := callsWithConstArg(sm, tT+"sendBinary", 1, "MD5")
		good := len(snd) == 1 && sameValue(snd[0].Call.Args[2], call.Common().Args[1]) && domI(snd[0], call.(ssa.Instruction))
		c.check(good, "sendFileMD5/echo", c.ipos(call), "the digest sent is the digest the echo is compared with", "sendFileMD5 compares the echo with a different value than it sent")
	}
	// and no exit of sendFileMD5 that may report success avoids that comparison (zero comparisons is a failure, not silence)
	{
		hit, path := reachFrom(sm.Blocks[0], 0, c.maySucceed, func(in ssa.Instruction) bool {
			ci, ok := in.(ssa.CallInstruction)
			return ok && calleeID(ci.Common()) == tT+"checkBinary" && isVar("digest")(ci.Common().Args[1])
		})
		c.check(hit == nil, "sendFileMD5/always-compares-echo", c.pos(sm.Pos()), "the sender reports the MD5 step done only after comparing the echo with its own digest", "the sender can finish the MD5 step without comparing the receiver's answer with its own digest (any answer is accepted)", c.pathStr(path)...)
	}
	// per-file loops: digest argument comes from the data stage of the same iteration; MD5 exchange cannot be skipped
	for _, side := range []struct {
		loop, md5, name string
		data            []string
	}{
		{"trzszTransfer.recvFiles", tT + "recvFileMD5", "recvFiles", []string{tT + "recvFileDataV2", tT + "recvFileData"}},
		{"trzszTransfer.sendFiles", tT + "sendFileMD5", "sendFiles", []string{tT + "sendFileDataV2", tT + "sendFileData"}},
	} {
		lf := c.fn(side.loop)
		mcalls := callsIn(lf, idIs(side.md5))
		if len(mcalls) == 0 {
			c.bad(side.name+"/md5-call", c.pos(lf.Pos()), "the per-file loop never performs the MD5 exchange")
			continue
		}
		for _, mc := range mcalls {
			good := true
			nleaf := 0
			for _, l := range origins(mc.Common().Args[1], originOpts{}) {
				nleaf++
				call, idx := callOf(l.V)
				if call == nil || idx != 0 || !idIs(side.data...)(calleeID(&call.Call)) {
					good = false
				}
			}
			c.check(good && nleaf > 0, side.name+"/md5.digest<-data", c.ipos(mc), "digest checked is the one computed by this iteration's data stage", "digest passed to the MD5 exchange does not come from the data stage")
		}
		// from every data-stage call, the next iteration / success return is unreachable without the MD5 exchange
		dcalls := callsIn(lf, idIs(side.data...))
		if len(dcalls) == 0 {
			c.lost("data stage calls in " + side.name)
		}
		for _, dc := range dcalls {
			hit, path := reachAvoid(dc.(ssa.Instruction), func(in ssa.Instruction) bool {
				if isNilErrReturn(in) {
					return true
				}
				if ci, ok := in.(ssa.CallInstruction); ok && in != dc.(ssa.Instruction) {
					return idIs(side.data...)(calleeID(ci.Common()))
				}
				return false
			}, func(in ssa.Instruction) bool {
				ci, ok := in.(ssa.CallInstruction)
				return ok && calleeID(ci.Common()) == side.md5
			})
			c.check(hit == nil, side.name+"/must-pass-md5", c.ipos(dc), "every path from the data stage to the next file or to success passes the MD5 exchange",
				"a path from the data stage reaches the next file / success without the MD5 exchange", c.pathStr(path)...)
		}
	}
}

func c02OneStream(c *Ctx) {
	for _, name := range []string{"trzszTransfer.pipelineDecodeData$1", "trzszTransfer.pipelineReadData$1"} {
		f := c.fn(name)
		var sends []ssa.Value
		var chans []string
		eachInstr(f, func(in ssa.Instruction) {
			sel, ok := in.(*ssa.Select)
			if !ok {
				return
			}
			for _, st := range sel.States {
				if st.Send != nil {
					sends = append(sends, st.Send)
					chans = append(chans, st.Chan.String())
				}
			}
		})
		if len(sends) != 2 {
			c.bad(name+"/two-sends", c.pos(f.Pos()), "expected exactly two channel sends (file data, md5 source) in the stage")
			continue
		}
		c.check(sameValue(sends[0], sends[1]) && chans[0] != chans[1], name+"/same-slice", c.pos(f.Pos()), "the same slice is sent to the file channel and the hash channel",
			"file channel and hash channel receive different values")
	}
	f := c.fn("trzszTransfer.pipelineCalculateMD5$1")
	// every element received is written to the hasher; the digest send is after a clean loop end
	var recv *ssa.UnOp
	eachInstr(f, func(in ssa.Instruction) {
		if u, ok := in.(*ssa.UnOp); ok && u.Op == token.ARROW && u.CommaOk {
			recv = u
		}
	})
	if recv == nil {
		c.lost("range over md5 source channel")
	}
	var elem ssa.Value
	for _, r := range referrersOf(recv) {
		if e, ok := r.(*ssa.Extract); ok && e.Index == 0 {
			elem = e
		}
	}
	wrote := false
	var writeCall *ssa.Call
	eachInstr(f, func(in ssa.Instruction) {
		if call, ok := in.(*ssa.Call); ok && call.Call.IsInvoke() && call.Call.Method.Name() == "Write" && elem != nil && sameValue(call.Call.Args[0], elem) {
			wrote = true
			writeCall = call
		}
	})
	c.check(wrote, "pipelineCalculateMD5/hash-every-element", c.ipos(recv), "each received element is written to the hasher", "received element is not written to the hasher")
	if writeCall != nil {
		// loop back to the receive only through the Write
		hit, path := reachFrom(recv.Block(), instrIndex(recv)+1, func(in ssa.Instruction) bool { return in == ssa.Instruction(recv) }, func(in ssa.Instruction) bool { return in == ssa.Instruction(writeCall) })
		c.check(hit == nil, "pipelineCalculateMD5/no-skip", c.ipos(recv), "no iteration skips the hasher", "an iteration can return to the receive without hashing", c.pathStr(path)...)
	}
	nsend := 0
	eachInstr(f, func(in ssa.Instruction) {
		s, ok := in.(*ssa.Send)
		if !ok {
			return
		}
		nsend++
		// closed channel (ok == false) and ctx.Err() == nil
		closed, clean := false, false
		for _, fc := range factsAt(s.Block()) {
			if e, ok := fc.V.(*ssa.Extract); ok && e.Tuple == ssa.Value(recv) && e.Index == 1 && !fc.Pol {
				closed = true
			}
			if op, x, y, ok := cmpFact(fc); ok && op == token.EQL {
				for _, v := range []ssa.Value{x, y} {
					if call, _ := callOf(v); call != nil && call.Call.IsInvoke() && call.Call.Method.Name() == "Err" {
						clean = true
					}
				}
			}
		}
		call, _ := callOf(s.X)
		isSum := call != nil && call.Call.IsInvoke() && call.Call.Method.Name() == "Sum"
		c.check(closed && clean && isSum, "pipelineCalculateMD5/digest-after-clean-close", c.ipos(s), "digest = hasher.Sum emitted only after the source closed and the context is not cancelled",
			"digest emitted before the source channel closed cleanly")
	})
	if nsend != 1 {
		c.undecided("pipelineCalculateMD5/digest-send", "expected exactly one digest send")
	}
}

// sendsOn lists Send instructions and select send-states in f whose channel is a load of field fld.
type chanSend struct {
	In  ssa.Instruction
	Val ssa.Value
	Blk *ssa.BasicBlock
}

func sendsOnField(f *ssa.Function, fld string) []chanSend {
	var out []chanSend
	eachInstr(f, func(in ssa.Instruction) {
		switch x := in.(type) {
		case *ssa.Send:
			if _, n, ok := fieldOf(x.Chan); ok && n == fld {
				out = append(out, chanSend{x, x.X, x.Block()})
			}
		case *ssa.Select:
			for _, st := range x.States {
				if st.Send != nil {
					if _, n, ok := fieldOf(st.Chan); ok && n == fld {
						out = append(out, chanSend{x, st.Send, x.Block()})
					}
				}
			}
		}
	})
	return out
}

func c02SavedSize(c *Ctx) {
	// (a) the only sends on ctx.succ are on the step == size edge
	total := 0
	for _, f := range c.AllFns {
		for _, s := range sendsOnField(f, "succ") {
			total++
			fname := c.fnName(f)
			good := factCmp(factsAt(s.Blk), token.EQL, anyValue, isVar("size"))
			c.check(good, fname+"/succ<-", c.ipos(s.In), "success is signalled only on the step == size edge", "send on the success channel not dominated by step == size")
			if fname != "trzszTransfer.pipelineRecvFinalAck" && fname != "trzszTransfer.pipelineSendAck$1" {
				c.bad("WHO-WRITES/succ/"+fname, c.ipos(s.In), "a new sender on the success channel (only the two final-ack stages may signal success)")
			}
		}
	}
	if total < 2 {
		c.undecided("succ-senders", "expected the two final-ack stages to send on ctx.succ")
	}
	// the compared step: sender side = parsed final ack; receiver side = savedSteps.Load()
	sa := c.fn("trzszTransfer.pipelineSendAck$1")
	for _, s := range sendsOnField(sa, "succ") {
		good := factCmp(factsAt(s.Blk), token.EQL, func(v ssa.Value) bool {
			call, _ := callOf(v)
			if call == nil || calleeID(&call.Call) != "(*sync/atomic.Int64).Load" {
				return false
			}
			n, ok := fieldAddrName(call.Call.Args[0])
			return ok && n == "trzszTransfer.savedSteps"
		}, isVar("size"))
		c.check(good, "pipelineSendAck/succ.step<-savedSteps", c.ipos(s.In), "the receiver signals success when savedSteps == size", "receiver success compare does not use the saved-bytes counter")
	}
	// (b) stores to savedSteps: reset to 0, and running sum of len(data) after a successful writeAll(file,data)
	nst := 0
	for _, f := range c.AllFns {
		for _, ci := range callsIn(f, idIs("(*sync/atomic.Int64).Store", "(*sync/atomic.Int64).Add", "(*sync/atomic.Int64).Swap", "(*sync/atomic.Int64).CompareAndSwap")) {
			n, ok := fieldAddrName(ci.Common().Args[0])
			if !ok || n != "trzszTransfer.savedSteps" {
				continue
			}
			nst++
			fname := c.fnName(f)
			val := ci.Common().Args[1]
			if z, ok := constInt(val); ok && z == 0 {
				c.ok(fname+"/savedSteps=0", c.ipos(ci), "counter reset at the start of a file")
				continue
			}
			good := false
			if b, ok := strip(val).(*ssa.BinOp); ok && b.Op == token.ADD {
				// one operand is a phi (running sum), the other int64(len(data)) with data written by a dominating successful writeAll
				for _, pr := range [][2]ssa.Value{{b.X, b.Y}, {b.Y, b.X}} {
					phi, isPhi := pr[0].(*ssa.Phi)
					lc, _ := callOf(pr[1])
					if !isPhi || lc == nil || calleeID(&lc.Call) != "builtin len" {
						continue
					}
					// phi edges: 0 and the sum itself
					selfOK := true
					for _, e := range phi.Edges {
						if z, ok := constInt(e); ok && z == 0 {
							continue
						}
						if !sameValue(e, val) {
							selfOK = false
						}
					}
					data := lc.Call.Args[0]
					written := false
					for _, wc := range callsIn(f, idIs("trzsz.writeAll")) {
						w := wc.(*ssa.Call)
						if sameValue(w.Call.Args[1], data) && domI(w, ci.(ssa.Instruction)) {
							// on the err == nil edge, and written to the destination itself (the stage's file), not into a
							// buffer in front of it: what is counted must be what the file has been handed
							toFile := isVar("file")(w.Call.Args[0])
							if isNil, _ := factNil(factsAt(ci.Block()), w); isNil && toFile {
								written = true
							}
						}
					}
					if selfOK && written {
						good = true
					}
				}
			}
			c.check(good, fname+"/savedSteps+=len", c.ipos(ci), "counter = running sum of len(data) after writeAll(file,data) succeeded", "saved-bytes counter updated with something other than the length of data just written successfully")
		}
	}
	if nst < 2 {
		c.undecided("savedSteps-stores", "expected reset and accumulation of the saved-bytes counter")
	}
	// (c) pipelineSaveData: ack-immediately only on step == size
	sd := c.fn("trzszTransfer.pipelineSaveData$1")
	nsend := 0
	eachInstr(sd, func(in ssa.Instruction) {
		s, ok := in.(*ssa.Send)
		if !ok {
			return
		}
		nsend++
		c.check(factCmp(factsAt(s.Block()), token.EQL, anyValue, isVar("size")), "pipelineSaveData/ack-immediately", c.ipos(s),
			"the final-ack trigger is only sent when step == size", "final-ack trigger sent without step == size")
	})
	// (d) the step > size cancels (both final-ack stages)
	for _, name := range []string{"trzszTransfer.pipelineRecvFinalAck", "trzszTransfer.pipelineSendAck$1"} {
		f := c.fn(name)
		found := false
		for _, b := range f.Blocks {
			i := blockIf(b)
			if i == nil {
				continue
			}
			for k := 0; k < 2; k++ {
				if b.Succs[0] != b.Succs[1] && factCmp(edgeFactsTo(b, b.Succs[k]), token.GTR, anyValue, isVar("size")) {
					found = true
					okEdge, why := failEdge(c, b, k)
					c.check(okEdge, name+"/step>size", c.ipos(i), "step > size cancels the transfer", "step > size edge does not fail: "+why)
				}
			}
		}
		if !found {
			c.bad(name+"/step>size", c.pos(f.Pos()), "no step > size rejection in the final-ack stage")
		}
	}
	// (e) drivers return a nil error only from the succ arm of their final select
	for _, name := range []string{"trzszTransfer.sendFileDataV2", "trzszTransfer.recvFileDataV2"} {
		f := c.fn(name)
		n := 0
		eachInstr(f, func(in ssa.Instruction) {
			if !isNilErrReturn(in) {
				return
			}
			n++
			good := false
			for _, fc := range factsAt(in.Block()) {
				op, x, y, ok := cmpFact(fc)
				if !ok || op != token.EQL {
					continue
				}
				e, isE := x.(*ssa.Extract)
				idx, isC := constInt(y)
				if !isE || !isC || e.Index != 0 {
					continue
				}
				sel, isSel := e.Tuple.(*ssa.Select)
				if isSel && int(idx) < len(sel.States) && sel.States[idx].Send == nil {
					if _, fld, ok := fieldOf(sel.States[idx].Chan); ok && fld == "succ" {
						good = true
					}
				}
			}
			c.check(good, name+"/nil-error<-succ", c.ipos(in), "success is returned only from the succ arm", "driver returns success without receiving from the success channel")
		})
		if n != 1 {
			c.undecided(name+"/nil-error", "expected exactly one success return")
		}
	}
}

func c02Echo(c *Ctx) {
	// checkInteger: nil only when result == expect
	ci := c.fn("trzszTransfer.checkInteger")
	rc := callsWithConstArg(ci, tT+"recvInteger", 1, "SUCC")
	if len(rc) != 1 {
		c.lost("recvInteger(\"SUCC\") in checkInteger")
	}
	res := extractOf(rc[0], 0)
	eachInstr(ci, func(in ssa.Instruction) {
		if isNilErrReturn(in) {
			c.check(factCmp(factsAt(in.Block()), token.EQL, isValue(res), isVar("expect")), "checkInteger/success", c.ipos(in), "nil only when the echoed integer equals the expected one", "checkInteger succeeds without result == expect")
		}
	})
	// callers: NUM and SIZE echo the value just sent; chunk echo compares the chunk length
	for _, nm := range []struct{ fn, typ string }{{"trzszTransfer.sendFileNum", "NUM"}, {"trzszTransfer.sendFileSize", "SIZE"}} {
		f := c.fn(nm.fn)
		snd := callsWithConstArg(f, tT+"sendInteger", 1, nm.typ)
		chk := callsIn(f, idIs(tT+"checkInteger"))
		good := len(snd) == 1 && len(chk) == 1 && sameValue(snd[0].Call.Args[2], chk[0].Common().Args[1]) && domI(snd[0], chk[0].(ssa.Instruction))
		c.check(good, nm.fn+"/echo", c.pos(f.Pos()), "the "+nm.typ+" echo is compared with the value sent", nm.typ+" is not echo-checked against the value sent")
	}
	// pipelineRecvAck: length != ack.length cancels
	ra := c.fn("trzszTransfer.pipelineRecvAck$1")
	found := false
	for _, b := range ra.Blocks {
		i := blockIf(b)
		if i == nil {
			continue
		}
		op, x, y, ok := cmpFact(normFact(fact{V: i.Cond, Pol: true}))
		if !ok || (op != token.NEQ && op != token.EQL) {
			continue
		}
		var other ssa.Value
		if isFieldLoad("length")(x) {
			other = y
		} else if isFieldLoad("length")(y) {
			other = x
		} else {
			continue
		}
		call, idx := callOf(other)
		if call == nil || calleeID(&call.Call) != tT+"pipelineRecvCurrentAck" || idx != 0 {
			continue
		}
		found = true
		k := 0
		if op == token.EQL {
			k = 1
		}
		okEdge, why := failEdge(c, b, k)
		c.check(okEdge, "pipelineRecvAck/length-echo", c.ipos(i), "acknowledged length != sent length cancels", "length mismatch edge does not fail: "+why)
	}
	if !found {
		c.bad("pipelineRecvAck/length-echo", c.pos(ra.Pos()), "no comparison of the acknowledged chunk length with the sent one")
	}
	// v1 sender: per-chunk echo of the chunk length
	sf := c.fn("trzszTransfer.sendFileData")
	chk := callsIn(sf, idIs(tT+"checkInteger"))
	c.check(len(chk) == 1, "sendFileData/chunk-echo", c.pos(sf.Pos()), "v1 sender echo-checks each chunk length", "v1 sender no longer echo-checks chunk lengths")
	// universal forms: after a chunk was sent, no next chunk and no success without its echo check; after NUM / SIZE was sent,
	// no success without its echo check; after an ack was read, no next ack and no exit before the length comparison
	isChk := func(in ssa.Instruction) bool {
		ci, ok := in.(ssa.CallInstruction)
		return ok && calleeID(ci.Common()) == tT+"checkInteger"
	}
	for _, sd := range callsIn(sf, idIs(tT+"sendData")) {
		sdI := sd.(ssa.Instruction)
		hit, path := reachAvoid(sdI, func(in ssa.Instruction) bool { return in == sdI || isNilErrReturn(in) }, c.orWrapper("checkInteger", isChk))
		c.check(hit == nil, "sendFileData/every-chunk-echo-checked", c.ipos(sdI), "each chunk sent is echo-checked before the next one or success", "a chunk can be sent without its echo being checked (a lost or altered chunk goes unnoticed until the digest, or not at all)", c.pathStr(path)...)
	}
	for _, nm := range []struct{ fn, typ string }{{"trzszTransfer.sendFileNum", "NUM"}, {"trzszTransfer.sendFileSize", "SIZE"}} {
		f := c.fn(nm.fn)
		for _, snd := range callsWithConstArg(f, tT+"sendInteger", 1, nm.typ) {
			hit, path := reachAvoid(snd, c.maySucceed, c.orWrapper("checkInteger", isChk))
			c.check(hit == nil, nm.fn+"/always-echo-checked", c.ipos(snd), "after sending "+nm.typ+" the step succeeds only after the echo check", nm.typ+" can be sent and the step succeed without the echo check", c.pathStr(path)...)
		}
	}
	for _, rcv := range callsIn(ra, idIs(tT+"pipelineRecvCurrentAck")) {
		call := rcv.(*ssa.Call)
		ev := errorValueOf(call)
		isLenIf := func(in ssa.Instruction) bool {
			i, ok := in.(*ssa.If)
			if !ok {
				return false
			}
			op, x, y, okC := cmpFact(normFact(fact{V: i.Cond, Pol: true}))
			if !okC || (op != token.NEQ && op != token.EQL) {
				return false
			}
			for _, pr := range [][2]ssa.Value{{x, y}, {y, x}} {
				if isFieldLoad("length")(pr[0]) {
					if c2, idx := callOf(pr[1]); c2 == call && idx == 0 {
						return true
					}
				}
			}
			return false
		}
		hit, path := reachFromE(call.Block(), instrIndex(call)+1, func(in ssa.Instruction) bool {
			if isReturn(in) {
				return true
			}
			u, ok := in.(*ssa.UnOp)
			return ok && u.Op == token.ARROW
		}, isLenIf, func(from, to *ssa.BasicBlock) bool {
			_, nonNil := factNil(edgeFactsTo(from, to), ev)
			return nonNil
		})
		c.check(hit == nil, "pipelineRecvAck/length-compared-for-every-ack", c.ipos(call), "every ack read has its length compared before the next ack is taken or the stage ends", "an ack can be consumed without its length being compared with the length sent", c.pathStr(path)...)
	}
}

func c02Framing(c *Ctx) {
	for _, name := range []string{"trzszTransfer.recvCheck", "trzszTransfer.recvCheckV2", "decodeRelayBufferString"} {
		f := c.fn(name)
		n := 0
		eachInstr(f, func(in ssa.Instruction) {
			if !isNilErrReturn(in) {
				return
			}
			n++
			fs := factsAt(in.Block())
			colon := factCmp(fs, token.GEQ, func(v ssa.Value) bool {
				call, _ := callOf(v)
				return call != nil && calleeID(&call.Call) == "bytes.IndexByte"
			}, isConstIntV(1))
			typeEq := factCmp(fs, token.EQL, anyValue, isVar("expectType"))
			c.check(colon, name+"/colon", c.ipos(in), "success only when a colon was found after the type", "line accepted without the colon test")
			c.check(typeEq, name+"/type", c.ipos(in), "success only when the line type equals the expected type", "line accepted without comparing its type with the expected type")
		})
		if n == 0 {
			c.undecided(name+"/success", "no success return found")
		}
		// the separator looked for is the one the line writer puts after the type, and the type is what sits between '#' and it
		sepOK := false
		for _, ci := range callsIn(f, idIs("bytes.IndexByte")) {
			if isConstIntV(':')(ci.Common().Args[1]) {
				sepOK = true
			}
		}
		// the type is line[1:idx] and the payload line[idx+1:], idx being the position of that ':'
		for _, ci := range callsIn(f, idIs("bytes.IndexByte")) {
			if !isConstIntV(':')(ci.Common().Args[1]) {
				continue
			}
			idx, line := ci.Value(), ci.Common().Args[0]
			var haveT, haveP bool
			eachInstr(f, func(in ssa.Instruction) {
				sl, ok := in.(*ssa.Slice)
				if !ok || !sameValue(sl.X, line) {
					return
				}
				usesIdx := func(v ssa.Value) bool {
					if v == nil {
						return false
					}
					if sameValue(v, idx) {
						return true
					}
					b, isB := v.(*ssa.BinOp)
					return isB && (sameValue(b.X, idx) || sameValue(b.Y, idx))
				}
				if !usesIdx(sl.Low) && !usesIdx(sl.High) {
					return
				}
				isT := sl.Low != nil && isConstIntV(1)(sl.Low) && sl.High != nil && sameValue(sl.High, idx)
				isP := false
				if b, isB := sl.Low.(*ssa.BinOp); isB && sl.High == nil && b.Op == token.ADD {
					isP = (sameValue(b.X, idx) && isConstIntV(1)(b.Y)) || (sameValue(b.Y, idx) && isConstIntV(1)(b.X))
				}
				haveT, haveP = haveT || isT, haveP || isP
				c.check(isT || isP, name+"/cut-at-colon", c.ipos(sl), "the line is cut into type = line[1:idx] and payload = line[idx+1:]", "the line is cut at a position other than its first ':' (the type or the payload gains or loses a byte)")
			})
			c.check(haveT && haveP, name+"/type-and-payload", c.ipos(ci), "both the type and the payload are taken from the line", "the type or the payload is not cut from the line at its ':'")
		}
		c.check(sepOK, name+"/separator", c.pos(f.Pos()), "the type ends at the first ':' (what sendLine writes after the type)", "the reader looks for another separator than the ':' that sendLine writes after the type")
	}
	sl := c.fn("trzszTransfer.sendLine")
	okFmt := false
	for _, ci := range callsIn(sl, idIs(tT+"writeAll", "trzsz.writeAll")) {
		args := ci.Common().Args
		parts, ok := stringParts(args[len(args)-1])
		if ok && len(parts) == 5 && parts[0].lit == "#" && isVar("typ")(parts[1].val) && parts[2].lit == ":" && isVar("buf")(parts[3].val) && parts[4].val != nil && isFieldLoad("Newline")(parts[4].val) {
			okFmt = true
		}
	}
	c.check(okFmt, "sendLine/shape", c.pos(sl.Pos()), "a line is '#' + type + ':' + payload + negotiated newline", "sendLine no longer writes '#type:payload' + the negotiated newline")
	f := c.fn("trzszTransfer.recvCompressFlag")
	rc := callsWithConstArg(f, tT+"recvCheck", 1, "COMP")
	if len(rc) != 1 {
		c.lost("recvCheck(\"COMP\")")
	}
	flag := extractOf(rc[0], 0)
	eachInstr(f, func(in ssa.Instruction) {
		r, ok := in.(*ssa.Return)
		if !ok || !isNilErrReturn(in) || !domI(rc[0], in) {
			return
		}
		val, isC := constBool(retVal(r, 0))
		want := "false"
		if val {
			want = "true"
		}
		good := isC && factCmp(factsAt(in.Block()), token.EQL, isValue(flag), isConstStrV(want))
		c.check(good, "recvCompressFlag/"+want, c.ipos(in), "flag value returned only for the literal "+want, "compress flag accepted without matching the literal")
	})
}

func isEOFLoad(v ssa.Value) bool {
	u, ok := strip(v).(*ssa.UnOp)
	if !ok || u.Op != token.MUL {
		return false
	}
	g, ok := u.X.(*ssa.Global)
	return ok && g.Name() == "EOF" && g.Pkg.Pkg.Path() == "io"
}

func c02Decode(c *Ctx) {
	// (a) unknown escape code: the dereference of a table entry is on its != nil edge
	ud := c.fn("unescapeData")
	n := 0
	eachInstr(ud, func(in ssa.Instruction) {
		u, ok := in.(*ssa.UnOp)
		if !ok || u.Op != token.MUL {
			return
		}
		inner, ok := u.X.(*ssa.UnOp)
		if !ok || inner.Op != token.MUL {
			return
		}
		ia, ok := inner.X.(*ssa.IndexAddr)
		if !ok || !isFieldLoad("unescapeCodes")(ia.X) {
			return
		}
		n++
		_, nonNil := factNil(factsAt(u.Block()), inner)
		c.check(nonNil, "unescapeData/deref-entry", c.ipos(u), "table entry dereferenced only when non-nil", "escape table entry dereferenced without a nil check (unknown code not rejected)")
		// and the nil edge returns an error
		for _, r := range referrersOf(inner) {
			if b, ok := r.(*ssa.BinOp); ok && (b.Op == token.EQL || b.Op == token.NEQ) {
				for _, r2 := range referrersOf(b) {
					if i, ok := r2.(*ssa.If); ok {
						k := 0
						if b.Op == token.NEQ {
							k = 1
						}
						okE, why := failEdge(c, i.Block(), k)
						c.check(okE, "unescapeData/unknown-code-error", c.ipos(i), "unknown escape code returns an error", "unknown escape code is not an error: "+why)
					}
				}
			}
		}
	})
	if n == 0 {
		c.undecided("unescapeData/deref-entry", "no dereference of an unescape table entry found")
	}
	// (b) v1 recvData: leftover after unescape is an error
	rd := c.fn("trzszTransfer.recvData")
	for _, ci := range callsIn(rd, idIs("trzsz.unescapeData")) {
		call := ci.(*ssa.Call)
		rem := extractOf(call, 1)
		eachInstr(rd, func(in ssa.Instruction) {
			if !isNilErrReturn(in) || !domI(call, in) {
				return
			}
			good := rem != nil && factCmp(factsAt(in.Block()), token.EQL, func(v ssa.Value) bool {
				lc, _ := callOf(v)
				return lc != nil && calleeID(&lc.Call) == "builtin len" && sameValue(lc.Call.Args[0], rem)
			}, isConstIntV(0))
			c.check(good, "recvData/no-leftover", c.ipos(in), "decoded chunk accepted only when nothing remained undecoded", "decoded chunk accepted with undecoded bytes remaining")
		})
	}
	// (b2) what a decoder hands back is looked at only after its error
	nUse := 0
	for _, f := range c.AllFns {
		for _, ci := range callsIn(f, idIs("trzsz.unescapeData", "trzsz.decodeString", "trzsz.unmarshalSourceFile", "trzsz.unmarshalTargetFile", "trzsz.parseTrzszVersion")) {
			if call, ok := ci.(*ssa.Call); ok {
				nUse += resultsAfterErrCheck(c, c.fnName(f)+"/"+strings.TrimPrefix(calleeID(&call.Call), "trzsz."), call)
			}
		}
	}
	if nUse < 10 {
		c.undecided("decoders/result-used-after-error-check", "fewer decoder result uses than expected")
	}
	// (c) reader error other than EOF cancels; loops continue only on err == nil
	for _, nm := range []struct{ fn, method string }{{"trzszTransfer.pipelineDecodeData$1", "Read"}, {"trzszTransfer.pipelineReadData$1", "Read"}} {
		f := c.fn(nm.fn)
		found := false
		eachInstr(f, func(in ssa.Instruction) {
			call, ok := in.(*ssa.Call)
			if !ok || !call.Call.IsInvoke() || call.Call.Method.Name() != nm.method {
				return
			}
			found = true
			loopErrorGate(c, nm.fn+"/"+nm.method, call)
		})
		if !found {
			c.lost(nm.method + " call in " + nm.fn)
		}
	}
}

// loopErrorGate: the error result of call R inside a loop is nil-tested, the non-nil
// edge fails, and the loop cannot come back to R without passing that test.
func loopErrorGate(c *Ctx, key string, call *ssa.Call) {
	u := classifyErrUse(errorValueOf(call))
	if u.dropped || len(u.tests) == 0 {
		c.bad(key+".err", c.ipos(call), "error result is never nil-tested")
		return
	}
	tests := map[ssa.Instruction]bool{}
	for _, t := range u.tests {
		tests[t] = true
		okE, why := failEdge(c, t.Block(), nonNilEdge(t))
		c.check(okE, key+".err!=nil", c.ipos(t), "a non-EOF error ends the stage with a cancel/return", "error edge does not fail: "+why)
	}
	// any comparison of the error (nil test or == io.EOF) counts as examining it
	if ev := errorValueOf(call); ev != nil {
		for _, r := range referrersOf(ev) {
			if b, ok := r.(*ssa.BinOp); ok {
				for _, r2 := range referrersOf(b) {
					if i, ok := r2.(*ssa.If); ok {
						tests[i] = true
					}
				}
			}
		}
	}
	hit, path := reachAvoid(call, func(in ssa.Instruction) bool { return in == ssa.Instruction(call) }, func(in ssa.Instruction) bool { return tests[in] })
	c.check(hit == nil, key+".retest", c.ipos(call), "every iteration tests the error before reading again", "loop can read again without testing the previous error", c.pathStr(path)...)
}

func c02ShortSource(c *Ctx) {
	for _, name := range []string{"archiveFileReader.Read", "trzszTransfer.pipelineReadData$1", "trzszTransfer.sendFileData"} {
		f := c.fn(name)
		n := 0
		for _, b := range f.Blocks {
			i := blockIf(b)
			if i == nil {
				continue
			}
			// this If must sit on the err == io.EOF edge
			onEOF := factCmp(factsAt(b), token.EQL, anyValue, isEOFLoad)
			if !onEOF {
				continue
			}
			op, _, _, ok := cmpFact(normFact(fact{V: i.Cond, Pol: true}))
			if !ok || (op != token.NEQ && op != token.EQL) {
				continue
			}
			n++
			k := 0
			if op == token.EQL {
				k = 1
			}
			okE, why := failEdge(c, b, k)
			c.check(okE, name+"/EOF-short", c.ipos(i), "EOF before the announced length is an error", "EOF with bytes still owed does not fail: "+why)
		}
		if n == 0 {
			c.bad(name+"/EOF-short", c.pos(f.Pos()), "no length check on the EOF edge: a shrinking source would be accepted")
		}
	}
}

// errTracked: callee ids whose error result must not be dropped (besides every trzsz function returning error).
var errTrackedStd = map[string]bool{
	"(*os.File).Seek": true, "(*os.File).Truncate": true, "io.ReadFull": true, "encoding/json.Unmarshal": true,
	"encoding/json.Marshal": true, "strconv.ParseInt": true, "(*os.File).Stat": true, "os.Open": true, "os.OpenFile": true, "os.MkdirAll": true,
}

// bestEffort: functions whose ignored errors are by design (one line of reason each).
var errBestEffort = map[string]string{
	"trzszTransfer.clientError":     "error report to the peer is best effort; the transfer already failed",
	"trzszTransfer.serverError":     "error report to the peer is best effort; the transfer already failed",
	"TrzszRelay.sendError":          "relay error report is best effort",
	"newTrzszError":                 "decoding the peer's error text falls back to showing the raw text",
	"encodeBytes":                   "zlib writer into a bytes.Buffer cannot fail",
	"traceLogger.writeTraceLog":     "trace log is diagnostics only",
	"traceLogger.writeTraceLog$1":   "trace log is diagnostics only",
	"hideCursor":                    "cursor escape sequence to the terminal is cosmetic",
	"showCursor":                    "cursor escape sequence to the terminal is cosmetic",
	"textProgressBar.writeProgress": "progress rendering is cosmetic",
	"trzszTransfer.resetTerm":       "terminal restore is best effort",
}

// errTestContinues: tested errors whose non-nil edge legitimately continues (one line of reason each).
var errTestContinues = map[string]string{}

func c02ErrorDiscipline(c *Ctx) {
	roots := []*ssa.Function{c.fn("trzszTransfer.sendFiles"), c.fn("trzszTransfer.recvFiles")}
	// the handshake and exit exchanges, and the JSON hooks the decoder calls reflectively
	for _, n := range []string{"sendAction", "recvAction", "sendConfig", "recvConfig", "clientExit", "recvExit", "serverExit"} {
		roots = append(roots, c.fn("trzszTransfer."+n))
	}
	for _, f := range c.AllFns {
		if f.Signature.Recv() != nil && c.inPkg(f) {
			switch f.Name() {
			case "UnmarshalJSON", "UnmarshalText", "MarshalJSON", "MarshalText":
				roots = append(roots, f)
			}
		}
	}
	reach := c.reachableFrom(roots...)
	// the callers that drive a whole transfer on the client and on the two servers (only these functions themselves:
	// what they call besides the transfer layer is dialog / argument code with its own conventions)
	for _, n := range []string{"TrzszFilter.downloadFiles", "TrzszFilter.uploadFiles", "recvFiles", "sendFiles"} {
		reach[c.fn(n)] = true
	}
	errDiscipline(c, reach, nil, 80)
}

// errDiscipline applies the error rule to every function of `reach` (except `skip` and the best-effort table).
func errDiscipline(c *Ctx, reach map[*ssa.Function]bool, skip map[*ssa.Function]bool, minCalls int) {
	nCalls := 0
	for _, f := range c.AllFns {
		if !reach[f] || skip[f] {
			continue
		}
		fname := c.fnName(f)
		if _, be := errBestEffort[fname]; be {
			continue
		}
		eachInstr(f, func(in ssa.Instruction) {
			call, ok := in.(*ssa.Call)
			if !ok {
				return
			}
			id := calleeID(&call.Call)
			tracked := errTrackedStd[id]
			if !tracked {
				if callee := call.Call.StaticCallee(); callee != nil && c.inPkg(callee) && errIndex(callee.Signature) >= 0 {
					tracked = true
				}
				if callee := closureInCell(call.Call.Value); callee != nil && c.inPkg(callee) && errIndex(callee.Signature) >= 0 {
					tracked = true // a local closure called through its variable (pipelineSendData's deliver)
					id = "closure " + c.fnName(callee)
				}
				if call.Call.IsInvoke() && errIndex(call.Call.Signature()) >= 0 {
					switch call.Call.Method.Name() {
					case "Read", "Write", "Flush":
						tracked = !idHasPrefix("invoke hash.Hash")(id)
					}
				}
			}
			if errIndex(call.Call.Signature()) < 0 {
				return
			}
			if !tracked {
				// any other error-returning call: not required to be consumed (bytes.Buffer writes, best-effort
				// closes), but where its error IS tested the non-nil edge must fail like everywhere else.
				// ctx.Err() is not an error of this call chain (C11-R3 covers how a cancelled stage exits).
				if id == "invoke context.Context.Err" || errTestContinues[fname+"/"+id] != "" {
					return
				}
				u := classifyErrUse(errorValueOf(call))
				for _, t := range u.tests {
					c.sites++
					if okE, why := failEdge(c, t.Block(), nonNilEdge(t)); !okE {
						c.bad(fname+"/"+id+".err-edge", c.ipos(t), "the non-nil edge of the error test does not end in an error return / cancel: "+why)
					} else {
						c.ok(fname+"/"+id+".err-edge", c.ipos(t), "the non-nil edge of the error test fails")
					}
				}
				return
			}
			nCalls++
			c.sites++
			u := classifyErrUse(errorValueOf(call))
			key := fname + "/" + id
			if u.dropped {
				c.bad(key+".dropped", c.ipos(call), "error result of "+id+" is dropped on a path the integrity of the transfer depends on")
				return
			}
			allOK := true
			if len(u.tests) == 0 && !u.returned && !u.passed {
				allOK = false
				c.bad(key+".only-compared", c.ipos(call), "the error result of "+id+" is only compared with specific values (e.g. io.EOF) and never tested against nil, returned or passed on: any other error is ignored")
			}
			for _, t := range u.tests {
				okE, why := failEdge(c, t.Block(), nonNilEdge(t))
				if !okE {
					allOK = false
					c.bad(key+".err-edge", c.ipos(t), "the non-nil edge of the error test does not end in an error return / cancel: "+why)
				}
			}
			if allOK {
				c.ok(key, c.ipos(call), "error is tested (non-nil edge fails), returned or forwarded")
			}
		})
	}
	if nCalls < minCalls {
		c.undecided("error-discipline/sites", "fewer tracked call sites than expected")
	}
}

// c02Resume: after a resume both ends must agree on the offset. The only message that carries the
// sender's view is the SIZE of the remainder, so the receiver must compare it with what it kept
// (source size minus its own truncation offset). A lost/altered hash ack otherwise makes the sender resume
// from a different offset than the receiver truncated at, and the MD5 (over the re-sent bytes only) still matches.
func c02Resume(c *Ctx) {
	rp := c.fn("trzszTransfer.recvPrefixHash")
	// the receiver records (total - offset) where offset is the value it truncated at
	var fld string
	truncs := callsIn(rp, idIs("(*os.File).Truncate"))
	if len(truncs) == 0 {
		c.lost("Truncate in recvPrefixHash")
	}
	isTotal := func(v ssa.Value) bool {
		// total: received SIZE (v3) or the decoded source size (v4)
		for _, l := range origins(v, originOpts{}) {
			call, idx := callOf(l.V)
			isSize := call != nil && idx == 0 && calleeID(&call.Call) == tT+"recvInteger"
			if !isSize && !isFieldLoad("Size")(l.V) {
				return false
			}
		}
		return true
	}
	for ti, tr := range truncs {
		m := tr.Common().Args[1]
		mz, mConst := constInt(m)
		records := func(in ssa.Instruction) bool {
			st, ok := in.(*ssa.Store)
			if !ok {
				return false
			}
			n, ok := fieldAddrName(st.Addr)
			if !ok || !strings.HasPrefix(n, "trzszTransfer.") {
				return false
			}
			if b, ok := strip(st.Val).(*ssa.BinOp); ok && b.Op == token.SUB && sameValue(b.Y, m) && isTotal(b.X) {
				fld = n
				return true
			}
			if mConst && mz == 0 && fld != "" && n == fld && isTotal(st.Val) {
				return true
			}
			return false
		}
		// find the field first (any recording store in the function)
		eachInstr(rp, func(in ssa.Instruction) { records(in) })
		var errIf *ssa.If
		if tc, ok := tr.(*ssa.Call); ok {
			if u := classifyErrUse(errorValueOf(tc)); len(u.tests) == 1 {
				errIf = u.tests[0]
			}
		}
		hit, path := reachFromE(tr.Block(), instrIndex(tr)+1, isReturn, records, func(from, to *ssa.BasicBlock) bool {
			return errIf != nil && from == errIf.Block() && to == from.Succs[nonNilEdge(errIf)]
		})
		key := "recvPrefixHash/records-remaining"
		if ti > 0 {
			key = fmt.Sprintf("recvPrefixHash/records-remaining#%d", ti+1)
		}
		c.check(hit == nil, key, c.ipos(tr), "after truncating the receiver records source size minus the offset it truncated at", "the file is truncated and the function returns without recording (source size - truncation offset): nothing cross-checks the sender's resume offset against the receiver's", c.pathStr(path)...)
	}
	if fld == "" {
		c.bad("recvPrefixHash/records-remaining", c.pos(rp.Pos()), "after a resume the receiver does not record how many bytes it still expects: nothing cross-checks the sender's resume offset against the receiver's (a lost hash ack ends in a silently wrong file)")
		return
	}
	short := fld[strings.Index(fld, ".")+1:]
	rs := c.fn("trzszTransfer.recvFileSize")
	// the recorded remainder is consumed by the comparison: on the edge where it was found set (>= 0) it is
	// reset to a negative value before the function returns, so it cannot be compared with the next file's size
	for _, b := range rs.Blocks {
		i := blockIf(b)
		if i == nil {
			continue
		}
		op, x, y, ok := cmpFact(normFact(fact{V: i.Cond, Pol: true}))
		if !ok || !isFieldLoad(short)(x) || !isConstIntV(0)(y) || (op != token.GEQ && op != token.LSS) {
			continue
		}
		k := 0
		if op == token.LSS {
			k = 1
		}
		hit, path := reachFromE(b.Succs[k], 0, isReturn, func(in ssa.Instruction) bool {
			st, isSt := in.(*ssa.Store)
			if !isSt {
				return false
			}
			nm, _ := fieldAddrName(st.Addr)
			z, isZ := constInt(st.Val)
			return nm == fld && isZ && z < 0
		}, nil)
		c.check(hit == nil, "recvFileSize/remainder-consumed", c.ipos(i), "the recorded remainder is reset on every path that found it set", "the recorded remainder survives the comparison: the next file's size is compared with this file's remainder", c.pathStr(path)...)
	}
	sz := callsWithConstArg(rs, tT+"recvInteger", 1, "SIZE")
	if len(sz) != 1 {
		c.lost("recvInteger(\"SIZE\") in recvFileSize")
	}
	size := extractOf(sz[0], 0)
	n := 0
	eachInstr(rs, func(in ssa.Instruction) {
		isEcho := false
		if call, ok := in.(*ssa.Call); ok && calleeID(&call.Call) == tT+"sendInteger" {
			isEcho = true
		}
		if !isEcho && !isNilErrReturn(in) {
			return
		}
		n++
		// either no resume happened (recorded value < 0) or the announced size equals it
		fs := factsAt(in.Block())
		eq := factCmp(fs, token.EQL, isValue(size), anyValue)
		none := factCmp(fs, token.LSS, isFieldLoad(short), isConstIntV(0))
		if !eq && !none {
			// the join after `if remain >= 0 { if size != remain { return err } }`: accept when the mismatch edge fails
			okGate := false
			for _, b := range rs.Blocks {
				i := blockIf(b)
				if i == nil {
					continue
				}
				op, x, y, ok := cmpFact(normFact(fact{V: i.Cond, Pol: true}))
				if ok && (op == token.NEQ || op == token.EQL) && (sameValue(x, size) || sameValue(y, size)) && b.Dominates(in.Block()) == false {
					k := 0
					if op == token.EQL {
						k = 1
					}
					fe, _ := failEdge(c, b, k)
					onResume := factCmp(factsAt(b), token.GEQ, anyValue, isConstIntV(0))
					if fe && onResume && precedes(i, in) {
						okGate = true
					}
				}
			}
			eq = okGate
		}
		c.check(eq || none, "recvFileSize/resume-size-check", c.ipos(in), "the size announced after a resume is accepted only if it equals what the receiver still expects", "the size announced after a resume is accepted without comparing it with the receiver's own offset")
	})
	if n < 2 {
		c.undecided("recvFileSize/exits", "expected the SUCC echo and the success return")
	}
}

// isAccumulator: v is acc+n where acc is a phi whose edges are 0 and v itself (a running total of n).
func isAccumulator(v ssa.Value, isN func(ssa.Value) bool) (*ssa.Phi, bool) {
	b, ok := strip(v).(*ssa.BinOp)
	if !ok || b.Op != token.ADD {
		return nil, false
	}
	for _, pair := range [][2]ssa.Value{{b.X, b.Y}, {b.Y, b.X}} {
		ph, isPhi := strip(pair[0]).(*ssa.Phi)
		if !isPhi || !isN(pair[1]) {
			continue
		}
		good := true
		for _, e := range ph.Edges {
			if z, ok := constInt(e); ok && z == 0 {
				continue
			}
			if strip(e) != ssa.Value(b) {
				good = false
			}
		}
		if good {
			return ph, true
		}
	}
	return nil, false
}

// c02V1Stream: the protocol-1 data loops (no pipeline). One slice per iteration is what is sent / written,
// hashed and counted; the loop runs while the running total is below the announced size; the digest
// returned is that hasher's.
func c02V1Stream(c *Ctx) {
	type side struct {
		fn      string
		source  string // call producing the chunk
		sinks   []string
		lenArgs map[string]int // call -> index of the length argument that must be len(chunk)
	}
	for _, s := range []side{
		{"trzszTransfer.sendFileData", "invoke trzsz.fileReader.Read", []string{tT + "sendData", "invoke hash.Hash.Write"}, map[string]int{tT + "checkInteger": 1}},
		{"trzszTransfer.recvFileData", tT + "recvData", []string{"trzsz.writeAll", "invoke hash.Hash.Write"}, map[string]int{tT + "sendInteger": 2}},
	} {
		f := c.fn(s.fn)
		fname := c.fnName(f)
		src := callsIn(f, idIs(s.source))
		if len(src) != 1 {
			c.lost("the chunk source in " + s.fn)
		}
		sc := src[0].(*ssa.Call)
		// the chunk value
		var isChunk func(v ssa.Value) bool
		var isLen func(v ssa.Value) bool
		if s.source == tT+"recvData" {
			chunk := extractOf(sc, 0)
			isChunk = func(v ssa.Value) bool { return sameValue(v, chunk) }
			isLen = func(v ssa.Value) bool {
				call, _ := callOf(v)
				return call != nil && calleeID(&call.Call) == "builtin len" && isChunk(call.Call.Args[0])
			}
		} else {
			n := extractOf(sc, 0)
			buf := sc.Call.Args[0]
			isChunk = func(v ssa.Value) bool {
				sl, ok := strip(v).(*ssa.Slice)
				return ok && sl.Low == nil && sl.High != nil && sameValue(sl.High, n) && sameValue(sl.X, buf)
			}
			isLen = func(v ssa.Value) bool { return sameValue(strip(v), n) }
		}
		for _, id := range s.sinks {
			calls := callsIn(f, idIs(id))
			good := len(calls) == 1
			if good {
				args := calls[0].Common().Args
				good = isChunk(args[len(args)-1]) && domI(sc, calls[0].(ssa.Instruction))
			}
			c.check(good, fname+"/chunk->"+shortID(id), c.pos(f.Pos()), "the chunk of this iteration is what goes to "+shortID(id), "what goes to "+shortID(id)+" is not exactly the chunk read/received in this iteration")
			if good {
				// and on every path: no further chunk is fetched and no success is returned without this sink having had the chunk
				// (a sink made conditional — dry run, skip offset — while the count and the other sink stay unconditional)
				sink := calls[0].(ssa.Instruction)
				emptyEdge := func(from, to *ssa.BasicBlock) bool {
					// the sender's source may deliver nothing (n == 0 with an error handled elsewhere): nothing to sink then
					return s.source != tT+"recvData" && factZero(edgeFactsTo(from, to), isLen)
				}
				hit, path := reachFromE(sc.Block(), instrIndex(sc)+1, func(in ssa.Instruction) bool { return in == ssa.Instruction(sc) || isNilErrReturn(in) }, func(in ssa.Instruction) bool { return in == sink }, emptyEdge)
				c.check(hit == nil, fname+"/every-chunk->"+shortID(id), c.ipos(sc), "every chunk goes to "+shortID(id)+" before the next one is fetched or success is returned", "a chunk can be counted / acknowledged without going to "+shortID(id)+": the file and the digest no longer cover the same bytes", c.pathStr(path)...)
			}
		}
		for id, idx := range s.lenArgs {
			for _, ci := range callsIn(f, idIs(id)) {
				c.check(isLen(ci.Common().Args[idx]), fname+"/len->"+shortID(id), c.ipos(ci), "the length acknowledged/checked is the chunk's length", "the length acknowledged/checked is not the chunk's length")
			}
		}
		// the loop: while total < size, total += len(chunk)
		var acc *ssa.Phi
		eachInstr(f, func(in ssa.Instruction) {
			if b, ok := in.(*ssa.BinOp); ok && acc == nil {
				if ph, ok := isAccumulator(b, isLen); ok {
					acc = ph
				}
			}
		})
		c.check(acc != nil, fname+"/total+=len", c.pos(f.Pos()), "a running total accumulates each chunk's length", "no running total of the chunk lengths: the loop cannot know when the announced size is reached")
		if acc != nil {
			// the source call runs only while total < size, and the digest return only when total >= size
			lt := factCmp(factsAt(sc.Block()), token.LSS, isValue(acc), anyValue)
			c.check(lt, fname+"/reads-while-short", c.ipos(sc), "a chunk is read only while the total is below the announced size", "a chunk is read without the total being below the announced size")
			eachInstr(f, func(in ssa.Instruction) {
				r, ok := in.(*ssa.Return)
				if !ok || !isNilErrReturn(in) {
					return
				}
				ge := factCmp(factsAt(in.Block()), token.GEQ, isValue(acc), anyValue)
				sum, _ := callOf(retVal(r, 0))
				goodSum := sum != nil && calleeID(&sum.Call) == "invoke hash.Hash.Sum"
				if goodSum {
					hw := callsIn(f, idIs("invoke hash.Hash.Write"))
					goodSum = len(hw) == 1 && hw[0].Common().Value == sum.Call.Value
				}
				c.check(ge && goodSum, fname+"/digest-at-end", c.ipos(in), "the digest of the hasher that saw every chunk is returned once the total reached the size", "success is returned before the total reached the size, or with another hasher's digest")
			})
		}
	}
}

// writesSUCC: f (or something it calls in this package, up to depth 3) writes a line of type "SUCC" —
// sendLine / sendBinary / sendString / sendInteger with the constant type, or a raw "#SUCC:" write.
func (c *Ctx) writesSUCC(f *ssa.Function, depth int, seen map[*ssa.Function]bool) bool {
	if f == nil || depth > 3 || seen[f] || len(f.Blocks) == 0 {
		return false
	}
	seen[f] = true
	found := false
	eachInstr(f, func(in ssa.Instruction) {
		ci, ok := in.(ssa.CallInstruction)
		if !ok || found {
			return
		}
		id := calleeID(ci.Common())
		if idIs(tT+"sendLine", tT+"sendBinary", tT+"sendString", tT+"sendInteger")(id) {
			if s, ok := constString(strip(ci.Common().Args[1])); ok && s == "SUCC" {
				found = true
			}
			return
		}
		if callee := ci.Common().StaticCallee(); callee != nil && c.inPkg(callee) && c.writesSUCC(callee, depth+1, seen) {
			found = true
		}
	})
	return found
}

// c02AckAfterVerify: while the receiver handles the MD5 step, nothing acknowledges (writes a SUCC line) before the
// digest comparison came out equal — whether the acknowledgement is written in recvFileMD5 itself or inside a helper
// it calls. (An echo-style helper that acknowledges on receipt lets the sender report success for a file the receiver
// is about to reject.)
func c02AckAfterVerify(c *Ctx) {
	rf := c.fn("trzszTransfer.recvFileMD5")
	n := 0
	eachInstr(rf, func(in ssa.Instruction) {
		ci, ok := in.(ssa.CallInstruction)
		if !ok {
			return
		}
		acks := false
		id := calleeID(ci.Common())
		if idIs(tT+"sendLine", tT+"sendBinary", tT+"sendString", tT+"sendInteger")(id) {
			s, isS := constString(strip(ci.Common().Args[1]))
			acks = isS && s == "SUCC"
		} else if callee := ci.Common().StaticCallee(); callee != nil && c.inPkg(callee) {
			acks = c.writesSUCC(callee, 1, map[*ssa.Function]bool{})
		}
		if !acks {
			return
		}
		n++
		verified := false
		for _, pr := range factBytesEqual(factsAt(in.Block())) {
			if isVar("digest")(pr[0]) || isVar("digest")(pr[1]) {
				verified = true
			}
		}
		c.check(verified, "recvFileMD5/ack-after-verify", c.ipos(in), "the MD5 step is acknowledged only on the edge where the received digest equals the computed one", "the MD5 step is acknowledged (directly or inside a helper) before the digests were compared equal: the sender reports success for a file the receiver rejects")
	})
	if n == 0 {
		c.bad("recvFileMD5/ack-after-verify", c.pos(rf.Pos()), "the MD5 step is never acknowledged: the sender cannot learn that the file was verified")
	}
}

// c02AckFormat: the per-chunk acknowledgement "#SUCC:<length>/<step>". Writer and parser agree on the separator and on
// which number is which; protocol numbers are parsed in base 10 with 64 bits everywhere.
func c02AckFormat(c *Ctx) {
	w := c.fn("trzszTransfer.pipelineSendAck$1")
	sep, okW := "", false
	for _, ci := range callsIn(w, idIs("fmt.Sprintf")) {
		fm, isS := constString(ci.Common().Args[0])
		if !isS || !strings.HasPrefix(fm, "#SUCC:%d") {
			continue
		}
		rest := fm[len("#SUCC:%d"):]
		j := strings.Index(rest, "%d")
		if j <= 0 {
			continue
		}
		sep = rest[:j]
		els, ok := sliceElems(ci.Common().Args[1])
		if !ok || len(els) < 2 {
			continue
		}
		// first number: the length taken from the ack channel; second: the saved-bytes counter
		first, second := false, false
		for _, l := range origins(strip(els[0].V), originOpts{}) {
			if e, isE := l.V.(*ssa.Extract); isE {
				if u, isU := e.Tuple.(*ssa.UnOp); isU && u.Op == token.ARROW && chanName(u.X) == "ackChan" {
					first = true
				}
			}
		}
		if call, _ := callOf(strip(els[1].V)); call != nil && isAtomicOnField(call, "savedSteps", "Load") {
			second = true
		}
		okW = first && second
	}
	c.check(okW && sep != "", "pipelineSendAck/writes-length-then-step", c.pos(w.Pos()), "the ack line carries the chunk length first and the saved-bytes counter second, separated by '"+sep+"'", "the per-chunk ack line does not carry (chunk length, saved bytes) in that order")
	p := c.fn("trzszTransfer.pipelineRecvCurrentAck")
	okSep, okN := false, false
	var tokens ssa.Value
	for _, ci := range callsIn(p, idIs("strings.Split")) {
		if s, isS := constString(ci.Common().Args[1]); isS && s == sep {
			okSep = true
			tokens = ci.Value()
		}
	}
	c.check(okSep, "pipelineRecvCurrentAck/separator", c.pos(p.Pos()), "the parser splits the ack at the separator the writer uses", "the parser splits the ack at another separator than the writer puts between the two numbers")
	okN = factCmpAnywhere(p, token.NEQ, func(v ssa.Value) bool {
		lc, _ := callOf(v)
		return lc != nil && calleeID(&lc.Call) == "builtin len" && tokens != nil && lc.Call.Args[0] == tokens
	}, isConstIntV(2)) ||
		factCmpAnywhere(p, token.EQL, func(v ssa.Value) bool {
			lc, _ := callOf(v)
			return lc != nil && calleeID(&lc.Call) == "builtin len" && tokens != nil && lc.Call.Args[0] == tokens
		}, isConstIntV(2))
	c.check(okN, "pipelineRecvCurrentAck/two-numbers", c.pos(p.Pos()), "the parser insists on exactly two numbers", "the parser does not test for exactly two numbers")
	// which token becomes which result
	eachInstr(p, func(in ssa.Instruction) {
		r, ok := in.(*ssa.Return)
		if !ok || !isNilErrReturn(in) {
			return
		}
		idxOf := func(v ssa.Value) int64 {
			call, i := callOf(v)
			if call == nil || i != 0 || calleeID(&call.Call) != "strconv.ParseInt" {
				return -1
			}
			ld, isLd := strip(call.Call.Args[0]).(*ssa.UnOp)
			if !isLd {
				return -1
			}
			ia, isIA := ld.X.(*ssa.IndexAddr)
			if !isIA || ia.X != tokens {
				return -1
			}
			k, _ := constInt(ia.Index)
			return k
		}
		c.check(idxOf(retVal(r, 0)) == 0 && idxOf(retVal(r, 1)) == 1, "pipelineRecvCurrentAck/length-then-step", c.ipos(r), "the first number is returned as the acknowledged length, the second as the saved step", "the parser returns the two numbers in the other order than the writer sends them")
	})
	// base and width of every protocol number
	reach := c.reachableFrom(c.fn("trzszTransfer.sendFiles"), c.fn("trzszTransfer.recvFiles"))
	n := 0
	for _, f := range c.AllFns {
		if !reach[f] {
			continue
		}
		for _, ci := range callsIn(f, idIs("strconv.ParseInt", "strconv.ParseUint")) {
			n++
			c.check(isConstIntV(10)(ci.Common().Args[1]) && isConstIntV(64)(ci.Common().Args[2]), c.fnName(f)+"/ParseInt(10,64)", c.ipos(ci), "protocol numbers are parsed in base 10, 64 bits", "a protocol number is parsed with another base / width than it is written with (%d of an int64)")
		}
	}
	if n < 4 {
		c.undecided("ParseInt/sites", "fewer protocol-number parsers than expected")
	}
}

// factCmpAnywhere: some branch of f tests (op, px, py) (in either polarity / spelling).
func factCmpAnywhere(f *ssa.Function, op token.Token, px, py func(ssa.Value) bool) bool {
	for _, b := range f.Blocks {
		if i := blockIf(b); i != nil && b.Succs[0] != b.Succs[1] {
			for k := 0; k < 2; k++ {
				if factCmp(edgeFactsTo(b, b.Succs[k]), op, px, py) {
					return true
				}
			}
		}
	}
	return false
}

// c02DirectWrite: every stage that saves received data counts bytes as saved (and acknowledges them) when the file
// writer's Write returned nil, and drops the result of Close. That is sound only while nil means "the file took the
// bytes": simpleFileWriter.Write must return what (*os.File).Write on its own file returned — a buffer in front of the
// file turns a full disk into a successful transfer of a truncated file.
func c02DirectWrite(c *Ctx) {
	f := c.fn("simpleFileWriter.Write")
	n := 0
	eachInstr(f, func(in ssa.Instruction) {
		r, ok := in.(*ssa.Return)
		if !ok || len(r.Results) != 2 {
			return
		}
		n++
		good := true
		for i := 0; i < 2; i++ {
			for _, l := range origins(retVal(r, i), originOpts{}) {
				call, _ := callOf(l.V)
				if call == nil || calleeID(&call.Call) != "(*os.File).Write" || !isFieldLoad("file")(call.Call.Args[0]) {
					good = false
				}
			}
		}
		c.check(good, "simpleFileWriter.Write/straight-to-file", c.ipos(r), "Write returns what the file's own Write returned", "the receiving file writer no longer hands each Write straight to the file: 'nil' means accepted, not written, and a write failure that surfaces later is lost (Close results are dropped)")
	})
	if n == 0 {
		c.undecided("simpleFileWriter.Write/straight-to-file", "no return found")
	}
}
