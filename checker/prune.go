package main

// Constant branches. go/ssa keeps `if false goto A else B` with both blocks. Every path rule here would treat A as
// reachable, and a value used only in A (an error "returned" under `if false`) as consumed. pruneConstBranches makes
// the CFG say what the code does: the never-taken edge is removed, blocks that become unreachable are dropped from
// the function, their phi edges and their uses (referrers) disappear. Dominator information computed by go/ssa
// before the pruning stays valid as an under-approximation (removing edges only adds dominance relations).

import (
	"trzszlint/xssa"
)

var deadBlocks = map[*ssa.BasicBlock]bool{}

func removePred(b, pred *ssa.BasicBlock) {
	for i, p := range b.Preds {
		if p == pred {
			b.Preds = append(append([]*ssa.BasicBlock{}, b.Preds[:i]...), b.Preds[i+1:]...)
			for _, in := range b.Instrs {
				if ph, ok := in.(*ssa.Phi); ok && i < len(ph.Edges) {
					ph.Edges = append(append([]ssa.Value{}, ph.Edges[:i]...), ph.Edges[i+1:]...)
				}
			}
			return
		}
	}
}

func pruneConstBranches(f *ssa.Function) (pruned int) {
	if len(f.Blocks) == 0 {
		return 0
	}
	for _, b := range f.Blocks {
		i := blockIf(b)
		if i == nil || len(b.Succs) != 2 || b.Succs[0] == b.Succs[1] {
			continue
		}
		k, isC := constBool(i.Cond)
		if !isC {
			continue
		}
		live, dead := b.Succs[0], b.Succs[1]
		if !k {
			live, dead = dead, live
		}
		removePred(dead, b)
		b.Succs = []*ssa.BasicBlock{live, live} // the If stays as terminator; both entries name the edge that is taken
		pruned++
	}
	if pruned == 0 {
		return 0
	}
	// drop what is no longer reachable from the entry (the recover block is an entry of its own)
	seen := map[*ssa.BasicBlock]bool{}
	var walk func(b *ssa.BasicBlock)
	walk = func(b *ssa.BasicBlock) {
		if b == nil || seen[b] {
			return
		}
		seen[b] = true
		for _, s := range b.Succs {
			walk(s)
		}
	}
	walk(f.Blocks[0])
	walk(f.Recover)
	var keep []*ssa.BasicBlock
	for _, b := range f.Blocks {
		if seen[b] {
			keep = append(keep, b)
			continue
		}
		deadBlocks[b] = true
		for _, s := range b.Succs {
			if seen[s] {
				removePred(s, b)
			}
		}
	}
	f.Blocks = keep
	return pruned
}
