package main

// C11 — a transfer cannot hang: blocking-operation discipline.

import (
	"fmt"
	"go/token"
	"strings"

	"trzszlint/xssa"
)

func init() {
	register("C11", 60, "Decided (for every path of the current source): (R1) every blocking operation reachable from the pipeline drivers and the prefix-hash drivers is classified — a select with a ctx.Done() arm; a receive/range on a channel whose single producer defers close; a send on a buffered channel that is sent at most once; a WaitGroup.Wait whose Done is deferred at the start of the awaited goroutine — anything else is a violation; (R2) every line/binary read of the transfer passes a timeout that comes from getNewTimeout (nil only for timeout<=0 and for the server's wait for ACT), and the buffer's wait has data, stop and timeout arms; (R3) every stage error edge cancels with a cause and the drivers return context.Cause; (R4) handler goroutines route every error to the reporter, which drains input before writing fail; (R5) defer cancel(nil) is registered in the drivers before any stage starts; (R6) a channel is closed only by its sending side. Not decided: wall-clock bounds, global deadlock freedom over all schedules, blocking inside connection writes. Added: WaitGroup.Add dominates the go statement; (R8) every mutex is released on every path; (R9) a stage returns only after cancelling, on a cancelled context, or when its per-stage completion condition holds; (R10) size-probing hand-shake (initial size, token released on every init-phase ack); (R11) no loop whose only exit test is loop-invariant.",
		func(c *Ctx) {
			c.run("C11-R1", "SELECT-ARM: every blocking operation in the stage family is covered by cancellation or by a closing producer", c11R1)
			c.run("C11-R2", "WHO-CALLS: every read carries a timeout; the buffer wait has data/stop/timeout arms", c11R2)
			c.run("C11-R3", "MUST-PASS: failing stages cancel with a cause; drivers return the cause", c11R3)
			c.run("C11-R4", "ORDER: the side that can still talk reports, after draining input", c11R4)
			c.run("C11-R5", "PAIR: defer cancel(nil) before any stage starts", c11R5)
			c.run("C11-R6", "PAIR: a channel is closed only by its sending side", c11R6)
			c.run("C11-R9", "MUST-PASS: a stage returns only after cancelling, on a cancelled context, or when its work is complete", c11StageExits)
			c.run("C11-R10", "PAIR: size-probing hand-shake — initial size, cancellable wait, token released on every init-phase ack", c11BufInit)
			c.run("C11-R11", "CONTRADICTION: no loop whose only exit test is loop-invariant", c11LoopProgress)
			c.run("C11-R8", "PAIR: every mutex acquired is released on every path out of the function", c11Mutex)
			c.run("C11-R12", "LAUNCH: pipeline stages and the transfer's input pump are started with go", c11Launch)
			c.run("C11-R13", "TYPESTATE: no send after close; a channel its launcher waits on is closed as the worker's last action", func(c *Ctx) { noSendAfterClose(c); completionClosedLast(c, "", 3); nilChannelUse(c) })
			c.run("C11-S2", "shared with C18-R3: a read that timed out is retried only when a pause began after this very attempt started (else a silent peer is waited for without end)", c18R3)
			c.run("C11-S3", "shared with C05-R9: the wind-up of a failed transfer latches 'stopped' — the flag the workers waiting in the pause loops look at, so none is left running", stopLatchRule)
			c.run("C11-S4", "shared with C02-10: a write failure reaches the stage that counts saved bytes (a failed transfer ends with an error, not with success)", c02DirectWrite)
			c.run("C11-R7", "GUARD-DOM (shared with C02-7): a source that ends before its announced length is an error, not a silent wait or spin", c02ShortSource)
		})
}

func (c *Ctx) stageRoots() []*ssa.Function {
	return []*ssa.Function{c.fn("trzszTransfer.sendFileDataV2"), c.fn("trzszTransfer.recvFileDataV2"),
		c.fn("trzszTransfer.sendPrefixHash"), c.fn("trzszTransfer.recvPrefixHash")}
}

// functions whose blocking operations are covered by another rule or are out of scope, with the reason.
var c11Exempt = map[string]string{
	"trzszBuffer.nextBuffer":             "the buffer wait: its arms are checked by C11-R2",
	"traceLogger.writeTraceLog":          "trace log (debug only): send on a 10000-slot channel drained by a dedicated goroutine",
	"traceLogger.writeTraceLog$1":        "trace log writer goroutine, not part of a transfer",
	"trzszTransfer.switchToBackground$1": "fork-to-background helper, not a stage",
}

func isDoneRecv(st *ssa.SelectState) bool {
	if st.Send != nil {
		return false
	}
	call, _ := callOf(st.Chan)
	return call != nil && call.Call.IsInvoke() && call.Call.Method.Name() == "Done"
}

func isTimerRecv(st *ssa.SelectState) bool {
	if st.Send != nil {
		return false
	}
	call, _ := callOf(st.Chan)
	return call != nil && calleeID(&call.Call) == "time.After"
}

// chanName gives a stable name for a channel expression: field or variable name, or the producing call.
func chanName(v ssa.Value) string {
	if _, f, ok := fieldOf(v); ok {
		return f
	}
	if n := varName(v); n != "" {
		return n
	}
	if call, _ := callOf(v); call != nil {
		if call.Call.IsInvoke() {
			return call.Call.Method.Name() + "()"
		}
		id := calleeID(&call.Call)
		return id[strings.LastIndex(id, ".")+1:] + "()"
	}
	if e, ok := strip(v).(*ssa.Extract); ok {
		if call, ok := e.Tuple.(*ssa.Call); ok {
			id := calleeID(&call.Call)
			return fmt.Sprintf("%s()#%d", id[strings.LastIndex(id, ".")+1:], e.Index)
		}
	}
	if _, ok := strip(v).(*ssa.MakeChan); ok {
		return "make(chan)"
	}
	return "expr"
}

// bareSendTable: single-shot sends on buffered channels accepted without a Done arm (proof sketch each).
var bareSendTable = map[string]string{
	"trzszTransfer.pipelineCalculateMD5$1/md5DigestChan":  "capacity 1, one send then the goroutine ends",
	"trzszTransfer.pipelineRecvFinalAck/succ":             "capacity 1, sent once then break; the only sender on the sending side",
	"trzszTransfer.pipelineSendAck$1/succ":                "capacity 1, sent once then break; the only sender on the receiving side",
	"trzszTransfer.pipelineSaveData$1/ackImmediatelyChan": "capacity 1, one send then the goroutine ends",
	"trzszTransfer.pipelineRecvHashAck$1/matchChan":       "capacity 1, each send is followed by return",
}

func c11R1(c *Ctx) {
	reach := c.reachableFrom(c.stageRoots()...)
	nOps := 0
	for _, f := range c.AllFns {
		if !reach[f] {
			continue
		}
		fname := c.fnName(f)
		if _, ex := c11Exempt[fname]; ex {
			continue
		}
		eachInstr(f, func(in ssa.Instruction) {
			switch x := in.(type) {
			case *ssa.Select:
				if !x.Blocking {
					return
				}
				nOps++
				var names []string
				done, timer := false, false
				for _, st := range x.States {
					names = append(names, chanName(st.Chan))
					if isDoneRecv(st) {
						done = true
					}
					if isTimerRecv(st) {
						timer = true
					}
				}
				key := fname + "/select[" + strings.Join(names, "|") + "]"
				if done {
					c.ok(key, c.ipos(x), "select has a ctx.Done() arm")
					return
				}
				if timer && c11LoopRetestsCtx(x) {
					c.ok(key, c.ipos(x), "select has a timer arm inside a loop that re-tests ctx.Err()")
					return
				}
				c.bad(key, c.ipos(x), "blocking select without a cancellation arm: the stage can wait forever after another stage failed")
			case *ssa.UnOp:
				if x.Op != token.ARROW {
					return
				}
				nOps++
				key := fname + "/recv[" + chanName(x.X) + "]"
				ok, why := c.closedByProducer(x.X)
				c.check(ok, key, c.ipos(x), "receive ends when the single producer ends (producer defers close)", "bare channel receive: "+why)
			case *ssa.Send:
				nOps++
				key := fname + "/" + chanName(x.Chan)
				_, tabled := bareSendTable[key]
				capOK, once := c.bufferedSingleShot(x)
				switch {
				case !tabled:
					c.bad("send/"+key, c.ipos(x), "bare channel send outside a select with a Done arm (not in the single-shot table)")
				case !capOK:
					c.bad("send/"+key, c.ipos(x), "single-shot send on a channel that is not provably buffered (capacity >= 1)")
				case !once:
					c.bad("send/"+key, c.ipos(x), "single-shot send can be followed by another send on the same channel")
				default:
					c.ok("send/"+key, c.ipos(x), "buffered channel, sent at most once: "+bareSendTable[key])
				}
			case ssa.CallInstruction:
				id := calleeID(x.Common())
				switch id {
				case "(*sync.WaitGroup).Wait":
					nOps++
					wg := x.Common().Args[0]
					key := fname + "/Wait[" + wgName(wg) + "]"
					ok, why := c.waitCoveredByDeferredDone(wg)
					c.check(ok, key, c.ipos(x), "the awaited goroutine defers Done at its start", "WaitGroup pairing is broken (Wait blocks forever, or returns early and Done panics): "+why)
				case "(*sync.Mutex).Lock", "(*sync.RWMutex).Lock", "(*sync.RWMutex).RLock", "(*sync.Cond).Wait":
					nOps++
					c.bad(fname+"/"+id, c.ipos(x), "lock/condition wait inside the stage family is not covered by cancellation")
				}
			}
		})
	}
	if nOps < 25 {
		c.undecided("blocking-ops", fmt.Sprintf("only %d blocking operations found in the stage family", nOps))
	}
}

func wgName(v ssa.Value) string {
	if n, ok := fieldAddrName(v); ok {
		return n
	}
	if al, ok := v.(*ssa.Alloc); ok {
		return allocName(al)
	}
	return chanName(v)
}

// c11LoopRetestsCtx: the select is in a loop whose every iteration tests ctx.Err() before coming back.
func c11LoopRetestsCtx(sel *ssa.Select) bool {
	isErrTest := func(in ssa.Instruction) bool {
		i, ok := in.(*ssa.If)
		if !ok {
			return false
		}
		_, x, y, ok := cmpFact(normFact(fact{V: i.Cond, Pol: true}))
		if !ok {
			return false
		}
		for _, v := range []ssa.Value{x, y} {
			if call, _ := callOf(v); call != nil && call.Call.IsInvoke() && call.Call.Method.Name() == "Err" {
				return true
			}
		}
		return false
	}
	hit, _ := reachAvoid(sel, func(in ssa.Instruction) bool { return in == ssa.Instruction(sel) }, isErrTest)
	return hit == nil
}

// closedByProducer: every make site of ch has exactly one sending function and that function
// registers defer close(ch) dominating its sends.
func (c *Ctx) closedByProducer(ch ssa.Value) (bool, string) {
	sites, unres := c.makeSites(ch)
	if unres || len(sites) == 0 {
		return false, "cannot trace the channel to its make site"
	}
	for _, site := range sites {
		producers := map[*ssa.Function]bool{}
		closers := map[*ssa.Function][]ssa.Instruction{}
		for _, f := range c.AllFns {
			eachInstr(f, func(in ssa.Instruction) {
				switch x := in.(type) {
				case *ssa.Send:
					if c.fromSite(x.Chan, site) {
						producers[c.owner(f)] = true
					}
				case *ssa.Select:
					for _, st := range x.States {
						if st.Send != nil && c.fromSite(st.Chan, site) {
							producers[c.owner(f)] = true
						}
					}
				case ssa.CallInstruction:
					if calleeID(x.Common()) == "builtin close" && c.fromSite(x.Common().Args[0], site) {
						closers[c.owner(f)] = append(closers[c.owner(f)], in)
					}
				}
			})
		}
		if len(producers) != 1 {
			return false, fmt.Sprintf("channel made at %s has %d sending functions", c.pos(site.Pos()), len(producers))
		}
		for p := range producers {
			cl := closers[p]
			if len(cl) == 0 {
				return false, "the producer " + c.fnName(p) + " does not close the channel"
			}
			deferred := false
			for _, x := range cl {
				if _, ok := x.(*ssa.Defer); ok {
					deferred = true
					// must dominate the sends
					okDom := true
					covers := func(in ssa.Instruction) bool {
						if domI(x, in) {
							return true
						}
						// conditional defer (if q { defer close(ch) }): accepted when the send is under the same condition
						df := factsAt(x.Block())
						if len(df) == 0 || !precedes(x, in) {
							return false
						}
						sf := factsAt(in.Block())
						for _, a := range df {
							found := false
							for _, b := range sf {
								if a.Pol == b.Pol && sameValue(a.V, b.V) {
									found = true
								}
							}
							if !found {
								return false
							}
						}
						return true
					}
					eachInstr(x.Parent(), func(in ssa.Instruction) {
						switch y := in.(type) {
						case *ssa.Send:
							if c.fromSite(y.Chan, site) && !covers(in) {
								okDom = false
							}
						case *ssa.Select:
							for _, st := range y.States {
								if st.Send != nil && c.fromSite(st.Chan, site) && !covers(in) {
									okDom = false
								}
							}
						}
					})
					if !okDom {
						return false, "defer close does not dominate the producer's sends"
					}
				}
			}
			if !deferred {
				return false, "the producer " + c.fnName(p) + " closes the channel without defer (an early return leaves consumers blocked)"
			}
		}
	}
	return true, ""
}

func (c *Ctx) fromSite(v ssa.Value, site ssa.Value) bool {
	sites, _ := c.makeSites(v)
	for _, s := range sites {
		if s == site {
			return true
		}
	}
	return false
}

// bufferedSingleShot: the send's channel is made with constant capacity >= 1, and no further
// send on the same channel is reachable from it within the function.
func (c *Ctx) bufferedSingleShot(s *ssa.Send) (capOK, once bool) {
	sites, unres := c.makeSites(s.Chan)
	capOK = !unres && len(sites) > 0
	for _, site := range sites {
		mc, ok := site.(*ssa.MakeChan)
		if !ok {
			capOK = false
			continue
		}
		n, isC := constInt(mc.Size)
		if !isC || n < 1 {
			capOK = false
		}
	}
	hit, _ := reachAvoid(s, func(in ssa.Instruction) bool {
		s2, ok := in.(*ssa.Send)
		return ok && chanName(s2.Chan) == chanName(s.Chan)
	}, nil)
	once = hit == nil
	return
}

// waitCoveredByDeferredDone: every Done on this WaitGroup is a defer in the entry block of a
// goroutine body, and Add(1) precedes the go statement.
func (c *Ctx) waitCoveredByDeferredDone(wg ssa.Value) (bool, string) {
	name := wgName(wg)
	nDone := 0
	bad := ""
	for _, f := range c.AllFns {
		eachInstr(f, func(in ssa.Instruction) {
			ci, ok := in.(ssa.CallInstruction)
			if !ok || calleeID(ci.Common()) != "(*sync.WaitGroup).Done" {
				return
			}
			arg := ci.Common().Args[0]
			same := false
			if _, isField := fieldAddrName(wg); isField {
				same = wgName(arg) == name
			} else {
				same = c.sharesSite(wg, arg)
			}
			if !same {
				return
			}
			nDone++
			if _, isDefer := in.(*ssa.Defer); !isDefer || in.Block() != f.Blocks[0] {
				bad = "Done at " + c.ipos(in) + " is not a defer at the start of the awaited goroutine (a stage that exits early never signals)"
			}
			// the counter is raised before the goroutine starts (otherwise Wait returns at once and Done panics on a negative counter)
			parent := f.Parent()
			if parent == nil {
				bad = "Done at " + c.ipos(in) + " is not in a goroutine literal; cannot pair it with an Add"
				return
			}
			paired := false
			eachInstr(parent, func(g ssa.Instruction) {
				gi, ok := g.(*ssa.Go)
				if !ok {
					return
				}
				if mc, ok := gi.Call.Value.(*ssa.MakeClosure); !ok || mc.Fn != ssa.Value(f) {
					return
				}
				for _, a := range callsIn(parent, idIs("(*sync.WaitGroup).Add")) {
					aw := a.Common().Args[0]
					sameWG := false
					if _, isField := fieldAddrName(wg); isField {
						sameWG = wgName(aw) == name
					} else {
						sameWG = c.sharesSite(wg, aw) || wgName(aw) == name
					}
					if k, isK := constInt(a.Common().Args[1]); sameWG && isK && k >= 1 && domI(a.(ssa.Instruction), gi) {
						paired = true
					}
				}
			})
			if !paired {
				bad = "no WaitGroup.Add(n>=1) on " + name + " dominates the go statement of the goroutine that calls Done at " + c.ipos(in)
			}
		})
	}
	if nDone == 0 {
		return false, "no Done found for " + name
	}
	if bad != "" {
		return false, bad
	}
	return true, ""
}
