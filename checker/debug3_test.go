package main

import (
	"os"
	"testing"
)

func TestDumpFn(t *testing.T) {
	name := os.Getenv("FN")
	if name == "" {
		t.Skip()
	}
	p, err := loadProgram("linux", "amd64")
	if err != nil {
		t.Fatal(err)
	}
	f := p.Funcs[name]
	if f == nil {
		t.Fatal("no such fn")
	}
	f.WriteTo(os.Stdout)
}
