package main

import (
	"encoding/json"
	"fmt"
	"os"
	"os/exec"
	"path/filepath"
	"sort"
	"strconv"
	"strings"
	"time"
)

type propDef struct {
	explain string
	minObs  int
	run     func(c *Ctx)
}

var props = map[string]*propDef{}

func register(id string, minObs int, explain string, run func(c *Ctx)) {
	props[id] = &propDef{explain: explain, minObs: minObs, run: run}
}

type childOut struct {
	Obs     []*Obligation
	Anchors []string
	Notes   []string
	Funcs   int
	Blocks  int
	Instrs  int
	Err     string
}

func runConfig(prop, tier, goos, goarch string) *childOut {
	out := &childOut{}
	p, err := loadProgram(goos, goarch)
	if err != nil {
		out.Err = err.Error()
		return out
	}
	c := &Ctx{Program: p, Prop: prop, Tier: tier}
	props[prop].run(c)
	out.Obs, out.Anchors, out.Notes = c.Obs, c.Anchors, c.Notes
	if p.NormalisationError != "" {
		out.Notes = append(out.Notes, fmt.Sprintf("%s/%s: the expansion of new helpers failed (%s); the tree was analysed as it is — rules anchored on a function whose body moved into a new helper may report constructs as missing", goos, goarch, p.NormalisationError))
	}
	if p.Inlined > 0 || len(p.NewKept) > 0 {
		out.Notes = append(out.Notes, fmt.Sprintf("%s/%s: %d call(s) of functions the reference tree does not have were expanded into their callers before the rules ran (fully expanded: %s; kept as functions: %s)", goos, goarch, p.Inlined, strings.Join(p.InlinedAway, ", "), strings.Join(p.NewKept, ", ")))
	}
	if len(p.Reordered) > 0 {
		out.Notes = append(out.Notes, fmt.Sprintf("%s/%s: parameter order put back to the reference tree's for: %s", goos, goarch, strings.Join(p.Reordered, ", ")))
	}
	if p.Normalized > 0 {
		out.Notes = append(out.Notes, fmt.Sprintf("%s/%s: %d function(s) had merged-condition branches / merged returns split into the plain if form", goos, goarch, p.Normalized))
	}
	if p.ConstBranches > 0 {
		out.Notes = append(out.Notes, fmt.Sprintf("%s/%s: %d branch(es) on a constant condition; the side that can never run was removed from the flow graph before the rules ran", goos, goarch, p.ConstBranches))
	}
	out.Funcs, out.Blocks, out.Instrs = len(p.AllFns), p.Blocks, p.Instrs
	return out
}

func verifDir() string {
	if d := os.Getenv("VERIF_DIR"); d != "" {
		return d
	}
	exe, err := os.Executable()
	if err == nil {
		d := filepath.Dir(filepath.Dir(exe))
		if _, err := os.Stat(filepath.Join(d, "properties.jsonl")); err == nil {
			return d
		}
	}
	return "/verif"
}

func usage() {
	fmt.Fprintln(os.Stderr, "usage: trzszlint check <Cnn> [--tier quick|thorough] | list | explain <violation.json>")
	os.Exit(2)
}

func main() {
	if len(os.Args) < 2 {
		usage()
	}
	switch os.Args[1] {
	case "list":
		var ids []string
		for id := range props {
			ids = append(ids, id)
		}
		sort.Strings(ids)
		for _, id := range ids {
			fmt.Println(id)
		}
	case "check":
		os.Exit(cmdCheck(os.Args[2:]))
	case "explain":
		os.Exit(cmdExplain(os.Args[2:]))
	case "checkall":
		os.Exit(cmdCheckAll())
	case "vars": // dev helper: dump the variable slots of the current tree (written to baseline/vars.json by update_baseline.sh)
		p, err := loadProgram("linux", "amd64")
		if err != nil {
			fmt.Fprintln(os.Stderr, err)
			os.Exit(2)
		}
		b, _ := json.MarshalIndent(dumpVars(p), "", " ")
		os.Stdout.Write(b)
	case "funcs": // dev helper: the functions and methods of the current tree, all four configurations (baseline/funcs.json)
		set := map[string][]string{}
		set2 := map[string]int{}
		for _, cfg := range []string{"linux/amd64", "windows/amd64", "darwin/amd64", "linux/386"} {
			parts := strings.Split(cfg, "/")
			p, err := loadProgram(parts[0], parts[1])
			if err != nil {
				fmt.Fprintln(os.Stderr, err)
				os.Exit(2)
			}
			for _, f := range p.AllFns {
				if n := topName(f); n != "" {
					set[n] = paramSig(f)
				}
				if n := fullName(f); n != "" {
					if k := len(f.AnonFuncs); k > set2[n] {
						set2[n] = k
					} else if _, ok := set2[n]; !ok {
						set2[n] = k
					}
				}
			}
		}
		for n, k := range set2 {
			set["#anon:"+n] = []string{strconv.Itoa(k)}
		}
		b, _ := json.MarshalIndent(set, "", " ")
		os.Stdout.Write(b)
	case "dumpfn": // dev helper: print the SSA of one function as the rules see it (after expansion of new helpers and pruning)
		p, err := loadProgram("linux", "amd64")
		if err != nil {
			fmt.Fprintln(os.Stderr, err)
			os.Exit(2)
		}
		if f := p.Funcs[os.Args[2]]; f != nil {
			f.WriteTo(os.Stdout)
		}
		fmt.Println("inlined:", p.Inlined, "away:", p.InlinedAway, "reordered:", p.Reordered)
	case "gosites": // dev helper: every go statement with caller and callee
		p, err := loadProgram("linux", "amd64")
		if err != nil {
			fmt.Fprintln(os.Stderr, err)
			os.Exit(2)
		}
		cmdGoSites(p)
	default:
		usage()
	}
}

func cmdCheck(args []string) int {
	start := time.Now()
	if len(args) < 1 {
		usage()
	}
	prop := args[0]
	tier := os.Getenv("VERIF_TIER")
	config, emit := "", ""
	for i := 1; i < len(args); i++ {
		switch args[i] {
		case "--tier":
			i++
			tier = args[i]
		case "--config":
			i++
			config = args[i]
		case "--emit":
			i++
			emit = args[i]
		}
	}
	if tier != "thorough" {
		tier = "quick"
	}
	def := props[prop]
	if def == nil {
		fmt.Printf("UNDECIDED property=%s no such check\n", prop)
		return 2
	}
	if config != "" { // child mode: one configuration, obligations to a file
		parts := strings.SplitN(config, "/", 2)
		out := runConfig(prop, tier, parts[0], parts[1])
		b, _ := json.Marshal(out)
		if err := os.WriteFile(emit, b, 0o644); err != nil {
			fmt.Fprintln(os.Stderr, err)
			return 2
		}
		return 0
	}
	res := &propResult{explain: def.explain, minObs: def.minObs}
	primary := runConfig(prop, tier, "linux", "amd64")
	if primary.Err != "" {
		fmt.Printf("UNDECIDED property=%s cannot analyse %s: %s\n", prop, repoDir(), primary.Err)
		writeUndecidedEvidence(prop, tier, start, def, primary.Err)
		return 2
	}
	res.configs = []string{"linux/amd64"}
	res.obs, res.anchors, res.notes = primary.Obs, primary.Anchors, primary.Notes
	res.funcs, res.blocks, res.instrs = primary.Funcs, primary.Blocks, primary.Instrs
	if tier == "thorough" {
		exe, _ := os.Executable()
		type job struct {
			cfg string
			out *childOut
			err error
		}
		cfgs := []string{"windows/amd64", "darwin/amd64", "linux/386"}
		ch := make(chan job, len(cfgs))
		for _, cfg := range cfgs {
			go func(cfg string) {
				tmp, _ := os.CreateTemp("", "trzszlint-*.json")
				tmp.Close()
				defer os.Remove(tmp.Name())
				cmd := exec.Command(exe, "check", prop, "--tier", tier, "--config", cfg, "--emit", tmp.Name())
				cmd.Stderr = os.Stderr
				cmd.Env = os.Environ()
				if err := cmd.Run(); err != nil {
					ch <- job{cfg, nil, err}
					return
				}
				b, err := os.ReadFile(tmp.Name())
				if err != nil {
					ch <- job{cfg, nil, err}
					return
				}
				var out childOut
				if err := json.Unmarshal(b, &out); err != nil {
					ch <- job{cfg, nil, err}
					return
				}
				ch <- job{cfg, &out, nil}
			}(cfg)
		}
		jobs := map[string]job{}
		for range cfgs {
			j := <-ch
			jobs[j.cfg] = j
		}
		for _, cfg := range cfgs {
			j := jobs[cfg]
			if j.err != nil || j.out.Err != "" {
				msg := ""
				if j.err != nil {
					msg = j.err.Error()
				} else {
					msg = j.out.Err
				}
				res.obs = append(res.obs, &Obligation{Key: "LOAD/" + cfg, Rule: "configuration loads and type-checks", Status: "undecided", Detail: msg, Config: cfg})
				continue
			}
			res.configs = append(res.configs, cfg)
			res.obs = append(res.obs, j.out.Obs...)
			res.anchors = append(res.anchors, j.out.Anchors...)
			res.notes = append(res.notes, j.out.Notes...)
			res.funcs += j.out.Funcs
			res.blocks += j.out.Blocks
			res.instrs += j.out.Instrs
		}
	}
	return finish(prop, tier, verifDir(), start, res)
}

func writeUndecidedEvidence(prop, tier string, start time.Time, def *propDef, msg string) {
	res := &propResult{explain: def.explain, minObs: def.minObs}
	res.obs = []*Obligation{{Key: "LOAD", Rule: "the tree loads and type-checks", Status: "undecided", Detail: msg}}
	// finish prints UNDECIDED again; acceptable
	finish(prop, tier, verifDir(), start, res)
}

func cmdExplain(args []string) int {
	if len(args) < 1 {
		usage()
	}
	b, err := os.ReadFile(args[0])
	if err != nil {
		fmt.Fprintln(os.Stderr, err)
		return 2
	}
	var v struct {
		PropertyID string      `json:"property_id"`
		Obligation *Obligation `json:"obligation"`
	}
	if err := json.Unmarshal(b, &v); err != nil || v.Obligation == nil {
		fmt.Fprintln(os.Stderr, "not a violation file")
		return 2
	}
	def := props[v.PropertyID]
	if def == nil {
		fmt.Fprintln(os.Stderr, "unknown property", v.PropertyID)
		return 2
	}
	parts := strings.SplitN(v.Obligation.Config, "/", 2)
	if len(parts) != 2 {
		parts = []string{"linux", "amd64"}
	}
	out := runConfig(v.PropertyID, "quick", parts[0], parts[1])
	if out.Err != "" {
		fmt.Println("cannot analyse:", out.Err)
		return 2
	}
	found := false
	for _, o := range out.Obs {
		if o.Key == v.Obligation.Key && o.Status == "violated" {
			found = true
			fmt.Printf("VIOLATION property=%s replay=%s\n  rule: %s\n  key:  %s\n  at:   %s\n  what: %s\n", v.PropertyID, args[0], o.Rule, o.Key, o.Pos, o.Detail)
			for _, s := range o.Path {
				fmt.Printf("    path: %s\n", s)
			}
		}
	}
	if !found {
		fmt.Printf("obligation %s is not violated on the current tree\n", v.Obligation.Key)
		return 0
	}
	return 1
}

// cmdCheckAll (dev helper, not referenced by the manifest): one load, all properties, one line each:
//
//	Cnn status=<pass|VIOLATION|UNDECIDED> keys=<violated keys;...>
//
// No evidence is written.
func cmdCheckAll() int {
	p, err := loadProgram("linux", "amd64")
	if err != nil {
		fmt.Println("LOAD-ERROR", err)
		return 2
	}
	known, _ := loadKnown(verifDir())
	var ids []string
	for id := range props {
		ids = append(ids, id)
	}
	sort.Strings(ids)
	rc := 0
	for _, id := range ids {
		c := &Ctx{Program: p, Prop: id, Tier: "quick"}
		props[id].run(c)
		var bad, und []string
		have := map[string]bool{}
		for _, o := range c.Obs {
			have[o.Key] = true
			switch o.Status {
			case "violated":
				isKnown := false
				for _, k := range known {
					if k.Prop == id && k.Key == o.Key {
						isKnown = true
					}
				}
				if !isKnown {
					bad = append(bad, o.Key)
				}
			case "undecided":
				und = append(und, o.Key)
			}
		}
		if base, err := os.ReadFile(filepath.Join(verifDir(), "baseline", id+".keys")); err == nil {
			for _, k := range strings.Split(string(base), "\n") {
				if k = strings.TrimSpace(k); k != "" && !have[k] {
					und = append(und, "vanished:"+k)
				}
			}
		}
		switch {
		case len(bad) > 0:
			rc = 1
			fmt.Printf("%s status=VIOLATION keys=%s\n", id, strings.Join(uniq(bad), ";"))
		case len(und) > 0:
			if rc == 0 {
				rc = 2
			}
			fmt.Printf("%s status=UNDECIDED keys=%s\n", id, strings.Join(uniq(und), ";"))
		default:
			fmt.Printf("%s status=pass\n", id)
		}
	}
	return rc
}
