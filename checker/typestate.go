package main

// Go-level typestate rules that hold for every correct program and that several properties lean on:
//   - no send on a channel after a (non-deferred) close of it in the same function  (a send on a closed channel panics)
//   - a completion channel is closed last by the worker that owns it               (the launcher's wait means "finished")
//   - no use of a file / connection after a (non-deferred) Close of the same value (every later operation fails)
//   - a function literal that calls recover() is only ever deferred                (recover is inert anywhere else)

import (
	"go/token"
	"go/types"
	"strings"

	"trzszlint/xssa"
)

func isBuiltinClose(ci ssa.CallInstruction) bool {
	return calleeID(ci.Common()) == "builtin close"
}

// noSendAfterClose: from every close(ch) that runs in line (not deferred), no send on a channel of the same make site is reachable.
func noSendAfterClose(c *Ctx) {
	n := 0
	for _, f := range c.AllFns {
		for _, ci := range callsIn(f, idIs("builtin close")) {
			n++
			if _, isDefer := ci.(*ssa.Defer); isDefer {
				c.ok("close/"+c.fnName(f)+"/"+chanName(ci.Common().Args[0])+"/deferred", c.ipos(ci), "the close is deferred: it runs after the function's last send")
				// a worker's deferred close is registered before the worker can return: its consumer's `range` / receive
				// ends only with that close (an exit taken before the defer statement leaves the consumer waiting for good)
				if c.goTargets()[f] {
					db := ci.Block()
					var guardFrom, guardTo *ssa.BasicBlock
					if db != f.Blocks[0] {
						if p := db.Idom(); p != nil && blockIf(p) != nil && len(p.Succs) == 2 {
							for k, sx := range p.Succs {
								if sx == db {
									guardFrom, guardTo = p, p.Succs[1-k]
								}
							}
						}
					}
					hit, path := reachFromE(f.Blocks[0], 0, isReturn, func(in ssa.Instruction) bool { return in == ci.(ssa.Instruction) }, func(from, to *ssa.BasicBlock) bool {
						return from == guardFrom && to == guardTo
					})
					c.check(hit == nil, "close/"+c.fnName(f)+"/"+chanName(ci.Common().Args[0])+"/registered-before-any-exit", c.ipos(ci), "no exit of the worker precedes the registration of its deferred close", "the worker can return before its deferred close is registered: the consumer of the channel then waits for a close that never comes", c.pathStr(path)...)
				}
				continue
			}
			ch := ci.Common().Args[0]
			same := func(x ssa.Value) bool { return sameValue(x, ch) || c.sharesSite(x, ch) }
			hit, path := reachAvoid(ci.(ssa.Instruction), func(in ssa.Instruction) bool {
				switch x := in.(type) {
				case *ssa.Send:
					return same(x.Chan)
				case *ssa.Select:
					for _, st := range x.States {
						if st.Send != nil && same(st.Chan) {
							return true
						}
					}
				}
				return false
			}, func(ssa.Instruction) bool { return false })
			c.check(hit == nil, "close/"+c.fnName(f)+"/"+chanName(ch)+"/no-send-after", c.ipos(ci), "no send on the channel can follow its close", "a send on the channel is reachable after it was closed (send on closed channel: the process panics)", c.pathStr(path)...)
		}
	}
	if n < 10 {
		c.undecided("close/sites", "fewer channel closes than expected")
	}
}

// completionClosedLast: a channel made by F, closed by a worker F starts with go and waited for by F after the
// launch, is closed by a deferred close (or as the worker's last action): the wait then means "the worker is done".
func completionClosedLast(c *Ctx, only string, min int) {
	n := 0
	for _, f := range c.AllFns {
		if !strings.HasPrefix(c.fnName(f), only) {
			continue
		}
		eachInstr(f, func(in ssa.Instruction) {
			g, ok := in.(*ssa.Go)
			if !ok {
				return
			}
			w := g.Call.StaticCallee()
			if w == nil || w.Parent() != f {
				return
			}
			for _, ci := range callsIn(w, idIs("builtin close")) {
				ch := ci.Common().Args[0]
				// F waits on the same channel after the launch?
				waited := false
				eachInstr(f, func(x ssa.Instruction) {
					if !precedes(g, x) && !domI(g, x) {
						return
					}
					switch y := x.(type) {
					case *ssa.UnOp:
						if y.Op.String() == "<-" && c.sharesSite(y.X, ch) {
							waited = true
						}
					case *ssa.Select:
						for _, st := range y.States {
							if st.Send == nil && c.sharesSite(st.Chan, ch) {
								waited = true
							}
						}
					}
				})
				if !waited {
					continue
				}
				n++
				_, isDefer := ci.(*ssa.Defer)
				last := isDefer
				if isDefer {
					// deferred in the entry block and before any other defer: it runs last
					for _, e := range w.Blocks[0].Instrs {
						if d, isD := e.(*ssa.Defer); isD {
							last = d == ci.(*ssa.Defer)
							break
						}
					}
				} else if call, isCall := ci.(*ssa.Call); isCall {
					last = tailCall(call)
				}
				c.check(last, "completion/"+c.fnName(w)+"/"+chanName(ch)+"/closed-last", c.ipos(ci), "the channel its launcher waits on is closed as the worker's last action", "the worker closes the channel its launcher waits on before its work is done: the launcher goes on (releases the session, returns) while the worker is still running")
			}
		})
	}
	if n < min {
		c.undecided("completion/sites", "fewer completion channels than expected")
	}
}

var afterCloseOK = map[string]bool{"Close": true, "Name": true, "RemoteAddr": true, "LocalAddr": true, "String": true, "Addr": true}

// noUseAfterClose: after an in-line x.Close() nothing but another Close (or a name / address query) touches the same value.
func noUseAfterClose(c *Ctx) {
	n := 0
	for _, f := range c.AllFns {
		for _, ci := range callsIn(f, anyID) {
			call, isCall := ci.(*ssa.Call)
			if !isCall {
				continue
			}
			var recv ssa.Value
			if call.Call.IsInvoke() && call.Call.Method.Name() == "Close" {
				recv = call.Call.Value
			} else if id := calleeID(&call.Call); strings.HasSuffix(id, ").Close") && len(call.Call.Args) > 0 {
				recv = call.Call.Args[0]
			}
			if recv == nil {
				continue
			}
			base := strip(recv)
			if _, isConst := base.(*ssa.Const); isConst {
				continue
			}
			n++
			def, _ := base.(ssa.Instruction)
			hit, path := reachAvoid(call, func(in ssa.Instruction) bool {
				switch x := in.(type) {
				case *ssa.DebugRef, *ssa.Phi, *ssa.BinOp, *ssa.If:
					return false
				case ssa.CallInstruction:
					cc := x.Common()
					if cc.IsInvoke() && strip(cc.Value) == base {
						return !afterCloseOK[cc.Method.Name()]
					}
					for i, a := range cc.Args {
						if strip(a) == base {
							if i == 0 && !cc.IsInvoke() {
								id := calleeID(cc)
								if k := strings.LastIndex(id, ")."); k >= 0 && afterCloseOK[id[k+2:]] {
									return false
								}
							}
							return true
						}
					}
					return false
				}
				for _, op := range in.Operands(nil) {
					if *op != nil && strip(*op) == base {
						if _, isStore := in.(*ssa.Store); isStore {
							return false
						}
						if _, isMI := in.(*ssa.MakeInterface); isMI {
							return false
						}
						if _, isCI := in.(*ssa.ChangeInterface); isCI {
							return false
						}
						if _, isTA := in.(*ssa.TypeAssert); isTA {
							return false
						}
						return true
					}
				}
				return false
			}, func(in ssa.Instruction) bool { return def != nil && in == def })
			c.check(hit == nil, "close/"+c.fnName(f)+"/"+types_ExprOf(recv)+"/no-use-after", c.ipos(call), "nothing uses the value after it was closed", "the value is used after it was closed in line (every read / write on it fails from here on)", c.pathStr(path)...)
		}
	}
	if n < 20 {
		c.undecided("close/values", "fewer Close calls than expected")
	}
}

// types_ExprOf: a stable short name for the closed value (variable, field or producing call).
func types_ExprOf(v ssa.Value) string {
	return chanName(v)
}

// recoverOnlyDeferred: every function literal that calls recover() is used by defer statements only.
func recoverOnlyDeferred(c *Ctx) {
	n := 0
	for _, f := range c.AllFns {
		has := false
		for _, ci := range callsIn(f, idIs("builtin recover")) {
			_ = ci
			has = true
		}
		if !has {
			continue
		}
		n++
		sites, deferred := 0, true
		for _, g := range c.AllFns {
			for _, ci := range callsIn(g, anyID) {
				if ci.Common().StaticCallee() != f {
					continue
				}
				sites++
				if _, isD := ci.(*ssa.Defer); !isD {
					deferred = false
				}
			}
		}
		c.check(sites > 0 && deferred, "recover/"+c.fnName(f)+"/deferred", c.pos(f.Pos()), "the recovering function is deferred", "a function that calls recover() is not deferred: recover() is inert there and the panic it was meant to contain is fatal")
	}
	if n < 3 {
		c.undecided("recover/sites", "fewer recovering functions than expected")
	}
}

// nilChannelUse: a channel variable that is nil on some path (`var ch chan T; if cond { ch = make(...) }`) is closed
// or sent to only where that path is excluded: closing a nil channel panics, sending to one blocks for ever. The
// repository's shape: the variable is declared in a stage constructor, made under a flag, captured by the stage body,
// and used there under the same flag. For every captured channel cell whose only stores are conditional, every close /
// send through it in the closure must be dominated by facts that imply the conditions of the store (compared through
// the captured variables: a fact about a cell in the parent and about the free variable bound to it are the same fact).
func nilChannelUse(c *Ctx) {
	n := 0
	for _, g := range c.AllFns {
		parent := g.Parent()
		if parent == nil {
			continue
		}
		// the closure value and its bindings
		var mc *ssa.MakeClosure
		eachInstr(parent, func(in ssa.Instruction) {
			if m, ok := in.(*ssa.MakeClosure); ok && m.Fn == g {
				mc = m
			}
		})
		if mc == nil {
			continue
		}
		binding := map[*ssa.FreeVar]ssa.Value{}
		for i, fv := range g.FreeVars {
			if i < len(mc.Bindings) {
				binding[fv] = mc.Bindings[i]
			}
		}
		// canonical variable of a fact: the cell it is a load of (through the binding when inside the closure)
		canon := func(v ssa.Value) ssa.Value {
			u, ok := strip(v).(*ssa.UnOp)
			if !ok || u.Op != token.MUL {
				return strip(v)
			}
			if fv, ok := u.X.(*ssa.FreeVar); ok {
				if b := binding[fv]; b != nil {
					return b
				}
			}
			return u.X
		}
		for fv, cell := range binding {
			al, ok := cell.(*ssa.Alloc)
			if !ok {
				continue
			}
			pt, ok := al.Type().Underlying().(*types.Pointer)
			if !ok {
				continue
			}
			if _, isChan := pt.Elem().Underlying().(*types.Chan); !isChan {
				continue
			}
			// stores to the cell in the parent
			var stores []*ssa.Store
			eachInstr(parent, func(in ssa.Instruction) {
				if st, ok := in.(*ssa.Store); ok && st.Addr == ssa.Value(al) {
					stores = append(stores, st)
				}
			})
			conditional := len(stores) == 0
			for _, st := range stores {
				if !st.Block().Dominates(mc.Block()) {
					conditional = true
				}
			}
			if !conditional {
				continue
			}
			// uses in the closure
			eachInstr(g, func(in ssa.Instruction) {
				var ch ssa.Value
				what, effect := "", ""
				switch x := in.(type) {
				case ssa.CallInstruction:
					if isBuiltinClose(x) {
						ch, what, effect = x.Common().Args[0], "close", "close of a nil channel panics"
					}
				case *ssa.Send:
					ch, what, effect = x.Chan, "send", "a send on a nil channel blocks for ever"
				case *ssa.Select:
					for _, st := range x.States {
						if st.Send != nil {
							if u, ok := strip(st.Chan).(*ssa.UnOp); ok && u.X == ssa.Value(fv) {
								ch, what, effect = st.Chan, "send", "a send on a nil channel is never chosen: the value is dropped or the select blocks"
							}
						}
					}
				}
				if ch == nil {
					return
				}
				u, ok := strip(ch).(*ssa.UnOp)
				if !ok || u.X != ssa.Value(fv) {
					return
				}
				n++
				useFacts := factsAt(in.Block())
				good := false
				for _, st := range stores {
					implied := true
					for _, sf := range factsAt(st.Block()) {
						nsf := normFact(sf)
						found := false
						for _, uf := range useFacts {
							nuf := normFact(uf)
							if canon(nuf.V) == canon(nsf.V) && nuf.Pol == nsf.Pol {
								found = true
							}
						}
						if !found {
							implied = false
						}
					}
					if implied {
						good = true
					}
				}
				c.check(good, "nil-channel/"+c.fnName(g)+"/"+freeVarName(fv)+"/"+what, c.ipos(in), "the conditionally made channel is used only under the condition it was made under", "the channel is made only under a condition that does not hold here: "+effect)
			})
		}
	}
	if n < 2 {
		c.undecided("nil-channel/sites", "fewer uses of conditionally made channels than expected")
	}
}
