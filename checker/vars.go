package main

// Rename tolerance for the rules that identify a parameter / captured variable / local by its source name.
//
// baseline/vars.json records, for the reference tree, the declaration slot of every named variable of
// every function: parameter index, free-variable index, or ordinal among the function's named allocations.
// isVar(name) matches by name first; when the function no longer has ANY variable of that name (it was
// renamed) it falls back to the recorded slot. A rename therefore changes nothing; a variable that is
// really gone changes the slot's type or count and the rule reports as before.

import (
	"encoding/json"
	"os"
	"path/filepath"

	"trzszlint/xssa"
)

type varRef struct {
	Kind string `json:"k"` // "param", "free", "local"
	Idx  int    `json:"i"`
	Type string `json:"t"`
}

var curProg *Program
var varSlots map[string]map[string][]varRef // function -> name -> slots (a spilled parameter has a param and a local slot)

func namedAllocs(f *ssa.Function) []*ssa.Alloc {
	var out []*ssa.Alloc
	for _, b := range f.Blocks {
		for _, in := range b.Instrs {
			if al, ok := in.(*ssa.Alloc); ok && al.Comment != "" && al.Comment != "varargs" && al.Comment != "complit" && al.Comment != "makeslice" && al.Comment != "slicelit" {
				out = append(out, al)
			}
		}
	}
	return out
}

func functionVars(f *ssa.Function) map[string][]varRef {
	m := map[string][]varRef{}
	for i, p := range f.Params {
		m[p.Name()] = append(m[p.Name()], varRef{"param", i, p.Type().String()})
	}
	for i, fv := range f.FreeVars {
		m[fv.Name()] = append(m[fv.Name()], varRef{"free", i, fv.Type().String()})
	}
	for i, al := range namedAllocs(f) {
		m[al.Comment] = append(m[al.Comment], varRef{"local", i, al.Type().String()})
	}
	return m
}

func dumpVars(p *Program) map[string]map[string][]varRef {
	out := map[string]map[string][]varRef{}
	for _, f := range p.AllFns {
		out[p.fnName(f)] = functionVars(f)
	}
	return out
}

func loadVarSlots() {
	varSlots = map[string]map[string][]varRef{}
	b, err := os.ReadFile(filepath.Join(verifDir(), "baseline", "vars.json"))
	if err != nil {
		return
	}
	_ = json.Unmarshal(b, &varSlots)
}

// renamedTo: the value x (parameter / free variable / alloc of function f) occupies the slot that the
// reference tree gave to `name`, and f no longer declares anything called `name`.
func renamedTo(f *ssa.Function, x ssa.Value, name string) bool {
	if curProg == nil || f == nil || varSlots == nil {
		return false
	}
	refs, ok := varSlots[curProg.fnName(f)][name]
	if !ok {
		return false
	}
	if _, still := functionVars(f)[name]; still {
		return false
	}
	for _, ref := range refs {
		switch ref.Kind {
		case "param":
			if ref.Idx < len(f.Params) && ssa.Value(f.Params[ref.Idx]) == x && f.Params[ref.Idx].Type().String() == ref.Type {
				return true
			}
		case "free":
			if ref.Idx < len(f.FreeVars) && ssa.Value(f.FreeVars[ref.Idx]) == x && f.FreeVars[ref.Idx].Type().String() == ref.Type {
				return true
			}
		case "local":
			as := namedAllocs(f)
			if ref.Idx < len(as) && ssa.Value(as[ref.Idx]) == x && as[ref.Idx].Type().String() == ref.Type {
				return true
			}
		}
	}
	return false
}

// canonName: the name a variable had on the reference tree (its own name unless it was renamed).
func canonName(f *ssa.Function, x ssa.Value, cur string) string {
	if curProg == nil || f == nil || varSlots == nil {
		return cur
	}
	slots := varSlots[curProg.fnName(f)]
	if _, known := slots[cur]; known || slots == nil {
		return cur
	}
	now := functionVars(f)
	for name := range slots {
		if _, still := now[name]; still {
			continue
		}
		if renamedTo(f, x, name) {
			return name
		}
	}
	return cur
}

func paramName(p *ssa.Parameter) string { return canonName(p.Parent(), p, p.Name()) }
func freeVarName(v *ssa.FreeVar) string { return canonName(v.Parent(), v, v.Name()) }
func allocName(a *ssa.Alloc) string {
	if a.Comment == "" {
		return ""
	}
	return canonName(a.Parent(), a, a.Comment)
}
