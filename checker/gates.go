package main

// Shared helpers for "gate" rules: fail edges, cancel calls, error results, facts on calls.

import (
	"go/constant"
	"go/token"
	"go/types"
	"strings"

	"trzszlint/xssa"
)

func isErrorType(t types.Type) bool {
	return types.Identical(t, types.Universe.Lookup("error").Type())
}

// isCancelCall: call of a context.CancelCauseFunc value (ctx.cancel(err) / cancel(err)).
func isCancelCall(in ssa.Instruction) bool {
	ci, ok := in.(ssa.CallInstruction)
	if !ok {
		return false
	}
	cc := ci.Common()
	if cc.IsInvoke() {
		return false
	}
	return strings.HasSuffix(types.TypeString(cc.Value.Type(), nil), "context.CancelCauseFunc")
}

// isCancelWithError: cancel call whose argument is not the nil constant.
func isCancelWithError(in ssa.Instruction) bool {
	if !isCancelCall(in) {
		return false
	}
	args := in.(ssa.CallInstruction).Common().Args
	return len(args) == 1 && !isNilConst(args[0])
}

// errIndex: index of the error result in f's signature (-1 if none).
func errIndex(sig *types.Signature) int {
	r := sig.Results()
	for i := r.Len() - 1; i >= 0; i-- {
		if isErrorType(r.At(i).Type()) {
			return i
		}
	}
	return -1
}

// failEdge: successor k of block p (ending in If) leads only to failure exits:
// it cannot flow back to p, and every Return reachable from it either returns a
// non-nil error or (for functions without error result) is preceded by a cancel(err) call.
// Returns a description of the offending path when not.
func failEdge(c *Ctx, p *ssa.BasicBlock, k int) (bool, string) {
	start := p.Succs[k]
	fn := p.Parent()
	ei := errIndex(fn.Signature)
	bad := ""
	// 1. must not re-enter p or any block dominating p (loop continuation) without cancelling
	relevant := map[*ssa.BasicBlock]bool{p: true}
	var mark func(b *ssa.BasicBlock)
	mark = func(b *ssa.BasicBlock) {
		if relevant[b] && b != p {
			return
		}
		relevant[b] = true
		for _, s := range b.Succs {
			if s != p {
				mark(s)
			}
		}
	}
	mark(start)
	// the error under test, and the edges on which it was recognised as one particular, expected error
	// (os.IsNotExist(err), errors.Is(err, …), err == io.EOF): what follows such an edge handles that case, it is
	// not "carrying on after a failure"
	var ev ssa.Value
	if i := blockIf(p); i != nil {
		if _, x, y, ok := cmpFact(normFact(fact{V: i.Cond, Pol: true})); ok && isNilConst(y) {
			ev = x
		}
	}
	specific := func(from, to *ssa.BasicBlock) bool {
		if ev == nil || from == p {
			return false
		}
		for _, fc := range edgeFactsTo(from, to) {
			if call, _ := callOf(fc.V); call != nil && fc.Pol {
				switch calleeID(&call.Call) {
				case "os.IsNotExist", "os.IsExist", "os.IsTimeout", "errors.Is":
					if len(call.Call.Args) > 0 && sameValue(call.Call.Args[0], ev) {
						return true
					}
				}
			}
			if op, x, y, ok := cmpFact(fc); ok && op == token.EQL && sameValue(x, ev) {
				if u, isU := strip(y).(*ssa.UnOp); isU {
					if _, isG := u.X.(*ssa.Global); isG {
						return true
					}
				}
			}
		}
		return false
	}
	hit, path := reachFromE(start, 0, func(in ssa.Instruction) bool {
		if in.Block() == p && instrIndex(in) == 0 {
			return true
		}
		if r, ok := in.(*ssa.Return); ok {
			if ei >= 0 && ei < len(r.Results) {
				return !c.definitelyNonNilErr(retVal(r, ei), r.Block(), relevant)
			}
			return true // stage goroutine: a return not preceded by cancel
		}
		return false
	}, func(in ssa.Instruction) bool {
		if ei < 0 {
			return isCancelWithError(in)
		}
		return false
	}, specific)
	if hit != nil {
		bad = "reaches " + c.ipos(hit) + " via " + strings.Join(c.pathStr(path), " -> ")
		return false, bad
	}
	return true, ""
}

// errUse classifies how the error result of a call is consumed.
type errUse struct {
	dropped  bool
	tests    []*ssa.If // nil tests (err != nil / err == nil)
	returned bool
	passed   bool // passed to cancel or another call / stored
}

func errorValueOf(call *ssa.Call) ssa.Value {
	sig := call.Call.Signature()
	ei := errIndex(sig)
	if ei < 0 {
		return nil
	}
	if sig.Results().Len() == 1 {
		return call
	}
	return extractOf(call, ei)
}

func classifyErrUse(v ssa.Value) errUse {
	var u errUse
	if v == nil {
		u.dropped = true
		return u
	}
	seen := map[ssa.Value]bool{}
	any := false
	var walk func(v ssa.Value)
	walk = func(v ssa.Value) {
		if seen[v] {
			return
		}
		seen[v] = true
		for _, r := range referrersOf(v) {
			switch x := r.(type) {
			case *ssa.DebugRef:
			case *ssa.BinOp:
				if (x.Op == token.NEQ || x.Op == token.EQL) && (isNilConst(x.X) || isNilConst(x.Y)) {
					for _, r2 := range referrersOf(x) {
						if i, ok := r2.(*ssa.If); ok {
							u.tests = append(u.tests, i)
							any = true
						}
					}
				} else {
					any = true
				}
			case *ssa.Return:
				u.returned = true
				any = true
			case *ssa.Phi:
				walk(x)
			case *ssa.MakeInterface:
				walk(x)
			case *ssa.ChangeInterface:
				walk(x)
			default:
				u.passed = true
				any = true
			}
		}
	}
	walk(v)
	if !any {
		u.dropped = true
	}
	return u
}

// nonNilEdge returns the successor index taken when the tested error is non-nil.
func nonNilEdge(i *ssa.If) int {
	f := normFact(fact{V: i.Cond, Pol: true})
	op, _, _, ok := cmpFact(f)
	if ok && op == token.NEQ {
		return 0
	}
	return 1
}

// factOnCall: facts contain (call to id) == pol; returns those calls.
func factCalls(fs []fact, id string, pol bool) []*ssa.Call {
	var out []*ssa.Call
	for _, f := range fs {
		if f.Pol != pol {
			continue
		}
		if call, _ := callOf(f.V); call != nil && calleeID(&call.Call) == id {
			out = append(out, call)
		}
	}
	return out
}

// factBytesEqual: facts establish equality of two byte slices a,b via
// bytes.Compare(a,b) == 0 or bytes.Equal(a,b) == true. Returns the pairs.
func factBytesEqual(fs []fact) [][2]ssa.Value {
	var out [][2]ssa.Value
	for _, f := range fs {
		if call, _ := callOf(f.V); call != nil && calleeID(&call.Call) == "bytes.Equal" && f.Pol {
			out = append(out, [2]ssa.Value{call.Call.Args[0], call.Call.Args[1]})
			continue
		}
		op, x, y, ok := cmpFact(f)
		if !ok || op != token.EQL {
			continue
		}
		for _, pr := range [][2]ssa.Value{{x, y}, {y, x}} {
			call, _ := callOf(pr[0])
			if n, isC := constInt(pr[1]); isC && n == 0 && call != nil && calleeID(&call.Call) == "bytes.Compare" {
				out = append(out, [2]ssa.Value{call.Call.Args[0], call.Call.Args[1]})
			}
		}
	}
	return out
}

// factEq: facts establish x == y (any order) for values matching the two predicates.
func factCmp(fs []fact, op token.Token, px, py func(ssa.Value) bool) bool {
	swap := map[token.Token]token.Token{token.EQL: token.EQL, token.NEQ: token.NEQ, token.LSS: token.GTR, token.GTR: token.LSS, token.LEQ: token.GEQ, token.GEQ: token.LEQ}
	for _, f := range fs {
		o, x, y, ok := cmpFact(f)
		if !ok {
			continue
		}
		if o == op && px(x) && py(y) {
			return true
		}
		if swap[o] == op && px(y) && py(x) {
			return true
		}
		// the same fact about an integer in its other spellings: x > k is x >= k+1, x < k is x <= k-1; and for a
		// length, len <= 0 / len < 1 is len == 0, len > 0 / len >= 1 is len != 0
		if k, isK := constInt(y); isK && px(x) {
			if _, isInt := x.Type().Underlying().(*types.Basic); isInt && x.Type().Underlying().(*types.Basic).Info()&types.IsInteger != 0 {
				alt := func(o2 token.Token, k2 int64) bool {
					return o2 == op && py(ssa.NewConst(constant.MakeInt64(k2), y.Type()))
				}
				switch o {
				case token.GTR:
					if alt(token.GEQ, k+1) {
						return true
					}
				case token.GEQ:
					if alt(token.GTR, k-1) {
						return true
					}
				case token.LSS:
					if alt(token.LEQ, k-1) {
						return true
					}
				case token.LEQ:
					if alt(token.LSS, k+1) {
						return true
					}
				}
				if lc, _ := callOf(x); lc != nil && (calleeID(&lc.Call) == "builtin len" || calleeID(&lc.Call) == "builtin cap") {
					zero := (o == token.LEQ && k == 0) || (o == token.LSS && k == 1) || (o == token.EQL && k == 0)
					pos := (o == token.GTR && k == 0) || (o == token.GEQ && k == 1) || (o == token.NEQ && k == 0)
					if zero && (alt(token.EQL, 0) || alt(token.LEQ, 0) || alt(token.LSS, 1)) {
						return true
					}
					if pos && (alt(token.NEQ, 0) || alt(token.GTR, 0) || alt(token.GEQ, 1)) {
						return true
					}
				}
			}
		}
	}
	return false
}

func isConstIntV(n int64) func(ssa.Value) bool {
	return func(v ssa.Value) bool { m, ok := constInt(v); return ok && m == n }
}

func isConstStrV(s string) func(ssa.Value) bool {
	return func(v ssa.Value) bool { m, ok := constString(strip(v)); return ok && m == s }
}

func isValue(want ssa.Value) func(ssa.Value) bool {
	return func(v ssa.Value) bool { return sameValue(v, want) }
}

func isFieldLoad(name string) func(ssa.Value) bool {
	return func(v ssa.Value) bool { _, f, ok := fieldOf(v); return ok && f == name }
}

func anyValue(ssa.Value) bool { return true }

// callsWithConstArg: calls in f to callee id whose argument #idx is the string constant s.
func callsWithConstArg(f *ssa.Function, id string, idx int, s string) []*ssa.Call {
	var out []*ssa.Call
	for _, ci := range callsIn(f, idIs(id)) {
		call, ok := ci.(*ssa.Call)
		if !ok || idx >= len(call.Call.Args) {
			continue
		}
		if v, ok := constString(call.Call.Args[idx]); ok && v == s {
			out = append(out, call)
		}
	}
	return out
}

const tT = "(*trzsz.trzszTransfer)."

// nonNilErrCtors: functions whose error result is never nil (constructors), confirmed by reading.
var nonNilErrCtors = map[string]bool{
	"fmt.Errorf": true, "errors.New": true, "context.Cause": true,
}

// alwaysNonNilErr: a module function all of whose returns give a definitely non-nil error (memoised).
func (c *Ctx) alwaysNonNilErr(f *ssa.Function) bool {
	if c.nnMemo == nil {
		c.nnMemo = map[*ssa.Function]int{}
	}
	switch c.nnMemo[f] {
	case 1:
		return true
	case 2, 3:
		return false
	}
	c.nnMemo[f] = 3 // in progress: recursion answers no
	ei := errIndex(f.Signature)
	good := ei >= 0 && len(f.Blocks) > 0
	if good {
		n := 0
		eachInstr(f, func(in ssa.Instruction) {
			if r, ok := in.(*ssa.Return); ok {
				n++
				if !c.definitelyNonNilErr(retVal(r, ei), r.Block(), nil) {
					good = false
				}
			}
		})
		if n == 0 {
			good = false
		}
	}
	if good {
		c.nnMemo[f] = 1
	} else {
		c.nnMemo[f] = 2
	}
	return good
}

// definitelyNonNilErr: every origin of the error value v, as seen at block at, is non-nil:
// a value tested != nil on a dominating edge, a constructor call, a concrete value boxed
// into the interface, or a package-level error variable. relevant (optional) restricts phi
// edges to predecessors inside the region under consideration.
func (c *Ctx) definitelyNonNilErr(v ssa.Value, at *ssa.BasicBlock, relevant map[*ssa.BasicBlock]bool) bool {
	if v == nil {
		return false
	}
	fs := factsAt(at)
	for _, l := range origins(v, originOpts{}) {
		if relevant != nil && len(l.Via) > 0 && !relevant[l.Via[len(l.Via)-1]] {
			continue // this phi edge is not taken on the paths considered
		}
		lv := l.V
		if isNilConst(lv) {
			return false
		}
		if factCmp(append(append([]fact{}, fs...), l.facts()...), token.NEQ, isValue(lv), isNilConst) {
			continue
		}
		switch x := lv.(type) {
		case *ssa.MakeInterface:
			if !isNilConst(x.X) {
				continue
			}
		case *ssa.UnOp:
			if _, ok := x.X.(*ssa.Global); ok && x.Op == token.MUL {
				continue
			}
		case *ssa.Call:
			id := calleeID(&x.Call)
			if nonNilErrCtors[id] {
				continue
			}
			if callee := x.Call.StaticCallee(); callee != nil && c.inPkg(callee) && (c.alwaysNonNilErr(callee) || c.alwaysFreshPtr(callee, 0)) {
				continue
			}
		}
		return false
	}
	return true
}

// alwaysFreshPtr: module function with a single pointer result whose every return is a fresh
// allocation (&T{...}) or the result of another such function (error constructors returning *trzszError).
func (c *Ctx) alwaysFreshPtr(f *ssa.Function, depth int) bool {
	if depth > 4 || len(f.Blocks) == 0 || f.Signature.Results().Len() != 1 {
		return false
	}
	if _, ok := f.Signature.Results().At(0).Type().Underlying().(*types.Pointer); !ok {
		return false
	}
	good, n := true, 0
	eachInstr(f, func(in ssa.Instruction) {
		r, ok := in.(*ssa.Return)
		if !ok {
			return
		}
		n++
		for _, l := range origins(retVal(r, 0), originOpts{}) {
			switch x := l.V.(type) {
			case *ssa.Alloc:
				continue
			case *ssa.Call:
				if callee := x.Call.StaticCallee(); callee != nil && c.inPkg(callee) && c.alwaysFreshPtr(callee, depth+1) {
					continue
				}
			}
			good = false
		}
	})
	return good && n > 0
}

// factZero: the facts establish v == 0 for a non-negative quantity (a length / count), however the
// source spells it: v == 0, v <= 0, v < 1.
func factZero(fs []fact, pv func(ssa.Value) bool) bool {
	return factCmp(fs, token.EQL, pv, isConstIntV(0)) || factCmp(fs, token.LEQ, pv, isConstIntV(0)) || factCmp(fs, token.LSS, pv, isConstIntV(1))
}

// factPositive: the facts establish v > 0: v > 0, v >= 1, v != 0 (for a non-negative quantity).
func factPositive(fs []fact, pv func(ssa.Value) bool) bool {
	return factCmp(fs, token.GTR, pv, isConstIntV(0)) || factCmp(fs, token.GEQ, pv, isConstIntV(1)) || factCmp(fs, token.NEQ, pv, isConstIntV(0))
}

// resultsAfterErrCheck: every use of a non-error result of call lies where the call's
// error is known to be nil (the error test dominates the use on its nil edge).
// Returns the number of uses inspected.
func resultsAfterErrCheck(c *Ctx, key string, call *ssa.Call) int {
	ev := errorValueOf(call)
	sig := call.Call.Signature()
	if ev == nil || sig.Results().Len() < 2 {
		return 0
	}
	ei := errIndex(sig)
	n := 0
	for i := 0; i < sig.Results().Len(); i++ {
		if i == ei {
			continue
		}
		x := extractOf(call, i)
		if x == nil {
			continue
		}
		for _, r := range referrersOf(x) {
			if _, dbg := r.(*ssa.DebugRef); dbg {
				continue
			}
			n++
			if ret, ok := r.(*ssa.Return); ok {
				// `return decode(x)`: the pair is handed up unchanged, the caller looks at the error
				both := false
				for _, rv := range ret.Results {
					if rv == ev {
						both = true
					}
				}
				if both {
					c.ok(key+"/result-used-after-error-check", c.ipos(r), "result and error are returned together")
					continue
				}
			}
			var fs []fact
			if phi, ok := r.(*ssa.Phi); ok {
				good := true
				for k, e := range phi.Edges {
					if e != x {
						continue
					}
					pred := phi.Block().Preds[k]
					fs = append(append([]fact{}, factsAt(pred)...), edgeFactsTo(pred, phi.Block())...)
					if isNil, _ := factNil(fs, ev); !isNil {
						good = false
					}
				}
				c.check(good, key+"/result-used-after-error-check", c.ipos(call), "the decoded result is used only where the decoder's error is nil", "a decoded result flows on before the decoder's error was looked at")
				continue
			}
			fs = factsAt(r.Block())
			isNil, _ := factNil(fs, ev)
			c.check(isNil, key+"/result-used-after-error-check", c.ipos(r), "the decoded result is used only where the decoder's error is nil", "a decoded result is used before (or regardless of) the decoder's error: bytes of a failed decode are treated as data")
		}
	}
	return n
}

// maySucceed: a return whose error result is not provably non-nil (a constant nil, or any value that can be nil).
// Functions without an error result: every return.
func (c *Ctx) maySucceed(in ssa.Instruction) bool {
	r, ok := in.(*ssa.Return)
	if !ok {
		return false
	}
	ei := errIndex(in.Parent().Signature)
	if ei < 0 || ei >= len(r.Results) {
		return true
	}
	if in.Block().Comment == "recover" {
		return false // the synthetic exit taken after a recovered panic, not a path of the function's own logic
	}
	return !c.definitelyNonNilErr(retVal(r, ei), in.Block(), nil)
}

// orWrapper closes a barrier predicate under "a helper of this package that always does it": the returned predicate
// holds for an instruction that satisfies pred, and for a plain call (not go / defer) of a package function every
// path through which, from entry to return, passes an instruction satisfying the returned predicate again (three
// levels). Universal rules use it so that extracting the guarded action into a helper keeps the obligation
// discharged, while a helper that can skip the action does not count. id keys the memo (one per predicate).
func (c *Ctx) orWrapper(id string, pred func(ssa.Instruction) bool) func(ssa.Instruction) bool {
	if c.wrapMemo == nil {
		c.wrapMemo = map[string]map[*ssa.Function]int{}
	}
	memo := c.wrapMemo[id]
	if memo == nil {
		memo = map[*ssa.Function]int{}
		c.wrapMemo[id] = memo
	}
	var wrapped func(in ssa.Instruction, depth int) bool
	must := func(g *ssa.Function, depth int) bool {
		if v, ok := memo[g]; ok {
			return v == 1
		}
		memo[g] = 0
		// exits that report a failure need not have done it: the caller's own error discipline takes over there
		hit, _ := reachFrom(g.Blocks[0], 0, c.maySucceed, func(x ssa.Instruction) bool { return wrapped(x, depth+1) })
		if hit == nil {
			memo[g] = 1
		}
		return hit == nil
	}
	wrapped = func(in ssa.Instruction, depth int) bool {
		if pred(in) {
			return true
		}
		call, ok := in.(*ssa.Call)
		if !ok || depth > 3 {
			return false
		}
		g := call.Call.StaticCallee()
		if g == nil || !c.inPkg(g) || len(g.Blocks) == 0 {
			return false
		}
		return must(g, depth)
	}
	return func(in ssa.Instruction) bool { return wrapped(in, 0) }
}

// strPart: one piece of a string that the code assembles: a literal, or a value spliced in.
type strPart struct {
	lit string
	val ssa.Value
}

// stringParts: the pieces of a string built by fmt.Sprintf (only %s/%v/%d verbs) or by concatenation, in order,
// adjacent literals merged. `"#" + typ + ":" + buf + nl` and Sprintf("#%s:%s%s", typ, buf, nl) have the same parts.
func stringParts(v ssa.Value) ([]strPart, bool) {
	var out []strPart
	addLit := func(s string) {
		if s == "" {
			return
		}
		if n := len(out); n > 0 && out[n-1].val == nil {
			out[n-1].lit += s
			return
		}
		out = append(out, strPart{lit: s})
	}
	var walk func(v ssa.Value, depth int) bool
	walk = func(v ssa.Value, depth int) bool {
		if depth > 12 {
			return false
		}
		v = strip(v)
		if s, ok := constString(v); ok {
			addLit(s)
			return true
		}
		switch x := v.(type) {
		case *ssa.Convert:
			return walk(x.X, depth+1)
		case *ssa.BinOp:
			if x.Op == token.ADD {
				if b, ok := x.Type().Underlying().(*types.Basic); ok && b.Info()&types.IsString != 0 {
					return walk(x.X, depth+1) && walk(x.Y, depth+1)
				}
			}
		case *ssa.Call:
			if calleeID(&x.Call) == "fmt.Sprintf" {
				fm, isS := constString(x.Call.Args[0])
				els, ok := sliceElems(x.Call.Args[1])
				if !isS || !ok {
					return false
				}
				k := 0
				for i := 0; i < len(fm); i++ {
					if fm[i] != '%' {
						addLit(fm[i : i+1])
						continue
					}
					if i+1 >= len(fm) {
						return false
					}
					i++
					switch fm[i] {
					case '%':
						addLit("%")
					case 's', 'v', 'd':
						if k >= len(els) {
							return false
						}
						out = append(out, strPart{val: strip(els[k].V)})
						k++
					default:
						return false
					}
				}
				return k == len(els)
			}
		}
		out = append(out, strPart{val: v})
		return true
	}
	if !walk(v, 0) {
		return nil, false
	}
	return out, true
}
