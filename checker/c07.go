package main

// C07 — without -y nothing that already exists at the destination is touched.

import (
	"go/token"
	"strings"

	"trzszlint/xssa"
)

func init() {
	register("C07", 14, "Decided (for every path of the current source): (R1) the only file-system mutating calls reachable from the receive loop are create-file, create-directory, resume-truncate, delete-created and the trace log's temp file; (R2) when overwrite is off the top-level name joined onto the destination comes only from the fresh-name search or from the per-path-id map that stores only such results; the peer's own name reaches the join only on the Overwrite edge; (R3) the fresh-name search returns only a name whose Stat said not-exist, else an error; (R4) MkdirAll runs only on the not-exist edge, an existing non-directory is an error; (R5) the name reported/echoed is the name joined into the path; (R6) the resume truncation is guarded by size>0 of the just-opened file and O_TRUNC by the truncate flag. Not decided: TOCTOU races with other processes, symlinks, what os.Stat/IsNotExist mean on each OS.",
		func(c *Ctx) {
			c.run("C07-R1", "WHO-CALLS: every file-system mutating call reachable from recvFiles / the error reporters belongs to an allowed kind", c07R1)
			c.run("C07-R2", "GUARD-DOM: top-level name joined onto the destination is fresh unless on the Overwrite edge", c07R2)
			c.run("C07-R2b", "WHO-WRITES/MUST-PASS: map keyed by the peer's path id; a failed fresh-name search fails the transfer", c07MapKey)
			c.run("C07-R3", "GUARD-DOM: getNewName returns only names whose Stat(Join(path,name)) is on the IsNotExist true edge", c07R3)
			c.run("C07-R4", "GUARD-DOM: MkdirAll only on the not-exist edge; existing non-directory is an error", c07R4)
			c.run("C07-R5", "GUARD-DOM: reported name = name joined into the created path", c07R5)
			c.run("C07-R6", "GUARD-DOM: resume truncation only for a pre-existing non-empty file; O_TRUNC only under the truncate flag", c07R6)
			c.run("C07-S1", "shared with C09-V/C09-D: every element below the fresh top-level name is a single path element (a '..' below it would leave the fresh name and land on existing files)", func(c *Ctx) { c09Validators(c); c09Decoder(c) })
		})
}

// fsMutators: resolved callee id -> kind
var fsMutators = map[string]string{
	"os.OpenFile": "open", "os.Create": "create", "os.Mkdir": "mkdir", "os.MkdirAll": "mkdir", "os.MkdirTemp": "mktemp",
	"os.CreateTemp": "mktemp", "os.Remove": "remove", "os.RemoveAll": "remove", "os.Rename": "rename",
	"os.Truncate": "truncate-path", "os.Chmod": "chmod", "os.Chown": "chown", "os.Lchown": "chown", "os.Chtimes": "chtimes",
	"os.WriteFile": "writefile", "os.Symlink": "link", "os.Link": "link", "(*os.File).Truncate": "ftruncate",
	"(*os.File).Chmod": "chmod", "(*os.File).Chown": "chown", "io/ioutil.WriteFile": "writefile", "syscall.Unlink": "remove",
	"syscall.Rename": "rename", "syscall.Truncate": "truncate-path", "syscall.Mkdir": "mkdir", "syscall.Rmdir": "remove",
}

type fsSite struct {
	Fn   *ssa.Function
	Call ssa.CallInstruction
	Kind string
	ID   string
}

func (c *Ctx) recvRoots() []*ssa.Function {
	return []*ssa.Function{c.fn("trzszTransfer.recvFiles"), c.fn("trzszTransfer.clientError"), c.fn("trzszTransfer.serverError")}
}

func (c *Ctx) fsSites(roots []*ssa.Function) []fsSite {
	var out []fsSite
	reach := c.reachableFrom(roots...)
	for _, f := range c.AllFns {
		if !reach[f] {
			continue
		}
		eachInstr(f, func(in ssa.Instruction) {
			ci, ok := in.(ssa.CallInstruction)
			if !ok {
				return
			}
			id := calleeID(ci.Common())
			if k, ok := fsMutators[id]; ok {
				if id == "os.OpenFile" {
					if n, ok := constInt(ci.Common().Args[1]); ok && n == 0 {
						return // O_RDONLY
					}
				}
				out = append(out, fsSite{f, ci, k, id})
			}
		})
	}
	return out
}

func c07R1(c *Ctx) {
	sites := c.fsSites(c.recvRoots())
	kinds := map[string]int{}
	for _, s := range sites {
		c.sites++
		fn := c.fnName(s.Fn)
		key := fn + "/" + s.ID
		switch s.Kind {
		case "open":
			kinds["open"]++
			c.ok(key, c.ipos(s.Call), "create-file site (path checked by R2, flags by R6)")
		case "mkdir":
			kinds["mkdir"]++
			c.ok(key, c.ipos(s.Call), "create-directory site (guard checked by R4)")
		case "ftruncate":
			kinds["ftruncate"]++
			c.ok(key, c.ipos(s.Call), "resume truncation site (guard checked by R6 / C08-R1)")
		case "remove":
			kinds["remove"]++
			// must iterate the created-files list (detailed in C10-R4); here: argument is an element of t.createdFiles
			arg := s.Call.Common().Args[0]
			good := false
			for _, l := range origins(arg, originOpts{throughElems: true}) {
				if _, f, ok := fieldOf(l.V); ok && f == "createdFiles" {
					good = true
				} else {
					good = false
					break
				}
			}
			c.check(good, key, c.ipos(s.Call), "removes only elements of the created-files list", "remove call whose argument is not an element of the created-files list")
		case "mktemp":
			dir, isConst := constString(s.Call.Common().Args[0])
			c.check(isConst && dir == "", key, c.ipos(s.Call), "temp file in the system temp dir (trace log), not in the destination", "temp file/dir created in a non-constant directory")
		default:
			c.bad(key, c.ipos(s.Call), "file-system mutating call of kind '"+s.Kind+"' ("+s.ID+") reachable while receiving: not one of create/mkdir/resume-truncate/delete-created")
		}
	}
	for _, k := range []string{"open", "mkdir", "ftruncate", "remove"} {
		if kinds[k] == 0 {
			c.undecided("inventory/"+k, "no site of kind "+k+" found reachable from recvFiles: call graph or anchor lost")
		}
	}
}

// nameToPathFns: callers of the fresh-name search (createFile, createDirOrFile today).
func (c *Ctx) nameToPathFns() (*ssa.Function, []*ssa.Function) {
	gnn := c.fn("getNewName")
	seen := map[*ssa.Function]bool{}
	var out []*ssa.Function
	for _, cs := range c.callersOf(gnn) {
		if !seen[cs.Caller] {
			seen[cs.Caller] = true
			out = append(out, cs.Caller)
		}
	}
	if len(out) == 0 {
		c.lost("callers of getNewName")
	}
	return gnn, out
}

func isOverwriteLoad(v ssa.Value) bool {
	_, f, ok := fieldOf(v)
	return ok && f == "Overwrite"
}

func hasOverwriteTrue(fs []fact) bool {
	for _, f := range fs {
		if f.Pol && isOverwriteLoad(f.V) {
			return true
		}
	}
	return false
}

// joinsIn returns the filepath.Join calls of f with their reconstructed elements.
type joinCall struct {
	Call  *ssa.Call
	Elems []elem
}

func joinsIn(c *Ctx, f *ssa.Function) []joinCall {
	var out []joinCall
	for _, ci := range callsIn(f, idIs("path/filepath.Join")) {
		call, ok := ci.(*ssa.Call)
		if !ok {
			continue
		}
		el, ok := sliceElems(call.Call.Args[0])
		if !ok || len(el) == 0 {
			c.undecided(c.fnName(f)+"/Join", "cannot reconstruct the elements of a filepath.Join at "+c.ipos(call))
			continue
		}
		out = append(out, joinCall{call, el})
	}
	return out
}

func c07R2(c *Ctx) {
	gnn, fns := c.nameToPathFns()
	_ = gnn
	for _, f := range fns {
		fname := c.fnName(f)
		// destination = first argument of the getNewName call(s) in f
		var dest ssa.Value
		for _, ci := range callsIn(f, idIs("trzsz.getNewName")) {
			dest = ci.Common().Args[0]
		}
		if dest == nil {
			c.lost("getNewName call in " + fname)
		}
		topJoins := 0
		for _, j := range joinsIn(c, f) {
			c.sites++
			first := j.Elems[0]
			if first.Spread {
				c.bad(fname+"/Join.root", c.ipos(j.Call), "filepath.Join whose first element is not a single value")
				continue
			}
			if !sameValue(first.V, dest) {
				// must be rooted at another Join of this function
				if call, _ := callOf(first.V); call != nil && calleeID(&call.Call) == "path/filepath.Join" {
					c.ok(fname+"/Join.root<-Join", c.ipos(j.Call), "sub-path join rooted at a destination-rooted join")
				} else {
					c.bad(fname+"/Join.root", c.ipos(j.Call), "filepath.Join not rooted at the destination directory")
				}
				continue
			}
			topJoins++
			if len(j.Elems) < 2 || j.Elems[1].Spread {
				c.bad(fname+"/Join.arg1", c.ipos(j.Call), "top-level join without a single top-level name element")
				continue
			}
			for _, l := range origins(j.Elems[1].V, originOpts{}) {
				desc := ""
				good := false
				if _, idx, ok := resultOf(l.V, "trzsz.getNewName"); ok && idx == 0 {
					good, desc = true, "getNewName"
				} else if m, ok := mapLookupOf(l.V); ok {
					_, mf, isField := fieldOf(m)
					if isField && c07MapOnlyFresh(c, mf) {
						good, desc = true, "map "+mf+" (stores only getNewName results)"
					} else {
						desc = "map lookup with unverified stores"
					}
				} else if _, isConst := strip(l.V).(*ssa.Const); isConst {
					desc = "constant " + l.V.String() + " (with overwrite the name must be the peer's validated name: an empty name makes the destination directory itself the path)"
				} else if hasOverwriteTrue(l.facts()) {
					good, desc = true, "peer name on the Overwrite edge"
				} else {
					desc = "value " + l.V.Name() + " (" + l.V.String() + ") not from the fresh-name search and not on the Overwrite edge"
				}
				c.check(good, fname+"/Join.arg1<-"+strings.SplitN(desc, " ", 2)[0], c.ipos(j.Call), "top-level name from "+desc,
					"top-level name joined onto the destination: "+desc)
			}
		}
		if topJoins == 0 {
			c.undecided(fname+"/Join", "no destination-rooted filepath.Join found")
		}
	}
	// create helpers receive only paths built by those joins
	c07CreateHelperArgs(c, fns)
	// the per-path-id map is keyed by the peer's path id: every *sourceFile handed to a name-to-path
	// function is one decoded from the peer (a locally synthesised one has PathID 0 and would make
	// later files reuse the first file's local name)
	for _, f := range fns {
		for i, p := range f.Params {
			if !strings.HasSuffix(p.Type().String(), "sourceFile") {
				continue
			}
			usesMap := false
			eachInstr(f, func(in ssa.Instruction) {
				if l, ok := in.(*ssa.Lookup); ok {
					if _, fl, ok := fieldOf(l.Index); ok && fl == "PathID" {
						usesMap = true
					}
				}
			})
			if !usesMap {
				continue
			}
			for _, cs := range c.callersOf(f) {
				arg := cs.Instr.Common().Args[i]
				good := true
				n := 0
				for _, l := range origins(arg, originOpts{}) {
					n++
					call, idx := callOf(l.V)
					if call == nil || idx != 0 || calleeID(&call.Call) != "trzsz.unmarshalSourceFile" {
						good = false
					}
				}
				c.check(good && n > 0, c.fnName(f)+"/srcFile<-decoder@"+c.fnName(cs.Caller), c.ipos(cs.Instr), "the path id that keys the fresh-name map is the peer's", "a locally built sourceFile (path id 0) reaches the per-path-id name map: later files reuse the first file's name and overwrite it")
			}
		}
	}
}

// c07MapOnlyFresh: every store into map field mf stores a getNewName result.
func c07MapOnlyFresh(c *Ctx, mf string) bool {
	n := 0
	okAll := true
	for _, f := range c.AllFns {
		eachInstr(f, func(in ssa.Instruction) {
			mu, ok := in.(*ssa.MapUpdate)
			if !ok {
				return
			}
			if _, fld, ok := fieldOf(mu.Map); !ok || fld != mf {
				return
			}
			n++
			if _, idx, ok := resultOf(mu.Value, "trzsz.getNewName"); !ok || idx != 0 {
				okAll = false
				c.bad("WHO-WRITES/"+c.fnName(f)+"/"+mf, c.ipos(mu), "store into "+mf+" of a value that is not a fresh-name search result")
			}
		})
	}
	if n > 0 && okAll {
		c.ok("WHO-WRITES/"+mf, "", "all stores into the per-path-id name map store getNewName results")
	}
	return n > 0 && okAll
}

// c07CreateHelperArgs: the functions containing OpenFile / MkdirAll get their path
// argument only from joins in the name-to-path functions (directly or via one parameter hop).
func c07CreateHelperArgs(c *Ctx, n2p []*ssa.Function) {
	isN2P := map[*ssa.Function]bool{}
	for _, f := range n2p {
		isN2P[f] = true
	}
	var checkArg func(f *ssa.Function, v ssa.Value, at ssa.Instruction, what string, depth int)
	checkArg = func(f *ssa.Function, v ssa.Value, at ssa.Instruction, what string, depth int) {
		for _, l := range origins(v, originOpts{}) {
			if call, _ := callOf(l.V); call != nil && calleeID(&call.Call) == "path/filepath.Join" && isN2P[f] {
				c.ok(what+"<-Join@"+c.fnName(f), c.ipos(at), "path argument built by a join checked by R2")
				continue
			}
			if p, ok := l.V.(*ssa.Parameter); ok && depth < 3 {
				callers := c.callersOf(f)
				if len(callers) == 0 {
					c.bad(what+"<-param", c.ipos(at), "path parameter "+p.Name()+" of "+c.fnName(f)+" has no resolvable callers")
				}
				for _, cs := range callers {
					idx := paramIndex(f, p)
					args := cs.Instr.Common().Args
					if idx < 0 || idx >= len(args) {
						c.bad(what+"<-param", c.ipos(cs.Instr), "cannot map parameter to argument")
						continue
					}
					checkArg(cs.Caller, args[idx], cs.Instr, what, depth+1)
				}
				continue
			}
			c.bad(what, c.ipos(at), "path reaching a create call does not come from a destination-rooted join: "+l.V.String())
		}
	}
	for _, s := range c.fsSites(c.recvRoots()) {
		if s.Kind != "open" && s.Kind != "mkdir" {
			continue
		}
		checkArg(s.Fn, s.Call.Common().Args[0], s.Call, c.fnName(s.Fn)+"/"+s.ID+".path", 0)
	}
}

func paramIndex(f *ssa.Function, p *ssa.Parameter) int {
	for i, q := range f.Params {
		if q == p {
			return i
		}
	}
	return -1
}

// c07MapKey: lookups and updates of the per-path-id map are keyed by the PathID of the decoded entry.
func c07MapKey(c *Ctx) {
	n := 0
	for _, f := range c.AllFns {
		eachInstr(f, func(in ssa.Instruction) {
			var m, k ssa.Value
			switch x := in.(type) {
			case *ssa.Lookup:
				m, k = x.X, x.Index
			case *ssa.MapUpdate:
				m, k = x.Map, x.Key
			default:
				return
			}
			if _, fld, ok := fieldOf(m); !ok || fld != "fileNameMap" {
				return
			}
			n++
			c.check(isFieldLoad("PathID")(k), "fileNameMap/key=PathID@"+c.fnName(f), c.ipos(in), "the fresh-name map is keyed by the peer's path id", "the fresh-name map is keyed by something other than the path id: two source paths with the same base name share one local name and overwrite each other")
		})
	}
	if n < 2 {
		c.undecided("fileNameMap/uses", "expected a lookup and an update of the fresh-name map")
	}
	// the map is consulted before a fresh name is searched, and what the search found is remembered: in the function that
	// uses the map, every fresh-name search lies on the lookup's miss edge, and from the search no use of the name as a
	// path (and no success) is reachable before the map was updated under this entry's id
	for _, f := range c.AllFns {
		usesMap := false
		eachInstr(f, func(in ssa.Instruction) {
			if lk, ok := in.(*ssa.Lookup); ok {
				if _, fld, ok := fieldOf(lk.X); ok && fld == "fileNameMap" {
					usesMap = true
				}
			}
		})
		if !usesMap {
			continue
		}
		for _, ci := range callsIn(f, idIs("trzsz.getNewName")) {
			call, ok := ci.(*ssa.Call)
			if !ok {
				continue
			}
			miss := false
			for _, fc := range factsAt(call.Block()) {
				if e, isE := fc.V.(*ssa.Extract); isE && e.Index == 1 && !fc.Pol {
					if lk, isL := e.Tuple.(*ssa.Lookup); isL {
						if _, fld, ok := fieldOf(lk.X); ok && fld == "fileNameMap" {
							miss = true
						}
					}
				}
			}
			c.check(miss, "fileNameMap/search-only-on-miss@"+c.fnName(f), c.ipos(call), "a fresh name is searched only when the entry's id has none yet", "a fresh name is searched although the map may already hold one for this id (sub-entries of one root land under different names)")
			ev := errorValueOf(call)
			hit, path := reachFromE(call.Block(), instrIndex(call)+1, func(in ssa.Instruction) bool {
				if isNilErrReturn(in) {
					return true
				}
				c2, ok := in.(ssa.CallInstruction)
				return ok && calleeID(c2.Common()) == "path/filepath.Join"
			}, c.orWrapper("fileNameMap-update", func(in ssa.Instruction) bool {
				mu, ok := in.(*ssa.MapUpdate)
				if !ok {
					return false
				}
				_, fld, okF := fieldOf(mu.Map)
				return okF && fld == "fileNameMap"
			}), func(from, to *ssa.BasicBlock) bool {
				_, nonNil := factNil(edgeFactsTo(from, to), ev)
				return nonNil
			})
			c.check(hit == nil, "fileNameMap/search=>remembered@"+c.fnName(f), c.ipos(call), "the name the search found is stored in the map before it is used", "a freshly searched name can be used without being remembered: the next entry of the same root searches again and gets a different name", c.pathStr(path)...)
		}
	}
	// a failing fresh-name search fails the transfer
	for _, f := range c.AllFns {
		for _, ci := range callsIn(f, idIs("trzsz.getNewName")) {
			call, ok := ci.(*ssa.Call)
			if !ok {
				continue
			}
			u := classifyErrUse(errorValueOf(call))
			good := !u.dropped && (len(u.tests) > 0 || u.returned)
			for _, t := range u.tests {
				if okE, _ := failEdge(c, t.Block(), nonNilEdge(t)); !okE {
					good = false
				}
			}
			c.check(good, "getNewName.err@"+c.fnName(f), c.ipos(ci), "no fresh name -> the transfer fails", "the error of the fresh-name search is swallowed: when name and name.0..999 all exist the existing file is overwritten")
		}
	}
}

func c07R3(c *Ctx) {
	f := c.fn("getNewName")
	n := 0
	eachInstr(f, func(in ssa.Instruction) {
		ret, ok := in.(*ssa.Return)
		if !ok || len(ret.Results) != 2 || !isNilConst(retVal(ret, 1)) || in.Block().Comment == "recover" {
			return
		}
		n++
		name := retVal(ret, 0)
		good := false
		for _, fc := range factsAt(ret.Block()) {
			if !fc.Pol {
				continue
			}
			call, _ := callOf(fc.V)
			if call == nil || calleeID(&call.Call) != "os.IsNotExist" {
				continue
			}
			st, idx := callOf(call.Call.Args[0])
			if st == nil || idx != 1 || calleeID(&st.Call) != "os.Stat" {
				continue
			}
			jc, _ := callOf(st.Call.Args[0])
			if jc == nil || calleeID(&jc.Call) != "path/filepath.Join" {
				continue
			}
			el, ok := sliceElems(jc.Call.Args[0])
			if ok && len(el) == 2 && !el[1].Spread && sameValue(el[1].V, name) && isParam(el[0].V, f.Params[0].Name()) {
				good = true
			}
		}
		kind := "numbered-name"
		if _, isP := strip(name).(*ssa.Parameter); isP {
			kind = "plain-name"
		}
		c.check(good, "getNewName/return."+kind, c.ipos(ret), "returned name was just Stat'ed as non-existing under the destination",
			"getNewName returns a name without a dominating IsNotExist(Stat(Join(path, thatName))) == true")
	})
	if n < 2 {
		c.undecided("getNewName/returns", "expected at least two successful returns (plain name, numbered name)")
	}
}

func c07R4(c *Ctx) {
	for _, s := range c.fsSites(c.recvRoots()) {
		if s.Kind != "mkdir" {
			continue
		}
		fname := c.fnName(s.Fn)
		p := s.Call.Common().Args[0]
		good := false
		var statCall *ssa.Call
		for _, fc := range factsAt(s.Call.Block()) {
			call, _ := callOf(fc.V)
			if !fc.Pol || call == nil || calleeID(&call.Call) != "os.IsNotExist" {
				continue
			}
			st, idx := callOf(call.Call.Args[0])
			if st != nil && idx == 1 && calleeID(&st.Call) == "os.Stat" && sameValue(st.Call.Args[0], p) {
				good = true
				statCall = st
			}
		}
		c.check(good, fname+"/MkdirAll.guard", c.ipos(s.Call), "MkdirAll only on the IsNotExist(Stat(samePath)) edge", "MkdirAll not guarded by IsNotExist(Stat(samePath))")
		if statCall == nil {
			continue
		}
		// every nil return is after MkdirAll or has IsDir()==true on the Stat's info
		eachInstr(s.Fn, func(in ssa.Instruction) {
			ret, ok := in.(*ssa.Return)
			if !ok || len(ret.Results) != 1 || !isNilConst(retVal(ret, 0)) {
				return
			}
			if domI(s.Call.(ssa.Instruction), ret) {
				return
			}
			isDir := false
			for _, fc := range factsAt(ret.Block()) {
				call, _ := callOf(fc.V)
				if fc.Pol && call != nil && call.Call.IsInvoke() && call.Call.Method.Name() == "IsDir" {
					if st, idx := callOf(call.Call.Value); st == statCall && idx == 0 {
						isDir = true
					}
				}
			}
			c.check(isDir, fname+"/return-nil.existing", c.ipos(ret), "existing path accepted only if it is a directory", "success return for an existing path without IsDir() == true")
		})
	}
}

func c07R5(c *Ctx) {
	_, fns := c.nameToPathFns()
	for _, f := range fns {
		fname := c.fnName(f)
		var top ssa.Value
		for _, j := range joinsIn(c, f) {
			if len(j.Elems) >= 2 && isParamValue(j.Elems[0].V) && !j.Elems[1].Spread {
				if top != nil && !sameValue(top, j.Elems[1].V) {
					c.bad(fname+"/localName", c.ipos(j.Call), "two different top-level names joined in one function")
				}
				top = j.Elems[1].V
			}
		}
		if top == nil {
			c.lost("top-level join in " + fname)
		}
		eachInstr(f, func(in ssa.Instruction) {
			ret, ok := in.(*ssa.Return)
			if !ok || len(ret.Results) != 3 || !isNilConst(retVal(ret, 2)) {
				return
			}
			c.check(sameValue(ret.Results[1], top), fname+"/return.localName", c.ipos(ret), "returned local name is the joined top-level name",
				"returned local name differs from the name joined into the path")
		})
		// callers echo/report exactly that result
		for _, cs := range c.callersOf(f) {
			call, ok := cs.Instr.(*ssa.Call)
			if !ok {
				continue
			}
			ln := extractOf(call, 1)
			caller := cs.Caller
			cname := c.fnName(caller)
			if ln == nil {
				if strings.HasPrefix(cname, "archiveFileWriter.") {
					c.ok(cname+"/localName.unused", c.ipos(call), "archive entries: name reported by the enclosing directory entry")
					continue
				}
				c.bad(cname+"/localName.unused", c.ipos(call), "local name result dropped by a caller that reports names")
				continue
			}
			// every return of caller with nil error returns a phi/leaf set of such results
			eachInstr(caller, func(in ssa.Instruction) {
				ret, ok := in.(*ssa.Return)
				if !ok || len(ret.Results) != 3 || !isNilConst(retVal(ret, 2)) {
					return
				}
				good := true
				for _, l := range origins(ret.Results[1], originOpts{}) {
					cl, idx := callOf(l.V)
					if cl == nil || idx != 1 || !isN2PCall(c, cl, fns) {
						good = false
					}
				}
				c.check(good, cname+"/return.localName", c.ipos(ret), "caller returns the name produced by the name-to-path function", "caller returns a local name not produced by the name-to-path function")
			})
			// the echoed value
			for _, sc := range callsIn(caller, idIs("(*trzsz.trzszTransfer).sendString")) {
				typ, _ := constString(sc.Common().Args[1])
				if typ != "SUCC" {
					continue
				}
				arg := sc.Common().Args[2]
				good := true
				for _, l := range origins(arg, originOpts{}) {
					cl, idx := callOf(l.V)
					if cl != nil && idx == 1 && isN2PCall(c, cl, fns) {
						continue
					}
					// v3: marshalTargetFile of &targetFile{Name: localName}
					if cl != nil && calleeID(&cl.Call) == "(*trzsz.targetFile).marshalTargetFile" {
						if c07TargetNameIs(cl.Call.Args[0], fns, c) {
							continue
						}
					}
					good = false
				}
				c.check(good, cname+"/SUCC.name", c.ipos(sc), "name echoed to the peer is the name actually used", "name echoed in SUCC is not the name produced by the name-to-path function")
			}
		}
	}
}

func isParamValue(v ssa.Value) bool { _, ok := strip(v).(*ssa.Parameter); return ok }

func isN2PCall(c *Ctx, cl *ssa.Call, fns []*ssa.Function) bool {
	callee := cl.Call.StaticCallee()
	for _, f := range fns {
		if f == callee {
			return true
		}
	}
	return false
}

// c07TargetNameIs: alloc is &targetFile{...} whose Name field is stored from a name-to-path result.
func c07TargetNameIs(v ssa.Value, fns []*ssa.Function, c *Ctx) bool {
	al, ok := strip(v).(*ssa.Alloc)
	if !ok {
		return false
	}
	found := false
	for _, r := range referrersOf(al) {
		fa, ok := r.(*ssa.FieldAddr)
		if !ok || fieldName(fa) != "Name" {
			continue
		}
		for _, r2 := range referrersOf(fa) {
			if st, ok := r2.(*ssa.Store); ok {
				cl, idx := callOf(st.Val)
				if cl != nil && idx == 1 && isN2PCall(c, cl, fns) {
					found = true
				} else {
					return false
				}
			}
		}
	}
	return found
}

func c07R6(c *Ctx) {
	for _, s := range c.fsSites(c.recvRoots()) {
		fname := c.fnName(s.Fn)
		switch s.Kind {
		case "ftruncate":
			good := false
			for _, fc := range factsAt(s.Call.Block()) {
				op, x, y, ok := cmpFact(fc)
				if !ok {
					continue
				}
				_, fld, isF := fieldOf(x)
				n, isC := constInt(y)
				if isF && fld == "Size" && isC && n == 0 && op == token.GTR {
					good = true
				}
			}
			c.check(good, fname+"/Truncate.guard", c.ipos(s.Call), "resume truncation only when the existing target size > 0", "File.Truncate not dominated by targetSize > 0")
		case "open":
			// flag: O_TRUNC bit only on the truncate==true edge
			flag := s.Call.Common().Args[1]
			for _, l := range origins(flag, originOpts{}) {
				hasTrunc := false
				var walk func(v ssa.Value)
				walk = func(v ssa.Value) {
					if n, ok := constInt(v); ok && n&c.osConst("O_TRUNC") != 0 {
						hasTrunc = true
					}
					if b, ok := v.(*ssa.BinOp); ok {
						walk(b.X)
						walk(b.Y)
					}
				}
				walk(l.V)
				if !hasTrunc {
					continue
				}
				guarded := false
				for _, fc := range l.facts() {
					if fc.Pol && isParamValue(fc.V) {
						guarded = true
					}
				}
				c.check(guarded, fname+"/OpenFile.O_TRUNC", c.ipos(s.Call), "O_TRUNC only on the truncate-parameter edge", "O_TRUNC applied unconditionally")
			}
			// the converse (C08: with -y and no resume step the old content must go): every flag value that can reach the
			// open either carries O_TRUNC or comes over an edge on which the truncate parameter — and nothing else — was
			// found false (a second condition next to it leaves longer old tails in place)
			for _, l := range origins(flag, originOpts{}) {
				hasTrunc := false
				var walk func(v ssa.Value)
				walk = func(v ssa.Value) {
					if n, ok := constInt(v); ok && n&c.osConst("O_TRUNC") != 0 {
						hasTrunc = true
					}
					if b, ok := v.(*ssa.BinOp); ok {
						walk(b.X)
						walk(b.Y)
					}
				}
				walk(l.V)
				if hasTrunc {
					continue
				}
				onlyParamFalse, any := true, false
				for _, fc := range l.facts() {
					nf := normFact(fc)
					any = true
					if !(isParamValue(nf.V) && !nf.Pol) {
						onlyParamFalse = false
					}
				}
				c.check(any && onlyParamFalse, fname+"/OpenFile.no-O_TRUNC-only-when-not-asked", c.ipos(s.Call), "the open goes without O_TRUNC only when the caller's truncate flag is false", "the file can be opened without O_TRUNC although truncation was asked for (an extra condition next to the flag): a longer existing file keeps its tail under -y")
			}
		}
	}
	// v3 receiver passes truncate=false and runs the prefix-hash before returning the writer: C08-R3.
}

// osConst: value of a constant of package os for the configuration being analysed.
func (c *Ctx) osConst(name string) int64 {
	for _, p := range c.Prog.AllPackages() {
		if p.Pkg.Path() == "os" {
			if m, ok := p.Members[name].(*ssa.NamedConst); ok {
				return m.Value.Int64()
			}
		}
	}
	c.lost("constant os." + name)
	return 0
}
