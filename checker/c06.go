package main

// C06 — one trigger, one transfer: grammar agreement between printer and detector, start sites.

import (
	"fmt"
	"go/token"
	"go/types"
	"regexp/syntax"
	"strings"

	"trzszlint/xssa"
)

func init() {
	register("C06", 30, "Decided (for the current source): (R1) the trigger lines printed by trz/tsz and the detector agree on the grammar — same prefix literal in both formats, the three regexps and the two last-occurrence searches; the printed fields (mode in [SRD], version, zero-padded id of >= 13 digits, port) instantiate the regexp's group sequence, checked on the parsed regexp tree; the detector's length/offset constants are consistent with the prefix; the client rewrite of the prefix no longer contains the prefix and the relay suffix is inserted after characters outside every group; role suffixes (+10 Windows, +20 tmux) agree with the detector's suffix tests; (R2) each output pump calls the detector once per chunk and starts the handler/handshake only on the trigger != nil edge, and the detector returns a trigger only after the repeated-id test and the finished-transfer look-ahead; (R3) each suppression word is a prefix of a message the code really prints at the end of a transfer. Not decided: what the regexps match inside arbitrary surrounding bytes, id history over a session, tmux control-mode framing at run time. Added: the detected trigger is recorded before the handler starts; a transfer is confirmed only as the one active transfer and declined only on user cancel; (R4) the mode letter selects its action on the client and is the letter the server prints.",
		func(c *Ctx) {
			c.run("C06-R1", "LITERAL: printer and detector agree on the trigger grammar", c06R1)
			c.run("C06-R2", "WHO-CALLS/GUARD-DOM: exactly one start per detection; suppression tests precede a trigger", c06R2)
			c.run("C06-R7", "ORDER: one detector per pump, made before the read loop (it remembers the ids it has seen)", c06OneDetector)
			c.run("C06-R4", "LITERAL/GUARD-DOM: the trigger's mode letter selects its action", c06Dispatch)
			c.run("C06-S1", "shared with C16-R8: the repeated-id test asks the environment predicate (a Windows console on the path, not only a Windows host)", c16WinPredicates)
			c.run("C06-S2", "shared with C05-R4: the handler gives the session up on every exit (also when the transfer goes to the background), so the next trigger starts a transfer", c05R4)
			c.run("C06-R3", "LITERAL: suppression words are words the code prints", c06R3)
			c.run("C06-R8", "GUARD-DOM: the tunnel flag given to the detector (connector pointer != nil) is true only for a usable connector", c06TunnelFlag)
		})
}

// regexps compiled at package initialisation: global name -> pattern
func (c *Ctx) packageRegexps() map[string]string {
	out := map[string]string{}
	init := c.fn("init")
	eachInstr(init, func(in ssa.Instruction) {
		st, ok := in.(*ssa.Store)
		if !ok {
			return
		}
		g, ok := st.Addr.(*ssa.Global)
		if !ok {
			return
		}
		call, _ := callOf(st.Val)
		if call == nil || calleeID(&call.Call) != "regexp.MustCompile" {
			return
		}
		if p, ok := constString(call.Call.Args[0]); ok {
			out[g.Name()] = p
		}
	})
	return out
}

func sprintfFormats(f *ssa.Function, contains string) []*ssa.Call {
	var out []*ssa.Call
	for _, ci := range callsIn(f, idIs("fmt.Sprintf")) {
		if fm, ok := constString(ci.Common().Args[0]); ok && strings.Contains(fm, contains) {
			out = append(out, ci.(*ssa.Call))
		}
	}
	return out
}

func c06R1(c *Ctx) {
	res := c.packageRegexps()
	det := c.fn("trzszDetector.detectTrzsz")
	// prefix = the literal searched by LastIndex in the detector
	var prefix string
	nLast := 0
	for _, ci := range callsIn(det, idIs("bytes.LastIndex")) {
		if s, ok := constString(strip(ci.Common().Args[1])); ok {
			if prefix == "" {
				prefix = s
			}
			nLast++
			c.check(s == prefix, "prefix/LastIndex", c.ipos(ci), "both last-occurrence searches use the same literal", "the two last-occurrence searches use different literals")
		}
	}
	if prefix == "" || nLast < 2 {
		c.lost("prefix literal in detectTrzsz")
	}
	c.Anchors = append(c.Anchors, "trigger prefix "+prefix)
	for _, name := range []string{"trzszRegexp", "uniqueIDRegexp"} {
		c.check(strings.HasPrefix(res[name], regexpQuote(prefix)), "prefix/"+name, "", name+" starts with the prefix", name+" does not start with the trigger prefix: "+res[name])
	}
	c.check(strings.HasSuffix(res["tmuxControlModeRegexp"], regexpQuote(prefix)), "prefix/tmuxControlModeRegexp", "", "tmux control-mode regexp ends with the prefix", "tmux control-mode regexp does not end with the trigger prefix")
	// the main regexp's structure
	re, err := syntax.Parse(res["trzszRegexp"], syntax.Perl)
	if err != nil {
		c.undecided("trzszRegexp/parse", err.Error())
		return
	}
	re = re.Simplify()
	var caps []*syntax.Regexp
	var walk func(r *syntax.Regexp, optional bool)
	optCap := map[*syntax.Regexp]bool{}
	walk = func(r *syntax.Regexp, optional bool) {
		if r.Op == syntax.OpCapture {
			caps = append(caps, r)
			optCap[r] = optional
		}
		for _, s := range r.Sub {
			walk(s, optional || r.Op == syntax.OpQuest || r.Op == syntax.OpStar)
		}
	}
	walk(re, false)
	if len(caps) != 4 {
		c.bad("trzszRegexp/groups", "", fmt.Sprintf("expected 4 capture groups (mode, version, id, port), found %d", len(caps)))
		return
	}
	modeClass := ""
	if caps[0].Sub[0].Op == syntax.OpCharClass {
		rs := caps[0].Sub[0].Rune
		for i := 0; i+1 < len(rs); i += 2 {
			for r := rs[i]; r <= rs[i+1]; r++ {
				modeClass += string(r)
			}
		}
	}
	c.check(modeClass != "" && !optCap[caps[0]] && !optCap[caps[1]] && optCap[caps[2]] && optCap[caps[3]], "trzszRegexp/shape", "", "mode and version mandatory, id and port optional; mode class ["+modeClass+"]", "trigger regexp no longer has mandatory mode/version and optional id/port groups")
	for i := 2; i < 4; i++ {
		s := caps[i].Sub[0].String()
		c.check(strings.HasPrefix(s, ":") && strings.Contains(s, "[0-9]"), fmt.Sprintf("trzszRegexp/group%d", i+1), "", "optional group is ':' followed by digits", "optional group "+s+" is not ':' digits")
	}
	verGroup := caps[1].Sub[0].String()
	// printed formats
	type srv struct{ fn string }
	for _, s := range []srv{{"TrzMain"}, {"TszMain"}} {
		f := c.fn(s.fn)
		fms := sprintfFormats(f, "TRZSZ")
		if len(fms) != 1 {
			c.bad(s.fn+"/format", c.pos(f.Pos()), "expected exactly one trigger format")
			continue
		}
		call := fms[0]
		fm, _ := constString(call.Call.Args[0])
		k := strings.Index(fm, prefix)
		if k < 0 {
			c.bad(s.fn+"/format.prefix", c.ipos(call), "the printed trigger does not contain the detector's prefix literal: "+fm)
			continue
		}
		c.ok(s.fn+"/format.prefix", c.ipos(call), "printed trigger contains the detector's prefix")
		rest := strings.TrimRight(fm[k+len(prefix):], "\r\n")
		fields := strings.Split(rest, ":")
		args, _ := sliceElems(call.Call.Args[1])
		ai := 0
		next := func() ssa.Value {
			if ai < len(args) {
				v := args[ai].V
				ai++
				return v
			}
			return nil
		}
		if len(fields) != 4 {
			c.bad(s.fn+"/format.fields", c.ipos(call), "printed trigger does not have the four fields mode:version:id:port: "+rest)
			continue
		}
		// mode
		if fields[0] == "%s" {
			okM := true
			for _, l := range origins(next(), originOpts{}) {
				m, isC := constString(strip(l.V))
				if !isC || len(m) != 1 || !strings.Contains(modeClass, m) {
					okM = false
				}
			}
			c.check(okM, s.fn+"/mode", c.ipos(call), "printed mode letters are in the detector's class", "a printed mode is outside the detector's class ["+modeClass+"]")
		} else {
			c.check(len(fields[0]) == 1 && strings.Contains(modeClass, fields[0]), s.fn+"/mode", c.ipos(call), "literal mode "+fields[0]+" is in the detector's class", "literal mode "+fields[0]+" is outside the detector's class")
		}
		// version: a constant matching digits.digits.digits
		c.check(fields[1] == "%s", s.fn+"/version.verb", c.ipos(call), "version printed with %s", "version field verb changed")
		if v := next(); v != nil {
			ver, isC := constString(strip(v))
			parts := strings.Split(ver, ".")
			okV := isC && len(parts) == 3
			for _, p := range parts {
				if p == "" || strings.Trim(p, "0123456789") != "" {
					okV = false
				}
			}
			c.check(okV && strings.Contains(verGroup, `\.`), s.fn+"/version", c.ipos(call), "version constant "+ver+" has the d.d.d form the detector requires", "printed version does not have the d.d.d form the detector requires")
		}
		// id: zero padded, >= 13 digits (unique-id regexp wants \d{13}\d*)
		okID := false
		if strings.HasPrefix(fields[2], "%0") && strings.HasSuffix(fields[2], "d") {
			var w int
			fmt.Sscanf(fields[2][2:len(fields[2])-1], "%d", &w)
			okID = w >= 13
		}
		c.check(okID && strings.Contains(res["uniqueIDRegexp"], `\d{13}`), s.fn+"/id.width", c.ipos(call), "id printed zero-padded to >= 13 digits, as the unique-id regexp requires", "id is not printed zero-padded to 13 digits: redraw/replay suppression no longer sees it")
		next()
		c.check(fields[3] == "%d", s.fn+"/port.verb", c.ipos(call), "port printed as decimal", "port field verb changed")
		// the same id value is given to the tunnel greeting
		// role suffixes
		has := map[int64]bool{}
		eachInstr(f, func(in ssa.Instruction) {
			if b, ok := in.(*ssa.BinOp); ok && b.Op == token.ADD {
				if n, isC := constInt(b.Y); isC && (n == 10 || n == 20) {
					has[n] = true
				}
			}
		})
		c.check(has[10] && has[20], s.fn+"/role-suffix", c.pos(f.Pos()), "servers tag the id with +10 (Windows) / +20 (tmux)", "role suffixes +10/+20 changed")
	}
	// detector constants
	minLen, relOff := int64(-1), int64(-1)
	for _, b := range det.Blocks {
		if i := blockIf(b); i != nil {
			op, x, y, ok := cmpFact(normFact(fact{V: i.Cond, Pol: true}))
			if lc, _ := callOf(x); ok && op == token.LSS && lc != nil && calleeID(&lc.Call) == "builtin len" && isVar("output")(lc.Call.Args[0]) && minLen < 0 {
				minLen, _ = constInt(y)
			}
		}
	}
	c.check(minLen >= 0 && minLen <= int64(len(prefix)+len("S:0.0.0")), "detect/min-length", c.pos(det.Pos()), fmt.Sprintf("minimum length %d <= shortest possible trigger %d", minLen, len(prefix)+7), fmt.Sprintf("minimum length %d exceeds the shortest possible trigger %d: short triggers are ignored", minLen, len(prefix)+7))
	ars := c.fn("trzszDetector.addRelaySuffix")
	eachInstr(ars, func(in ssa.Instruction) {
		if b, ok := in.(*ssa.BinOp); ok && b.Op == token.ADD && isVar("idx")(b.X) && relOff < 0 {
			relOff, _ = constInt(b.Y)
		}
	})
	c.check(relOff >= int64(len(prefix)+2) && relOff <= int64(len(prefix)+7), "relay/suffix-offset", c.pos(ars.Pos()), fmt.Sprintf("suffix scan starts %d bytes in: inside mode:version, after the prefix", relOff), fmt.Sprintf("suffix scan offset %d is outside [prefix+2, prefix+7]", relOff))
	lit := false
	cmpSet := map[int64]bool{}
	eachInstr(ars, func(in ssa.Instruction) {
		var rands []*ssa.Value
		for _, r := range in.Operands(rands) {
			if *r != nil {
				if s, ok := constString(*r); ok && s == "#R" {
					lit = true // []byte("#R") or WriteString("#R"), literal or named constant
				}
			}
		}
		if b, ok := in.(*ssa.BinOp); ok {
			if n, isC := constInt(b.Y); isC {
				cmpSet[n] = true
			}
			if n, isC := constInt(b.X); isC {
				cmpSet[n] = true
			}
		}
	})
	c.check(lit && cmpSet[':'] && cmpSet['.'] && cmpSet['0'] && cmpSet['9'], "relay/suffix-after-[0-9:.]", c.pos(ars.Pos()), "'#R' is inserted after the run of [0-9:.] characters, i.e. after every regexp group", "the relay suffix is no longer inserted after the [0-9:.] run")
	// client rewrite
	okRw := false
	for _, ci := range callsIn(det, idIs("bytes.ReplaceAll")) {
		from, ok1 := constString(strip(ci.Common().Args[1]))
		to, ok2 := constString(strip(ci.Common().Args[2]))
		if ok1 && ok2 && strings.Contains(prefix, from) {
			rew := strings.ReplaceAll(prefix, from, to)
			okRw = !strings.Contains(rew, prefix)
			c.check(okRw, "client/rewrite", c.ipos(ci), "rewritten prefix "+rew+" is not a trigger for a second wrapper", "the rewritten trigger still contains the prefix: a second wrapper would start another transfer")
			// applied to the whole chunk (every occurrence), on the non-relay edge
			whole := true
			for _, l := range origins(ci.Common().Args[0], originOpts{}) {
				if _, isSlice := l.V.(*ssa.Slice); isSlice {
					whole = false
				}
			}
			c.check(whole, "client/rewrite-all", c.ipos(ci), "every occurrence in the chunk is rewritten (the whole chunk is the argument)", "only part of the chunk is rewritten: an earlier trigger line in the same read is shown raw and a second wrapper would react to it")
			// and the rewritten chunk is what is returned
			retOK := false
			eachInstr(det, func(in ssa.Instruction) {
				if r, ok := in.(*ssa.Return); ok && len(r.Results) == 2 && !isNilConst(retVal(r, 1)) {
					for _, l := range origins(r.Results[0], originOpts{}) {
						if l.V == ci.Value() {
							retOK = true
						}
					}
				}
			})
			c.check(retOK, "client/rewrite-returned", c.ipos(ci), "the rewritten chunk is what the detector returns with the trigger", "the rewritten chunk is not what the detector returns")
			notRelay := false
			for _, fc := range factsAt(ci.Block()) {
				if !fc.Pol && isFieldLoad("relay")(fc.V) {
					notRelay = true
				}
			}
			c.check(notRelay, "client/rewrite@client", c.ipos(ci), "the rewrite is the client-mode branch", "rewrite applied outside client mode")
		}
	}
	if !okRw {
		c.bad("client/rewrite", c.pos(det.Pos()), "client mode no longer rewrites the trigger prefix")
	}
	// universal form: what is returned together with a trigger is, on every path, the rewritten chunk (client mode) or
	// the relay-marked chunk (relay mode) — never the chunk as it came in
	eachInstr(det, func(in ssa.Instruction) {
		r, ok := in.(*ssa.Return)
		if !ok || len(r.Results) != 2 || isNilConst(retVal(r, 1)) {
			return
		}
		n, good := 0, true
		why := ""
		var marked func(v ssa.Value, depth int) bool
		marked = func(v ssa.Value, depth int) bool {
			any := false
			for _, l := range origins(v, originOpts{}) {
				any = true
				call, idx := callOf(l.V)
				if call == nil {
					why = "a value that is neither the rewritten nor the relay-marked chunk (" + l.V.String() + ")"
					return false
				}
				switch calleeID(&call.Call) {
				case "bytes.ReplaceAll", "(*trzsz.trzszDetector).addRelaySuffix":
					continue
				}
				// a helper of the package all of whose returns are marked chunks
				g := call.Call.StaticCallee()
				if g == nil || !c.inPkg(g) || len(g.Blocks) == 0 || depth >= 2 {
					why = "the result of " + calleeID(&call.Call)
					return false
				}
				okAll := true
				if idx < 0 {
					idx = 0
				}
				eachInstr(g, func(x ssa.Instruction) {
					if gr, isR := x.(*ssa.Return); isR && idx < len(gr.Results) && x.Block().Comment != "recover" {
						if !marked(retVal(gr, idx), depth+1) {
							okAll = false
						}
					}
				})
				if !okAll {
					return false
				}
			}
			return any
		}
		n = 1
		good = marked(r.Results[0], 0)
		c.check(good && n > 0, "detect/trigger-chunk-always-marked", c.ipos(r), "the chunk returned with a trigger is always the rewritten / relay-marked one", "the chunk returned with a trigger can be "+why+": a second wrapper further along reacts to the raw trigger")
	})
	// suffix tests in the detector
	suffix := func(fn, want string) bool {
		f := c.fn(fn)
		for _, ci := range callsIn(f, idIs("strings.HasSuffix", "bytes.HasSuffix")) {
			if s, ok := constString(strip(ci.Common().Args[1])); ok && s == want {
				return true
			}
		}
		return false
	}
	c.check(suffix("trzszDetector.detectTrzsz", "10"), "detect/windows-suffix", "", "ids ending in 10 mark a Windows server (matches +10)", "the detector's Windows suffix test no longer matches the servers' +10")
	c.check(suffix("trzszDetector.rewriteTrzszTrigger", "00") && suffix("trzszDetector.isRepeatedID", "00"), "detect/plain-suffix", "", "ids ending in 00 are re-tagged in a tmux relay and exempt from de-duplication", "the '00' suffix handling changed")
}

func regexpQuote(s string) string { return s } // the prefix contains no regexp metacharacters (checked below)

func c06R2(c *Ctx) {
	type pump struct{ fn, start string }
	for _, p := range []pump{{"TrzszFilter.wrapOutput", "(*trzsz.TrzszFilter).handleTrzsz"}, {"TrzszRelay.wrapOutput", "(*trzsz.TrzszRelay).handshake"}} {
		f := c.fn(p.fn)
		dets := callsIn(f, idIs("(*trzsz.trzszDetector).detectTrzsz"))
		c.check(len(dets) == 1, p.fn+"/one-detect-call", c.pos(f.Pos()), "the detector is called once per chunk", "the detector is not called exactly once per chunk")
		if len(dets) != 1 {
			continue
		}
		trig := extractOf(dets[0].(*ssa.Call), 1)
		// whether a tunnel connector is set is looked up for THIS chunk (the connector is installed after the pump has started,
		// a value read once before the loop is stale for every later trigger)
		var read *ssa.Call
		eachInstr(f, func(in ssa.Instruction) {
			if call, ok := in.(*ssa.Call); ok && call.Call.IsInvoke() && call.Call.Method.Name() == "Read" {
				read = call
			}
		})
		if read != nil && len(dets[0].Common().Args) >= 3 {
			fresh := false
			for _, l := range origins(dets[0].Common().Args[2], originOpts{}) {
				v := l.V
				if op, x, _, ok := cmpFact(fact{V: v, Pol: true}); ok && (op == token.NEQ || op == token.EQL) {
					v = x
				}
				if call, _ := callOf(v); call != nil && isAtomicOnField(call, "tunnelConnector", "Load") && domI(read, call) {
					fresh = true
				} else {
					fresh = false
					break
				}
			}
			c.check(fresh, p.fn+"/tunnel-flag-per-chunk", c.ipos(dets[0]), "the detector is told whether a tunnel connector is set as of this chunk", "the tunnel-connector flag handed to the detector is not read per chunk: a connector installed later is never seen and tunnel triggers are rejected")
		}
		n := 0
		eachInstr(f, func(in ssa.Instruction) {
			g, ok := in.(*ssa.Go)
			if !ok || calleeID(&g.Call) != p.start {
				return
			}
			n++
			_, nonNil := factNil(factsAt(g.Block()), trig)
			c.check(nonNil && domI(dets[0].(ssa.Instruction), g), p.fn+"/start@trigger", c.ipos(g), "the handler starts only on the trigger != nil edge of this chunk's detection", "a transfer can be started without a detected trigger")
			// not re-reachable without a new detection
			hit, _ := reachAvoid(g, func(x ssa.Instruction) bool { return x == ssa.Instruction(g) }, func(x ssa.Instruction) bool { return x == dets[0].(ssa.Instruction) })
			c.check(hit == nil, p.fn+"/one-start-per-detection", c.ipos(g), "one start per detection", "the handler can be started twice for one detection")
		})
		c.check(n == 1, p.fn+"/one-start-site", c.pos(f.Pos()), "exactly one start site", "the pump does not have exactly one start site")
		// every chunk that is not already owned by a running session is shown to the detector: from the read, on the
		// n > 0 side, the next read is not reachable without the detection except over an edge on which the chunk was
		// claimed by the active transfer / accepted by the zmodem session (filter) or belongs to a handshake or transfer
		// in progress (relay). A flag test in front of the detector ("nothing worth inspecting") hides triggers.
		{
			detI := dets[0].(ssa.Instruction)
			nv := extractOf(read, 0)
			claimed := func(from, to *ssa.BasicBlock) bool {
				fs := edgeFactsTo(from, to)
				if factZero(fs, isValue(nv)) {
					return true // nothing was read
				}
				for _, fc := range fs {
					op, x, y, ok := cmpFact(fc)
					if ok && op == token.NEQ && isNilConst(y) {
						if call, _ := callOf(x); call != nil && isAtomicOnField(call, "transfer", "Load") {
							return true
						}
					}
					if call, _ := callOf(fc.V); call != nil && fc.Pol && calleeID(&call.Call) == "(*trzsz.zmodemTransfer).handleServerOutput" {
						return true
					}
					if e, isE := fc.V.(*ssa.Extract); isE && fc.Pol && e.Index == 1 {
						if call, isC := e.Tuple.(*ssa.Call); isC && calleeID(&call.Call) == "(*trzsz.TrzszRelay).addHandshakeBuffer" {
							return true
						}
					}
					if ok && op == token.EQL && isConstIntV(c.constVal("kRelayTransferring"))(y) {
						return true
					}
				}
				return false
			}
			hitD, pathD := reachFromE(read.Block(), instrIndex(read)+1, func(x ssa.Instruction) bool { return x == ssa.Instruction(read) }, func(x ssa.Instruction) bool { return x == detI }, claimed)
			c.check(hitD == nil, p.fn+"/every-free-chunk-detected", c.ipos(read), "every chunk not owned by a running session is shown to the trigger detector", "a chunk can go by without being shown to the trigger detector although no session owns it: a trigger in it starts nothing and trz / tsz hangs", c.pathStr(pathD)...)
		}
		// and the converse, universally: a detected trigger always starts the handler — from the detection, on the
		// trigger != nil side, neither the next read nor the pump's end is reachable without the start
		{
			detI := dets[0].(ssa.Instruction)
			hitS, pathS := reachFromE(detI.Block(), instrIndex(detI)+1, func(x ssa.Instruction) bool {
				return x == ssa.Instruction(read) || isReturn(x)
			}, func(x ssa.Instruction) bool {
				g, ok := x.(*ssa.Go)
				return ok && calleeID(&g.Call) == p.start
			}, func(from, to *ssa.BasicBlock) bool {
				isNil, _ := factNil(edgeFactsTo(from, to), trig)
				return isNil
			})
			c.check(hitS == nil, p.fn+"/trigger=>start", c.ipos(detI), "a detected trigger always starts the handler before the next read", "a detected trigger can be passed over without starting the handler (the rewritten trigger is forwarded and trz / tsz waits for a client that never answers)", c.pathStr(pathS)...)
		}
		// the handler works from the recorded trigger (mode, version, id, port): this detection's trigger is recorded before it starts
		eachInstr(f, func(in ssa.Instruction) {
			g, ok := in.(*ssa.Go)
			if !ok || calleeID(&g.Call) != p.start {
				return
			}
			rec := false
			eachInstr(f, func(x ssa.Instruction) {
				st, ok := x.(*ssa.Store)
				if !ok {
					return
				}
				if nm, _ := fieldAddrName(st.Addr); strings.HasSuffix(nm, ".trigger") && sameValue(st.Val, trig) && domI(st, g) {
					rec = true
				}
			})
			c.check(rec, p.fn+"/trigger-recorded", c.ipos(g), "the trigger of this detection is recorded before the handler starts", "the handler starts without this detection's trigger being recorded (it would use the previous transfer's mode / version / id, or nil)")
		})
	}
	// the client's answer to a trigger: "confirm" only after this transfer was installed as the one active transfer,
	// "decline" only when the user cancelled the file dialog
	for _, name := range []string{"TrzszFilter.downloadFiles", "TrzszFilter.uploadFiles"} {
		f := c.fn(name)
		var cas *ssa.Call
		for _, ci := range callsIn(f, anyID) {
			if isAtomicOnField(ci, "transfer", "CompareAndSwap") && isNilConst(ci.Common().Args[1]) {
				cas, _ = ci.(*ssa.Call)
			}
		}
		if cas == nil {
			c.bad(name+"/one-active-transfer", c.pos(f.Pos()), "the transfer is no longer installed by compare-and-swap from nil")
			continue
		}
		for _, ci := range callsIn(f, idIs(tT+"sendAction")) {
			confirm, isC := constBool(ci.Common().Args[1])
			if !isC {
				c.bad(name+"/answer", c.ipos(ci), "the answer to the trigger is not a constant confirm / decline")
				continue
			}
			fs := factsAt(ci.Block())
			if confirm {
				won := false
				for _, fc := range fs {
					if fc.V == ssa.Value(cas) && fc.Pol {
						won = true
					}
				}
				c.check(won, name+"/confirm-only-as-the-one-transfer", c.ipos(ci), "the transfer is confirmed only on the edge where it became the one active transfer", "a transfer can be confirmed although another one is active (or only when installing it failed)")
			} else {
				cancelled := factCmp(fs, token.EQL, anyValue, func(v ssa.Value) bool {
					u, ok := strip(v).(*ssa.UnOp)
					if !ok {
						return false
					}
					g, isG := u.X.(*ssa.Global)
					return isG && g.Name() == "errUserCanceled"
				})
				c.check(cancelled, name+"/decline-only-on-cancel", c.ipos(ci), "the transfer is declined only when the user cancelled the dialog", "the transfer is declined on the wrong edge of the user-cancelled test")
			}
		}
	}
	// starts elsewhere
	for _, f := range c.AllFns {
		eachInstr(f, func(in ssa.Instruction) {
			if ci, ok := in.(ssa.CallInstruction); ok {
				id := calleeID(ci.Common())
				if id == "(*trzsz.TrzszFilter).handleTrzsz" || id == "(*trzsz.TrzszRelay).handshake" {
					fn := c.fnName(f)
					c.check(fn == "TrzszFilter.wrapOutput" || fn == "TrzszRelay.wrapOutput", "who-starts/"+fn, c.ipos(in), "transfers are started only by the output pumps", "a transfer handler is started outside the output pumps")
				}
			}
		})
	}
	det := c.fn("trzszDetector.detectTrzsz")
	nTrig := 0
	eachInstr(det, func(in ssa.Instruction) {
		r, ok := in.(*ssa.Return)
		if !ok || len(r.Results) != 2 || isNilConst(retVal(r, 1)) {
			return
		}
		nTrig++
		// repeated-id test false
		rep := len(factCalls(factsAt(r.Block()), "(*trzsz.trzszDetector).isRepeatedID", false)) > 0
		c.check(rep, "detect/repeated-id-test", c.ipos(r), "a trigger is returned only after the repeated-id test said 'new'", "a trigger is returned without the repeated-id test")
		// regexp matched: len(match) >= 3 established (NOT len(match) < 3)
		m := factCmp(factsAt(r.Block()), token.GEQ, func(v ssa.Value) bool { lc, _ := callOf(v); return lc != nil && calleeID(&lc.Call) == "builtin len" }, isConstIntV(3))
		c.check(m, "detect/regexp-matched", c.ipos(r), "a trigger is returned only when the trigger regexp matched", "a trigger is returned without a regexp match")
	})
	c.check(nTrig == 1, "detect/one-trigger-return", c.pos(det.Pos()), "one place returns a trigger", "the detector has an unexpected number of trigger returns")
	// finished-transfer look-ahead: Contains(subOutput[40:], word) -> nil trigger
	look := false
	for _, ci := range callsIn(det, idIs("bytes.Contains")) {
		sl, ok := strip(ci.Common().Args[0]).(*ssa.Slice)
		if !ok || sl.Low == nil {
			continue
		}
		for _, r := range referrersOf(ci.Value()) {
			if i, ok := r.(*ssa.If); ok {
				okNil := true
				found := false
				for _, in := range i.Block().Succs[0].Instrs {
					if ret, ok := in.(*ssa.Return); ok {
						found = true
						if !isNilConst(retVal(ret, 1)) {
							okNil = false
						}
					}
				}
				if found && okNil {
					look = true
				}
			}
		}
	}
	// universal form: every path from the entry to the trigger return goes through the look-ahead loop, except over
	// the edge on which the text after the trigger was found too short to hold a finish word
	{
		var header *ssa.BasicBlock
		for _, ci := range callsIn(det, idIs("bytes.Contains")) {
			sl, ok := strip(ci.Common().Args[0]).(*ssa.Slice)
			if !ok || sl.Low == nil {
				continue
			}
			// innermost loop header dominating the call: a block with a predecessor it dominates
			for b := ci.Block(); b != nil; b = b.Idom() {
				isHdr := false
				for _, p := range b.Preds {
					if b.Dominates(p) {
						isHdr = true
					}
				}
				if isHdr {
					header = b
					break
				}
			}
		}
		var trigRet ssa.Instruction
		eachInstr(det, func(in ssa.Instruction) {
			if r, ok := in.(*ssa.Return); ok && len(r.Results) == 2 && !isNilConst(retVal(r, 1)) {
				trigRet = in
			}
		})
		if header == nil || trigRet == nil {
			c.undecided("detect/lookahead-on-every-path", "look-ahead loop or trigger return not found")
		} else {
			short := func(from, to *ssa.BasicBlock) bool {
				isLen := func(v ssa.Value) bool { lc, _ := callOf(v); return lc != nil && calleeID(&lc.Call) == "builtin len" }
				fs := edgeFactsTo(from, to)
				return factCmp(fs, token.LEQ, isLen, isConstIntV(40)) || factCmp(fs, token.LSS, isLen, isConstIntV(41))
			}
			hit, path := reachFromE(det.Blocks[0], 0, func(in ssa.Instruction) bool { return in == trigRet }, func(in ssa.Instruction) bool { return in.Block() == header }, short)
			c.check(hit == nil, "detect/lookahead-on-every-path", c.ipos(trigRet), "no trigger is returned without the finished-transfer look-ahead (unless nothing follows the trigger)", "a trigger can be returned without looking at what follows it: scroll-back of a finished transfer starts a new one", c.pathStr(path)...)
		}
	}
	c.check(look, "detect/finished-lookahead", c.pos(det.Pos()), "text after the trigger containing a finish word suppresses it", "the finished-transfer look-ahead no longer suppresses the trigger")
}

func c06R3(c *Ctx) {
	det := c.fn("trzszDetector.detectTrzsz")
	// the words: string constants stored into the literal slice ranged over
	var words []string
	eachInstr(det, func(in ssa.Instruction) {
		st, ok := in.(*ssa.Store)
		if !ok {
			return
		}
		if ia, ok := st.Addr.(*ssa.IndexAddr); ok {
			if al, ok := ia.X.(*ssa.Alloc); ok && al.Comment == "slicelit" {
				if s, ok := constString(st.Val); ok {
					words = append(words, s)
				}
			}
		}
	})
	if len(words) < 5 {
		// the words kept in a package-level table that the initialiser fills once
		if ws, ok := c.initTableWords(det); ok {
			words = append(words, ws...)
		}
	}
	if len(words) < 5 {
		c.undecided("words", fmt.Sprintf("expected five suppression words, found %v", words))
		return
	}
	// every string constant used outside the detector
	emitted := map[string]string{}
	for _, f := range c.AllFns {
		if f == det {
			continue
		}
		eachInstr(f, func(in ssa.Instruction) {
			var ops []*ssa.Value
			for _, op := range in.Operands(ops) {
				if op == nil || *op == nil {
					continue
				}
				if s, ok := constString(strip(*op)); ok && s != "" {
					emitted[s] = c.fnName(f)
				}
			}
		})
	}
	// the constant messages the servers end a transfer with are recognised by one of the words
	nExit := 0
	for _, f := range c.AllFns {
		for _, ci := range callsIn(f, idIs(tT+"serverExit", tT+"clientExit")) {
			args := ci.Common().Args
			msg, ok := constString(strip(args[len(args)-1]))
			if !ok {
				continue
			}
			nExit++
			hit := ""
			for _, w := range words {
				if strings.Contains(msg, w) {
					hit = w
				}
			}
			c.check(hit != "", "exit-message/"+c.fnName(f)+"/"+msg, c.ipos(ci.(ssa.Instruction)), fmt.Sprintf("the closing message %q carries the suppression word %q", msg, hit), fmt.Sprintf("the closing message %q carries none of the suppression words %v: a replayed trigger followed by it starts a transfer again", msg, words))
		}
	}
	if nExit < 2 {
		c.undecided("exit-messages", fmt.Sprintf("expected the two constant cancel messages of trz and tsz, found %d", nExit))
	}
	for _, w := range words {
		where := ""
		if strings.HasPrefix(w, "#") && strings.HasSuffix(w, ":") {
			typ := w[1 : len(w)-1]
			if fn, ok := emitted[typ]; ok {
				where = "line type " + typ + " used in " + fn
			}
		} else {
			for s, fn := range emitted {
				if strings.HasPrefix(s, w) {
					where = fmt.Sprintf("%q in %s", s, fn)
					break
				}
			}
		}
		c.check(where != "", "word/"+w, "", "suppression word "+w+" is a prefix of "+where, "suppression word "+w+" is not printed by any code path: finished transfers would no longer be recognised")
	}
}

// c06Dispatch: the mode letter of the trigger selects the action: S -> download, R -> upload files, D -> upload a directory;
// the letters are exactly those the trigger grammar admits.
func c06Dispatch(c *Ctx) {
	f := c.fn("TrzszFilter.handleTrzsz$1")
	type want struct {
		letter byte
		callee string
		dirArg int // -1: none, 0: false, 1: true
	}
	wants := []want{{'S', "(*trzsz.TrzszFilter).downloadFiles", -1}, {'R', "(*trzsz.TrzszFilter).uploadFiles", 0}, {'D', "(*trzsz.TrzszFilter).uploadFiles", 1}}
	for _, w := range wants {
		as := []assumption{valueIs(isFieldLoad("mode"), int64(w.letter))}
		reach := blocksUnder(f, as)
		n, good := 0, true
		for _, ci := range callsIn(f, idIs("(*trzsz.TrzszFilter).downloadFiles", "(*trzsz.TrzszFilter).uploadFiles")) {
			if !reach[ci.Block()] {
				continue
			}
			n++
			if calleeID(ci.Common()) != w.callee {
				good = false
			}
			if w.dirArg >= 0 {
				// the constant, or `mode == 'D'` evaluated for this letter (the R and D cases merged)
				b, isC := evalBoolUnder(ci.Common().Args[2], as, reach, 0)
				if !isC || b != (w.dirArg == 1) {
					good = false
				}
			}
		}
		c.check(good && n == 1, "handleTrzsz/mode="+string(rune(w.letter)), c.pos(f.Pos()), "this mode letter runs exactly its action", "the mode letter '"+string(rune(w.letter))+"' does not run exactly its action (download for S, upload for R, directory upload for D)")
	}
	// and the servers print the letter of what they are about to do: trz -> R, trz -d -> D, tsz -> S
	for _, m := range []struct {
		fn    string
		plain string
	}{{"TrzMain", "R"}, {"TszMain", "S"}} {
		mf := c.fn(m.fn)
		found := false
		for _, ci := range callsIn(mf, idIs("fmt.Sprintf")) {
			fs, ok := constString(ci.Common().Args[0])
			if !ok || !strings.Contains(fs, "::TRZSZ:TRANSFER:") {
				continue
			}
			found = true
			if strings.Contains(fs, "::TRZSZ:TRANSFER:"+m.plain+":") {
				c.ok(m.fn+"/mode-letter", c.ipos(ci), "the trigger carries the literal '"+m.plain+"'")
				continue
			}
			els, okE := sliceElems(ci.Common().Args[1])
			if !okE || len(els) < 1 {
				c.bad(m.fn+"/mode-letter", c.ipos(ci), "cannot see the mode letter printed in the trigger")
				continue
			}
			good := true
			sawD := false
			for _, l := range origins(els[0].V, originOpts{}) {
				s, isS := constString(l.V)
				if isS && s == "D" {
					sawD = true
				}
				dir, known := false, false
				for _, fc := range l.facts() {
					if isFieldLoad("Directory")(fc.V) {
						dir, known = fc.Pol, true
					}
				}
				switch {
				case isS && s == m.plain:
					good = good && !(known && dir)
				case isS && s == "D" && m.fn == "TrzMain":
					good = good && known && dir
				default:
					good = false
				}
			}
			if m.fn == "TrzMain" && !sawD {
				good = false
			}
			c.check(good, m.fn+"/mode-letter", c.ipos(ci), "the trigger carries '"+m.plain+"' (or 'D' exactly when a directory upload was asked for)", "the trigger's mode letter does not match what the server is about to do")
		}
		if !found {
			c.bad(m.fn+"/mode-letter", c.pos(mf.Pos()), "the trigger line is no longer printed here")
		}
	}
}

// c06OneDetector: the repeated-id test works on what the detector has seen before, so the detector must live as long
// as the pump. In both output pumps the detector whose detectTrzsz is called is made by one newTrzszDetector call
// that is not inside the read loop (no path leads from the read back to that call).
func c06OneDetector(c *Ctx) {
	for _, name := range []string{"TrzszFilter.wrapOutput", "TrzszRelay.wrapOutput"} {
		f := c.fn(name)
		var read ssa.Instruction
		eachInstr(f, func(in ssa.Instruction) {
			if call, ok := in.(*ssa.Call); ok && call.Call.IsInvoke() && call.Call.Method.Name() == "Read" {
				read = in
			}
		})
		if read == nil {
			c.lost("Read in " + name)
		}
		dets := callsIn(f, idIs("(*trzsz.trzszDetector).detectTrzsz"))
		if len(dets) == 0 {
			c.lost("detectTrzsz call in " + name)
		}
		for _, d := range dets {
			good := true
			n := 0
			for _, l := range origins(d.Common().Args[0], originOpts{}) {
				mk, _ := callOf(l.V)
				if mk == nil || calleeID(&mk.Call) != "trzsz.newTrzszDetector" {
					good = false
					continue
				}
				n++
				hit, _ := reachFrom(read.Block(), instrIndex(read)+1, func(in ssa.Instruction) bool { return in == ssa.Instruction(mk) }, nil)
				if hit != nil {
					good = false
				}
			}
			c.check(good && n == 1, name+"/detector-made-once", c.ipos(d), "the pump's detector is made once, before the read loop", "the detector is made anew inside the read loop (or its origin is not a single newTrzszDetector call): the ids already seen are forgotten, a redrawn trigger starts a second transfer")
		}
	}
}

// errorTextMakers: constructors whose result's Error() is their constant first argument (no verbs): fmt.Errorf and
// errors.New by documentation, simpleTrzszError because trzszError.Error returns the message it was made with.
var errorTextMakers = map[string]bool{"fmt.Errorf": true, "errors.New": true, "trzsz.simpleTrzszError": true}

// globalInitOnce: the single value stored to g, when that store is in the package initialiser.
func (c *Ctx) globalInitOnce(g *ssa.Global) (ssa.Value, bool) {
	var val ssa.Value
	n := 0
	for _, f := range c.AllFns {
		eachInstr(f, func(in ssa.Instruction) {
			if st, ok := in.(*ssa.Store); ok && st.Addr == ssa.Value(g) {
				n++
				if f.Name() == "init" {
					val = st.Val
				} else {
					n += 100
				}
			}
		})
	}
	return val, n == 1 && val != nil
}

// initText: the text of a string / []byte expression evaluated in the initialiser: a constant, or X.Error() of a
// package-level error that is set once from a constructor of errorTextMakers.
func (c *Ctx) initText(v ssa.Value) (string, bool) {
	for {
		if cv, ok := v.(*ssa.Convert); ok {
			v = cv.X
			continue
		}
		if s := strip(v); s != v {
			v = s
			continue
		}
		break
	}
	if s, ok := constString(v); ok {
		return s, true
	}
	call, ok := v.(*ssa.Call)
	if !ok {
		return "", false
	}
	var recv ssa.Value
	if call.Call.IsInvoke() && call.Call.Method.Name() == "Error" {
		recv = call.Call.Value
	} else if f := call.Call.StaticCallee(); f != nil && f.Name() == "Error" && len(call.Call.Args) == 1 {
		recv = call.Call.Args[0]
	} else {
		return "", false
	}
	u, ok := strip(recv).(*ssa.UnOp)
	if !ok {
		return "", false
	}
	g, ok := u.X.(*ssa.Global)
	if !ok {
		return "", false
	}
	iv, ok := c.globalInitOnce(g)
	if !ok {
		return "", false
	}
	mk, _ := callOf(strip(iv))
	if mk == nil || !errorTextMakers[calleeID(&mk.Call)] || len(mk.Call.Args) == 0 {
		return "", false
	}
	s, ok := constString(mk.Call.Args[0])
	return s, ok && !strings.Contains(s, "%")
}

// initTableWords: the texts of the package-level slice tables f reads, each filled once by the initialiser.
func (c *Ctx) initTableWords(f *ssa.Function) ([]string, bool) {
	var words []string
	okAll := true
	seen := map[*ssa.Global]bool{}
	eachInstr(f, func(in ssa.Instruction) {
		u, ok := in.(*ssa.UnOp)
		if !ok {
			return
		}
		g, ok := u.X.(*ssa.Global)
		if !ok || seen[g] {
			return
		}
		if _, isSlice := u.Type().Underlying().(*types.Slice); !isSlice {
			return
		}
		seen[g] = true
		iv, ok := c.globalInitOnce(g)
		if !ok {
			return
		}
		sl, ok := iv.(*ssa.Slice)
		if !ok {
			return
		}
		al, ok := sl.X.(*ssa.Alloc)
		if !ok || al.Comment != "slicelit" {
			return
		}
		for _, ref := range *al.Referrers() {
			ia, ok := ref.(*ssa.IndexAddr)
			if !ok {
				continue
			}
			for _, r2 := range *ia.Referrers() {
				if st, ok := r2.(*ssa.Store); ok && st.Addr == ssa.Value(ia) {
					if t, ok := c.initText(st.Val); ok {
						words = append(words, t)
					} else {
						okAll = false
					}
				}
			}
		}
	})
	return words, okAll && len(words) > 0
}

// c06TunnelFlag: the pumps tell the detector "a tunnel can be dialled" by testing the stored connector pointer against
// nil; that is only the truth when every writer stores nil for a nil connector (a control-mode trigger with a port is
// accepted on the strength of this flag, and the handler would then dial nothing).
func c06TunnelFlag(c *Ctx) {
	nFlag := 0
	for _, f := range c.AllFns {
		for _, ci := range callsIn(f, idIs("(*trzsz.trzszDetector).detectTrzsz")) {
			args := ci.Common().Args
			key := "flag/" + c.fnName(f)
			b, ok := strip(args[len(args)-1]).(*ssa.BinOp)
			if !ok || b.Op != token.NEQ || !isNilConst(b.Y) {
				c.undecided(key, "the tunnel flag handed to the detector is not the connector pointer tested against nil")
				continue
			}
			ld, _ := callOf(b.X)
			if ld == nil || !isAtomicOnField(ld, "tunnelConnector", "Load") {
				c.undecided(key, "the tunnel flag handed to the detector is not the connector pointer tested against nil")
				continue
			}
			nFlag++
			c.ok(key, c.ipos(ci.(ssa.Instruction)), "the detector's tunnel flag is 'connector pointer != nil'")
		}
	}
	if nFlag == 0 {
		return
	}
	nStore := 0
	for _, f := range c.AllFns {
		for _, ci := range callsIn(f, anyID) {
			if !isAtomicOnField(ci, "tunnelConnector", "Store", "Swap", "CompareAndSwap") {
				continue
			}
			args := ci.Common().Args
			key := "store/" + c.fnName(f)
			// the stored pointer, per incoming edge when it was picked into a local first
			type cand struct {
				v  ssa.Value
				at *ssa.BasicBlock
			}
			cands := []cand{{strip(args[len(args)-1]), ci.Block()}}
			if phi, ok := cands[0].v.(*ssa.Phi); ok {
				cands = nil
				for i, e := range phi.Edges {
					cands = append(cands, cand{strip(e), phi.Block().Preds[i]})
				}
			}
			nStore += len(cands)
			for _, cd := range cands {
				v := cd.v
				if isNilConst(v) {
					c.ok(key+"/nil", c.ipos(ci.(ssa.Instruction)), "stores nil")
					continue
				}
				al, ok := v.(*ssa.Alloc)
				if !ok {
					c.undecided(key, "cannot tell which function value the stored pointer refers to")
					continue
				}
				var vals []ssa.Value
				for _, r := range *al.Referrers() {
					if st, ok := r.(*ssa.Store); ok && st.Addr == ssa.Value(al) {
						vals = append(vals, st.Val)
					}
				}
				isFn := func(x ssa.Value) bool {
					x = strip(x)
					if u, ok := x.(*ssa.UnOp); ok && u.X == ssa.Value(al) {
						return true
					}
					return len(vals) == 1 && x == strip(vals[0])
				}
				good := len(vals) == 1 && factCmp(factsAt(cd.at), token.NEQ, isFn, isNilConst)
				c.check(good, key+"/non-nil", c.ipos(ci.(ssa.Instruction)), "a connector is stored only after it was tested non-nil", "a pointer to a connector that may be nil is stored: the pumps' 'pointer != nil' then tells the detector a tunnel exists, a control-mode trigger with a port is accepted and nothing can be dialled")
			}
		}
	}
	if nStore < 4 {
		c.undecided("stores", fmt.Sprintf("expected the four stored values (nil and non-nil) of the two SetTunnelConnector methods, found %d", nStore))
	}
}
