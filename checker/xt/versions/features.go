// Copyright 2023 The Go Authors. All rights reserved.
// Use of this source code is governed by a BSD-style
// license that can be found in the LICENSE file.

package versions

// This file contains predicates for working with file versions to
// decide when a tool should consider a language feature enabled.

// GoVersions that features in x/tools can be gated to.
const (
	Go1_18 = "go1.18"
	Go1_19 = "go1.19"
	Go1_20 = "go1.20"
	Go1_21 = "go1.21"
	Go1_22 = "go1.22"
)

// Future is an invalid unknown Go version sometime in the future.
// Do not use directly with Compare.
const Future = ""

// AtLeast reports whether the file version v comes after a Go release.
//
// Use this predicate to enable a behavior once a certain Go release
// has happened (and stays enabled in the future).
func AtLeast(v, release string) bool {
	if v == Future {
		return true // an unknown future version is always after y.
	}
	return Compare(Lang(v), Lang(release)) >= 0
}

// Before reports whether the file version v is strictly before a Go release.
//
// Use this predicate to disable a behavior once a certain Go release
// has happened (and stays enabled in the future).
func Before(v, release string) bool {
	if v == Future {
		return false // an unknown future version happens after y.
	}
	return Compare(Lang(v), Lang(release)) < 0
}
