// Copyright 2023 The Go Authors. All rights reserved.
// Use of this source code is governed by a BSD-style
// license that can be found in the LICENSE file.

// This is a fork of internal/gover for use by x/tools until
// go1.21 and earlier are no longer supported by x/tools.

package versions

import "strings"

// A gover is a parsed Go gover: major[.Minor[.Patch]][kind[pre]]
// The numbers are the original decimal strings to avoid integer overflows
// and since there is very little actual math. (Probably overflow doesn't matter in practice,
// but at the time this code was written, there was an existing test that used
// go1.99999999999, which does not fit in an int on 32-bit platforms.
// The "big decimal" representation avoids the problem entirely.)
type gover struct {
	major string // decimal
	minor string // decimal or ""
	patch string // decimal or ""
	kind  string // "", "alpha", "beta", "rc"
	pre   string // decimal or ""
}

// compare returns -1, 0, or +1 depending on whether
// x < y, x == y, or x > y, interpreted as toolchain versions.
// The versions x and y must not begin with a "go" prefix: just "1.21" not "go1.21".
// Malformed versions compare less than well-formed versions and equal to each other.
// The language version "1.21" compares less than the release candidate and eventual releases "1.21rc1" and "1.21.0".
func compare(x, y string) int {
	vx := parse(x)
	vy := parse(y)

	if c := cmpInt(vx.major, vy.major); c != 0 {
		return c
	}
	if c := cmpInt(vx.minor, vy.minor); c != 0 {
		return c
	}
	if c := cmpInt(vx.patch, vy.patch); c != 0 {
		return c
	}
	if c := strings.Compare(vx.kind, vy.kind); c != 0 { // "" < alpha < beta < rc
		return c
	}
	if c := cmpInt(vx.pre, vy.pre); c != 0 {
		return c
	}
	return 0
}

// lang returns the Go language version. For example, lang("1.2.3") == "1.2".
func lang(x string) string {
	v := parse(x)
	if v.minor == "" || v.major == "1" && v.minor == "0" {
		return v.major
	}
	return v.major + "." + v.minor
}

// isValid reports whether the version x is valid.
func isValid(x string) bool {
	return parse(x) != gover{}
}

// parse parses the Go version string x into a version.
// It returns the zero version if x is malformed.
func parse(x string) gover {
	var v gover

	// Parse major version.
	var ok bool
	v.major, x, ok = cutInt(x)
	if !ok {
		return gover{}
	}
	if x == "" {
		// Interpret "1" as "1.0.0".
		v.minor = "0"
		v.patch = "0"
		return v
	}

	// Parse . before minor version.
	if x[0] != '.' {
		return gover{}
	}

	// Parse minor version.
	v.minor, x, ok = cutInt(x[1:])
	if !ok {
		return gover{}
	}
	if x == "" {
		// Patch missing is same as "0" for older versions.
		// Starting in Go 1.21, patch missing is different from explicit .0.
		if cmpInt(v.minor, "21") < 0 {
			v.patch = "0"
		}
		return v
	}

	// Parse patch if present.
	if x[0] == '.' {
		v.patch, x, ok = cutInt(x[1:])
		if !ok || x != "" {
			// Note that we are disallowing prereleases (alpha, beta, rc) for patch releases here (x != "").
			// Allowing them would be a bit confusing because we already have:
			//	1.21 < 1.21rc1
			// But a prerelease of a patch would have the opposite effect:
			//	1.21.3rc1 < 1.21.3
			// We've never needed them before, so let's not start now.
			return gover{}
		}
		return v
	}

	// Parse prerelease.
	i := 0
	for i < len(x) && (x[i] < '0' || '9' < x[i]) {
		if x[i] < 'a' || 'z' < x[i] {
			return gover{}
		}
		i++
	}
	if i == 0 {
		return gover{}
	}
	v.kind, x = x[:i], x[i:]
	if x == "" {
		return v
	}
	v.pre, x, ok = cutInt(x)
	if !ok || x != "" {
		return gover{}
	}

	return v
}

// cutInt scans the leading decimal number at the start of x to an integer
// and returns that value and the rest of the string.
func cutInt(x string) (n, rest string, ok bool) {
	i := 0
	for i < len(x) && '0' <= x[i] && x[i] <= '9' {
		i++
	}
	if i == 0 || x[0] == '0' && i != 1 { // no digits or unnecessary leading zero
		return "", "", false
	}
	return x[:i], x[i:], true
}

// cmpInt returns cmp.Compare(x, y) interpreting x and y as decimal numbers.
// (Copied from golang.org/x/mod/semver's compareInt.)
func cmpInt(x, y string) int {
	if x == y {
		return 0
	}
	if len(x) < len(y) {
		return -1
	}
	if len(x) > len(y) {
		return +1
	}
	if x < y {
		return -1
	} else {
		return +1
	}
}
