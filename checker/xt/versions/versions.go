// Copyright 2023 The Go Authors. All rights reserved.
// Use of this source code is governed by a BSD-style
// license that can be found in the LICENSE file.

package versions

import (
	"strings"
)

// Note: If we use build tags to use go/versions when go >=1.22,
// we run into go.dev/issue/53737. Under some operations users would see an
// import of "go/versions" even if they would not compile the file.
// For example, during `go get -u ./...` (go.dev/issue/64490) we do not try to include
// For this reason, this library just a clone of go/versions for the moment.

// Lang returns the Go language version for version x.
// If x is not a valid version, Lang returns the empty string.
// For example:
//
//	Lang("go1.21rc2") = "go1.21"
//	Lang("go1.21.2") = "go1.21"
//	Lang("go1.21") = "go1.21"
//	Lang("go1") = "go1"
//	Lang("bad") = ""
//	Lang("1.21") = ""
func Lang(x string) string {
	v := lang(stripGo(x))
	if v == "" {
		return ""
	}
	return x[:2+len(v)] // "go"+v without allocation
}

// Compare returns -1, 0, or +1 depending on whether
// x < y, x == y, or x > y, interpreted as Go versions.
// The versions x and y must begin with a "go" prefix: "go1.21" not "1.21".
// Invalid versions, including the empty string, compare less than
// valid versions and equal to each other.
// The language version "go1.21" compares less than the
// release candidate and eventual releases "go1.21rc1" and "go1.21.0".
// Custom toolchain suffixes are ignored during comparison:
// "go1.21.0" and "go1.21.0-bigcorp" are equal.
func Compare(x, y string) int { return compare(stripGo(x), stripGo(y)) }

// IsValid reports whether the version x is valid.
func IsValid(x string) bool { return isValid(stripGo(x)) }

// stripGo converts from a "go1.21" version to a "1.21" version.
// If v does not start with "go", stripGo returns the empty string (a known invalid version).
func stripGo(v string) string {
	v, _, _ = strings.Cut(v, "-") // strip -bigcorp suffix.
	if len(v) < 2 || v[:2] != "go" {
		return ""
	}
	return v[2:]
}
