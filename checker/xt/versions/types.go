// Copyright 2023 The Go Authors. All rights reserved.
// Use of this source code is governed by a BSD-style
// license that can be found in the LICENSE file.

package versions

import (
	"go/ast"
	"go/types"
)

// FileVersion returns a file's Go version.
// The reported version is an unknown Future version if a
// version cannot be determined.
func FileVersion(info *types.Info, file *ast.File) string {
	// In tools built with Go >= 1.22, the Go version of a file
	// follow a cascades of sources:
	// 1) types.Info.FileVersion, which follows the cascade:
	//   1.a) file version (ast.File.GoVersion),
	//   1.b) the package version (types.Config.GoVersion), or
	// 2) is some unknown Future version.
	//
	// File versions require a valid package version to be provided to types
	// in Config.GoVersion. Config.GoVersion is either from the package's module
	// or the toolchain (go run). This value should be provided by go/packages
	// or unitchecker.Config.GoVersion.
	if v := info.FileVersions[file]; IsValid(v) {
		return v
	}
	// Note: we could instead return runtime.Version() [if valid].
	// This would act as a max version on what a tool can support.
	return Future
}
