// Copyright 2024 The Go Authors. All rights reserved.
// Use of this source code is governed by a BSD-style
// license that can be found in the LICENSE file.

package aliases

import (
	"go/token"
	"go/types"
)

// Package aliases defines backward compatible shims
// for the types.Alias type representation added in 1.22.
// This defines placeholders for x/tools until 1.26.

// NewAlias creates a new TypeName in Package pkg that
// is an alias for the type rhs.
//
// The enabled parameter determines whether the resulting [TypeName]'s
// type is an [types.Alias]. Its value must be the result of a call to
// [Enabled], which computes the effective value of
// GODEBUG=gotypesalias=... by invoking the type checker. The Enabled
// function is expensive and should be called once per task (e.g.
// package import), not once per call to NewAlias.
//
// Precondition: enabled || len(tparams)==0.
// If materialized aliases are disabled, there must not be any type parameters.
func NewAlias(enabled bool, pos token.Pos, pkg *types.Package, name string, rhs types.Type, tparams []*types.TypeParam) *types.TypeName {
	if enabled {
		tname := types.NewTypeName(pos, pkg, name, nil)
		SetTypeParams(types.NewAlias(tname, rhs), tparams)
		return tname
	}
	if len(tparams) > 0 {
		panic("cannot create an alias with type parameters when gotypesalias is not enabled")
	}
	return types.NewTypeName(pos, pkg, name, rhs)
}
