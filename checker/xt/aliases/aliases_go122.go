// Copyright 2024 The Go Authors. All rights reserved.
// Use of this source code is governed by a BSD-style
// license that can be found in the LICENSE file.

package aliases

import (
	"go/ast"
	"go/parser"
	"go/token"
	"go/types"
)

// Rhs returns the type on the right-hand side of the alias declaration.
func Rhs(alias *types.Alias) types.Type {
	if alias, ok := any(alias).(interface{ Rhs() types.Type }); ok {
		return alias.Rhs() // go1.23+
	}

	// go1.22's Alias didn't have the Rhs method,
	// so Unalias is the best we can do.
	return types.Unalias(alias)
}

// TypeParams returns the type parameter list of the alias.
func TypeParams(alias *types.Alias) *types.TypeParamList {
	if alias, ok := any(alias).(interface{ TypeParams() *types.TypeParamList }); ok {
		return alias.TypeParams() // go1.23+
	}
	return nil
}

// SetTypeParams sets the type parameters of the alias type.
func SetTypeParams(alias *types.Alias, tparams []*types.TypeParam) {
	if alias, ok := any(alias).(interface {
		SetTypeParams(tparams []*types.TypeParam)
	}); ok {
		alias.SetTypeParams(tparams) // go1.23+
	} else if len(tparams) > 0 {
		panic("cannot set type parameters of an Alias type in go1.22")
	}
}

// TypeArgs returns the type arguments used to instantiate the Alias type.
func TypeArgs(alias *types.Alias) *types.TypeList {
	if alias, ok := any(alias).(interface{ TypeArgs() *types.TypeList }); ok {
		return alias.TypeArgs() // go1.23+
	}
	return nil // empty (go1.22)
}

// Origin returns the generic Alias type of which alias is an instance.
// If alias is not an instance of a generic alias, Origin returns alias.
func Origin(alias *types.Alias) *types.Alias {
	if alias, ok := any(alias).(interface{ Origin() *types.Alias }); ok {
		return alias.Origin() // go1.23+
	}
	return alias // not an instance of a generic alias (go1.22)
}

// Enabled reports whether [NewAlias] should create [types.Alias] types.
//
// This function is expensive! Call it sparingly.
func Enabled() bool {
	// The only reliable way to compute the answer is to invoke go/types.
	// We don't parse the GODEBUG environment variable, because
	// (a) it's tricky to do so in a manner that is consistent
	//     with the godebug package; in particular, a simple
	//     substring check is not good enough. The value is a
	//     rightmost-wins list of options. But more importantly:
	// (b) it is impossible to detect changes to the effective
	//     setting caused by os.Setenv("GODEBUG"), as happens in
	//     many tests. Therefore any attempt to cache the result
	//     is just incorrect.
	fset := token.NewFileSet()
	f, _ := parser.ParseFile(fset, "a.go", "package p; type A = int", parser.SkipObjectResolution)
	pkg, _ := new(types.Config).Check("p", fset, []*ast.File{f}, nil)
	_, enabled := pkg.Scope().Lookup("A").Type().(*types.Alias)
	return enabled
}
