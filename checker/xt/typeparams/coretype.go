// Copyright 2022 The Go Authors. All rights reserved.
// Use of this source code is governed by a BSD-style
// license that can be found in the LICENSE file.

package typeparams

import (
	"fmt"
	"go/types"
)

// CoreType returns the core type of T or nil if T does not have a core type.
//
// See https://go.dev/ref/spec#Core_types for the definition of a core type.
func CoreType(T types.Type) types.Type {
	U := T.Underlying()
	if _, ok := U.(*types.Interface); !ok {
		return U // for non-interface types,
	}

	terms, err := NormalTerms(U)
	if len(terms) == 0 || err != nil {
		// len(terms) -> empty type set of interface.
		// err != nil => U is invalid, exceeds complexity bounds, or has an empty type set.
		return nil // no core type.
	}

	U = terms[0].Type().Underlying()
	var identical int // i in [0,identical) => Identical(U, terms[i].Type().Underlying())
	for identical = 1; identical < len(terms); identical++ {
		if !types.Identical(U, terms[identical].Type().Underlying()) {
			break
		}
	}

	if identical == len(terms) {
		// https://go.dev/ref/spec#Core_types
		// "There is a single type U which is the underlying type of all types in the type set of T"
		return U
	}
	ch, ok := U.(*types.Chan)
	if !ok {
		return nil // no core type as identical < len(terms) and U is not a channel.
	}
	// https://go.dev/ref/spec#Core_types
	// "the type chan E if T contains only bidirectional channels, or the type chan<- E or
	// <-chan E depending on the direction of the directional channels present."
	for chans := identical; chans < len(terms); chans++ {
		curr, ok := terms[chans].Type().Underlying().(*types.Chan)
		if !ok {
			return nil
		}
		if !types.Identical(ch.Elem(), curr.Elem()) {
			return nil // channel elements are not identical.
		}
		if ch.Dir() == types.SendRecv {
			// ch is bidirectional. We can safely always use curr's direction.
			ch = curr
		} else if curr.Dir() != types.SendRecv && ch.Dir() != curr.Dir() {
			// ch and curr are not bidirectional and not the same direction.
			return nil
		}
	}
	return ch
}

// NormalTerms returns a slice of terms representing the normalized structural
// type restrictions of a type, if any.
//
// For all types other than *types.TypeParam, *types.Interface, and
// *types.Union, this is just a single term with Tilde() == false and
// Type() == typ. For *types.TypeParam, *types.Interface, and *types.Union, see
// below.
//
// Structural type restrictions of a type parameter are created via
// non-interface types embedded in its constraint interface (directly, or via a
// chain of interface embeddings). For example, in the declaration type
// T[P interface{~int; m()}] int the structural restriction of the type
// parameter P is ~int.
//
// With interface embedding and unions, the specification of structural type
// restrictions may be arbitrarily complex. For example, consider the
// following:
//
//	type A interface{ ~string|~[]byte }
//
//	type B interface{ int|string }
//
//	type C interface { ~string|~int }
//
//	type T[P interface{ A|B; C }] int
//
// In this example, the structural type restriction of P is ~string|int: A|B
// expands to ~string|~[]byte|int|string, which reduces to ~string|~[]byte|int,
// which when intersected with C (~string|~int) yields ~string|int.
//
// NormalTerms computes these expansions and reductions, producing a
// "normalized" form of the embeddings. A structural restriction is normalized
// if it is a single union containing no interface terms, and is minimal in the
// sense that removing any term changes the set of types satisfying the
// constraint. It is left as a proof for the reader that, modulo sorting, there
// is exactly one such normalized form.
//
// Because the minimal representation always takes this form, NormalTerms
// returns a slice of tilde terms corresponding to the terms of the union in
// the normalized structural restriction. An error is returned if the type is
// invalid, exceeds complexity bounds, or has an empty type set. In the latter
// case, NormalTerms returns ErrEmptyTypeSet.
//
// NormalTerms makes no guarantees about the order of terms, except that it
// is deterministic.
func NormalTerms(typ types.Type) ([]*types.Term, error) {
	switch typ := typ.Underlying().(type) {
	case *types.TypeParam:
		return StructuralTerms(typ)
	case *types.Union:
		return UnionTermSet(typ)
	case *types.Interface:
		return InterfaceTermSet(typ)
	default:
		return []*types.Term{types.NewTerm(false, typ)}, nil
	}
}

// Deref returns the type of the variable pointed to by t,
// if t's core type is a pointer; otherwise it returns t.
//
// Do not assume that Deref(T)==T implies T is not a pointer:
// consider "type T *T", for example.
//
// TODO(adonovan): ideally this would live in typesinternal, but that
// creates an import cycle. Move there when we melt this package down.
func Deref(t types.Type) types.Type {
	if ptr, ok := CoreType(t).(*types.Pointer); ok {
		return ptr.Elem()
	}
	return t
}

// MustDeref returns the type of the variable pointed to by t.
// It panics if t's core type is not a pointer.
//
// TODO(adonovan): ideally this would live in typesinternal, but that
// creates an import cycle. Move there when we melt this package down.
func MustDeref(t types.Type) types.Type {
	if ptr, ok := CoreType(t).(*types.Pointer); ok {
		return ptr.Elem()
	}
	panic(fmt.Sprintf("%v is not a pointer", t))
}
