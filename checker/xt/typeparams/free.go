// Copyright 2024 The Go Authors. All rights reserved.
// Use of this source code is governed by a BSD-style
// license that can be found in the LICENSE file.

package typeparams

import (
	"go/types"

	"trzszlint/xt/aliases"
)

// Free is a memoization of the set of free type parameters within a
// type. It makes a sequence of calls to [Free.Has] for overlapping
// types more efficient. The zero value is ready for use.
//
// NOTE: Adapted from go/types/infer.go. If it is later exported, factor.
type Free struct {
	seen map[types.Type]bool
}

// Has reports whether the specified type has a free type parameter.
func (w *Free) Has(typ types.Type) (res bool) {
	// detect cycles
	if x, ok := w.seen[typ]; ok {
		return x
	}
	if w.seen == nil {
		w.seen = make(map[types.Type]bool)
	}
	w.seen[typ] = false
	defer func() {
		w.seen[typ] = res
	}()

	switch t := typ.(type) {
	case nil, *types.Basic: // TODO(gri) should nil be handled here?
		break

	case *types.Alias:
		if aliases.TypeParams(t).Len() > aliases.TypeArgs(t).Len() {
			return true // This is an uninstantiated Alias.
		}
		// The expansion of an alias can have free type parameters,
		// whether or not the alias itself has type parameters:
		//
		//   func _[K comparable]() {
		//     type Set      = map[K]bool // free(Set)      = {K}
		//     type MapTo[V] = map[K]V    // free(Map[foo]) = {V}
		//   }
		//
		// So, we must Unalias.
		return w.Has(types.Unalias(t))

	case *types.Array:
		return w.Has(t.Elem())

	case *types.Slice:
		return w.Has(t.Elem())

	case *types.Struct:
		for i, n := 0, t.NumFields(); i < n; i++ {
			if w.Has(t.Field(i).Type()) {
				return true
			}
		}

	case *types.Pointer:
		return w.Has(t.Elem())

	case *types.Tuple:
		n := t.Len()
		for i := 0; i < n; i++ {
			if w.Has(t.At(i).Type()) {
				return true
			}
		}

	case *types.Signature:
		// t.tparams may not be nil if we are looking at a signature
		// of a generic function type (or an interface method) that is
		// part of the type we're testing. We don't care about these type
		// parameters.
		// Similarly, the receiver of a method may declare (rather than
		// use) type parameters, we don't care about those either.
		// Thus, we only need to look at the input and result parameters.
		return w.Has(t.Params()) || w.Has(t.Results())

	case *types.Interface:
		for i, n := 0, t.NumMethods(); i < n; i++ {
			if w.Has(t.Method(i).Type()) {
				return true
			}
		}
		terms, err := InterfaceTermSet(t)
		if err != nil {
			return false // ill typed
		}
		for _, term := range terms {
			if w.Has(term.Type()) {
				return true
			}
		}

	case *types.Map:
		return w.Has(t.Key()) || w.Has(t.Elem())

	case *types.Chan:
		return w.Has(t.Elem())

	case *types.Named:
		args := t.TypeArgs()
		if params := t.TypeParams(); params.Len() > args.Len() {
			return true // this is an uninstantiated named type.
		}
		for i, n := 0, args.Len(); i < n; i++ {
			if w.Has(args.At(i)) {
				return true
			}
		}
		return w.Has(t.Underlying()) // recurse for types local to parameterized functions

	case *types.TypeParam:
		return true

	default:
		panic(t) // unreachable
	}

	return false
}
