// Copyright 2021 The Go Authors. All rights reserved.
// Use of this source code is governed by a BSD-style
// license that can be found in the LICENSE file.

// Package typeparams contains common utilities for writing tools that
// interact with generic Go code, as introduced with Go 1.18. It
// supplements the standard library APIs. Notably, the StructuralTerms
// API computes a minimal representation of the structural
// restrictions on a type parameter.
//
// An external version of these APIs is available in the
// golang.org/x/exp/typeparams module.
package typeparams

import (
	"go/ast"
	"go/token"
	"go/types"
)

// UnpackIndexExpr extracts data from AST nodes that represent index
// expressions.
//
// For an ast.IndexExpr, the resulting indices slice will contain exactly one
// index expression. For an ast.IndexListExpr (go1.18+), it may have a variable
// number of index expressions.
//
// For nodes that don't represent index expressions, the first return value of
// UnpackIndexExpr will be nil.
func UnpackIndexExpr(n ast.Node) (x ast.Expr, lbrack token.Pos, indices []ast.Expr, rbrack token.Pos) {
	switch e := n.(type) {
	case *ast.IndexExpr:
		return e.X, e.Lbrack, []ast.Expr{e.Index}, e.Rbrack
	case *ast.IndexListExpr:
		return e.X, e.Lbrack, e.Indices, e.Rbrack
	}
	return nil, token.NoPos, nil, token.NoPos
}

// PackIndexExpr returns an *ast.IndexExpr or *ast.IndexListExpr, depending on
// the cardinality of indices. Calling PackIndexExpr with len(indices) == 0
// will panic.
func PackIndexExpr(x ast.Expr, lbrack token.Pos, indices []ast.Expr, rbrack token.Pos) ast.Expr {
	switch len(indices) {
	case 0:
		panic("empty indices")
	case 1:
		return &ast.IndexExpr{
			X:      x,
			Lbrack: lbrack,
			Index:  indices[0],
			Rbrack: rbrack,
		}
	default:
		return &ast.IndexListExpr{
			X:       x,
			Lbrack:  lbrack,
			Indices: indices,
			Rbrack:  rbrack,
		}
	}
}

// IsTypeParam reports whether t is a type parameter (or an alias of one).
func IsTypeParam(t types.Type) bool {
	_, ok := types.Unalias(t).(*types.TypeParam)
	return ok
}
