// Copyright 2021 The Go Authors. All rights reserved.
// Use of this source code is governed by a BSD-style
// license that can be found in the LICENSE file.

package typeparams

import (
	"errors"
	"fmt"
	"go/types"
	"os"
	"strings"
)

//go:generate go run copytermlist.go

const debug = false

var ErrEmptyTypeSet = errors.New("empty type set")

// StructuralTerms returns a slice of terms representing the normalized
// structural type restrictions of a type parameter, if any.
//
// Structural type restrictions of a type parameter are created via
// non-interface types embedded in its constraint interface (directly, or via a
// chain of interface embeddings). For example, in the declaration
//
//	type T[P interface{~int; m()}] int
//
// the structural restriction of the type parameter P is ~int.
//
// With interface embedding and unions, the specification of structural type
// restrictions may be arbitrarily complex. For example, consider the
// following:
//
//	type A interface{ ~string|~[]byte }
//
//	type B interface{ int|string }
//
//	type C interface { ~string|~int }
//
//	type T[P interface{ A|B; C }] int
//
// In this example, the structural type restriction of P is ~string|int: A|B
// expands to ~string|~[]byte|int|string, which reduces to ~string|~[]byte|int,
// which when intersected with C (~string|~int) yields ~string|int.
//
// StructuralTerms computes these expansions and reductions, producing a
// "normalized" form of the embeddings. A structural restriction is normalized
// if it is a single union containing no interface terms, and is minimal in the
// sense that removing any term changes the set of types satisfying the
// constraint. It is left as a proof for the reader that, modulo sorting, there
// is exactly one such normalized form.
//
// Because the minimal representation always takes this form, StructuralTerms
// returns a slice of tilde terms corresponding to the terms of the union in
// the normalized structural restriction. An error is returned if the
// constraint interface is invalid, exceeds complexity bounds, or has an empty
// type set. In the latter case, StructuralTerms returns ErrEmptyTypeSet.
//
// StructuralTerms makes no guarantees about the order of terms, except that it
// is deterministic.
func StructuralTerms(tparam *types.TypeParam) ([]*types.Term, error) {
	constraint := tparam.Constraint()
	if constraint == nil {
		return nil, fmt.Errorf("%s has nil constraint", tparam)
	}
	iface, _ := constraint.Underlying().(*types.Interface)
	if iface == nil {
		return nil, fmt.Errorf("constraint is %T, not *types.Interface", constraint.Underlying())
	}
	return InterfaceTermSet(iface)
}

// InterfaceTermSet computes the normalized terms for a constraint interface,
// returning an error if the term set cannot be computed or is empty. In the
// latter case, the error will be ErrEmptyTypeSet.
//
// See the documentation of StructuralTerms for more information on
// normalization.
func InterfaceTermSet(iface *types.Interface) ([]*types.Term, error) {
	return computeTermSet(iface)
}

// UnionTermSet computes the normalized terms for a union, returning an error
// if the term set cannot be computed or is empty. In the latter case, the
// error will be ErrEmptyTypeSet.
//
// See the documentation of StructuralTerms for more information on
// normalization.
func UnionTermSet(union *types.Union) ([]*types.Term, error) {
	return computeTermSet(union)
}

func computeTermSet(typ types.Type) ([]*types.Term, error) {
	tset, err := computeTermSetInternal(typ, make(map[types.Type]*termSet), 0)
	if err != nil {
		return nil, err
	}
	if tset.terms.isEmpty() {
		return nil, ErrEmptyTypeSet
	}
	if tset.terms.isAll() {
		return nil, nil
	}
	var terms []*types.Term
	for _, term := range tset.terms {
		terms = append(terms, types.NewTerm(term.tilde, term.typ))
	}
	return terms, nil
}

// A termSet holds the normalized set of terms for a given type.
//
// The name termSet is intentionally distinct from 'type set': a type set is
// all types that implement a type (and includes method restrictions), whereas
// a term set just represents the structural restrictions on a type.
type termSet struct {
	complete bool
	terms    termlist
}

func indentf(depth int, format string, args ...interface{}) {
	fmt.Fprintf(os.Stderr, strings.Repeat(".", depth)+format+"\n", args...)
}

func computeTermSetInternal(t types.Type, seen map[types.Type]*termSet, depth int) (res *termSet, err error) {
	if t == nil {
		panic("nil type")
	}

	if debug {
		indentf(depth, "%s", t.String())
		defer func() {
			if err != nil {
				indentf(depth, "=> %s", err)
			} else {
				indentf(depth, "=> %s", res.terms.String())
			}
		}()
	}

	const maxTermCount = 100
	if tset, ok := seen[t]; ok {
		if !tset.complete {
			return nil, fmt.Errorf("cycle detected in the declaration of %s", t)
		}
		return tset, nil
	}

	// Mark the current type as seen to avoid infinite recursion.
	tset := new(termSet)
	defer func() {
		tset.complete = true
	}()
	seen[t] = tset

	switch u := t.Underlying().(type) {
	case *types.Interface:
		// The term set of an interface is the intersection of the term sets of its
		// embedded types.
		tset.terms = allTermlist
		for i := 0; i < u.NumEmbeddeds(); i++ {
			embedded := u.EmbeddedType(i)
			if _, ok := embedded.Underlying().(*types.TypeParam); ok {
				return nil, fmt.Errorf("invalid embedded type %T", embedded)
			}
			tset2, err := computeTermSetInternal(embedded, seen, depth+1)
			if err != nil {
				return nil, err
			}
			tset.terms = tset.terms.intersect(tset2.terms)
		}
	case *types.Union:
		// The term set of a union is the union of term sets of its terms.
		tset.terms = nil
		for i := 0; i < u.Len(); i++ {
			t := u.Term(i)
			var terms termlist
			switch t.Type().Underlying().(type) {
			case *types.Interface:
				tset2, err := computeTermSetInternal(t.Type(), seen, depth+1)
				if err != nil {
					return nil, err
				}
				terms = tset2.terms
			case *types.TypeParam, *types.Union:
				// A stand-alone type parameter or union is not permitted as union
				// term.
				return nil, fmt.Errorf("invalid union term %T", t)
			default:
				if t.Type() == types.Typ[types.Invalid] {
					continue
				}
				terms = termlist{{t.Tilde(), t.Type()}}
			}
			tset.terms = tset.terms.union(terms)
			if len(tset.terms) > maxTermCount {
				return nil, fmt.Errorf("exceeded max term count %d", maxTermCount)
			}
		}
	case *types.TypeParam:
		panic("unreachable")
	default:
		// For all other types, the term set is just a single non-tilde term
		// holding the type itself.
		if u != types.Typ[types.Invalid] {
			tset.terms = termlist{{false, t}}
		}
	}
	return tset, nil
}

// under is a facade for the go/types internal function of the same name. It is
// used by typeterm.go.
func under(t types.Type) types.Type {
	return t.Underlying()
}
