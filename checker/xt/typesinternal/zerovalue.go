// Copyright 2024 The Go Authors. All rights reserved.
// Use of this source code is governed by a BSD-style
// license that can be found in the LICENSE file.

package typesinternal

import (
	"fmt"
	"go/ast"
	"go/token"
	"go/types"
	"strings"
)

// ZeroString returns the string representation of the zero value for any type t.
// The boolean result indicates whether the type is or contains an invalid type
// or a non-basic (constraint) interface type.
//
// Even for invalid input types, ZeroString may return a partially correct
// string representation. The caller should use the returned isValid boolean
// to determine the validity of the expression.
//
// When assigning to a wider type (such as 'any'), it's the caller's
// responsibility to handle any necessary type conversions.
//
// This string can be used on the right-hand side of an assignment where the
// left-hand side has that explicit type.
// References to named types are qualified by an appropriate (optional)
// qualifier function.
// Exception: This does not apply to tuples. Their string representation is
// informational only and cannot be used in an assignment.
//
// See [ZeroExpr] for a variant that returns an [ast.Expr].
func ZeroString(t types.Type, qual types.Qualifier) (_ string, isValid bool) {
	switch t := t.(type) {
	case *types.Basic:
		switch {
		case t.Info()&types.IsBoolean != 0:
			return "false", true
		case t.Info()&types.IsNumeric != 0:
			return "0", true
		case t.Info()&types.IsString != 0:
			return `""`, true
		case t.Kind() == types.UnsafePointer:
			fallthrough
		case t.Kind() == types.UntypedNil:
			return "nil", true
		case t.Kind() == types.Invalid:
			return "invalid", false
		default:
			panic(fmt.Sprintf("ZeroString for unexpected type %v", t))
		}

	case *types.Pointer, *types.Slice, *types.Chan, *types.Map, *types.Signature:
		return "nil", true

	case *types.Interface:
		if !t.IsMethodSet() {
			return "invalid", false
		}
		return "nil", true

	case *types.Named:
		switch under := t.Underlying().(type) {
		case *types.Struct, *types.Array:
			return types.TypeString(t, qual) + "{}", true
		default:
			return ZeroString(under, qual)
		}

	case *types.Alias:
		switch t.Underlying().(type) {
		case *types.Struct, *types.Array:
			return types.TypeString(t, qual) + "{}", true
		default:
			// A type parameter can have alias but alias type's underlying type
			// can never be a type parameter.
			// Use types.Unalias to preserve the info of type parameter instead
			// of call Underlying() going right through and get the underlying
			// type of the type parameter which is always an interface.
			return ZeroString(types.Unalias(t), qual)
		}

	case *types.Array, *types.Struct:
		return types.TypeString(t, qual) + "{}", true

	case *types.TypeParam:
		// Assumes func new is not shadowed.
		return "*new(" + types.TypeString(t, qual) + ")", true

	case *types.Tuple:
		// Tuples are not normal values.
		// We are currently format as "(t[0], ..., t[n])". Could be something else.
		isValid := true
		components := make([]string, t.Len())
		for i := 0; i < t.Len(); i++ {
			comp, ok := ZeroString(t.At(i).Type(), qual)

			components[i] = comp
			isValid = isValid && ok
		}
		return "(" + strings.Join(components, ", ") + ")", isValid

	case *types.Union:
		// Variables of these types cannot be created, so it makes
		// no sense to ask for their zero value.
		panic(fmt.Sprintf("invalid type for a variable: %v", t))

	default:
		panic(t) // unreachable.
	}
}

// ZeroExpr returns the ast.Expr representation of the zero value for any type t.
// The boolean result indicates whether the type is or contains an invalid type
// or a non-basic (constraint) interface type.
//
// Even for invalid input types, ZeroExpr may return a partially correct ast.Expr
// representation. The caller should use the returned isValid boolean to determine
// the validity of the expression.
//
// This function is designed for types suitable for variables and should not be
// used with Tuple or Union types.References to named types are qualified by an
// appropriate (optional) qualifier function.
//
// See [ZeroString] for a variant that returns a string.
func ZeroExpr(t types.Type, qual types.Qualifier) (_ ast.Expr, isValid bool) {
	switch t := t.(type) {
	case *types.Basic:
		switch {
		case t.Info()&types.IsBoolean != 0:
			return &ast.Ident{Name: "false"}, true
		case t.Info()&types.IsNumeric != 0:
			return &ast.BasicLit{Kind: token.INT, Value: "0"}, true
		case t.Info()&types.IsString != 0:
			return &ast.BasicLit{Kind: token.STRING, Value: `""`}, true
		case t.Kind() == types.UnsafePointer:
			fallthrough
		case t.Kind() == types.UntypedNil:
			return ast.NewIdent("nil"), true
		case t.Kind() == types.Invalid:
			return &ast.BasicLit{Kind: token.STRING, Value: `"invalid"`}, false
		default:
			panic(fmt.Sprintf("ZeroExpr for unexpected type %v", t))
		}

	case *types.Pointer, *types.Slice, *types.Chan, *types.Map, *types.Signature:
		return ast.NewIdent("nil"), true

	case *types.Interface:
		if !t.IsMethodSet() {
			return &ast.BasicLit{Kind: token.STRING, Value: `"invalid"`}, false
		}
		return ast.NewIdent("nil"), true

	case *types.Named:
		switch under := t.Underlying().(type) {
		case *types.Struct, *types.Array:
			return &ast.CompositeLit{
				Type: TypeExpr(t, qual),
			}, true
		default:
			return ZeroExpr(under, qual)
		}

	case *types.Alias:
		switch t.Underlying().(type) {
		case *types.Struct, *types.Array:
			return &ast.CompositeLit{
				Type: TypeExpr(t, qual),
			}, true
		default:
			return ZeroExpr(types.Unalias(t), qual)
		}

	case *types.Array, *types.Struct:
		return &ast.CompositeLit{
			Type: TypeExpr(t, qual),
		}, true

	case *types.TypeParam:
		return &ast.StarExpr{ // *new(T)
			X: &ast.CallExpr{
				// Assumes func new is not shadowed.
				Fun: ast.NewIdent("new"),
				Args: []ast.Expr{
					ast.NewIdent(t.Obj().Name()),
				},
			},
		}, true

	case *types.Tuple:
		// Unlike ZeroString, there is no ast.Expr can express tuple by
		// "(t[0], ..., t[n])".
		panic(fmt.Sprintf("invalid type for a variable: %v", t))

	case *types.Union:
		// Variables of these types cannot be created, so it makes
		// no sense to ask for their zero value.
		panic(fmt.Sprintf("invalid type for a variable: %v", t))

	default:
		panic(t) // unreachable.
	}
}

// IsZeroExpr uses simple syntactic heuristics to report whether expr
// is a obvious zero value, such as 0, "", nil, or false.
// It cannot do better without type information.
func IsZeroExpr(expr ast.Expr) bool {
	switch e := expr.(type) {
	case *ast.BasicLit:
		return e.Value == "0" || e.Value == `""`
	case *ast.Ident:
		return e.Name == "nil" || e.Name == "false"
	default:
		return false
	}
}

// TypeExpr returns syntax for the specified type. References to named types
// are qualified by an appropriate (optional) qualifier function.
// It may panic for types such as Tuple or Union.
func TypeExpr(t types.Type, qual types.Qualifier) ast.Expr {
	switch t := t.(type) {
	case *types.Basic:
		switch t.Kind() {
		case types.UnsafePointer:
			return &ast.SelectorExpr{X: ast.NewIdent(qual(types.NewPackage("unsafe", "unsafe"))), Sel: ast.NewIdent("Pointer")}
		default:
			return ast.NewIdent(t.Name())
		}

	case *types.Pointer:
		return &ast.UnaryExpr{
			Op: token.MUL,
			X:  TypeExpr(t.Elem(), qual),
		}

	case *types.Array:
		return &ast.ArrayType{
			Len: &ast.BasicLit{
				Kind:  token.INT,
				Value: fmt.Sprintf("%d", t.Len()),
			},
			Elt: TypeExpr(t.Elem(), qual),
		}

	case *types.Slice:
		return &ast.ArrayType{
			Elt: TypeExpr(t.Elem(), qual),
		}

	case *types.Map:
		return &ast.MapType{
			Key:   TypeExpr(t.Key(), qual),
			Value: TypeExpr(t.Elem(), qual),
		}

	case *types.Chan:
		dir := ast.ChanDir(t.Dir())
		if t.Dir() == types.SendRecv {
			dir = ast.SEND | ast.RECV
		}
		return &ast.ChanType{
			Dir:   dir,
			Value: TypeExpr(t.Elem(), qual),
		}

	case *types.Signature:
		var params []*ast.Field
		for i := 0; i < t.Params().Len(); i++ {
			params = append(params, &ast.Field{
				Type: TypeExpr(t.Params().At(i).Type(), qual),
				Names: []*ast.Ident{
					{
						Name: t.Params().At(i).Name(),
					},
				},
			})
		}
		if t.Variadic() {
			last := params[len(params)-1]
			last.Type = &ast.Ellipsis{Elt: last.Type.(*ast.ArrayType).Elt}
		}
		var returns []*ast.Field
		for i := 0; i < t.Results().Len(); i++ {
			returns = append(returns, &ast.Field{
				Type: TypeExpr(t.Results().At(i).Type(), qual),
			})
		}
		return &ast.FuncType{
			Params: &ast.FieldList{
				List: params,
			},
			Results: &ast.FieldList{
				List: returns,
			},
		}

	case *types.TypeParam:
		pkgName := qual(t.Obj().Pkg())
		if pkgName == "" || t.Obj().Pkg() == nil {
			return ast.NewIdent(t.Obj().Name())
		}
		return &ast.SelectorExpr{
			X:   ast.NewIdent(pkgName),
			Sel: ast.NewIdent(t.Obj().Name()),
		}

	// types.TypeParam also implements interface NamedOrAlias. To differentiate,
	// case TypeParam need to be present before case NamedOrAlias.
	// TODO(hxjiang): remove this comment once TypeArgs() is added to interface
	// NamedOrAlias.
	case NamedOrAlias:
		var expr ast.Expr = ast.NewIdent(t.Obj().Name())
		if pkgName := qual(t.Obj().Pkg()); pkgName != "." && pkgName != "" {
			expr = &ast.SelectorExpr{
				X:   ast.NewIdent(pkgName),
				Sel: expr.(*ast.Ident),
			}
		}

		// TODO(hxjiang): call t.TypeArgs after adding method TypeArgs() to
		// typesinternal.NamedOrAlias.
		if hasTypeArgs, ok := t.(interface{ TypeArgs() *types.TypeList }); ok {
			if typeArgs := hasTypeArgs.TypeArgs(); typeArgs != nil && typeArgs.Len() > 0 {
				var indices []ast.Expr
				for i := range typeArgs.Len() {
					indices = append(indices, TypeExpr(typeArgs.At(i), qual))
				}
				expr = &ast.IndexListExpr{
					X:       expr,
					Indices: indices,
				}
			}
		}

		return expr

	case *types.Struct:
		return ast.NewIdent(t.String())

	case *types.Interface:
		return ast.NewIdent(t.String())

	case *types.Union:
		if t.Len() == 0 {
			panic("Union type should have at least one term")
		}
		// Same as go/ast, the return expression will put last term in the
		// Y field at topmost level of BinaryExpr.
		// For union of type "float32 | float64 | int64", the structure looks
		// similar to:
		// {
		// 	X: {
		// 		X: float32,
		// 		Op: |
		// 		Y: float64,
		// 	}
		// 	Op: |,
		// 	Y: int64,
		// }
		var union ast.Expr
		for i := range t.Len() {
			term := t.Term(i)
			termExpr := TypeExpr(term.Type(), qual)
			if term.Tilde() {
				termExpr = &ast.UnaryExpr{
					Op: token.TILDE,
					X:  termExpr,
				}
			}
			if i == 0 {
				union = termExpr
			} else {
				union = &ast.BinaryExpr{
					X:  union,
					Op: token.OR,
					Y:  termExpr,
				}
			}
		}
		return union

	case *types.Tuple:
		panic("invalid input type types.Tuple")

	default:
		panic("unreachable")
	}
}
