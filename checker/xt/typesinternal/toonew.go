// Copyright 2024 The Go Authors. All rights reserved.
// Use of this source code is governed by a BSD-style
// license that can be found in the LICENSE file.

package typesinternal

import (
	"go/types"

	"trzszlint/xt/stdlib"
	"trzszlint/xt/versions"
)

// TooNewStdSymbols computes the set of package-level symbols
// exported by pkg that are not available at the specified version.
// The result maps each symbol to its minimum version.
//
// The pkg is allowed to contain type errors.
func TooNewStdSymbols(pkg *types.Package, version string) map[types.Object]string {
	disallowed := make(map[types.Object]string)

	// Pass 1: package-level symbols.
	symbols := stdlib.PackageSymbols[pkg.Path()]
	for _, sym := range symbols {
		symver := sym.Version.String()
		if versions.Before(version, symver) {
			switch sym.Kind {
			case stdlib.Func, stdlib.Var, stdlib.Const, stdlib.Type:
				disallowed[pkg.Scope().Lookup(sym.Name)] = symver
			}
		}
	}

	// Pass 2: fields and methods.
	//
	// We allow fields and methods if their associated type is
	// disallowed, as otherwise we would report false positives
	// for compatibility shims. Consider:
	//
	//   //go:build go1.22
	//   type T struct { F std.Real } // correct new API
	//
	//   //go:build !go1.22
	//   type T struct { F fake } // shim
	//   type fake struct { ... }
	//   func (fake) M () {}
	//
	// These alternative declarations of T use either the std.Real
	// type, introduced in go1.22, or a fake type, for the field
	// F. (The fakery could be arbitrarily deep, involving more
	// nested fields and methods than are shown here.) Clients
	// that use the compatibility shim T will compile with any
	// version of go, whether older or newer than go1.22, but only
	// the newer version will use the std.Real implementation.
	//
	// Now consider a reference to method M in new(T).F.M() in a
	// module that requires a minimum of go1.21. The analysis may
	// occur using a version of Go higher than 1.21, selecting the
	// first version of T, so the method M is Real.M. This would
	// spuriously cause the analyzer to report a reference to a
	// too-new symbol even though this expression compiles just
	// fine (with the fake implementation) using go1.21.
	for _, sym := range symbols {
		symVersion := sym.Version.String()
		if !versions.Before(version, symVersion) {
			continue // allowed
		}

		var obj types.Object
		switch sym.Kind {
		case stdlib.Field:
			typename, name := sym.SplitField()
			if t := pkg.Scope().Lookup(typename); t != nil && disallowed[t] == "" {
				obj, _, _ = types.LookupFieldOrMethod(t.Type(), false, pkg, name)
			}

		case stdlib.Method:
			ptr, recvname, name := sym.SplitMethod()
			if t := pkg.Scope().Lookup(recvname); t != nil && disallowed[t] == "" {
				obj, _, _ = types.LookupFieldOrMethod(t.Type(), ptr, pkg, name)
			}
		}
		if obj != nil {
			disallowed[obj] = symVersion
		}
	}

	return disallowed
}
