// Copyright 2024 The Go Authors. All rights reserved.
// Use of this source code is governed by a BSD-style
// license that can be found in the LICENSE file.

package typesinternal

import (
	"fmt"
	"go/types"

	"golang.org/x/tools/go/types/typeutil"
)

// ForEachElement calls f for type T and each type reachable from its
// type through reflection. It does this by recursively stripping off
// type constructors; in addition, for each named type N, the type *N
// is added to the result as it may have additional methods.
//
// The caller must provide an initially empty set used to de-duplicate
// identical types, potentially across multiple calls to ForEachElement.
// (Its final value holds all the elements seen, matching the arguments
// passed to f.)
//
// TODO(adonovan): share/harmonize with go/callgraph/rta.
func ForEachElement(rtypes *typeutil.Map, msets *typeutil.MethodSetCache, T types.Type, f func(types.Type)) {
	var visit func(T types.Type, skip bool)
	visit = func(T types.Type, skip bool) {
		if !skip {
			if seen, _ := rtypes.Set(T, true).(bool); seen {
				return // de-dup
			}

			f(T) // notify caller of new element type
		}

		// Recursion over signatures of each method.
		tmset := msets.MethodSet(T)
		for i := 0; i < tmset.Len(); i++ {
			sig := tmset.At(i).Type().(*types.Signature)
			// It is tempting to call visit(sig, false)
			// but, as noted in golang.org/cl/65450043,
			// the Signature.Recv field is ignored by
			// types.Identical and typeutil.Map, which
			// is confusing at best.
			//
			// More importantly, the true signature rtype
			// reachable from a method using reflection
			// has no receiver but an extra ordinary parameter.
			// For the Read method of io.Reader we want:
			//   func(Reader, []byte) (int, error)
			// but here sig is:
			//   func([]byte) (int, error)
			// with .Recv = Reader (though it is hard to
			// notice because it doesn't affect Signature.String
			// or types.Identical).
			//
			// TODO(adonovan): construct and visit the correct
			// non-method signature with an extra parameter
			// (though since unnamed func types have no methods
			// there is essentially no actual demand for this).
			//
			// TODO(adonovan): document whether or not it is
			// safe to skip non-exported methods (as RTA does).
			visit(sig.Params(), true)  // skip the Tuple
			visit(sig.Results(), true) // skip the Tuple
		}

		switch T := T.(type) {
		case *types.Alias:
			visit(types.Unalias(T), skip) // emulates the pre-Alias behavior

		case *types.Basic:
			// nop

		case *types.Interface:
			// nop---handled by recursion over method set.

		case *types.Pointer:
			visit(T.Elem(), false)

		case *types.Slice:
			visit(T.Elem(), false)

		case *types.Chan:
			visit(T.Elem(), false)

		case *types.Map:
			visit(T.Key(), false)
			visit(T.Elem(), false)

		case *types.Signature:
			if T.Recv() != nil {
				panic(fmt.Sprintf("Signature %s has Recv %s", T, T.Recv()))
			}
			visit(T.Params(), true)  // skip the Tuple
			visit(T.Results(), true) // skip the Tuple

		case *types.Named:
			// A pointer-to-named type can be derived from a named
			// type via reflection.  It may have methods too.
			visit(types.NewPointer(T), false)

			// Consider 'type T struct{S}' where S has methods.
			// Reflection provides no way to get from T to struct{S},
			// only to S, so the method set of struct{S} is unwanted,
			// so set 'skip' flag during recursion.
			visit(T.Underlying(), true) // skip the unnamed type

		case *types.Array:
			visit(T.Elem(), false)

		case *types.Struct:
			for i, n := 0, T.NumFields(); i < n; i++ {
				// TODO(adonovan): document whether or not
				// it is safe to skip non-exported fields.
				visit(T.Field(i).Type(), false)
			}

		case *types.Tuple:
			for i, n := 0, T.Len(); i < n; i++ {
				visit(T.At(i).Type(), false)
			}

		case *types.TypeParam, *types.Union:
			// forEachReachable must not be called on parameterized types.
			panic(T)

		default:
			panic(T)
		}
	}
	visit(T, false)
}
