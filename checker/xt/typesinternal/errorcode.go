// Copyright 2020 The Go Authors. All rights reserved.
// Use of this source code is governed by a BSD-style
// license that can be found in the LICENSE file.

package typesinternal

//go:generate stringer -type=ErrorCode

type ErrorCode int

// This file defines the error codes that can be produced during type-checking.
// Collectively, these codes provide an identifier that may be used to
// implement special handling for certain types of errors.
//
// Error codes should be fine-grained enough that the exact nature of the error
// can be easily determined, but coarse enough that they are not an
// implementation detail of the type checking algorithm. As a rule-of-thumb,
// errors should be considered equivalent if there is a theoretical refactoring
// of the type checker in which they are emitted in exactly one place. For
// example, the type checker emits different error messages for "too many
// arguments" and "too few arguments", but one can imagine an alternative type
// checker where this check instead just emits a single "wrong number of
// arguments", so these errors should have the same code.
//
// Error code names should be as brief as possible while retaining accuracy and
// distinctiveness. In most cases names should start with an adjective
// describing the nature of the error (e.g. "invalid", "unused", "misplaced"),
// and end with a noun identifying the relevant language object. For example,
// "DuplicateDecl" or "InvalidSliceExpr". For brevity, naming follows the
// convention that "bad" implies a problem with syntax, and "invalid" implies a
// problem with types.

const (
	// InvalidSyntaxTree occurs if an invalid syntax tree is provided
	// to the type checker. It should never happen.
	InvalidSyntaxTree ErrorCode = -1
)

const (
	_ ErrorCode = iota

	// Test is reserved for errors that only apply while in self-test mode.
	Test

	/* package names */

	// BlankPkgName occurs when a package name is the blank identifier "_".
	//
	// Per the spec:
	//  "The PackageName must not be the blank identifier."
	BlankPkgName

	// MismatchedPkgName occurs when a file's package name doesn't match the
	// package name already established by other files.
	MismatchedPkgName

	// InvalidPkgUse occurs when a package identifier is used outside of a
	// selector expression.
	//
	// Example:
	//  import "fmt"
	//
	//  var _ = fmt
	InvalidPkgUse

	/* imports */

	// BadImportPath occurs when an import path is not valid.
	BadImportPath

	// BrokenImport occurs when importing a package fails.
	//
	// Example:
	//  import "amissingpackage"
	BrokenImport

	// ImportCRenamed occurs when the special import "C" is renamed. "C" is a
	// pseudo-package, and must not be renamed.
	//
	// Example:
	//  import _ "C"
	ImportCRenamed

	// UnusedImport occurs when an import is unused.
	//
	// Example:
	//  import "fmt"
	//
	//  func main() {}
	UnusedImport

	/* initialization */

	// InvalidInitCycle occurs when an invalid cycle is detected within the
	// initialization graph.
	//
	// Example:
	//  var x int = f()
	//
	//  func f() int { return x }
	InvalidInitCycle

	/* decls */

	// DuplicateDecl occurs when an identifier is declared multiple times.
	//
	// Example:
	//  var x = 1
	//  var x = 2
	DuplicateDecl

	// InvalidDeclCycle occurs when a declaration cycle is not valid.
	//
	// Example:
	//  import "unsafe"
	//
	//  type T struct {
	//  	a [n]int
	//  }
	//
	//  var n = unsafe.Sizeof(T{})
	InvalidDeclCycle

	// InvalidTypeCycle occurs when a cycle in type definitions results in a
	// type that is not well-defined.
	//
	// Example:
	//  import "unsafe"
	//
	//  type T [unsafe.Sizeof(T{})]int
	InvalidTypeCycle

	/* decls > const */

	// InvalidConstInit occurs when a const declaration has a non-constant
	// initializer.
	//
	// Example:
	//  var x int
	//  const _ = x
	InvalidConstInit

	// InvalidConstVal occurs when a const value cannot be converted to its
	// target type.
	//
	// TODO(findleyr): this error code and example are not very clear. Consider
	// removing it.
	//
	// Example:
	//  const _ = 1 << "hello"
	InvalidConstVal

	// InvalidConstType occurs when the underlying type in a const declaration
	// is not a valid constant type.
	//
	// Example:
	//  const c *int = 4
	InvalidConstType

	/* decls > var (+ other variable assignment codes) */

	// UntypedNilUse occurs when the predeclared (untyped) value nil is used to
	// initialize a variable declared without an explicit type.
	//
	// Example:
	//  var x = nil
	UntypedNilUse

	// WrongAssignCount occurs when the number of values on the right-hand side
	// of an assignment or initialization expression does not match the number
	// of variables on the left-hand side.
	//
	// Example:
	//  var x = 1, 2
	WrongAssignCount

	// UnassignableOperand occurs when the left-hand side of an assignment is
	// not assignable.
	//
	// Example:
	//  func f() {
	//  	const c = 1
	//  	c = 2
	//  }
	UnassignableOperand

	// NoNewVar occurs when a short variable declaration (':=') does not declare
	// new variables.
	//
	// Example:
	//  func f() {
	//  	x := 1
	//  	x := 2
	//  }
	NoNewVar

	// MultiValAssignOp occurs when an assignment operation (+=, *=, etc) does
	// not have single-valued left-hand or right-hand side.
	//
	// Per the spec:
	//  "In assignment operations, both the left- and right-hand expression lists
	//  must contain exactly one single-valued expression"
	//
	// Example:
	//  func f() int {
	//  	x, y := 1, 2
	//  	x, y += 1
	//  	return x + y
	//  }
	MultiValAssignOp

	// InvalidIfaceAssign occurs when a value of type T is used as an
	// interface, but T does not implement a method of the expected interface.
	//
	// Example:
	//  type I interface {
	//  	f()
	//  }
	//
	//  type T int
	//
	//  var x I = T(1)
	InvalidIfaceAssign

	// InvalidChanAssign occurs when a chan assignment is invalid.
	//
	// Per the spec, a value x is assignable to a channel type T if:
	//  "x is a bidirectional channel value, T is a channel type, x's type V and
	//  T have identical element types, and at least one of V or T is not a
	//  defined type."
	//
	// Example:
	//  type T1 chan int
	//  type T2 chan int
	//
	//  var x T1
	//  // Invalid assignment because both types are named
	//  var _ T2 = x
	InvalidChanAssign

	// IncompatibleAssign occurs when the type of the right-hand side expression
	// in an assignment cannot be assigned to the type of the variable being
	// assigned.
	//
	// Example:
	//  var x []int
	//  var _ int = x
	IncompatibleAssign

	// UnaddressableFieldAssign occurs when trying to assign to a struct field
	// in a map value.
	//
	// Example:
	//  func f() {
	//  	m := make(map[string]struct{i int})
	//  	m["foo"].i = 42
	//  }
	UnaddressableFieldAssign

	/* decls > type (+ other type expression codes) */

	// NotAType occurs when the identifier used as the underlying type in a type
	// declaration or the right-hand side of a type alias does not denote a type.
	//
	// Example:
	//  var S = 2
	//
	//  type T S
	NotAType

	// InvalidArrayLen occurs when an array length is not a constant value.
	//
	// Example:
	//  var n = 3
	//  var _ = [n]int{}
	InvalidArrayLen

	// BlankIfaceMethod occurs when a method name is '_'.
	//
	// Per the spec:
	//  "The name of each explicitly specified method must be unique and not
	//  blank."
	//
	// Example:
	//  type T interface {
	//  	_(int)
	//  }
	BlankIfaceMethod

	// IncomparableMapKey occurs when a map key type does not support the == and
	// != operators.
	//
	// Per the spec:
	//  "The comparison operators == and != must be fully defined for operands of
	//  the key type; thus the key type must not be a function, map, or slice."
	//
	// Example:
	//  var x map[T]int
	//
	//  type T []int
	IncomparableMapKey

	// InvalidIfaceEmbed occurs when a non-interface type is embedded in an
	// interface.
	//
	// Example:
	//  type T struct {}
	//
	//  func (T) m()
	//
	//  type I interface {
	//  	T
	//  }
	InvalidIfaceEmbed

	// InvalidPtrEmbed occurs when an embedded field is of the pointer form *T,
	// and T itself is itself a pointer, an unsafe.Pointer, or an interface.
	//
	// Per the spec:
	//  "An embedded field must be specified as a type name T or as a pointer to
	//  a non-interface type name *T, and T itself may not be a pointer type."
	//
	// Example:
	//  type T *int
	//
	//  type S struct {
	//  	*T
	//  }
	InvalidPtrEmbed

	/* decls > func and method */

	// BadRecv occurs when a method declaration does not have exactly one
	// receiver parameter.
	//
	// Example:
	//  func () _() {}
	BadRecv

	// InvalidRecv occurs when a receiver type expression is not of the form T
	// or *T, or T is a pointer type.
	//
	// Example:
	//  type T struct {}
	//
	//  func (**T) m() {}
	InvalidRecv

	// DuplicateFieldAndMethod occurs when an identifier appears as both a field
	// and method name.
	//
	// Example:
	//  type T struct {
	//  	m int
	//  }
	//
	//  func (T) m() {}
	DuplicateFieldAndMethod

	// DuplicateMethod occurs when two methods on the same receiver type have
	// the same name.
	//
	// Example:
	//  type T struct {}
	//  func (T) m() {}
	//  func (T) m(i int) int { return i }
	DuplicateMethod

	/* decls > special */

	// InvalidBlank occurs when a blank identifier is used as a value or type.
	//
	// Per the spec:
	//  "The blank identifier may appear as an operand only on the left-hand side
	//  of an assignment."
	//
	// Example:
	//  var x = _
	InvalidBlank

	// InvalidIota occurs when the predeclared identifier iota is used outside
	// of a constant declaration.
	//
	// Example:
	//  var x = iota
	InvalidIota

	// MissingInitBody occurs when an init function is missing its body.
	//
	// Example:
	//  func init()
	MissingInitBody

	// InvalidInitSig occurs when an init function declares parameters or
	// results.
	//
	// Example:
	//  func init() int { return 1 }
	InvalidInitSig

	// InvalidInitDecl occurs when init is declared as anything other than a
	// function.
	//
	// Example:
	//  var init = 1
	InvalidInitDecl

	// InvalidMainDecl occurs when main is declared as anything other than a
	// function, in a main package.
	InvalidMainDecl

	/* exprs */

	// TooManyValues occurs when a function returns too many values for the
	// expression context in which it is used.
	//
	// Example:
	//  func ReturnTwo() (int, int) {
	//  	return 1, 2
	//  }
	//
	//  var x = ReturnTwo()
	TooManyValues

	// NotAnExpr occurs when a type expression is used where a value expression
	// is expected.
	//
	// Example:
	//  type T struct {}
	//
	//  func f() {
	//  	T
	//  }
	NotAnExpr

	/* exprs > const */

	// TruncatedFloat occurs when a float constant is truncated to an integer
	// value.
	//
	// Example:
	//  var _ int = 98.6
	TruncatedFloat

	// NumericOverflow occurs when a numeric constant overflows its target type.
	//
	// Example:
	//  var x int8 = 1000
	NumericOverflow

	/* exprs > operation */

	// UndefinedOp occurs when an operator is not defined for the type(s) used
	// in an operation.
	//
	// Example:
	//  var c = "a" - "b"
	UndefinedOp

	// MismatchedTypes occurs when operand types are incompatible in a binary
	// operation.
	//
	// Example:
	//  var a = "hello"
	//  var b = 1
	//  var c = a - b
	MismatchedTypes

	// DivByZero occurs when a division operation is provable at compile
	// time to be a division by zero.
	//
	// Example:
	//  const divisor = 0
	//  var x int = 1/divisor
	DivByZero

	// NonNumericIncDec occurs when an increment or decrement operator is
	// applied to a non-numeric value.
	//
	// Example:
	//  func f() {
	//  	var c = "c"
	//  	c++
	//  }
	NonNumericIncDec

	/* exprs > ptr */

	// UnaddressableOperand occurs when the & operator is applied to an
	// unaddressable expression.
	//
	// Example:
	//  var x = &1
	UnaddressableOperand

	// InvalidIndirection occurs when a non-pointer value is indirected via the
	// '*' operator.
	//
	// Example:
	//  var x int
	//  var y = *x
	InvalidIndirection

	/* exprs > [] */

	// NonIndexableOperand occurs when an index operation is applied to a value
	// that cannot be indexed.
	//
	// Example:
	//  var x = 1
	//  var y = x[1]
	NonIndexableOperand

	// InvalidIndex occurs when an index argument is not of integer type,
	// negative, or out-of-bounds.
	//
	// Example:
	//  var s = [...]int{1,2,3}
	//  var x = s[5]
	//
	// Example:
	//  var s = []int{1,2,3}
	//  var _ = s[-1]
	//
	// Example:
	//  var s = []int{1,2,3}
	//  var i string
	//  var _ = s[i]
	InvalidIndex

	// SwappedSliceIndices occurs when constant indices in a slice expression
	// are decreasing in value.
	//
	// Example:
	//  var _ = []int{1,2,3}[2:1]
	SwappedSliceIndices

	/* operators > slice */

	// NonSliceableOperand occurs when a slice operation is applied to a value
	// whose type is not sliceable, or is unaddressable.
	//
	// Example:
	//  var x = [...]int{1, 2, 3}[:1]
	//
	// Example:
	//  var x = 1
	//  var y = 1[:1]
	NonSliceableOperand

	// InvalidSliceExpr occurs when a three-index slice expression (a[x:y:z]) is
	// applied to a string.
	//
	// Example:
	//  var s = "hello"
	//  var x = s[1:2:3]
	InvalidSliceExpr

	/* exprs > shift */

	// InvalidShiftCount occurs when the right-hand side of a shift operation is
	// either non-integer, negative, or too large.
	//
	// Example:
	//  var (
	//  	x string
	//  	y int = 1 << x
	//  )
	InvalidShiftCount

	// InvalidShiftOperand occurs when the shifted operand is not an integer.
	//
	// Example:
	//  var s = "hello"
	//  var x = s << 2
	InvalidShiftOperand

	/* exprs > chan */

	// InvalidReceive occurs when there is a channel receive from a value that
	// is either not a channel, or is a send-only channel.
	//
	// Example:
	//  func f() {
	//  	var x = 1
	//  	<-x
	//  }
	InvalidReceive

	// InvalidSend occurs when there is a channel send to a value that is not a
	// channel, or is a receive-only channel.
	//
	// Example:
	//  func f() {
	//  	var x = 1
	//  	x <- "hello!"
	//  }
	InvalidSend

	/* exprs > literal */

	// DuplicateLitKey occurs when an index is duplicated in a slice, array, or
	// map literal.
	//
	// Example:
	//  var _ = []int{0:1, 0:2}
	//
	// Example:
	//  var _ = map[string]int{"a": 1, "a": 2}
	DuplicateLitKey

	// MissingLitKey occurs when a map literal is missing a key expression.
	//
	// Example:
	//  var _ = map[string]int{1}
	MissingLitKey

	// InvalidLitIndex occurs when the key in a key-value element of a slice or
	// array literal is not an integer constant.
	//
	// Example:
	//  var i = 0
	//  var x = []string{i: "world"}
	InvalidLitIndex

	// OversizeArrayLit occurs when an array literal exceeds its length.
	//
	// Example:
	//  var _ = [2]int{1,2,3}
	OversizeArrayLit

	// MixedStructLit occurs when a struct literal contains a mix of positional
	// and named elements.
	//
	// Example:
	//  var _ = struct{i, j int}{i: 1, 2}
	MixedStructLit

	// InvalidStructLit occurs when a positional struct literal has an incorrect
	// number of values.
	//
	// Example:
	//  var _ = struct{i, j int}{1,2,3}
	InvalidStructLit

	// MissingLitField occurs when a struct literal refers to a field that does
	// not exist on the struct type.
	//
	// Example:
	//  var _ = struct{i int}{j: 2}
	MissingLitField

	// DuplicateLitField occurs when a struct literal contains duplicated
	// fields.
	//
	// Example:
	//  var _ = struct{i int}{i: 1, i: 2}
	DuplicateLitField

	// UnexportedLitField occurs when a positional struct literal implicitly
	// assigns an unexported field of an imported type.
	UnexportedLitField

	// InvalidLitField occurs when a field name is not a valid identifier.
	//
	// Example:
	//  var _ = struct{i int}{1: 1}
	InvalidLitField

	// UntypedLit occurs when a composite literal omits a required type
	// identifier.
	//
	// Example:
	//  type outer struct{
	//  	inner struct { i int }
	//  }
	//
	//  var _ = outer{inner: {1}}
	UntypedLit

	// InvalidLit occurs when a composite literal expression does not match its
	// type.
	//
	// Example:
	//  type P *struct{
	//  	x int
	//  }
	//  var _ = P {}
	InvalidLit

	/* exprs > selector */

	// AmbiguousSelector occurs when a selector is ambiguous.
	//
	// Example:
	//  type E1 struct { i int }
	//  type E2 struct { i int }
	//  type T struct { E1; E2 }
	//
	//  var x T
	//  var _ = x.i
	AmbiguousSelector

	// UndeclaredImportedName occurs when a package-qualified identifier is
	// undeclared by the imported package.
	//
	// Example:
	//  import "go/types"
	//
	//  var _ = types.NotAnActualIdentifier
	UndeclaredImportedName

	// UnexportedName occurs when a selector refers to an unexported identifier
	// of an imported package.
	//
	// Example:
	//  import "reflect"
	//
	//  type _ reflect.flag
	UnexportedName

	// UndeclaredName occurs when an identifier is not declared in the current
	// scope.
	//
	// Example:
	//  var x T
	UndeclaredName

	// MissingFieldOrMethod occurs when a selector references a field or method
	// that does not exist.
	//
	// Example:
	//  type T struct {}
	//
	//  var x = T{}.f
	MissingFieldOrMethod

	/* exprs > ... */

	// BadDotDotDotSyntax occurs when a "..." occurs in a context where it is
	// not valid.
	//
	// Example:
	//  var _ = map[int][...]int{0: {}}
	BadDotDotDotSyntax

	// NonVariadicDotDotDot occurs when a "..." is used on the final argument to
	// a non-variadic function.
	//
	// Example:
	//  func printArgs(s []string) {
	//  	for _, a := range s {
	//  		println(a)
	//  	}
	//  }
	//
	//  func f() {
	//  	s := []string{"a", "b", "c"}
	//  	printArgs(s...)
	//  }
	NonVariadicDotDotDot

	// MisplacedDotDotDot occurs when a "..." is used somewhere other than the
	// final argument to a function call.
	//
	// Example:
	//  func printArgs(args ...int) {
	//  	for _, a := range args {
	//  		println(a)
	//  	}
	//  }
	//
	//  func f() {
	//  	a := []int{1,2,3}
	//  	printArgs(0, a...)
	//  }
	MisplacedDotDotDot

	// InvalidDotDotDotOperand occurs when a "..." operator is applied to a
	// single-valued operand.
	//
	// Example:
	//  func printArgs(args ...int) {
	//  	for _, a := range args {
	//  		println(a)
	//  	}
	//  }
	//
	//  func f() {
	//  	a := 1
	//  	printArgs(a...)
	//  }
	//
	// Example:
	//  func args() (int, int) {
	//  	return 1, 2
	//  }
	//
	//  func printArgs(args ...int) {
	//  	for _, a := range args {
	//  		println(a)
	//  	}
	//  }
	//
	//  func g() {
	//  	printArgs(args()...)
	//  }
	InvalidDotDotDotOperand

	// InvalidDotDotDot occurs when a "..." is used in a non-variadic built-in
	// function.
	//
	// Example:
	//  var s = []int{1, 2, 3}
	//  var l = len(s...)
	InvalidDotDotDot

	/* exprs > built-in */

	// UncalledBuiltin occurs when a built-in function is used as a
	// function-valued expression, instead of being called.
	//
	// Per the spec:
	//  "The built-in functions do not have standard Go types, so they can only
	//  appear in call expressions; they cannot be used as function values."
	//
	// Example:
	//  var _ = copy
	UncalledBuiltin

	// InvalidAppend occurs when append is called with a first argument that is
	// not a slice.
	//
	// Example:
	//  var _ = append(1, 2)
	InvalidAppend

	// InvalidCap occurs when an argument to the cap built-in function is not of
	// supported type.
	//
	// See https://golang.org/ref/spec#Length_and_capacity for information on
	// which underlying types are supported as arguments to cap and len.
	//
	// Example:
	//  var s = 2
	//  var x = cap(s)
	InvalidCap

	// InvalidClose occurs when close(...) is called with an argument that is
	// not of channel type, or that is a receive-only channel.
	//
	// Example:
	//  func f() {
	//  	var x int
	//  	close(x)
	//  }
	InvalidClose

	// InvalidCopy occurs when the arguments are not of slice type or do not
	// have compatible type.
	//
	// See https://golang.org/ref/spec#Appending_and_copying_slices for more
	// information on the type requirements for the copy built-in.
	//
	// Example:
	//  func f() {
	//  	var x []int
	//  	y := []int64{1,2,3}
	//  	copy(x, y)
	//  }
	InvalidCopy

	// InvalidComplex occurs when the complex built-in function is called with
	// arguments with incompatible types.
	//
	// Example:
	//  var _ = complex(float32(1), float64(2))
	InvalidComplex

	// InvalidDelete occurs when the delete built-in function is called with a
	// first argument that is not a map.
	//
	// Example:
	//  func f() {
	//  	m := "hello"
	//  	delete(m, "e")
	//  }
	InvalidDelete

	// InvalidImag occurs when the imag built-in function is called with an
	// argument that does not have complex type.
	//
	// Example:
	//  var _ = imag(int(1))
	InvalidImag

	// InvalidLen occurs when an argument to the len built-in function is not of
	// supported type.
	//
	// See https://golang.org/ref/spec#Length_and_capacity for information on
	// which underlying types are supported as arguments to cap and len.
	//
	// Example:
	//  var s = 2
	//  var x = len(s)
	InvalidLen

	// SwappedMakeArgs occurs when make is called with three arguments, and its
	// length argument is larger than its capacity argument.
	//
	// Example:
	//  var x = make([]int, 3, 2)
	SwappedMakeArgs

	// InvalidMake occurs when make is called with an unsupported type argument.
	//
	// See https://golang.org/ref/spec#Making_slices_maps_and_channels for
	// information on the types that may be created using make.
	//
	// Example:
	//  var x = make(int)
	InvalidMake

	// InvalidReal occurs when the real built-in function is called with an
	// argument that does not have complex type.
	//
	// Example:
	//  var _ = real(int(1))
	InvalidReal

	/* exprs > assertion */

	// InvalidAssert occurs when a type assertion is applied to a
	// value that is not of interface type.
	//
	// Example:
	//  var x = 1
	//  var _ = x.(float64)
	InvalidAssert

	// ImpossibleAssert occurs for a type assertion x.(T) when the value x of
	// interface cannot have dynamic type T, due to a missing or mismatching
	// method on T.
	//
	// Example:
	//  type T int
	//
	//  func (t *T) m() int { return int(*t) }
	//
	//  type I interface { m() int }
	//
	//  var x I
	//  var _ = x.(T)
	ImpossibleAssert

	/* exprs > conversion */

	// InvalidConversion occurs when the argument type cannot be converted to the
	// target.
	//
	// See https://golang.org/ref/spec#Conversions for the rules of
	// convertibility.
	//
	// Example:
	//  var x float64
	//  var _ = string(x)
	InvalidConversion

	// InvalidUntypedConversion occurs when an there is no valid implicit
	// conversion from an untyped value satisfying the type constraints of the
	// context in which it is used.
	//
	// Example:
	//  var _ = 1 + ""
	InvalidUntypedConversion

	/* offsetof */

	// BadOffsetofSyntax occurs when unsafe.Offsetof is called with an argument
	// that is not a selector expression.
	//
	// Example:
	//  import "unsafe"
	//
	//  var x int
	//  var _ = unsafe.Offsetof(x)
	BadOffsetofSyntax

	// InvalidOffsetof occurs when unsafe.Offsetof is called with a method
	// selector, rather than a field selector, or when the field is embedded via
	// a pointer.
	//
	// Per the spec:
	//
	//  "If f is an embedded field, it must be reachable without pointer
	//  indirections through fields of the struct. "
	//
	// Example:
	//  import "unsafe"
	//
	//  type T struct { f int }
	//  type S struct { *T }
	//  var s S
	//  var _ = unsafe.Offsetof(s.f)
	//
	// Example:
	//  import "unsafe"
	//
	//  type S struct{}
	//
	//  func (S) m() {}
	//
	//  var s S
	//  var _ = unsafe.Offsetof(s.m)
	InvalidOffsetof

	/* control flow > scope */

	// UnusedExpr occurs when a side-effect free expression is used as a
	// statement. Such a statement has no effect.
	//
	// Example:
	//  func f(i int) {
	//  	i*i
	//  }
	UnusedExpr

	// UnusedVar occurs when a variable is declared but unused.
	//
	// Example:
	//  func f() {
	//  	x := 1
	//  }
	UnusedVar

	// MissingReturn occurs when a function with results is missing a return
	// statement.
	//
	// Example:
	//  func f() int {}
	MissingReturn

	// WrongResultCount occurs when a return statement returns an incorrect
	// number of values.
	//
	// Example:
	//  func ReturnOne() int {
	//  	return 1, 2
	//  }
	WrongResultCount

	// OutOfScopeResult occurs when the name of a value implicitly returned by
	// an empty return statement is shadowed in a nested scope.
	//
	// Example:
	//  func factor(n int) (i int) {
	//  	for i := 2; i < n; i++ {
	//  		if n%i == 0 {
	//  			return
	//  		}
	//  	}
	//  	return 0
	//  }
	OutOfScopeResult

	/* control flow > if */

	// InvalidCond occurs when an if condition is not a boolean expression.
	//
	// Example:
	//  func checkReturn(i int) {
	//  	if i {
	//  		panic("non-zero return")
	//  	}
	//  }
	InvalidCond

	/* control flow > for */

	// InvalidPostDecl occurs when there is a declaration in a for-loop post
	// statement.
	//
	// Example:
	//  func f() {
	//  	for i := 0; i < 10; j := 0 {}
	//  }
	InvalidPostDecl

	// InvalidChanRange occurs when a send-only channel used in a range
	// expression.
	//
	// Example:
	//  func sum(c chan<- int) {
	//  	s := 0
	//  	for i := range c {
	//  		s += i
	//  	}
	//  }
	InvalidChanRange

	// InvalidIterVar occurs when two iteration variables are used while ranging
	// over a channel.
	//
	// Example:
	//  func f(c chan int) {
	//  	for k, v := range c {
	//  		println(k, v)
	//  	}
	//  }
	InvalidIterVar

	// InvalidRangeExpr occurs when the type of a range expression is not array,
	// slice, string, map, or channel.
	//
	// Example:
	//  func f(i int) {
	//  	for j := range i {
	//  		println(j)
	//  	}
	//  }
	InvalidRangeExpr

	/* control flow > switch */

	// MisplacedBreak occurs when a break statement is not within a for, switch,
	// or select statement of the innermost function definition.
	//
	// Example:
	//  func f() {
	//  	break
	//  }
	MisplacedBreak

	// MisplacedContinue occurs when a continue statement is not within a for
	// loop of the innermost function definition.
	//
	// Example:
	//  func sumeven(n int) int {
	//  	proceed := func() {
	//  		continue
	//  	}
	//  	sum := 0
	//  	for i := 1; i <= n; i++ {
	//  		if i % 2 != 0 {
	//  			proceed()
	//  		}
	//  		sum += i
	//  	}
	//  	return sum
	//  }
	MisplacedContinue

	// MisplacedFallthrough occurs when a fallthrough statement is not within an
	// expression switch.
	//
	// Example:
	//  func typename(i interface{}) string {
	//  	switch i.(type) {
	//  	case int64:
	//  		fallthrough
	//  	case int:
	//  		return "int"
	//  	}
	//  	return "unsupported"
	//  }
	MisplacedFallthrough

	// DuplicateCase occurs when a type or expression switch has duplicate
	// cases.
	//
	// Example:
	//  func printInt(i int) {
	//  	switch i {
	//  	case 1:
	//  		println("one")
	//  	case 1:
	//  		println("One")
	//  	}
	//  }
	DuplicateCase

	// DuplicateDefault occurs when a type or expression switch has multiple
	// default clauses.
	//
	// Example:
	//  func printInt(i int) {
	//  	switch i {
	//  	case 1:
	//  		println("one")
	//  	default:
	//  		println("One")
	//  	default:
	//  		println("1")
	//  	}
	//  }
	DuplicateDefault

	// BadTypeKeyword occurs when a .(type) expression is used anywhere other
	// than a type switch.
	//
	// Example:
	//  type I interface {
	//  	m()
	//  }
	//  var t I
	//  var _ = t.(type)
	BadTypeKeyword

	// InvalidTypeSwitch occurs when .(type) is used on an expression that is
	// not of interface type.
	//
	// Example:
	//  func f(i int) {
	//  	switch x := i.(type) {}
	//  }
	InvalidTypeSwitch

	// InvalidExprSwitch occurs when a switch expression is not comparable.
	//
	// Example:
	//  func _() {
	//  	var a struct{ _ func() }
	//  	switch a /* ERROR cannot switch on a */ {
	//  	}
	//  }
	InvalidExprSwitch

	/* control flow > select */

	// InvalidSelectCase occurs when a select case is not a channel send or
	// receive.
	//
	// Example:
	//  func checkChan(c <-chan int) bool {
	//  	select {
	//  	case c:
	//  		return true
	//  	default:
	//  		return false
	//  	}
	//  }
	InvalidSelectCase

	/* control flow > labels and jumps */

	// UndeclaredLabel occurs when an undeclared label is jumped to.
	//
	// Example:
	//  func f() {
	//  	goto L
	//  }
	UndeclaredLabel

	// DuplicateLabel occurs when a label is declared more than once.
	//
	// Example:
	//  func f() int {
	//  L:
	//  L:
	//  	return 1
	//  }
	DuplicateLabel

	// MisplacedLabel occurs when a break or continue label is not on a for,
	// switch, or select statement.
	//
	// Example:
	//  func f() {
	//  L:
	//  	a := []int{1,2,3}
	//  	for _, e := range a {
	//  		if e > 10 {
	//  			break L
	//  		}
	//  		println(a)
	//  	}
	//  }
	MisplacedLabel

	// UnusedLabel occurs when a label is declared but not used.
	//
	// Example:
	//  func f() {
	//  L:
	//  }
	UnusedLabel

	// JumpOverDecl occurs when a label jumps over a variable declaration.
	//
	// Example:
	//  func f() int {
	//  	goto L
	//  	x := 2
	//  L:
	//  	x++
	//  	return x
	//  }
	JumpOverDecl

	// JumpIntoBlock occurs when a forward jump goes to a label inside a nested
	// block.
	//
	// Example:
	//  func f(x int) {
	//  	goto L
	//  	if x > 0 {
	//  	L:
	//  		print("inside block")
	//  	}
	// }
	JumpIntoBlock

	/* control flow > calls */

	// InvalidMethodExpr occurs when a pointer method is called but the argument
	// is not addressable.
	//
	// Example:
	//  type T struct {}
	//
	//  func (*T) m() int { return 1 }
	//
	//  var _ = T.m(T{})
	InvalidMethodExpr

	// WrongArgCount occurs when too few or too many arguments are passed by a
	// function call.
	//
	// Example:
	//  func f(i int) {}
	//  var x = f()
	WrongArgCount

	// InvalidCall occurs when an expression is called that is not of function
	// type.
	//
	// Example:
	//  var x = "x"
	//  var y = x()
	InvalidCall

	/* control flow > suspended */

	// UnusedResults occurs when a restricted expression-only built-in function
	// is suspended via go or defer. Such a suspension discards the results of
	// these side-effect free built-in functions, and therefore is ineffectual.
	//
	// Example:
	//  func f(a []int) int {
	//  	defer len(a)
	//  	return i
	//  }
	UnusedResults

	// InvalidDefer occurs when a deferred expression is not a function call,
	// for example if the expression is a type conversion.
	//
	// Example:
	//  func f(i int) int {
	//  	defer int32(i)
	//  	return i
	//  }
	InvalidDefer

	// InvalidGo occurs when a go expression is not a function call, for example
	// if the expression is a type conversion.
	//
	// Example:
	//  func f(i int) int {
	//  	go int32(i)
	//  	return i
	//  }
	InvalidGo

	// All codes below were added in Go 1.17.

	/* decl */

	// BadDecl occurs when a declaration has invalid syntax.
	BadDecl

	// RepeatedDecl occurs when an identifier occurs more than once on the left
	// hand side of a short variable declaration.
	//
	// Example:
	//  func _() {
	//  	x, y, y := 1, 2, 3
	//  }
	RepeatedDecl

	/* unsafe */

	// InvalidUnsafeAdd occurs when unsafe.Add is called with a
	// length argument that is not of integer type.
	//
	// Example:
	//  import "unsafe"
	//
	//  var p unsafe.Pointer
	//  var _ = unsafe.Add(p, float64(1))
	InvalidUnsafeAdd

	// InvalidUnsafeSlice occurs when unsafe.Slice is called with a
	// pointer argument that is not of pointer type or a length argument
	// that is not of integer type, negative, or out of bounds.
	//
	// Example:
	//  import "unsafe"
	//
	//  var x int
	//  var _ = unsafe.Slice(x, 1)
	//
	// Example:
	//  import "unsafe"
	//
	//  var x int
	//  var _ = unsafe.Slice(&x, float64(1))
	//
	// Example:
	//  import "unsafe"
	//
	//  var x int
	//  var _ = unsafe.Slice(&x, -1)
	//
	// Example:
	//  import "unsafe"
	//
	//  var x int
	//  var _ = unsafe.Slice(&x, uint64(1) << 63)
	InvalidUnsafeSlice

	// All codes below were added in Go 1.18.

	/* features */

	// UnsupportedFeature occurs when a language feature is used that is not
	// supported at this Go version.
	UnsupportedFeature

	/* type params */

	// NotAGenericType occurs when a non-generic type is used where a generic
	// type is expected: in type or function instantiation.
	//
	// Example:
	//  type T int
	//
	//  var _ T[int]
	NotAGenericType

	// WrongTypeArgCount occurs when a type or function is instantiated with an
	// incorrect number of type arguments, including when a generic type or
	// function is used without instantiation.
	//
	// Errors involving failed type inference are assigned other error codes.
	//
	// Example:
	//  type T[p any] int
	//
	//  var _ T[int, string]
	//
	// Example:
	//  func f[T any]() {}
	//
	//  var x = f
	WrongTypeArgCount

	// CannotInferTypeArgs occurs when type or function type argument inference
	// fails to infer all type arguments.
	//
	// Example:
	//  func f[T any]() {}
	//
	//  func _() {
	//  	f()
	//  }
	//
	// Example:
	//   type N[P, Q any] struct{}
	//
	//   var _ N[int]
	CannotInferTypeArgs

	// InvalidTypeArg occurs when a type argument does not satisfy its
	// corresponding type parameter constraints.
	//
	// Example:
	//  type T[P ~int] struct{}
	//
	//  var _ T[string]
	InvalidTypeArg // arguments? InferenceFailed

	// InvalidInstanceCycle occurs when an invalid cycle is detected
	// within the instantiation graph.
	//
	// Example:
	//  func f[T any]() { f[*T]() }
	InvalidInstanceCycle

	// InvalidUnion occurs when an embedded union or approximation element is
	// not valid.
	//
	// Example:
	//  type _ interface {
	//   	~int | interface{ m() }
	//  }
	InvalidUnion

	// MisplacedConstraintIface occurs when a constraint-type interface is used
	// outside of constraint position.
	//
	// Example:
	//   type I interface { ~int }
	//
	//   var _ I
	MisplacedConstraintIface

	// InvalidMethodTypeParams occurs when methods have type parameters.
	//
	// It cannot be encountered with an AST parsed using go/parser.
	InvalidMethodTypeParams

	// MisplacedTypeParam occurs when a type parameter is used in a place where
	// it is not permitted.
	//
	// Example:
	//  type T[P any] P
	//
	// Example:
	//  type T[P any] struct{ *P }
	MisplacedTypeParam

	// InvalidUnsafeSliceData occurs when unsafe.SliceData is called with
	// an argument that is not of slice type. It also occurs if it is used
	// in a package compiled for a language version before go1.20.
	//
	// Example:
	//  import "unsafe"
	//
	//  var x int
	//  var _ = unsafe.SliceData(x)
	InvalidUnsafeSliceData

	// InvalidUnsafeString occurs when unsafe.String is called with
	// a length argument that is not of integer type, negative, or
	// out of bounds. It also occurs if it is used in a package
	// compiled for a language version before go1.20.
	//
	// Example:
	//  import "unsafe"
	//
	//  var b [10]byte
	//  var _ = unsafe.String(&b[0], -1)
	InvalidUnsafeString

	// InvalidUnsafeStringData occurs if it is used in a package
	// compiled for a language version before go1.20.
	_ // not used anymore

)
