// Copyright 2024 The Go Authors. All rights reserved.
// Use of this source code is governed by a BSD-style
// license that can be found in the LICENSE file.

package typesinternal

import (
	"go/ast"
	"go/types"
	"strconv"
)

// FileQualifier returns a [types.Qualifier] function that qualifies
// imported symbols appropriately based on the import environment of a given
// file.
// If the same package is imported multiple times, the last appearance is
// recorded.
func FileQualifier(f *ast.File, pkg *types.Package) types.Qualifier {
	// Construct mapping of import paths to their defined names.
	// It is only necessary to look at renaming imports.
	imports := make(map[string]string)
	for _, imp := range f.Imports {
		if imp.Name != nil && imp.Name.Name != "_" {
			path, _ := strconv.Unquote(imp.Path.Value)
			imports[path] = imp.Name.Name
		}
	}

	// Define qualifier to replace full package paths with names of the imports.
	return func(p *types.Package) string {
		if p == nil || p == pkg {
			return ""
		}

		if name, ok := imports[p.Path()]; ok {
			if name == "." {
				return ""
			} else {
				return name
			}
		}

		// If there is no local renaming, fall back to the package name.
		return p.Name()
	}
}
