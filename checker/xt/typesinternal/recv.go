// Copyright 2024 The Go Authors. All rights reserved.
// Use of this source code is governed by a BSD-style
// license that can be found in the LICENSE file.

package typesinternal

import (
	"go/types"
)

// ReceiverNamed returns the named type (if any) associated with the
// type of recv, which may be of the form N or *N, or aliases thereof.
// It also reports whether a Pointer was present.
//
// The named result may be nil in ill-typed code.
func ReceiverNamed(recv *types.Var) (isPtr bool, named *types.Named) {
	t := recv.Type()
	if ptr, ok := types.Unalias(t).(*types.Pointer); ok {
		isPtr = true
		t = ptr.Elem()
	}
	named, _ = types.Unalias(t).(*types.Named)
	return
}

// Unpointer returns T given *T or an alias thereof.
// For all other types it is the identity function.
// It does not look at underlying types.
// The result may be an alias.
//
// Use this function to strip off the optional pointer on a receiver
// in a field or method selection, without losing the named type
// (which is needed to compute the method set).
//
// See also [typeparams.MustDeref], which removes one level of
// indirection from the type, regardless of named types (analogous to
// a LOAD instruction).
func Unpointer(t types.Type) types.Type {
	if ptr, ok := types.Unalias(t).(*types.Pointer); ok {
		return ptr.Elem()
	}
	return t
}
