// Copyright 2022 The Go Authors. All rights reserved.
// Use of this source code is governed by a BSD-style
// license that can be found in the LICENSE file.

//go:generate go run generate.go

// Package stdlib provides a table of all exported symbols in the
// standard library, along with the version at which they first
// appeared.
package stdlib

import (
	"fmt"
	"strings"
)

type Symbol struct {
	Name    string
	Kind    Kind
	Version Version // Go version that first included the symbol
}

// A Kind indicates the kind of a symbol:
// function, variable, constant, type, and so on.
type Kind int8

const (
	Invalid Kind = iota // Example name:
	Type                // "Buffer"
	Func                // "Println"
	Var                 // "EOF"
	Const               // "Pi"
	Field               // "Point.X"
	Method              // "(*Buffer).Grow"
)

func (kind Kind) String() string {
	return [...]string{
		Invalid: "invalid",
		Type:    "type",
		Func:    "func",
		Var:     "var",
		Const:   "const",
		Field:   "field",
		Method:  "method",
	}[kind]
}

// A Version represents a version of Go of the form "go1.%d".
type Version int8

// String returns a version string of the form "go1.23", without allocating.
func (v Version) String() string { return versions[v] }

var versions [30]string // (increase constant as needed)

func init() {
	for i := range versions {
		versions[i] = fmt.Sprintf("go1.%d", i)
	}
}

// HasPackage reports whether the specified package path is part of
// the standard library's public API.
func HasPackage(path string) bool {
	_, ok := PackageSymbols[path]
	return ok
}

// SplitField splits the field symbol name into type and field
// components. It must be called only on Field symbols.
//
// Example: "File.Package" -> ("File", "Package")
func (sym *Symbol) SplitField() (typename, name string) {
	if sym.Kind != Field {
		panic("not a field")
	}
	typename, name, _ = strings.Cut(sym.Name, ".")
	return
}

// SplitMethod splits the method symbol name into pointer, receiver,
// and method components. It must be called only on Method symbols.
//
// Example: "(*Buffer).Grow" -> (true, "Buffer", "Grow")
func (sym *Symbol) SplitMethod() (ptr bool, recv, name string) {
	if sym.Kind != Method {
		panic("not a method")
	}
	recv, name, _ = strings.Cut(sym.Name, ".")
	recv = recv[len("(") : len(recv)-len(")")]
	ptr = recv[0] == '*'
	if ptr {
		recv = recv[len("*"):]
	}
	return
}
