package main

// C08 — with -y the destination ends up identical: resume offset discipline.

import (
	"go/token"
	"strings"

	"trzszlint/xssa"
)

func init() {
	register("C08", 14, "Decided (for every path of the current source): (R1) every exit of the receiver's prefix-hash exchange that exchanged at least one message seeks to AND truncates at the same offset m; m is only ever 0 or a peer step stored on the edge where the peer's hash equalled the hash of this file's own bytes; after the first mismatch no compare can run again; the exit without truncation happens only before any exchange (size<=0 / no real file); (R2) the sender exits early on the same predicate, seeks to the value its ack stage delivered (advanced only on Match) and announces size-minus-that; (R3) v1/v2 and archive entries open with truncate, v3/v4 open without and must run the prefix-hash exchange before returning the writer; (R4) the compression probe restores the read offset. Not decided: MD5-prefix collision resistance, block-boundary arithmetic on real contents, content equality. (R5) shape of the hash pipeline: step = running total of bytes read, digest covers exactly the read, reads capped by the compared range, closing message on every live exit, offset delivered only when final and otherwise cancel, success only on a live context after both stages ended, exchange iff target non-empty, cut only after the closing message.",
		func(c *Ctx) {
			c.run("C08-R1", "MUST-PASS/GUARD-DOM: receiver seeks+truncates at the last offset both ends proved equal", c08R1)
			c.run("C08-R2", "SIBLING: sender mirrors the early exit, seeks to the matched offset, sends the remainder", c08R2)
			c.run("C08-R3", "WHO-CALLS: truncation policy per protocol", c08R3)
			c.run("C08-R4", "PAIR: compression probing restores the read offset", c08R4)
			c.run("C08-R5", "GUARD-DOM/MUST-PASS: shape of the hash pipeline on both ends", c08R5)
			c.run("C08-S1", "shared with C07-R2: with overwrite the destination path is built from the peer's own (validated) name, never from a constant", c07R2)
			c.run("C08-S2", "shared with C02-3: what the receiver counts as saved has been handed to the destination file itself", c02SavedSize)
		})
}

func c08R1(c *Ctx) {
	// universal form: unless there is nothing to resume (the destination is empty, or there is no plain file behind the
	// writer / reader), neither end leaves its prefix-hash step successfully without the repositioning it exists for
	{
		nothingToResume := func(from, to *ssa.BasicBlock) bool {
			fs := edgeFactsTo(from, to)
			if factZero(fs, isFieldLoad("Size")) {
				return true
			}
			for _, fc := range fs {
				op, x, y, ok := cmpFact(fc)
				if !ok || op != token.EQL || !isNilConst(y) {
					continue
				}
				if isVar("writer")(x) || isVar("file")(x) {
					return true
				}
				if call, _ := callOf(x); call != nil && call.Call.IsInvoke() && call.Call.Method.Name() == "getFile" {
					return true
				}
			}
			return false
		}
		for _, side := range []struct{ fn, barrier, what string }{
			{"trzszTransfer.recvPrefixHash", "(*os.File).Truncate", "cutting the destination at the proven offset"},
			{"trzszTransfer.sendPrefixHash", "(*os.File).Seek", "moving the source to the proven offset"},
		} {
			f := c.fn(side.fn)
			hit, path := reachFromE(f.Blocks[0], 0, c.maySucceed, c.orWrapper("reposition:"+side.barrier, func(in ssa.Instruction) bool {
				ci, ok := in.(ssa.CallInstruction)
				return ok && calleeID(ci.Common()) == side.barrier
			}), nothingToResume)
			c.check(hit == nil, c.fnName(f)+"/no-success-without-repositioning", c.pos(f.Pos()), "with something to resume the step succeeds only after "+side.what, "the step can succeed for a non-empty destination without "+side.what+": the old tail / a wrong offset survives a transfer that reports success", c.pathStr(path)...)
		}
	}
	f := c.fn("trzszTransfer.recvPrefixHash")
	seeks := callsIn(f, idIs("(*os.File).Seek"))
	truncs := callsIn(f, idIs("(*os.File).Truncate"))
	hashCalls := callsIn(f, idIs(tT+"recvHash"))
	if len(hashCalls) == 0 {
		c.lost("recvHash call in recvPrefixHash")
	}
	exchange := func(in ssa.Instruction) bool {
		ci, ok := in.(ssa.CallInstruction)
		return ok && idIs(tT+"recvHash", tT+"recvInteger", tT+"sendHashAck")(calleeID(ci.Common()))
	}
	var m ssa.Value
	nRet := 0
	eachInstr(f, func(in ssa.Instruction) {
		if !isNilErrReturn(in) {
			return
		}
		nRet++
		// is this return after an exchange?
		after := false
		for _, b := range f.Blocks {
			for _, x := range b.Instrs {
				if exchange(x) && domI(x, in) {
					after = true
				}
			}
		}
		if !after {
			// early exit: must be unreachable from any exchange instruction
			reachable := false
			for _, b := range f.Blocks {
				for _, x := range b.Instrs {
					if exchange(x) {
						if hit, _ := reachAvoid(x, func(y ssa.Instruction) bool { return y == in }, nil); hit != nil {
							reachable = true
						}
					}
				}
			}
			c.check(!reachable, "recvPrefixHash/early-exit", c.ipos(in), "the exit without truncation happens only before any hash exchange", "a success return without seek/truncate is reachable after the hash exchange began")
			return
		}
		var s, t ssa.CallInstruction
		for _, x := range seeks {
			if domI(x.(ssa.Instruction), in) {
				s = x
			}
		}
		for _, x := range truncs {
			if domI(x.(ssa.Instruction), in) {
				t = x
			}
		}
		if s == nil || t == nil {
			c.bad("recvPrefixHash/seek+truncate", c.ipos(in), "success return after the hash exchange not dominated by both Seek and Truncate")
			return
		}
		whence, _ := constInt(s.Common().Args[2])
		good := sameValue(s.Common().Args[1], t.Common().Args[1]) && sameValue(s.Common().Args[0], t.Common().Args[0]) && whence == 0
		c.check(good, "recvPrefixHash/seek+truncate", c.ipos(in), "Seek(m, SeekStart) and Truncate(m) on the same file with the same m dominate success",
			"Seek and Truncate disagree on offset/file, or Seek is not from the start")
		m = t.Common().Args[1]
		// both errors are checked: covered by C02-8
	})
	if nRet < 2 || m == nil {
		c.undecided("recvPrefixHash/returns", "expected an early exit and a post-exchange success return")
		return
	}
	// setPreSize gets the same m
	for _, ci := range callsIn(f, idHasSuffix(".setPreSize")) {
		c.check(sameValue(ci.Common().Args[0], m), "recvPrefixHash/setPreSize", c.ipos(ci), "progress pre-size is the truncation offset", "progress pre-size differs from the truncation offset")
	}
	// origins of m: 0 or hash.Step on the match edge
	var matchCond *ssa.BinOp
	for _, l := range origins(m, originOpts{}) {
		if z, ok := constInt(l.V); ok && z == 0 {
			c.ok("recvPrefixHash/m<-0", "", "offset starts at 0")
			continue
		}
		base, fld, ok := fieldOf(l.V)
		call, idx := callOf(base)
		if !ok || fld != "Step" || call == nil || idx != 0 || calleeID(&call.Call) != tT+"recvHash" {
			c.bad("recvPrefixHash/m<-?", c.pos(l.V.Pos()), "resume offset takes a value that is not the peer's hash step: "+l.V.String())
			continue
		}
		// on the edge where hash.Hash == Sprintf(hasher.Sum)
		good := false
		for _, fc := range l.facts() {
			if !fc.Pol {
				continue
			}
			b, ok := fc.V.(*ssa.BinOp)
			if !ok || b.Op != token.EQL {
				continue
			}
			for _, pr := range [][2]ssa.Value{{b.X, b.Y}, {b.Y, b.X}} {
				hb, hf, ok := fieldOf(pr[0])
				hc, hi := callOf(hb)
				sc, _ := callOf(pr[1])
				if ok && hf == "Hash" && hc == call && hi == 0 && sc != nil && calleeID(&sc.Call) == "fmt.Sprintf" {
					good = true
					matchCond = b
				}
			}
		}
		c.check(good, "recvPrefixHash/m<-Step@match", c.pos(l.V.Pos()), "offset advances to the peer's step only on the edge where the peer's hash equals the local hash",
			"offset advances to the peer's step without the hash-equal edge")
	}
	if matchCond == nil {
		return
	}
	// once false, the compare never runs again: compare block guarded by the true edge of a phi over {true, itself, compare}
	guarded := false
	for _, fc := range factsAt(matchCond.Block()) {
		phi, ok := fc.V.(*ssa.Phi)
		if !ok || !fc.Pol {
			continue
		}
		okEdges := true
		for _, e := range phi.Edges {
			if b, isC := constBool(e); isC && b {
				continue
			}
			if e == ssa.Value(phi) || e == ssa.Value(matchCond) {
				continue
			}
			okEdges = false
		}
		if okEdges {
			guarded = true
		}
	}
	c.check(guarded, "recvPrefixHash/no-rematch", c.ipos(matchCond), "after the first mismatch no further block can be declared matching", "a block after a mismatch can still be declared matching (match flag not latched)")
	// the local hash is over this file's bytes: ReadFull(file, buf) then hasher.Write(buf[:n]) dominate the compare
	var file ssa.Value
	if len(seeks) > 0 {
		file = seeks[0].Common().Args[0]
	}
	okRead := false
	for _, rc := range callsIn(f, idIs("io.ReadFull")) {
		if !domI(rc.(ssa.Instruction), matchCond) || !sameValue(rc.Common().Args[0], file) {
			continue
		}
		buf := rc.Common().Args[1]
		eachInstr(f, func(in ssa.Instruction) {
			call, ok := in.(*ssa.Call)
			if !ok || !call.Call.IsInvoke() || call.Call.Method.Name() != "Write" || !domI(call, matchCond) {
				return
			}
			for _, l := range origins(call.Call.Args[0], originOpts{throughSlice: true}) {
				if sameValue(l.V, buf) {
					okRead = true
				}
			}
		})
	}
	// or streamed: io.CopyN(hasher, file, step) with the hasher whose Sum is compared
	for _, cc := range callsIn(f, idIs("io.CopyN")) {
		if !domI(cc.(ssa.Instruction), matchCond) || !sameValue(cc.Common().Args[1], file) {
			continue
		}
		// the writer is the hasher used in the compare's Sum call
		eachInstr(f, func(in ssa.Instruction) {
			call, ok := in.(*ssa.Call)
			if ok && call.Call.IsInvoke() && call.Call.Method.Name() == "Sum" && sameValue(call.Call.Value, cc.Common().Args[0]) && domI(cc.(ssa.Instruction), call) {
				okRead = true
			}
		})
		// the number of bytes hashed is peer step - matched offset
		if b, ok := strip(cc.Common().Args[2]).(*ssa.BinOp); ok && b.Op == token.SUB {
			c.check(isFieldLoad("Step")(b.X) && sameValue(b.Y, m), "recvPrefixHash/block=step-matched", c.ipos(cc), "each block hashed is exactly the bytes between the last matched offset and the peer's step", "the block hashed is not (peer step - matched offset)")
		}
	}
	c.check(okRead, "recvPrefixHash/hash-own-bytes", c.ipos(matchCond), "the local hash is fed with bytes read from the same file that is later truncated", "local hash is not fed from the file being resumed")
}

func c08R2(c *Ctx) {
	f := c.fn("trzszTransfer.sendPrefixHash")
	// early exit: both ends skip the exchange exactly for an empty / absent target: the exchange's first step sits
	// on the target-size > 0 edge (however the source spells it) on both ends
	goodEarly := false
	for _, ci := range callsIn(f, idIs(tT+"pipelineSendHash")) {
		goodEarly = factPositive(factsAt(ci.Block()), isFieldLoad("Size"))
	}
	c.check(goodEarly, "sendPrefixHash/early-exit", c.pos(f.Pos()), "sender skips the exchange on target size <= 0 (same predicate as the receiver)", "sender's early-exit predicate differs from the receiver's (target size <= 0)")
	rf := c.fn("trzszTransfer.recvPrefixHash")
	goodR := false
	for _, ci := range callsIn(rf, idIs(tT+"recvHash")) {
		goodR = factPositive(factsAt(ci.Block()), isFieldLoad("Size"))
	}
	c.check(goodR, "recvPrefixHash/early-exit-predicate", c.pos(rf.Pos()), "receiver skips the exchange on target size <= 0", "receiver's early-exit predicate is not target size <= 0")
	// seek to the received match step; return size - matchStep
	seeks := callsIn(f, idIs("(*os.File).Seek"))
	if len(seeks) != 1 {
		c.bad("sendPrefixHash/seek", c.pos(f.Pos()), "expected exactly one Seek in the sender's prefix-hash exchange")
		return
	}
	off := seeks[0].Common().Args[1]
	fromChan := true
	nl := 0
	for _, l := range origins(off, originOpts{}) {
		nl++
		ok := false
		if e, isE := l.V.(*ssa.Extract); isE {
			if sel, isSel := e.Tuple.(*ssa.Select); isSel {
				for _, st := range sel.States {
					if st.Send == nil {
						if call, _ := callOf(st.Chan); call != nil && calleeID(&call.Call) == tT+"pipelineRecvHashAck" {
							ok = true
						}
					}
				}
			}
		}
		if u, isU := l.V.(*ssa.UnOp); isU && u.Op == token.ARROW {
			if call, _ := callOf(u.X); call != nil && calleeID(&call.Call) == tT+"pipelineRecvHashAck" {
				ok = true
			}
		}
		if !ok {
			fromChan = false
		}
	}
	whence, _ := constInt(seeks[0].Common().Args[2])
	c.check(fromChan && nl > 0 && whence == 0, "sendPrefixHash/seek<-match", c.ipos(seeks[0]), "sender seeks (from start) to the offset delivered by its hash-ack stage", "sender seeks to a value not delivered by the hash-ack stage")
	eachInstr(f, func(in ssa.Instruction) {
		r, ok := in.(*ssa.Return)
		if !ok || !isNilErrReturn(in) || !domI(seeks[0].(ssa.Instruction), in) {
			return
		}
		b, isB := strip(retVal(r, 0)).(*ssa.BinOp)
		good := isB && b.Op == token.SUB && isFieldLoad("Size")(b.X) && sameValue(b.Y, off)
		c.check(good, "sendPrefixHash/remaining", c.ipos(in), "announced remaining size = source size - matched offset", "remaining size is not source size minus the matched offset")
	})
	// hashes at most min(src,tgt)
	for _, ci := range callsIn(f, idIs(tT+"pipelineSendHash")) {
		call, _ := callOf(ci.Common().Args[5])
		good := call != nil && calleeID(&call.Call) == "trzsz.minInt64"
		c.check(good, "sendPrefixHash/min-size", c.ipos(ci), "sender hashes at most min(source size, target size)", "hash range is not min(source,target)")
	}
	// ack stage: delivered value only advances on Match
	af := c.fn("trzszTransfer.pipelineRecvHashAck$1")
	n := 0
	eachInstr(af, func(in ssa.Instruction) {
		s, ok := in.(*ssa.Send)
		if !ok {
			return
		}
		n++
		good := true
		for _, l := range origins(s.X, originOpts{}) {
			if z, ok := constInt(l.V); ok && z == 0 {
				continue
			}
			_, fld, isF := fieldOf(l.V)
			if !isF || fld != "Step" {
				good = false
				continue
			}
			onMatch := false
			for _, fc := range l.facts() {
				if isFieldLoad("Match")(fc.V) && fc.Pol {
					onMatch = true
				}
			}
			if !onMatch {
				good = false
			}
		}
		c.check(good, "pipelineRecvHashAck/match-step", c.ipos(s), "delivered offset is 0 or an acked step on the Match edge", "delivered offset can be a step the receiver did not confirm")
	})
	if n == 0 {
		c.undecided("pipelineRecvHashAck/sends", "no send on the match channel found")
	}
	// an ack is awaited only while one is owed: with nothing to compare (size 0, e.g. an empty source)
	// no hash is sent, so the first read must be behind a size/offset test
	for _, ci := range callsIn(af, idIs(tT+"recvHashAck")) {
		owed := factCmp(factsAt(ci.Block()), token.NEQ, anyValue, isVar("size")) || factCmp(factsAt(ci.Block()), token.GTR, isVar("size"), anyValue) ||
			factCmp(factsAt(ci.Block()), token.LSS, anyValue, isVar("size"))
		c.check(owed, "pipelineRecvHashAck/wait-only-when-owed", c.ipos(ci), "an ack is awaited only when at least one hash is owed (size != 0 / offset != size)",
			"the sender waits for a hash ack even when there is nothing to compare (empty source over an existing file): no hash is sent, no ack comes, the fault-free transfer times out")
	}
}

func c08R3(c *Ctx) {
	type site struct{ fn, want string }
	for _, s := range []site{{"trzszTransfer.recvFileName", "true"}, {"trzszTransfer.recvFileNameV3", "false"}, {"archiveFileWriter.Write", "true"}} {
		f := c.fn(s.fn)
		n := 0
		for _, ci := range callsIn(f, idIs(tT+"createFile", tT+"createDirOrFile")) {
			n++
			args := ci.Common().Args
			var tr ssa.Value
			if calleeID(ci.Common()) == tT+"createFile" {
				tr = args[3]
			} else {
				tr = args[3]
			}
			b, isC := constBool(tr)
			c.check(isC && (b == (s.want == "true")), s.fn+"/truncate="+s.want, c.ipos(ci), "truncate flag is the constant "+s.want, "truncate flag is not the constant "+s.want)
		}
		if n == 0 {
			c.undecided(s.fn+"/create", "no create call found")
		}
	}
	// v3: prefix-hash exchange before returning the writer
	f := c.fn("trzszTransfer.recvFileNameV3")
	eachInstr(f, func(in ssa.Instruction) {
		if !isNilErrReturn(in) {
			return
		}
		var ph ssa.CallInstruction
		for _, ci := range callsIn(f, idIs(tT+"recvPrefixHash")) {
			if domI(ci.(ssa.Instruction), in) {
				ph = ci
			}
		}
		if ph == nil {
			c.bad("recvFileNameV3/must-pass-prefix-hash", c.ipos(in), "v3 receiver returns the writer (opened without truncate) without running the prefix-hash exchange")
			return
		}
		// the file handed to the exchange is the one created and returned
		r := in.(*ssa.Return)
		good := sameValue(ph.Common().Args[1], retVal(r, 0))
		// tgtFile.Size comes from Stat of that file
		c.check(good, "recvFileNameV3/must-pass-prefix-hash", c.ipos(in), "the returned writer went through the prefix-hash exchange", "the writer returned is not the one given to the prefix-hash exchange")
	})
	// target size announced = Stat().Size() of the opened file (or 0)
	for _, ci := range callsIn(f, idIs(tT+"recvPrefixHash")) {
		tgt := ci.Common().Args[3]
		al, ok := strip(tgt).(*ssa.Alloc)
		good := false
		if ok {
			for _, r := range referrersOf(al) {
				fa, ok := r.(*ssa.FieldAddr)
				if !ok || fieldName(fa) != "Size" {
					continue
				}
				for _, r2 := range referrersOf(fa) {
					st, ok := r2.(*ssa.Store)
					if !ok {
						continue
					}
					good = true
					for _, l := range origins(st.Val, originOpts{}) {
						if z, ok := constInt(l.V); ok && z == 0 {
							// zero only when there is no real file behind the writer
							noFile := false
							for _, fc := range l.facts() {
								op, x, y, okC := cmpFact(fc)
								if okC && op == token.EQL && (isNilConst(x) || isNilConst(y)) {
									for _, v := range []ssa.Value{x, y} {
										if call, idx := callOf(v); call != nil {
											id := calleeID(&call.Call)
											if (idx == 0 && id == tT+"createDirOrFile") || strings.HasSuffix(id, ".getFile") {
												noFile = true
											}
										}
									}
								}
							}
							if len(l.Via) > 0 && !noFile {
								good = false
							}
							continue
						}
						call, _ := callOf(l.V)
						if call == nil || !call.Call.IsInvoke() || call.Call.Method.Name() != "Size" {
							good = false
						}
					}
				}
			}
		}
		c.check(good, "recvFileNameV3/target-size<-Stat", c.ipos(ci), "announced target size is 0 or Stat().Size() of the opened file", "announced target size does not come from Stat of the opened file")
	}
}

func c08R4(c *Ctx) {
	f := c.fn("isCompressionProfitable")
	var first *ssa.Call
	for _, ci := range callsIn(f, idIs("(*os.File).Seek")) {
		call := ci.(*ssa.Call)
		off, ok1 := constInt(call.Call.Args[1])
		wh, ok2 := constInt(call.Call.Args[2])
		if ok1 && ok2 && off == 0 && wh == 1 {
			first = call
		}
	}
	if first == nil {
		c.bad("isCompressionProfitable/tell", c.pos(f.Pos()), "the probe does not record the current offset (Seek(0, SeekCurrent))")
		return
	}
	pos := extractOf(first, 0)
	isProbe := func(in ssa.Instruction) bool {
		ci, ok := in.(ssa.CallInstruction)
		return ok && calleeID(ci.Common()) == "trzsz.isCompressedFileContent"
	}
	eachInstr(f, func(in ssa.Instruction) {
		if !isNilErrReturn(in) || !domI(first, in) {
			return
		}
		var restore ssa.CallInstruction
		for _, ci := range callsIn(f, idIs("(*os.File).Seek")) {
			wh, _ := constInt(ci.Common().Args[2])
			if ci != ssa.CallInstruction(first) && domI(ci.(ssa.Instruction), in) && wh == 0 && pos != nil && sameValue(ci.Common().Args[1], pos) {
				restore = ci
			}
		}
		if restore == nil {
			c.bad("isCompressionProfitable/restore", c.ipos(in), "success return without restoring the read offset found at entry")
			return
		}
		hit, _ := reachAvoid(restore.(ssa.Instruction), isProbe, nil)
		c.check(hit == nil, "isCompressionProfitable/restore", c.ipos(in), "offset restored after the last probe on the way to success", "a probe can move the offset after it was restored")
	})
}
