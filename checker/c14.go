package main

// C14 — a relay only narrows what the ends negotiate, and recovers after every transfer.

import (
	"fmt"
	"go/token"
	"go/types"
	"reflect"
	"sort"
	"strings"

	"trzszlint/xssa"
)

func init() {
	register("C14", 25, "Decided (for every path of the current source): (R1) between receiving and re-sending the action the relay only stores constant false into capability flags and clamps Protocol to its own maximum on the Protocol>max edge; without a tunnel the binary capability is cleared on every path to the re-send; the config is only extended by tmux_output_junk=true and a pane width on the <=0 edge; (R2) every key the server can put in its config map has a JSON tag in the struct the relay re-marshals; (R3) trz and tsz servers perform the same capability checks before sending the config and clamp the protocol to min(client, own); (R4) all four pumps test the same end markers on the transferring edge and reset to standby, the markers are '#'+type+':' of the types the ends actually use, the client-input pump also handles a lone Ctrl-C; (R5) every handshake exit flushes, and the reset clears listener, tunnel pair and tunnel flag on the CAS-won path. Not decided: equivalence with a direct transfer, sequences of transfers at run time. Added: (R3) config only on the confirmed edge, Cancelled only on the declined edge and always through the exit message, unsupported fork/directory refused; (R4) every reset to standby has a reason (end marker or lone Ctrl-C); (R7) polarity of the flush routes, the confirmed flag, the recorded tunnel flag and client framing, the tmux junk flag.",
		func(c *Ctx) {
			c.run("C14-R1", "WHO-WRITES+GUARD-DOM: narrowing-only rewrites of action and config", c14R1)
			c.run("C14-R2", "LITERAL: config keys written by the server all survive the relay's re-marshalling", c14R2)
			c.run("C14-R3", "SIBLING: servers honour the narrowed action", c14R3)
			c.run("C14-R4", "SIBLING+LITERAL: end-of-transfer detection in the four pumps", c14R4)
			c.run("C14-R5", "MUST-PASS: recovery — flush on every handshake exit, full reset to standby", c14R5)
			c.run("C14-R7", "GUARD-DOM: polarity of the relay's hand-over decisions (flush routes, confirmed flag, recorded client facts)", c14R7)
			c.run("C14-R8", "MUST-PASS: the relay's handshake steps return their errors and a failed step ends the handshake unconfirmed", c14R8)
			c.run("C14-S2", "shared with C13-R6: the relay's workers run concurrently (the handshake can finish and the relay return to standby)", c13Launch)
			c.run("C14-R9", "DATAFLOW: at every return of the relay handshake the flush flag is false whenever an error is set (helpers summarised)", c14Cells)
			c.run("C14-S3", "shared with C13-R7: sides of the pumps, of the handshake's line readers and of the error report", c13Sides)
			c.run("C14-S4", "shared with C13-R5: each relay pump goes on with the status the parking function re-read under the lock (so the end-of-transfer scan is not skipped on a stale 'handshaking')", c13R5)
			c.run("C14-S5", "shared with C16-R7: the lines the relay writes itself (the narrowed action, its failure report) end the way the side they go to reads them — a handshake that works directly also works through the relay", c16R7)
			c.run("C14-R6", "PAIR+GUARD-DOM (shared with C13-R1/R2): nothing can be parked after the flush, so no stale chunk is left for the next transfer's handshake", func(c *Ctx) { c13R1(c); c13R2(c) })
		})
}

// fieldStores: stores into fields of the struct pointed to by base within f.
type fieldStore struct {
	Field string
	St    *ssa.Store
}

func fieldStoresOf(f *ssa.Function, base ssa.Value) []fieldStore {
	var out []fieldStore
	eachInstr(f, func(in ssa.Instruction) {
		st, ok := in.(*ssa.Store)
		if !ok {
			return
		}
		fa, ok := st.Addr.(*ssa.FieldAddr)
		if !ok || fa.X != base {
			return
		}
		out = append(out, fieldStore{fieldName(fa), st})
	})
	return out
}

// handshakePart: the function of the relay's handshake that contains calls of all the given steps — handshake()
// itself, or the one helper it calls directly that does (the narrowing may live in a helper of its own).
func (c *Ctx) handshakePart(steps ...string) *ssa.Function {
	h := c.fn("TrzszRelay.handshake")
	has := func(f *ssa.Function) bool {
		for _, s := range steps {
			if len(callsIn(f, idIs(s))) == 0 {
				return false
			}
		}
		return true
	}
	if has(h) {
		return h
	}
	var found *ssa.Function
	for _, ci := range callsIn(h, anyID) {
		g := ci.Common().StaticCallee()
		if g != nil && c.inPkg(g) && len(g.Blocks) > 0 && has(g) {
			if found != nil && found != g {
				return h
			}
			found = g
		}
	}
	if found != nil {
		return found
	}
	return h
}

// narrowScope: where the relay rewrites obj between receiving and re-sending it. Either the function f that contains
// both steps (from = the receive, to = the re-send), or — when f hands obj to exactly one helper of the package in
// between and does not touch its fields itself — that helper (obj = its parameter, from = entry, to = its returns).
type narrowScope struct {
	fn       *ssa.Function
	obj      ssa.Value
	inScope  func(in ssa.Instruction) bool // the instruction lies between receive and re-send
	isEnd    func(in ssa.Instruction) bool // the re-send (or the helper's return)
	startBlk *ssa.BasicBlock
	startIdx int
}

func (c *Ctx) narrowScopeOf(f *ssa.Function, obj ssa.Value, recv, send ssa.Instruction) narrowScope {
	own := narrowScope{fn: f, obj: obj,
		inScope:  func(in ssa.Instruction) bool { return domI(recv, in) && domI(in, send) },
		isEnd:    func(in ssa.Instruction) bool { return in == send },
		startBlk: recv.Block(), startIdx: instrIndex(recv) + 1}
	if len(fieldStoresOf(f, obj)) > 0 {
		return own
	}
	var helper *ssa.Function
	var pidx int
	n := 0
	for _, ci := range callsIn(f, anyID) {
		in := ci.(ssa.Instruction)
		if in == send || !domI(recv, in) || !domI(in, send) {
			continue
		}
		g := ci.Common().StaticCallee()
		if g == nil || !c.inPkg(g) || len(g.Blocks) == 0 {
			continue
		}
		for i, a := range ci.Common().Args {
			if sameValue(a, obj) && i < len(g.Params) {
				helper, pidx = g, i
				n++
			}
		}
	}
	if n != 1 {
		return own
	}
	return narrowScope{fn: helper, obj: helper.Params[pidx],
		inScope:  func(in ssa.Instruction) bool { return true },
		isEnd:    isReturn,
		startBlk: helper.Blocks[0], startIdx: 0}
}

func c14R1(c *Ctx) {
	f := c.handshakePart("(*trzsz.TrzszRelay).recvAction", "(*trzsz.TrzszRelay).sendAction")
	maxProto := c.constVal("kProtocolVersion")
	ra := callsIn(f, idIs("(*trzsz.TrzszRelay).recvAction"))
	sa := callsIn(f, idIs("(*trzsz.TrzszRelay).sendAction"))
	if len(ra) != 1 || len(sa) != 1 {
		c.lost("recvAction/sendAction in relay handshake")
	}
	action0 := extractOf(ra[0].(*ssa.Call), 0)
	c.check(sameValue(sa[0].Common().Args[1], action0), "handshake/resend-same-action", c.ipos(sa[0]), "the action re-sent is the one received", "the relay sends a different action object than it received")
	sc0 := c.narrowScopeOf(f, action0, ra[0].(ssa.Instruction), sa[0].(ssa.Instruction))
	nf0, action := sc0.fn, sc0.obj
	caps := map[string]bool{"SupportBinary": true, "SupportDirectory": true, "SupportFork": true}
	clearedBinary := []ssa.Instruction{}
	for _, fs := range fieldStoresOf(nf0, action) {
		key := "handshake/action." + fs.Field
		switch {
		case caps[fs.Field]:
			b, isC := constBool(fs.St.Val)
			c.check(isC && !b, key+"=false", c.ipos(fs.St), "capability only ever cleared", "the relay sets a capability the client did not offer")
			if fs.Field == "SupportBinary" && isC && !b {
				clearedBinary = append(clearedBinary, fs.St)
			}
		case fs.Field == "Protocol":
			isK := isConstIntV(maxProto)(fs.St.Val)
			guarded := factCmp(factsAt(fs.St.Block()), token.GTR, func(v ssa.Value) bool { b, fl, ok := fieldOf(v); return ok && fl == "Protocol" && b == action }, isConstIntV(maxProto))
			c.check(isK && guarded, key+"<=max", c.ipos(fs.St), "protocol only lowered to the relay's maximum, on the > max edge", "the relay can raise the protocol version or clamps without the > max test")
		default:
			c.bad(key, c.ipos(fs.St), "the relay rewrites action field "+fs.Field+" (only capability narrowing and the protocol clamp are allowed)")
		}
	}
	// without tunnel: binary cleared before the re-send
	var tunIf *ssa.If
	for _, b := range nf0.Blocks {
		i := blockIf(b)
		if i == nil || !sc0.inScope(i) {
			continue
		}
		nf := normFact(fact{V: i.Cond, Pol: true})
		if base, fl, ok := fieldOf(nf.V); ok && fl == "TunnelConnected" && base == action {
			tunIf = i
			k := 1 // false edge = not connected
			if !nf.Pol {
				k = 0
			}
			hit, path := reachFrom(i.Block().Succs[k], 0, sc0.isEnd, func(in ssa.Instruction) bool {
				for _, s := range clearedBinary {
					if s == in {
						return true
					}
				}
				return false
			})
			c.check(hit == nil, "handshake/no-tunnel=>binary-off", c.ipos(i), "without a tunnel the binary capability is cleared before the action is re-sent", "without a tunnel the action can be re-sent with binary still offered", c.pathStr(path)...)
		}
	}
	if tunIf == nil {
		c.bad("handshake/no-tunnel=>binary-off", c.pos(nf0.Pos()), "no test of the client's tunnel flag before re-sending the action: binary is not cleared without a tunnel")
	}
	// protocol clamp exists on every path to the re-send
	clampIf := false
	for _, b := range nf0.Blocks {
		i := blockIf(b)
		if i == nil || !sc0.inScope(i) {
			continue
		}
		op, x, y, ok := cmpFact(normFact(fact{V: i.Cond, Pol: true}))
		if ok && op == token.GTR && isFieldLoad("Protocol")(x) && isConstIntV(maxProto)(y) {
			// true edge must store Protocol = max before the re-send
			hit, path := reachFrom(b.Succs[0], 0, sc0.isEnd, func(in ssa.Instruction) bool {
				st, ok := in.(*ssa.Store)
				if !ok {
					return false
				}
				fa, ok := st.Addr.(*ssa.FieldAddr)
				return ok && fa.X == action && fieldName(fa) == "Protocol" && isConstIntV(maxProto)(st.Val)
			})
			clampIf = hit == nil
			if hit != nil {
				c.bad("handshake/protocol-clamp", c.ipos(i), "the > max edge reaches the re-send without lowering the protocol", c.pathStr(path)...)
			}
		}
	}
	c.check(clampIf, "handshake/protocol-clamp", c.ipos(sa[0]), "protocol above the relay's maximum is lowered before the re-send", "the relay forwards a protocol version above what it understands")
	// ... and on every path: from the receive (or the helper's entry) the re-send is reached only through the clamp's
	// store or over the "not above the maximum" edge of its test; likewise binary is cleared or the tunnel edge taken.
	// (An early return in an extracted helper — "with a tunnel nothing needs restricting" — skips the clamp.)
	{
		edgeOf := func(isTest func(nf fact) (trueEdgeSafe bool, ok bool)) func(from, to *ssa.BasicBlock) bool {
			return func(from, to *ssa.BasicBlock) bool {
				i := blockIf(from)
				if i == nil || len(from.Succs) != 2 || from.Succs[0] == from.Succs[1] {
					return false
				}
				safeTrue, ok := isTest(normFact(fact{V: i.Cond, Pol: true}))
				if !ok {
					return false
				}
				if safeTrue {
					return to == from.Succs[0]
				}
				return to == from.Succs[1]
			}
		}
		hit, path := reachFromE(sc0.startBlk, sc0.startIdx, sc0.isEnd, func(in ssa.Instruction) bool {
			st, ok := in.(*ssa.Store)
			if !ok {
				return false
			}
			fa, ok := st.Addr.(*ssa.FieldAddr)
			return ok && fa.X == action && fieldName(fa) == "Protocol" && isConstIntV(maxProto)(st.Val)
		}, edgeOf(func(nf fact) (bool, bool) {
			op, x, y, ok := cmpFact(nf)
			if !ok || !isFieldLoad("Protocol")(x) || !isConstIntV(maxProto)(y) {
				return false, false
			}
			switch op {
			case token.GTR: // Protocol > max: the false edge is safe
				return false, true
			case token.LEQ:
				return true, true
			}
			return false, false
		}))
		pos := c.ipos(sa[0])
		if hit != nil {
			pos = c.ipos(hit)
		}
		c.check(hit == nil, "handshake/protocol-clamp-on-every-path", pos, "every path to the re-send lowers the protocol or took the not-above-maximum edge", "a path reaches the re-send of the action without the protocol clamp (e.g. an early return of the narrowing helper): a newer client's version is forwarded unclamped", c.pathStr(path)...)
		hit, path = reachFromE(sc0.startBlk, sc0.startIdx, sc0.isEnd, func(in ssa.Instruction) bool {
			for _, s := range clearedBinary {
				if s == in {
					return true
				}
			}
			return false
		}, edgeOf(func(nf fact) (bool, bool) {
			if base, fl, ok := fieldOf(nf.V); ok && fl == "TunnelConnected" && base == action {
				return nf.Pol, true // the connected edge needs no clearing
			}
			return false, false
		}))
		pos = c.ipos(sa[0])
		if hit != nil {
			pos = c.ipos(hit)
		}
		c.check(hit == nil, "handshake/binary-off-on-every-path", pos, "every path to the re-send clears binary or took the tunnel-connected edge", "a path reaches the re-send of the action with binary still offered although no tunnel is connected", c.pathStr(path)...)
	}
	// the relay's config decoder: defaults are stored before the peer's document is decoded over them, nothing afterwards
	rcf := c.fn("TrzszRelay.recvConfig")
	var um ssa.Instruction
	for _, ci := range callsIn(rcf, idIs("encoding/json.Unmarshal")) {
		um = ci.(ssa.Instruction)
	}
	if um == nil {
		c.bad("relay.recvConfig/decode", c.pos(rcf.Pos()), "the relay does not decode the server's config")
	} else {
		eachInstr(rcf, func(in ssa.Instruction) {
			st, ok := in.(*ssa.Store)
			if !ok {
				return
			}
			n, ok := fieldAddrName(st.Addr)
			if !ok || !strings.HasPrefix(n, "transferConfig.") {
				return
			}
			c.check(precedes(st, um) || domI(st, um), "relay.recvConfig/defaults-before-decode."+n, c.ipos(st), "defaults are set before decoding, so every value the server sent wins", "a config field is (re)written after decoding the server's document: a server setting equal to the zero value (e.g. timeout 0 = never) is replaced by the relay's default")
		})
	}
	// config rewrites
	fcfg := c.handshakePart("(*trzsz.TrzszRelay).recvConfig", "(*trzsz.TrzszRelay).sendConfig")
	rc := callsIn(fcfg, idIs("(*trzsz.TrzszRelay).recvConfig"))
	sc := callsIn(fcfg, idIs("(*trzsz.TrzszRelay).sendConfig"))
	if len(rc) != 1 || len(sc) != 1 {
		c.lost("recvConfig/sendConfig in relay handshake")
	}
	config0 := extractOf(rc[0].(*ssa.Call), 0)
	c.check(sameValue(sc[0].Common().Args[1], config0), "handshake/resend-same-config", c.ipos(sc[0]), "the config re-sent is the one received", "the relay sends a different config object than it received")
	scC := c.narrowScopeOf(fcfg, config0, rc[0].(ssa.Instruction), sc[0].(ssa.Instruction))
	config := scC.obj
	for _, fs := range fieldStoresOf(scC.fn, config) {
		key := "handshake/config." + fs.Field
		switch fs.Field {
		case "TmuxOutputJunk":
			b, isC := constBool(fs.St.Val)
			c.check(isC && b, key+"=true", c.ipos(fs.St), "tmux junk flag only ever set", "the relay clears the server's tmux junk flag")
		case "TmuxPaneColumns":
			guarded := factCmp(factsAt(fs.St.Block()), token.LEQ, func(v ssa.Value) bool { b, fl, ok := fieldOf(v); return ok && fl == "TmuxPaneColumns" && b == config }, isConstIntV(0))
			c.check(guarded && isFieldLoad("tmuxPaneWidth")(fs.St.Val), key+"@unset", c.ipos(fs.St), "pane width filled in only when the server left it unset", "the relay overrides the server's pane width")
		default:
			c.bad(key, c.ipos(fs.St), "the relay rewrites config field "+fs.Field+" (only its own tmux constraints may be added)")
		}
	}
}

func structTags(t types.Type) map[string]string {
	out := map[string]string{}
	st, ok := t.Underlying().(*types.Struct)
	if !ok {
		return out
	}
	for i := 0; i < st.NumFields(); i++ {
		tag := reflect.StructTag(st.Tag(i)).Get("json")
		name := strings.Split(tag, ",")[0]
		if name != "" && name != "-" {
			out[name] = st.Field(i).Name()
		}
	}
	return out
}

func (c *Ctx) namedType(name string) types.Type {
	obj := c.Pkg.Types.Scope().Lookup(name)
	if obj == nil {
		c.lost("type " + name)
	}
	return obj.Type()
}

func c14R2(c *Ctx) {
	f := c.fn("trzszTransfer.sendConfig")
	tags := structTags(c.namedType("transferConfig"))
	n := 0
	eachInstr(f, func(in ssa.Instruction) {
		mu, ok := in.(*ssa.MapUpdate)
		if !ok {
			return
		}
		k, ok := constString(strip(mu.Key))
		if !ok {
			c.bad("sendConfig/key", c.ipos(mu), "non-constant config key")
			return
		}
		n++
		if k == "lang" {
			c.ok("sendConfig/key."+k, c.ipos(mu), "informational key, read by nobody")
			return
		}
		_, has := tags[k]
		c.check(has, "sendConfig/key."+k, c.ipos(mu), "key has a JSON tag in transferConfig, so a relay's re-marshalling keeps it", "config key "+k+" has no field in transferConfig: a relay would drop it")
	})
	if n < 10 {
		c.undecided("sendConfig/keys", "fewer config keys than expected")
	}
	// a relay re-marshals the decoded struct: a field tagged omitempty disappears when the server sent its zero value
	// ("timeout":0 = wait for ever, "binary":false ...) and the client falls back to its own default
	for _, tn := range []string{"transferConfig", "transferAction"} {
		st, _ := c.namedType(tn).Underlying().(*types.Struct)
		if st == nil {
			continue
		}
		for i := 0; i < st.NumFields(); i++ {
			tag := reflect.StructTag(st.Tag(i)).Get("json")
			parts := strings.Split(tag, ",")
			if parts[0] == "" || parts[0] == "-" {
				continue
			}
			omit := false
			for _, o := range parts[1:] {
				if o == "omitempty" || o == "omitzero" {
					omit = true
				}
			}
			c.check(!omit, tn+"/no-omitempty."+parts[0], "", "the relay re-emits this key even with its zero value", "key '"+parts[0]+"' of "+tn+" is omitted by a relay when it has its zero value: the next hop falls back to its own default instead of what the other end sent")
		}
	}
	// the relay decodes the client's action into the same defaults as a server does (a default that differs — a protocol
	// the client never offered — is forwarded as if the client had sent it)
	lits := map[string]map[string]string{}
	for _, fn := range []string{"trzszTransfer.recvAction", "TrzszRelay.recvAction"} {
		rf := c.fn(fn)
		lits[fn] = map[string]string{}
		eachInstr(rf, func(in ssa.Instruction) {
			stI, ok := in.(*ssa.Store)
			if !ok {
				return
			}
			fa, ok := stI.Addr.(*ssa.FieldAddr)
			if !ok {
				return
			}
			if al, isAl := fa.X.(*ssa.Alloc); !isAl || !strings.Contains(al.Type().String(), "transferAction") {
				return
			}
			lits[fn][fieldName(fa)] = stI.Val.String()
		})
	}
	same := len(lits["trzszTransfer.recvAction"]) > 0 && reflect.DeepEqual(lits["trzszTransfer.recvAction"], lits["TrzszRelay.recvAction"])
	c.check(same, "recvAction/relay-defaults=server-defaults", "", fmt.Sprintf("relay and server decode the action over the same defaults %v", lits["trzszTransfer.recvAction"]), fmt.Sprintf("the relay decodes the client's action over defaults %v, a server over %v", lits["TrzszRelay.recvAction"], lits["trzszTransfer.recvAction"]))
	// the action struct: every capability the client can announce has a tag (json.Marshal of the same struct on both hops)
	at := structTags(c.namedType("transferAction"))
	for _, k := range []string{"binary", "support_dir", "fork", "protocol", "tunnel", "newline", "confirm", "version"} {
		_, has := at[k]
		c.check(has, "transferAction/tag."+k, "", "action field survives re-marshalling", "action key "+k+" missing from transferAction")
	}
}

func c14R3(c *Ctx) {
	sets := map[string][]string{}
	for _, name := range []string{"recvFiles", "sendFiles"} {
		f := c.fn(name)
		sc := callsIn(f, idIs(tT+"sendConfig"))
		if len(sc) != 1 {
			c.lost("sendConfig call in " + name)
		}
		seen := map[string]bool{}
		for _, b := range f.Blocks {
			i := blockIf(b)
			if i == nil || !precedes(i, sc[0].(ssa.Instruction)) {
				continue
			}
			// the If's condition (through && chains each If tests one operand)
			nf := normFact(fact{V: i.Cond, Pol: true})
			if _, fl, ok := fieldOf(nf.V); ok && (strings.HasPrefix(fl, "Support") || fl == "Confirm") {
				seen[fl] = true
			}
		}
		var l []string
		for k := range seen {
			l = append(l, k)
		}
		sort.Strings(l)
		sets[name] = l
		want := []string{"Confirm", "SupportBinary", "SupportDirectory", "SupportFork"}
		c.check(strings.Join(l, ",") == strings.Join(want, ","), name+"/capability-checks", c.ipos(sc[0]), "server checks confirm/binary/directory/fork before sending the config", "server capability checks before sendConfig are "+strings.Join(l, ",")+", expected "+strings.Join(want, ","))
		// binary downgrade: args.Binary = false on the !SupportBinary edge
		okDown := false
		eachInstr(f, func(in ssa.Instruction) {
			st, ok := in.(*ssa.Store)
			if !ok || !precedes(st, sc[0].(ssa.Instruction)) {
				return
			}
			if fa, ok := st.Addr.(*ssa.FieldAddr); ok && fieldName(fa) == "Binary" && !intoLocalCopy(fa) {
				if b, isC := constBool(st.Val); isC && !b {
					for _, fc := range factsAt(st.Block()) {
						if !fc.Pol && isFieldLoad("SupportBinary")(fc.V) {
							okDown = true
						}
					}
				}
			}
		})
		{
			// universal form: with binary asked for and not offered, the config is never sent with binary still on —
			// from the action's arrival no sendConfig is reachable under {Binary, !SupportBinary} without the downgrade
			ra := callsIn(f, idIs(tT+"recvAction"))
			if len(ra) > 0 {
				isBinArg := func(v ssa.Value) bool { return isFieldLoad("Binary")(v) }
				isDown := func(in ssa.Instruction) bool {
					st, ok := in.(*ssa.Store)
					if !ok {
						return false
					}
					fa, ok := st.Addr.(*ssa.FieldAddr)
					if !ok || fieldName(fa) != "Binary" || intoLocalCopy(fa) {
						return false
					}
					b, isC := constBool(st.Val)
					return isC && !b
				}
				rai := ra[0].(ssa.Instruction)
				hitB, pathB := reachFromE(rai.Block(), instrIndex(rai)+1, func(in ssa.Instruction) bool { return in == sc[0].(ssa.Instruction) }, c.orWrapper("binary=false", isDown),
					contradicts([]assumption{{pred: isBinArg, val: true}, {pred: isFieldLoad("SupportBinary"), val: false}}))
				c.check(hitB == nil, name+"/binary-always-downgraded", c.ipos(sc[0]), "when the action does not offer binary mode the config never goes out with binary mode on", "with binary asked for and not offered by the (narrowed) action the config can still be sent with binary on: binary frames travel over a path that cannot carry them", c.pathStr(pathB)...)
			}
		}
		c.check(okDown, name+"/binary-downgrade", c.ipos(sc[0]), "binary mode is dropped when the (narrowed) action does not offer it", "server keeps binary mode although the action does not offer it")
		// the side of each test: the config goes out only when the client confirmed and supports what was asked for;
		// a declined transfer ends with "Cancelled" and nothing else
		fs := factsAt(sc[0].Block())
		v, known := boolFieldFactAt(sc[0].Block(), "Confirm")
		c.check(known && v, name+"/config-iff-confirmed", c.ipos(sc[0]), "the config is sent on the edge where the client confirmed", "the config is sent on the wrong edge of the client's confirmation")
		_ = fs
		for _, ci := range callsIn(f, idIs(tT+"serverExit")) {
			if s, isS := constString(ci.Common().Args[1]); isS && s == "Cancelled" {
				v, known := boolFieldFactAt(ci.Block(), "Confirm")
				c.check(known && !v, name+"/cancelled-iff-declined", c.ipos(ci), "'Cancelled' is reported on the edge where the client declined", "'Cancelled' is reported on the wrong edge of the client's confirmation")
			}
		}
		for _, b := range f.Blocks {
			for k, sx := range b.Succs {
				if len(b.Succs) != 2 {
					continue
				}
				declined := false
				for _, fc := range edgeFactsTo(b, sx) {
					if isFieldLoad("Confirm")(fc.V) && !fc.Pol {
						declined = true
					}
				}
				if !declined {
					continue
				}
				_ = k
				hit, path := reachFrom(sx, 0, isReturn, func(in ssa.Instruction) bool {
					ci, ok := in.(ssa.CallInstruction)
					return ok && calleeID(ci.Common()) == tT+"serverExit"
				})
				c.check(hit == nil, name+"/declined=>exit-message", c.pos(b.Instrs[len(b.Instrs)-1].Pos()), "a declined transfer always ends through the server's exit message (terminal restored, 'Cancelled' shown)", "a declined transfer can return without the exit message: the terminal stays in raw mode and nothing marks the trigger as finished", c.pathStr(path)...)
			}
		}
		// unsupported fork / directory requests are refused, never silently honoured: under (asked && !supported) the config is unreachable
		for _, cap := range []struct{ arg, sup string }{{"Fork", "SupportFork"}, {"Directory", "SupportDirectory"}} {
			as := []assumption{{pred: isFieldLoad(cap.arg), val: true}, {pred: isFieldLoad(cap.sup), val: false}}
			c.check(!blocksUnder(f, as)[sc[0].Block()], name+"/refuses-unsupported-"+cap.arg, c.ipos(sc[0]), "a "+cap.arg+" request the client cannot honour is refused before the config is sent", "a "+cap.arg+" request the client cannot honour still reaches the config exchange")
			// and a supported / absent request is not refused: the config stays reachable
			// every other combination is accepted (asked+supported, not asked whatever the client supports)
			ok1 := true
			for _, combo := range [][2]bool{{false, false}, {false, true}, {true, true}} {
				as := []assumption{{pred: isFieldLoad(cap.arg), val: combo[0]}, {pred: isFieldLoad(cap.sup), val: combo[1]}, {pred: isFieldLoad("Confirm"), val: true}, {pred: isErrTest, val: false}}
				for _, other := range []struct{ arg, sup string }{{"Fork", "SupportFork"}, {"Directory", "SupportDirectory"}} {
					if other.arg != cap.arg {
						as = append(as, assumption{pred: isFieldLoad(other.arg), val: false})
					}
				}
				if !blocksUnder(f, as)[sc[0].Block()] {
					ok1 = false
				}
			}
			c.check(ok1, name+"/accepts-without-"+cap.arg, c.ipos(sc[0]), "a "+cap.arg+" request is refused only when it was asked for and the client cannot honour it", "a transfer is refused although "+cap.arg+" was not asked for, or was asked for and is supported")
		}
	}
	c.check(strings.Join(sets["recvFiles"], ",") == strings.Join(sets["sendFiles"], ","), "siblings/trz=tsz", "", "trz and tsz perform the same capability checks", "trz and tsz disagree on capability checks")
	// protocol = min(action.Protocol, own) when action.Protocol > 0
	f := c.fn("trzszTransfer.sendConfig")
	own := c.constVal("kProtocolVersion")
	found := false
	eachInstr(f, func(in ssa.Instruction) {
		mu, ok := in.(*ssa.MapUpdate)
		if !ok {
			return
		}
		if k, _ := constString(strip(mu.Key)); k != "protocol" {
			return
		}
		found = true
		call, _ := callOf(mu.Value)
		good := call != nil && calleeID(&call.Call) == "trzsz.minInt" && ((isFieldLoad("Protocol")(call.Call.Args[0]) && isConstIntV(own)(call.Call.Args[1])) || (isFieldLoad("Protocol")(call.Call.Args[1]) && isConstIntV(own)(call.Call.Args[0])))
		guarded := factCmp(factsAt(mu.Block()), token.GTR, isFieldLoad("Protocol"), isConstIntV(0))
		c.check(good && guarded, "sendConfig/protocol=min", c.ipos(mu), "negotiated protocol = min(client's, own), only when the client announced one", "negotiated protocol is not min(action.Protocol, kProtocolVersion) under action.Protocol > 0")
	})
	if !found {
		c.bad("sendConfig/protocol=min", c.pos(f.Pos()), "sendConfig no longer announces the negotiated protocol")
	}
}

// markersIn: constant byte-string arguments of bytes.Contains calls in f.
func markersIn(f *ssa.Function) map[string][]*ssa.Call {
	out := map[string][]*ssa.Call{}
	for _, ci := range callsIn(f, idIs("bytes.Contains")) {
		if s, ok := constString(strip(ci.Common().Args[1])); ok {
			out[s] = append(out[s], ci.(*ssa.Call))
		}
	}
	return out
}

func c14R4(c *Ctx) {
	tr := c.constVal("kRelayTransferring")
	want := []string{"#EXIT:", "#FAIL:", "#fail:"}
	for _, ps := range relayPumps {
		f := c.fn(ps.fn)
		ms := markersIn(f)
		var got []string
		for m := range ms {
			got = append(got, m)
		}
		sort.Strings(got)
		c.check(strings.Join(got, ",") == strings.Join(want, ","), ps.fn+"/markers", c.pos(f.Pos()), "pump tests exactly #EXIT:, #FAIL:, #fail:", "pump's end-marker set is {"+strings.Join(got, ",")+"}")
		// every reset is on the transferring edge, with the transferring constant; each marker leads to a reset
		resets := callsIn(f, idIs("(*trzsz.TrzszRelay).resetToStandby"))
		for _, r := range resets {
			onTr := factCmp(factsAt(r.Block()), token.EQL, anyValue, isConstIntV(tr))
			c.check(onTr && isConstIntV(tr)(r.Common().Args[1]), ps.fn+"/reset@transferring", c.ipos(r), "reset only from the transferring status", "reset to standby outside the transferring edge")
			// and for a reason: with no end marker in the chunk and the chunk not a lone Ctrl-C, no reset is reachable
			noReason := []assumption{
				{pred: func(v ssa.Value) bool {
					call, _ := callOf(v)
					return call != nil && calleeID(&call.Call) == "bytes.Contains"
				}, val: false},
				{val: false, cmp: func(op token.Token, x, y ssa.Value) (bool, bool) { // len(buf) == 1
					lc, _ := callOf(x)
					if (op != token.EQL && op != token.NEQ) || !isConstIntV(1)(y) || lc == nil || calleeID(&lc.Call) != "builtin len" {
						return false, false
					}
					return true, op == token.EQL
				}},
			}
			c.check(!blocksUnder(f, noReason)[r.Block()], ps.fn+"/reset-has-a-reason", c.ipos(r), "the relay leaves 'transferring' only on an end marker or a lone Ctrl-C", "the relay can leave 'transferring' on a chunk that carries no end marker and is not a lone Ctrl-C: it goes back to standby in the middle of a transfer")
		}
		for _, m := range want {
			for _, call := range ms[m] {
				// the true edge of this Contains leads to a reset before the next read / loop back
				var ifb *ssa.BasicBlock
				for _, r := range referrersOf(call) {
					if i, ok := r.(*ssa.If); ok {
						ifb = i.Block()
					}
				}
				if ifb == nil {
					c.bad(ps.fn+"/marker-unused."+m, c.ipos(call), "marker test result is not branched on")
					continue
				}
				hit, path := reachFrom(ifb.Succs[0], 0, func(in ssa.Instruction) bool {
					call2, ok := in.(*ssa.Call)
					return isReturn(in) || (ok && call2.Call.IsInvoke() && call2.Call.Method.Name() == "Read")
				}, func(in ssa.Instruction) bool {
					ci, ok := in.(ssa.CallInstruction)
					return ok && calleeID(ci.Common()) == "(*trzsz.TrzszRelay).resetToStandby"
				})
				c.check(hit == nil, ps.fn+"/marker=>reset."+m, c.ipos(call), "seeing the marker resets the relay to standby", "marker seen but the relay is not reset", c.pathStr(path)...)
			}
		}
	}
	// universal form: a chunk read while the status is 'transferring' and carrying marker m cannot get to the next read
	// (or the pump's end) without the reset — whatever else is tested on the way
	for _, ps := range relayPumps {
		f := c.fn(ps.fn)
		var read *ssa.Call
		eachInstr(f, func(in ssa.Instruction) {
			if call, ok := in.(*ssa.Call); ok && call.Call.IsInvoke() && call.Call.Method.Name() == "Read" {
				read = call
			}
		})
		if read == nil {
			c.lost("Read in " + ps.fn)
		}
		n := extractOf(read, 0)
		isStatus := func(v ssa.Value) bool {
			for _, l := range origins(v, originOpts{}) {
				call, _ := callOf(l.V)
				if call == nil {
					return false
				}
				if !isAtomicOnField(call, "relayStatus", "Load") && calleeID(&call.Call) != "(*trzsz.TrzszRelay).addHandshakeBuffer" {
					return false
				}
			}
			return true
		}
		isReset := func(in ssa.Instruction) bool {
			ci, ok := in.(ssa.CallInstruction)
			return ok && calleeID(ci.Common()) == "(*trzsz.TrzszRelay).resetToStandby"
		}
		for _, m := range want {
			m := m
			as := []assumption{
				valueIs(isStatus, tr),
				valueIs(isValue(n), 1),
				{pred: func(v ssa.Value) bool {
					call, _ := callOf(v)
					if call == nil || calleeID(&call.Call) != "bytes.Contains" {
						return false
					}
					k, ok := constString(strip(call.Call.Args[1]))
					return ok && k == m
				}, val: true},
				// the tunnel pumps: still attached to a relay
				{val: false, cmp: func(op token.Token, x, y ssa.Value) (bool, bool) {
					call, _ := callOf(x)
					if (op != token.EQL && op != token.NEQ) || !isNilConst(y) || call == nil || !isAtomicOnField(call, "relay", "Load") {
						return false, false
					}
					return true, op == token.EQL
				}},
			}
			hit, path := reachFromE(read.Block(), instrIndex(read)+1, func(in ssa.Instruction) bool { return in == ssa.Instruction(read) || isReturn(in) }, c.orWrapper("relay-reset", isReset), contradicts(as))
			c.check(hit == nil, ps.fn+"/transferring+marker=>reset."+m, c.ipos(read), "a chunk with this end marker, read while transferring, always resets the relay before the next read", "a chunk carrying "+m+" read while the relay is 'transferring' can pass without the reset: the relay stays in transfer mode after the transfer ended", c.pathStr(path)...)
		}
	}
	// client-input pump: lone Ctrl-C. Universal form: a one-byte chunk 0x03 read while transferring cannot get to the
	// next read without the reset, however the test is combined with the marker tests.
	{
		f := c.fn("TrzszRelay.wrapInput")
		var read *ssa.Call
		eachInstr(f, func(in ssa.Instruction) {
			if call, ok := in.(*ssa.Call); ok && call.Call.IsInvoke() && call.Call.Method.Name() == "Read" {
				read = call
			}
		})
		if read == nil {
			c.lost("Read in TrzszRelay.wrapInput")
		}
		n := extractOf(read, 0)
		isStatus := func(v ssa.Value) bool {
			for _, l := range origins(v, originOpts{}) {
				call, _ := callOf(l.V)
				if call == nil {
					return false
				}
				if !isAtomicOnField(call, "relayStatus", "Load") && calleeID(&call.Call) != "(*trzsz.TrzszRelay).addHandshakeBuffer" {
					return false
				}
			}
			return true
		}
		isLen := func(v ssa.Value) bool {
			lc, _ := callOf(v)
			return lc != nil && calleeID(&lc.Call) == "builtin len"
		}
		isFirstByte := func(v ssa.Value) bool {
			u, ok := strip(v).(*ssa.UnOp)
			if !ok || u.Op != token.MUL {
				return false
			}
			ia, ok := u.X.(*ssa.IndexAddr)
			return ok && isConstIntV(0)(ia.Index)
		}
		as := []assumption{valueIs(isStatus, tr), valueIs(isValue(n), 1), valueIs(isLen, 1), valueIs(isFirstByte, 3)}
		hit, path := reachFromE(read.Block(), instrIndex(read)+1, func(in ssa.Instruction) bool { return in == ssa.Instruction(read) || isReturn(in) }, c.orWrapper("relay-reset", func(in ssa.Instruction) bool {
			ci, ok := in.(ssa.CallInstruction)
			return ok && calleeID(ci.Common()) == "(*trzsz.TrzszRelay).resetToStandby"
		}), contradicts(as))
		pos := c.pos(f.Pos())
		if hit != nil {
			pos = c.ipos(hit)
		}
		c.check(hit == nil, "TrzszRelay.wrapInput/ctrl-c", pos, "a lone Ctrl-C from the client, read while transferring, always resets the relay before the next read", "the client-input pump no longer resets on a lone Ctrl-C", c.pathStr(path)...)
	}
	// markers are '#'+type+':' of the types actually used by the ends
	types_ := map[string]bool{}
	for _, nm := range []struct {
		fn, callee string
		idx        int
	}{
		{"trzszTransfer.clientExit", tT + "sendString", 1}, {"trzszTransfer.clientError", tT + "sendString", 1},
		{"trzszTransfer.serverError", tT + "sendString", 1}, {"TrzszRelay.sendError", "(*trzsz.TrzszRelay).sendStringToClient", 1}, {"TrzszRelay.sendError", "(*trzsz.TrzszRelay).sendStringToServer", 1},
	} {
		g := c.fn(nm.fn)
		for _, ci := range callsIn(g, idIs(nm.callee)) {
			for _, l := range origins(ci.Common().Args[nm.idx], originOpts{}) {
				if s, ok := constString(l.V); ok {
					types_[s] = true
				}
			}
		}
	}
	var tl []string
	for t := range types_ {
		tl = append(tl, "#"+t+":")
	}
	sort.Strings(tl)
	c.check(strings.Join(tl, ",") == strings.Join(want, ","), "markers=types-used", "", "end markers are exactly '#'+type+':' of EXIT/FAIL/fail as sent by the ends", "end markers {"+strings.Join(want, ",")+"} differ from the types the ends send {"+strings.Join(tl, ",")+"}")
}

func c14R5(c *Ctx) {
	c13R7(c)
	f := c.fn("TrzszRelay.resetToStandby")
	var cas *ssa.Call
	for _, ci := range callsIn(f, anyID) {
		if isStatusCall(ci, "CompareAndSwap") {
			cas, _ = ci.(*ssa.Call)
		}
	}
	if cas == nil {
		c.bad("resetToStandby/CAS", c.pos(f.Pos()), "reset no longer uses compare-and-swap on the status")
		return
	}
	c.check(isVar("status")(cas.Call.Args[1]), "resetToStandby/CAS-from-param", c.ipos(cas), "reset happens only from the status the caller observed", "reset CAS does not start from the caller's status")
	var won *ssa.BasicBlock
	for _, r := range referrersOf(cas) {
		if i, ok := r.(*ssa.If); ok {
			nf := normFact(fact{V: i.Cond, Pol: true})
			if nf.Pol {
				won = i.Block().Succs[0]
			} else {
				won = i.Block().Succs[1]
			}
		}
	}
	if won == nil {
		c.bad("resetToStandby/CAS-branch", c.ipos(cas), "result of the reset CAS is not branched on")
		return
	}
	for _, fld := range []string{"tunnelConnected", "tunnelRelay", "tunnelListener"} {
		fld := fld
		isClear := func(in ssa.Instruction) bool {
			ci, ok := in.(ssa.CallInstruction)
			if !ok || !isAtomicOnField(ci, fld, "Store") {
				return false
			}
			v := ci.Common().Args[1]
			if b, isC := constBool(v); isC {
				return !b
			}
			return isNilConst(v)
		}
		if fld == "tunnelConnected" {
			hit, path := reachFrom(won, 0, isReturn, isClear)
			c.check(hit == nil, "resetToStandby/clears."+fld, c.ipos(cas), "every reset clears the tunnel flag", "a reset can leave the tunnel flag set for the next transfer", c.pathStr(path)...)
			continue
		}
		// pointer fields: cleared whenever loaded non-nil — from the CAS-won edge no exit is reachable without the clear,
		// except over the edge on which a load of this very field was found nil (nothing to clear)
		hit, path := reachFromE(won, 0, isReturn, c.orWrapper("relay-clear:"+fld, isClear), func(from, to *ssa.BasicBlock) bool {
			for _, fc := range edgeFactsTo(from, to) {
				op, x, y, ok := cmpFact(fc)
				if !ok || op != token.EQL || !isNilConst(y) {
					continue
				}
				if call, _ := callOf(x); call != nil && isAtomicOnField(call, fld, "Load") {
					return true
				}
			}
			return false
		})
		c.check(hit == nil, "resetToStandby/always-clears."+fld, c.ipos(cas), "every reset that finds the pointer set clears it", "a reset can return with "+fld+" still set: it stays attached to the next transfer", c.pathStr(path)...)
		guardedClear := false
		eachInstr(f, func(in ssa.Instruction) {
			if !isClear(in) {
				return
			}
			for _, fc := range factsAt(in.Block()) {
				op, x, y, ok := cmpFact(fc)
				if ok && op == token.NEQ && (isNilConst(x) || isNilConst(y)) {
					for _, v := range []ssa.Value{x, y} {
						if call, _ := callOf(v); call != nil && isAtomicOnField(call, fld, "Load") && domI(won.Instrs[0], in) {
							guardedClear = true
						}
					}
				}
			}
		})
		c.check(guardedClear, "resetToStandby/clears."+fld, c.ipos(cas), "a non-nil "+fld+" is cleared on reset", "reset does not clear "+fld)
	}
}

// precedes: b is reachable from a, and a is not reachable from b (a happens before b whenever both run).
func precedes(a, b ssa.Instruction) bool {
	fwd, _ := reachAvoid(a, func(x ssa.Instruction) bool { return x == b }, nil)
	back, _ := reachAvoid(b, func(x ssa.Instruction) bool { return x == a }, nil)
	return fwd != nil && back == nil
}

// c14R7: polarity of the hand-over decisions. (a) The flush forwards every popped chunk and stops only on the empty pop;
// tunnel channels only on the tunnel-connected edge with a non-nil tunnel relay, terminal channels only off it; the tmux
// by-pass channel only when the handshake was confirmed; status goes to transferring exactly when confirmed and back to
// standby otherwise. (b) The handshake records the tunnel flag and the client's line framing from the client's action before
// forwarding it, reports an error only when there is one, marks "confirmed" only on the path where the client confirmed and
// the (rewritten) config went out, and adds the tmux junk flag exactly in tmux normal mode.
func c14R7(c *Ctx) {
	f := c.fn("TrzszRelay.flushHandshakeBuffer")
	pops := callsIn(f, idIs("(*trzsz.trzszBuffer).popBuffer"))
	isPop := func(in ssa.Instruction) bool {
		for _, p := range pops {
			if in == p.(ssa.Instruction) {
				return true
			}
		}
		return false
	}
	isTunnelLoad := func(v ssa.Value) bool {
		call, _ := callOf(v)
		return call != nil && isAtomicOnField(call, "tunnelConnected", "Load")
	}
	for _, p := range pops {
		pv := p.Value()
		_, fld, _ := fieldOf(p.Common().Args[0])
		// the popped chunk itself, or the loop variable of `for buf := pop(); buf != nil; buf = pop()` that carries it
		fromPop := func(v ssa.Value) bool {
			if v == ssa.Value(pv) {
				return true
			}
			if _, isPhi := v.(*ssa.Phi); !isPhi {
				return false
			}
			for _, l := range origins(v, originOpts{}) {
				if l.V == ssa.Value(pv) {
					return true
				}
			}
			return false
		}
		sendsBuf := func(in ssa.Instruction) bool {
			s, ok := in.(*ssa.Send)
			return ok && fromPop(s.X)
		}
		nilEdge := func(from, to *ssa.BasicBlock) bool {
			return factCmp(edgeFactsTo(from, to), token.EQL, fromPop, isNilConst)
		}
		hit, path := reachFromE(p.Block(), instrIndex(p.(ssa.Instruction))+1, func(in ssa.Instruction) bool { return isPop(in) || isReturn(in) }, sendsBuf, nilEdge)
		c.check(hit == nil, "flush/"+fld+"/every-pop-forwarded", c.ipos(p), "every chunk popped is forwarded before the next pop; the loop ends on the empty pop", "a popped chunk can be dropped (or the loop can end with chunks still parked)", c.pathStr(path)...)
		// after the empty pop the loop is left (no spinning under the lock)
		for _, b := range f.Blocks {
			for k, s := range b.Succs {
				_ = k
				if len(b.Succs) == 2 && nilEdge(b, s) {
					h2, p2 := reachFrom(s, 0, func(in ssa.Instruction) bool { return in == p.(ssa.Instruction) }, nil)
					c.check(h2 == nil, "flush/"+fld+"/empty-ends-loop", c.pos(b.Instrs[len(b.Instrs)-1].Pos()), "the empty pop ends this drain loop", "after the empty pop the same buffer is popped again: the flush spins while holding the buffer lock", c.pathStr(p2)...)
				}
			}
		}
	}
	// universal forms: whatever the outcome of the handshake, both parking buffers are drained to the empty pop and the
	// status leaves 'handshaking' before the flush returns (otherwise parked bytes are lost, or parking goes on for good)
	for _, bufName := range []string{"stdinBuffer", "stdoutBuffer"} {
		bufName := bufName
		isEmptyPopEdge := func(in ssa.Instruction) bool {
			// barrier: a pop of this buffer (the loop can only be left over its empty pop, checked above)
			ci, ok := in.(ssa.CallInstruction)
			if !ok || calleeID(ci.Common()) != "(*trzsz.trzszBuffer).popBuffer" {
				return false
			}
			_, fld, _ := fieldOf(ci.Common().Args[0])
			return fld == bufName
		}
		hitD, pathD := reachFrom(f.Blocks[0], 0, isReturn, c.orWrapper("pop:"+bufName, isEmptyPopEdge))
		c.check(hitD == nil, "flush/"+bufName+"/always-drained", c.pos(f.Pos()), "every flush drains this parking buffer, confirmed or not", "a flush can return without draining "+bufName+": bytes parked during the handshake are lost (or delivered in the next handshake)", c.pathStr(pathD)...)
	}
	{
		leaves := func(in ssa.Instruction) bool {
			ci, ok := in.(ssa.CallInstruction)
			if !ok {
				return false
			}
			if calleeID(ci.Common()) == "(*trzsz.TrzszRelay).resetToStandby" {
				return true
			}
			return isStatusCall(ci, "Store")
		}
		hitL, pathL := reachFrom(f.Blocks[0], 0, isReturn, c.orWrapper("leave-handshaking", leaves))
		c.check(hitL == nil, "flush/always-leaves-handshaking", c.pos(f.Pos()), "every flush ends by moving the status out of 'handshaking'", "a flush can return with the status still 'handshaking': all later traffic is parked and never delivered", c.pathStr(pathL)...)
	}
	eachInstr(f, func(in ssa.Instruction) {
		s, ok := in.(*ssa.Send)
		if !ok {
			return
		}
		_, ch, _ := fieldOf(s.Chan)
		fs := factsAt(s.Block())
		tun, tunKnown := false, false
		for _, fc := range fs {
			if isTunnelLoad(fc.V) {
				tun, tunKnown = fc.Pol, true
			}
		}
		switch ch {
		case "clientBufChan", "serverBufChan":
			base, _, _ := fieldOf(s.Chan)
			_, nonNil := factNil(fs, base)
			c.check(tunKnown && tun && nonNil, "flush/"+ch+"@tunnel", c.ipos(s), "parked chunks go through the tunnel only when it is connected and the tunnel relay exists", "parked chunks are sent to the tunnel on the wrong edge (tunnel not connected / no tunnel relay)")
		case "osStdinChan", "osStdoutChan", "bypassTmuxChan":
			// not reachable from the tunnel-connected edge of this round
			c.check(!(tunKnown && tun), "flush/"+ch+"@no-tunnel", c.ipos(s), "parked chunks go to the terminal side only when the tunnel is not in use", "parked chunks are sent to the terminal side on the tunnel-connected edge: they end up on the wrong connection")
			if ch != "osStdinChan" {
				v, known := false, false
				for _, fc := range fs {
					if isVar("confirm")(fc.V) {
						v, known = fc.Pol, true
					}
				}
				c.check(known && v == (ch == "bypassTmuxChan"), "flush/"+ch+"@confirm", c.ipos(s), "server output parked during the handshake goes to the tmux by-pass exactly when the transfer was confirmed", "server output parked during the handshake takes the by-pass / normal path on the wrong edge of 'confirmed'")
			}
		}
	})
	for _, ci := range callsIn(f, anyID) {
		v, known := false, false
		for _, fc := range factsAt(ci.Block()) {
			if isVar("confirm")(fc.V) {
				v, known = fc.Pol, true
			}
		}
		if isStatusCall(ci, "Store") {
			k, _ := constInt(ci.Common().Args[1])
			c.check(known && v && k == c.constVal("kRelayTransferring"), "flush/transferring-iff-confirmed", c.ipos(ci), "the relay enters 'transferring' exactly when the handshake was confirmed", "the relay enters 'transferring' on the wrong edge of 'confirmed'")
		}
		if calleeID(ci.Common()) == "(*trzsz.TrzszRelay).resetToStandby" {
			c.check(known && !v, "flush/standby-iff-not-confirmed", c.ipos(ci), "an unconfirmed or failed handshake returns the relay to standby", "the relay returns to standby on the wrong edge of 'confirmed'")
		}
	}

	// the relay's own lines take the same route decision (truth table, the condition is a conjunction)
	for _, w := range []struct{ fn, tun, term string }{
		{"TrzszRelay.sendStringToClient", "serverBufChan", "bypassTmuxChan"},
		{"TrzszRelay.sendStringToServer", "clientBufChan", "osStdinChan"},
	} {
		sf := c.fn(w.fn)
		var tunSend, termSend *ssa.Send
		var tload ssa.Value
		eachInstr(sf, func(in ssa.Instruction) {
			if s, ok := in.(*ssa.Send); ok {
				base, ch, _ := fieldOf(s.Chan)
				switch ch {
				case w.tun:
					tunSend, tload = s, base
				case w.term:
					termSend = s
				}
			}
		})
		if tunSend == nil || termSend == nil {
			c.bad(shortID(w.fn)+"/routes", c.pos(sf.Pos()), "the two routes (tunnel / terminal) of the relay's own lines were not found")
			continue
		}
		tnil := func(val bool) assumption {
			return assumption{val: val, cmp: func(op token.Token, x, y ssa.Value) (bool, bool) {
				if (op != token.EQL && op != token.NEQ) || !sameValue(x, tload) || !isNilConst(y) {
					return false, false
				}
				return true, op == token.EQL
			}}
		}
		conn := func(val bool) assumption {
			return assumption{pred: func(v ssa.Value) bool {
				call, _ := callOf(v)
				return call != nil && isAtomicOnField(call, "tunnelConnected", "Load")
			}, val: val}
		}
		for _, tc := range []struct {
			name   string
			as     []assumption
			tunnel bool
		}{
			{"no-tunnel-relay", []assumption{tnil(true)}, false},
			{"tunnel-not-connected", []assumption{tnil(false), conn(false)}, false},
			{"tunnel-connected", []assumption{tnil(false), conn(true)}, true},
		} {
			reach := blocksUnder(sf, tc.as)
			good := reach[tunSend.Block()] == tc.tunnel && reach[termSend.Block()] == !tc.tunnel
			c.check(good, shortID(w.fn)+"/route@"+tc.name, c.ipos(tunSend), "the relay's own line takes the tunnel exactly when a tunnel relay exists and is connected", "the relay's own line takes the wrong route for '"+tc.name+"' (nil tunnel relay dereferenced, or the line ends up on the other connection)")
		}
	}
	// the relay's own lines have the protocol's shape: '#' type ':' encoded payload, newline — in that order
	for _, fn := range []string{"TrzszRelay.sendStringToClient", "TrzszRelay.sendStringToServer"} {
		sf := c.fn(fn)
		good := false
		for _, ci := range callsIn(sf, idIs("fmt.Sprintf")) {
			fm, isS := constString(ci.Common().Args[0])
			els, ok := sliceElems(ci.Common().Args[1])
			if isS && fm == "#%s:%s%s" && ok && len(els) == 3 {
				enc, _ := callOf(strip(els[1].V))
				good = isVar("typ")(strip(els[0].V)) && enc != nil && calleeID(&enc.Call) == "trzsz.encodeString" && isVar("str")(enc.Call.Args[0])
			}
		}
		c.check(good, shortID(fn)+"/line-shape", c.pos(sf.Pos()), "the relay writes '#' + type + ':' + encodeString(payload) + newline", "the relay's own line is not '#type:encoded-payload' + newline (type and payload swapped, or payload not encoded)")
	}
	h := c.fn("TrzszRelay.handshake")
	ra := callsIn(h, idIs("(*trzsz.TrzszRelay).recvAction"))
	sa := callsIn(h, idIs("(*trzsz.TrzszRelay).sendAction"))
	sc := callsIn(h, idIs("(*trzsz.TrzszRelay).sendConfig"))
	if len(ra) != 1 || len(sa) != 1 || len(sc) != 1 {
		c.lost("recvAction / sendAction / sendConfig in the relay handshake")
	}
	okTun, okWin := false, false
	for _, ci := range callsIn(h, anyID) {
		if isAtomicOnField(ci, "tunnelConnected", "Store") && isFieldLoad("TunnelConnected")(ci.Common().Args[1]) && domI(ra[0].(ssa.Instruction), ci.(ssa.Instruction)) && domI(ci.(ssa.Instruction), sa[0].(ssa.Instruction)) {
			okTun = true
		}
	}
	eachInstr(h, func(in ssa.Instruction) {
		st, ok := in.(*ssa.Store)
		if !ok {
			return
		}
		if n, _ := fieldAddrName(st.Addr); n == "TrzszRelay.clientIsWindows" {
			if factCmp([]fact{{V: st.Val, Pol: true}}, token.EQL, isFieldLoad("Newline"), isConstStrV("!\n")) && domI(st, sa[0].(ssa.Instruction)) {
				okWin = true
			}
		}
	})
	c.check(okTun, "handshake/records-tunnel-flag", c.ipos(ra[0]), "the relay records the client's tunnel flag before forwarding the action", "the relay does not record whether the ends are connected through the tunnel: parked and later chunks take the wrong route")
	c.check(okWin, "handshake/records-client-framing", c.ipos(ra[0]), "the relay records the Windows line framing announced by the client", "the relay does not record the client's line framing: lines to/from a Windows client are framed wrongly")
	// recvConfig only after the client confirmed
	for _, ci := range callsIn(h, idIs("(*trzsz.TrzszRelay).recvConfig")) {
		v, known := boolFieldFactAt(ci.Block(), "Confirm")
		c.check(known && v, "handshake/config-iff-confirmed", c.ipos(ci), "the server's config is awaited only when the client confirmed", "the config exchange runs on the wrong edge of the client's confirmation")
	}
	// confirm := true only after sendConfig succeeded (and so after Confirm)
	var cell ssa.Value
	nTrue := 0
	eachInstr(h, func(in ssa.Instruction) {
		st, ok := in.(*ssa.Store)
		if !ok {
			return
		}
		al, isAl := st.Addr.(*ssa.Alloc)
		if !isAl || allocName(al) != "confirm" {
			return
		}
		cell = al
		if b, isC := constBool(st.Val); isC && b {
			nTrue++
			errV := ssa.Value(sc[0].(*ssa.Call))
			good := domI(sc[0].(ssa.Instruction), st) && factCmp(factsAt(st.Block()), token.EQL, isValue(errV), isNilConst)
			c.check(good, "handshake/confirmed-only-after-config-sent", c.ipos(st), "'confirmed' is set only on the edge where the rewritten config was sent without error", "'confirmed' can be set without the config having reached the client")
		}
	})
	c.check(cell != nil && nTrue == 1, "handshake/confirmed-set", c.pos(h.Pos()), "the success path marks the handshake confirmed", "no path marks the handshake confirmed: the relay returns to standby while the transfer it let through is running")
	if nTrue == 1 {
		// and the success path cannot skip it
		okE := factCmp
		_ = okE
		hit, path := reachFromE(sc[0].Block(), instrIndex(sc[0].(ssa.Instruction))+1, isReturn, func(in ssa.Instruction) bool {
			st, ok := in.(*ssa.Store)
			if !ok {
				return false
			}
			b, isC := constBool(st.Val)
			return st.Addr == cell && isC && b
		}, func(from, to *ssa.BasicBlock) bool {
			return factCmp(edgeFactsTo(from, to), token.NEQ, isValue(sc[0].(*ssa.Call)), isNilConst)
		})
		c.check(hit == nil, "handshake/success=>confirmed", c.ipos(sc[0]), "after the config went out every path marks the handshake confirmed", "a handshake that completed can still be flushed as 'not confirmed'", c.pathStr(path)...)
	}
	// the relay's own tmux constraints are applied AFTER the server's config was decoded (a value set before the decode is
	// overwritten by whatever the server — or an inner relay, which re-marshals every key — sent)
	rcf := c.fn("TrzszRelay.recvConfig")
	rcCalls := callsIn(h, idIs("(*trzsz.TrzszRelay).recvConfig"))
	umc := callsIn(rcf, idIs("encoding/json.Unmarshal"))
	for _, fld := range []string{"TmuxOutputJunk", "TmuxPaneColumns"} {
		after := false
		for _, fn := range []*ssa.Function{h, rcf} {
			eachInstr(fn, func(in ssa.Instruction) {
				st, ok := in.(*ssa.Store)
				if !ok {
					return
				}
				if n, _ := fieldAddrName(st.Addr); !strings.HasSuffix(n, "."+fld) {
					return
				}
				if fn == h && len(rcCalls) == 1 && domI(rcCalls[0].(ssa.Instruction), st) {
					after = true
				}
				if fn == rcf && len(umc) == 1 && domI(umc[0].(ssa.Instruction), st) {
					after = true
				}
			})
		}
		c.check(after, "handshake/"+fld+"-applied-after-decode", c.pos(h.Pos()), "the relay's "+fld+" constraint is written after the server's config was decoded", "the relay's "+fld+" constraint is not applied after the decode: an explicit value in the incoming config (every inner relay sends one) overrides it")
	}
	// the tmux junk flag
	eachInstr(h, func(in ssa.Instruction) {
		st, ok := in.(*ssa.Store)
		if !ok {
			return
		}
		if n, _ := fieldAddrName(st.Addr); n == "transferConfig.TmuxOutputJunk" || strings.HasSuffix(n, ".TmuxOutputJunk") {
			normal := factCmp(factsAt(st.Block()), token.EQL, isFieldLoad("tmuxMode"), isConstIntV(c.constVal("tmuxNormalMode")))
			b, isC := constBool(st.Val)
			c.check(normal && isC && b, "handshake/junk-flag-iff-tmux-normal", c.ipos(st), "the relay announces tmux output junk exactly when it runs inside tmux in normal mode", "the tmux junk flag is set on the wrong edge of the relay's tmux mode")
		}
	})
	// the deferred reporter
	d := c.fn("TrzszRelay.handshake$1")
	for _, ci := range callsIn(d, idIs("(*trzsz.TrzszRelay).sendError")) {
		arg := ci.Common().Args[1]
		_, nonNil := factNil(factsAt(ci.Block()), arg)
		c.check(nonNil, "handshake/report-iff-error", c.ipos(ci), "an error is reported to the client only when there is one", "the error report runs on the err == nil edge (nil dereference) and real errors are not reported")
	}
	fl := callsIn(d, idIs("(*trzsz.TrzszRelay).flushHandshakeBuffer"))
	good := len(fl) == 1
	if good {
		hit, _ := reachFrom(d.Blocks[0], 0, isReturn, func(in ssa.Instruction) bool { return in == fl[0].(ssa.Instruction) })
		good = hit == nil && isVar("confirm")(fl[0].Common().Args[1])
	}
	c.check(good, "handshake/always-flush(confirm)", c.pos(d.Pos()), "every exit of the handshake flushes with the confirmed flag", "an exit of the handshake does not flush with the confirmed flag")
}

// isErrTest: v is a comparison `err != nil` (used as an assumption: no error occurred).
func isErrTest(v ssa.Value) bool {
	b, ok := v.(*ssa.BinOp)
	return ok && b.Op == token.NEQ && isNilConst(b.Y) && isErrorType(b.X.Type())
}

// c14R8: error discipline of the relay's handshake. The four exchange steps and everything they call return their
// errors (same rule as C02-8); in the handshake itself the error edge of each step ends the handshake as
// "not confirmed" without running a later step.
func c14R8(c *Ctx) {
	var roots []*ssa.Function
	for _, n := range []string{"recvAction", "sendAction", "recvConfig", "sendConfig"} {
		roots = append(roots, c.fn("TrzszRelay."+n))
	}
	reach := c.reachableFrom(roots...)
	// what the C02 rule already covers is not repeated here
	covered := c.reachableFrom(c.fn("trzszTransfer.sendFiles"), c.fn("trzszTransfer.recvFiles"))
	errDiscipline(c, reach, covered, 8)
	h := c.fn("TrzszRelay.handshake")
	steps := []string{"(*trzsz.TrzszRelay).recvAction", "(*trzsz.TrzszRelay).sendAction", "(*trzsz.TrzszRelay).recvConfig", "(*trzsz.TrzszRelay).sendConfig"}
	isStep := func(in ssa.Instruction) bool {
		ci, ok := in.(ssa.CallInstruction)
		return ok && idIs(steps...)(calleeID(ci.Common()))
	}
	for _, ci := range callsIn(h, idIs(steps...)) {
		call := ci.(*ssa.Call)
		ev := errorValueOf(call)
		u := classifyErrUse(ev)
		key := "handshake/" + shortID(calleeID(&call.Call)) + ".error-ends-handshake"
		if len(u.tests) == 0 {
			// the error variable is captured by the deferred reporter: the value goes through its cell
			for _, r := range referrersOf(ev) {
				st, ok := r.(*ssa.Store)
				if !ok || st.Val != ev {
					continue
				}
				for _, r2 := range referrersOf(st.Addr) {
					ld, ok := r2.(*ssa.UnOp)
					if !ok || ld.Op != token.MUL || ld.Block() != st.Block() || instrIndex(ld) < instrIndex(st) {
						continue
					}
					u.tests = append(u.tests, classifyErrUse(ld).tests...)
				}
			}
		}
		if len(u.tests) == 0 {
			c.bad(key, c.ipos(call), "the error of this handshake step is not tested: the relay goes on with the next step after a failed one")
			continue
		}
		good := true
		for _, t := range u.tests {
			start := t.Block().Succs[nonNilEdge(t)]
			// no later step, and the confirmed flag is not set, on the error edge
			hit, _ := reachFrom(start, 0, func(in ssa.Instruction) bool {
				if isStep(in) {
					return true
				}
				if st, ok := in.(*ssa.Store); ok {
					if al, isAl := st.Addr.(*ssa.Alloc); isAl && allocName(al) == "confirm" {
						b, isC := constBool(st.Val)
						return isC && b
					}
				}
				return false
			}, nil)
			if hit != nil {
				good = false
			}
		}
		c.check(good, key, c.ipos(call), "a failed step ends the handshake: no later step runs and it is not marked confirmed", "after this step failed the relay can still run a later step or mark the handshake confirmed")
	}
}

// intoLocalCopy: the field written belongs to a struct value that lives in a local variable of the function (a
// by-value parameter or receiver, a copy) — the write does not reach the object the caller holds.
func intoLocalCopy(fa *ssa.FieldAddr) bool {
	var x ssa.Value = fa
	for {
		f, ok := x.(*ssa.FieldAddr)
		if !ok {
			break
		}
		x = f.X
	}
	a, ok := x.(*ssa.Alloc)
	if !ok {
		return false
	}
	_, isStruct := a.Type().Underlying().(*types.Pointer).Elem().Underlying().(*types.Struct)
	return isStruct
}
