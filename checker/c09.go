package main

// C09 — received files can only be created inside the destination: taint from peer names to path sinks.

import (
	"fmt"
	"go/token"
	"strings"

	"trzszlint/xssa"
)

func init() {
	register("C09", 12, "Decided (for every path of the current source): every string that reaches a non-root element of a filepath.Join (and so any Stat/OpenFile/MkdirAll/RemoveAll path) in the functions reachable from the receive loop either is not peer-controlled (constants, the destination directory, results of the fresh-name search applied to validated names, the per-path-id map that stores only such results) or is dominated — at the sink, along the call chain, or inside the decoder that produced the object — by a path-element validation whose accepting paths establish: not empty, not '.', not '..', no separator, and locality (filepath.IsLocal / no volume). Each element of a peer path list is validated individually (validating the joined path is not accepted: a join can cancel '..' against a substituted first element). Not decided: symlinks already present inside the destination, OS-specific path semantics beyond what filepath.IsLocal states.",
		func(c *Ctx) {
			c.run("C09-V", "validator recognition: accepting paths of the path-element validator establish the element facts", c09Validators)
			c.run("C09-D", "the decoder validates every element of the peer's path list before returning the object", c09Decoder)
			c.run("C09-I", "shared with C07-R1/C10-R4: the only removals while receiving iterate the recorded created paths", func(c *Ctx) { c07R1(c); c10R4(c) })
			c.run("C09-W", "WHO-WRITES: the validated path list is not rewritten between validation and use", c09WhoWrites)
			c.run("C09-T", "TAINT: every non-root join element in the receive path is trusted or validated", c09Taint)
		})
}

// pathElemFacts: which element facts hold on every accepting (nil-error / true) return of f for its parameter p.
type elemFacts struct{ notEmpty, notDot, notDotDot, noSep, local bool }

func (e elemFacts) ok() bool { return e.notEmpty && e.notDot && e.notDotDot && e.noSep && e.local }

func (e elemFacts) missing() string {
	var m []string
	if !e.notEmpty {
		m = append(m, "not-empty")
	}
	if !e.notDot {
		m = append(m, "not '.'")
	}
	if !e.notDotDot {
		m = append(m, "not '..'")
	}
	if !e.noSep {
		m = append(m, "no separator")
	}
	if !e.local {
		m = append(m, "local (IsLocal / no volume)")
	}
	return strings.Join(m, ", ")
}

func factsToElem(fs []fact, isName func(ssa.Value) bool) elemFacts {
	var e elemFacts
	for _, fc := range fs {
		if op, x, y, ok := cmpFact(fc); ok && op == token.NEQ {
			for _, pr := range [][2]ssa.Value{{x, y}, {y, x}} {
				if !isName(pr[0]) {
					continue
				}
				if s, isC := constString(pr[1]); isC {
					switch s {
					case "":
						e.notEmpty = true
					case ".":
						e.notDot = true
					case "..":
						e.notDotDot = true
					}
				}
			}
		}
		call, _ := callOf(fc.V)
		if call == nil {
			continue
		}
		id := calleeID(&call.Call)
		switch id {
		case "path/filepath.IsLocal":
			if fc.Pol && isName(call.Call.Args[0]) {
				e.local = true
				// IsLocal also excludes "", ".." elements and absolute paths, but we ask for the explicit tests too
			}
		case "strings.ContainsAny", "strings.Contains", "strings.ContainsRune":
			if !fc.Pol && isName(call.Call.Args[0]) {
				if s, isC := constString(call.Call.Args[1]); isC && strings.Contains(s, "/") {
					e.noSep = true
				}
			}
		}
	}
	return e
}

// validatorFacts: element facts established by f for parameter #0 on all accepting returns.
func validatorFacts(f *ssa.Function) (elemFacts, bool) {
	if f == nil || len(f.Params) != 1 || len(f.Blocks) == 0 {
		return elemFacts{}, false
	}
	ei := errIndex(f.Signature)
	if ei < 0 {
		return elemFacts{}, false
	}
	all := elemFacts{true, true, true, true, true}
	n := 0
	isName := func(v ssa.Value) bool { return strip(v) == ssa.Value(f.Params[0]) }
	eachInstr(f, func(in ssa.Instruction) {
		if !isNilErrReturn(in) {
			return
		}
		n++
		e := factsToElem(factsAt(in.Block()), isName)
		all = elemFacts{all.notEmpty && e.notEmpty, all.notDot && e.notDot, all.notDotDot && e.notDotDot, all.noSep && e.noSep, all.local && e.local}
	})
	return all, n > 0
}

func (c *Ctx) validators() map[*ssa.Function]elemFacts {
	out := map[*ssa.Function]elemFacts{}
	for _, f := range c.AllFns {
		if f.Parent() != nil || f.Signature.Recv() != nil {
			continue
		}
		if e, ok := validatorFacts(f); ok && (e.notDotDot || e.local) {
			out[f] = e
		}
	}
	return out
}

func c09Validators(c *Ctx) {
	vs := c.validators()
	if len(vs) == 0 {
		c.bad("validator/exists", "", "no function validates a single path element (rejecting '..', separators, non-local names): peer names reach the file system unchecked")
		return
	}
	for f, e := range vs {
		c.check(e.ok(), "validator/"+c.fnName(f), c.pos(f.Pos()), "accepting paths establish: not empty, not '.', not '..', no separator, local", "the path-element validator accepts names without establishing: "+e.missing())
		// the separator test also covers the platform separator
		sep := false
		for _, ci := range callsIn(f, idIs("strings.ContainsRune", "strings.IndexRune", "strings.ContainsAny")) {
			for _, a := range ci.Common().Args[1:] {
				if cv, ok := strip(a).(*ssa.Const); ok && cv.Value != nil {
					if n, isI := constInt(cv); isI && (n == '\\' || n == '/') {
						sep = true
					}
				}
			}
		}
		c.check(sep, "validator/"+c.fnName(f)+"/os-separator", c.pos(f.Pos()), "the platform separator (filepath.Separator) is rejected too", "the validator does not test the platform's own separator (backslash on Windows)")
	}
}

// validatedAt: value v is, at instruction `at`, dominated by the accepting edge of a validator call on v.
func (c *Ctx) validatedAt(v ssa.Value, at ssa.Instruction, vs map[*ssa.Function]elemFacts) bool {
	for _, fc := range factsAt(at.Block()) {
		op, x, y, ok := cmpFact(fc)
		if !ok || op != token.EQL {
			continue
		}
		for _, pr := range [][2]ssa.Value{{x, y}, {y, x}} {
			call, _ := callOf(pr[0])
			if call == nil || !isNilConst(pr[1]) {
				continue
			}
			callee := call.Call.StaticCallee()
			if e, isV := vs[callee]; isV && e.ok() && sameValue(call.Call.Args[0], v) {
				return true
			}
		}
	}
	return false
}

func c09Decoder(c *Ctx) {
	vs := c.validators()
	f := c.fn("unmarshalSourceFile")
	// the object returned
	n := 0
	eachInstr(f, func(in ssa.Instruction) {
		r, ok := in.(*ssa.Return)
		if !ok || !isNilErrReturn(in) {
			return
		}
		n++
		obj := strip(retVal(r, 0))
		// a validator call on an element of obj.RelPath indexed by a range over that same slice,
		// whose error edge fails, and the return is reachable only through the range's exit
		var vcall *ssa.Call
		var loopIf *ssa.If
		for _, ci := range callsIn(f, anyID) {
			call, ok := ci.(*ssa.Call)
			if !ok {
				continue
			}
			if e, isV := vs[call.Call.StaticCallee()]; !isV || !e.ok() {
				continue
			}
			u, ok := strip(call.Call.Args[0]).(*ssa.UnOp)
			if !ok {
				continue
			}
			ia, ok := u.X.(*ssa.IndexAddr)
			if !ok {
				continue
			}
			base, fld, okF := fieldOf(ia.X)
			if !okF || fld != "RelPath" || strip(base) != obj {
				continue
			}
			// index is the range index: phi + 1 compared with len(RelPath)
			for _, b := range f.Blocks {
				i := blockIf(b)
				if i == nil || b.Comment != "rangeindex.loop" {
					continue
				}
				op, x, y, okC := cmpFact(normFact(fact{V: i.Cond, Pol: true}))
				if okC && op == token.LSS && sameValue(x, ia.Index) && isLenOf(y, func(v ssa.Value) bool { bb, ff, k := fieldOf(v); return k && ff == "RelPath" && strip(bb) == obj }) {
					vcall, loopIf = call, i
				}
			}
		}
		if vcall == nil {
			c.bad("unmarshalSourceFile/validates-each-element", c.ipos(r), "the decoder returns a peer path list whose elements were not each validated (validating only the first element or the joined path is not enough)")
			return
		}
		u := classifyErrUse(errorValueOf(vcall))
		okErr := len(u.tests) > 0
		for _, t := range u.tests {
			if okE, _ := failEdge(c, t.Block(), nonNilEdge(t)); !okE {
				okErr = false
			}
		}
		c.check(okErr, "unmarshalSourceFile/invalid-element-is-error", c.ipos(vcall), "an invalid element makes the decoder fail", "an invalid element does not make the decoder fail")
		// the success return is reached only through the loop's exit edge, and every iteration validates
		exit := loopIf.Block().Succs[1]
		c.check(exit.Dominates(r.Block()), "unmarshalSourceFile/return-after-full-loop", c.ipos(r), "the object is returned only after the loop over all elements finished", "the object can be returned before all elements were validated")
		hit, path := reachFrom(loopIf.Block().Succs[0], 0, func(x ssa.Instruction) bool { return x == ssa.Instruction(loopIf) }, func(x ssa.Instruction) bool { return x == ssa.Instruction(vcall) })
		c.check(hit == nil, "unmarshalSourceFile/every-iteration-validates", c.ipos(vcall), "no iteration skips the validation", "an iteration can skip the validation", c.pathStr(path)...)
		// non-empty list
		c.check(factCmp(factsAt(r.Block()), token.GEQ, func(v ssa.Value) bool { return isLenOf(v, isFieldLoad("RelPath")) }, isConstIntV(1)), "unmarshalSourceFile/non-empty", c.ipos(r), "the path list is not empty", "an empty path list is accepted")
	})
	if n != 1 {
		c.undecided("unmarshalSourceFile/returns", "expected one successful return")
	}
	// every sourceFile used on the receiving side comes from the decoder
	for _, name := range []string{"trzszTransfer.createDirOrFile", "trzszTransfer.newArchiveWriter", "trzszTransfer.recvPrefixHash"} {
		g := c.fn(name)
		for i, p := range g.Params {
			if !strings.HasSuffix(p.Type().String(), "sourceFile") {
				continue
			}
			for _, cs := range c.callersOf(g) {
				good := true
				for _, l := range origins(cs.Instr.Common().Args[i], originOpts{}) {
					if call, idx := callOf(l.V); call != nil && idx == 0 && calleeID(&call.Call) == "trzsz.unmarshalSourceFile" {
						continue
					}
					if pp, ok := l.V.(*ssa.Parameter); ok && strings.HasSuffix(pp.Type().String(), "sourceFile") {
						continue // passed through from a caller checked by the same rule
					}
					good = false
				}
				c.check(good, name+"/srcFile<-decoder@"+c.fnName(cs.Caller), c.ipos(cs.Instr), "the entry description comes from the validating decoder", "an entry description that did not pass the validating decoder reaches the create path")
			}
		}
	}
}

type taintCtx struct {
	c    *Ctx
	vs   map[*ssa.Function]elemFacts
	seen map[string]bool
}

// elemSafe decides whether string value v (used at instruction at in function f) is safe as a path element.
// Returns "" when safe, else a description of the unsafe origin.
func (t *taintCtx) elemSafe(f *ssa.Function, v ssa.Value, at ssa.Instruction, depth int) string {
	c := t.c
	if depth > 6 {
		return "origin too deep to trace: " + v.String()
	}
	if t.c.validatedAt(v, at, t.vs) {
		return ""
	}
	for _, l := range origins(v, originOpts{}) {
		lv := l.V
		if _, ok := constString(lv); ok {
			continue
		}
		if c.validatedAt(lv, at, t.vs) {
			continue
		}
		// validated on the edge the value flows along
		valid := false
		for _, fc := range l.facts() {
			op, x, y, ok := cmpFact(fc)
			if !ok || op != token.EQL {
				continue
			}
			for _, pr := range [][2]ssa.Value{{x, y}, {y, x}} {
				if call, _ := callOf(pr[0]); call != nil && isNilConst(pr[1]) {
					if e, isV := t.vs[call.Call.StaticCallee()]; isV && e.ok() && sameValue(call.Call.Args[0], lv) {
						valid = true
					}
				}
			}
		}
		if valid {
			continue
		}
		switch x := lv.(type) {
		case *ssa.Parameter:
			key := c.fnName(f) + "#" + x.Name()
			if t.seen[key] {
				continue
			}
			t.seen[key] = true
			idx := paramIndex(f, x)
			callers := c.callersOf(f)
			if len(callers) == 0 {
				return "parameter " + x.Name() + " of " + c.fnName(f) + " without resolvable callers"
			}
			for _, cs := range callers {
				if why := t.elemSafe(cs.Caller, cs.Instr.Common().Args[idx], cs.Instr.(ssa.Instruction), depth+1); why != "" {
					return why + " (via " + c.fnName(cs.Caller) + " -> " + c.fnName(f) + ")"
				}
			}
			continue
		case *ssa.UnOp:
			// element of a sourceFile's path list: safe iff the object came from the validating decoder
			if ia, ok := x.X.(*ssa.IndexAddr); ok && x.Op == token.MUL {
				if base, fld, okF := fieldOf(ia.X); okF && fld == "RelPath" {
					if why := t.objSafe(f, base, depth+1); why != "" {
						return why
					}
					continue
				}
			}
		case *ssa.Extract, *ssa.Call:
			call, idx := callOf(lv)
			if call == nil {
				break
			}
			id := calleeID(&call.Call)
			switch id {
			case "trzsz.getNewName":
				if idx == 0 {
					// name or name.N: safe iff the name searched for is safe
					if why := t.elemSafe(f, call.Call.Args[1], call, depth+1); why != "" {
						return why
					}
					continue
				}
			case "(*trzsz.sourceFile).getFileName":
				if why := t.objSafe(f, call.Call.Args[0], depth+1); why != "" {
					return why
				}
				continue
			case "path/filepath.Join":
				continue // a rooted join checked on its own
			case "fmt.Sprintf":
				// name + ".N": safe iff the format adds no separator / dot-dot and every string argument is safe
				fm, okF := constString(call.Call.Args[0])
				if okF && !strings.ContainsAny(fm, "/\\") && !strings.Contains(fm, "..") && strings.HasPrefix(fm, "%s") {
					args, okA := sliceElems(call.Call.Args[1])
					bad := ""
					if !okA {
						bad = "cannot reconstruct Sprintf arguments"
					}
					for _, a := range args {
						if a.Spread {
							bad = "spread Sprintf arguments"
							continue
						}
						av := strip(a.V)
						if !strings.Contains(av.Type().String(), "string") {
							continue
						}
						if why := t.elemSafe(f, av, call, depth+1); why != "" {
							bad = why
						}
					}
					if bad != "" {
						return bad
					}
					continue
				}
			}
		case *ssa.Lookup:
		}
		if m, ok := mapLookupOf(lv); ok {
			if _, mf, isField := fieldOf(m); isField {
				// all stores into that map field must be safe
				bad := ""
				for _, g := range c.AllFns {
					eachInstr(g, func(in ssa.Instruction) {
						mu, ok := in.(*ssa.MapUpdate)
						if !ok || bad != "" {
							return
						}
						if _, fld, ok := fieldOf(mu.Map); ok && fld == mf {
							bad = t.elemSafe(g, mu.Value, mu, depth+1)
						}
					})
				}
				if bad != "" {
					return bad
				}
				continue
			}
		}
		return fmt.Sprintf("peer-controllable value %s (%s) in %s", lv.Name(), lv.String(), c.fnName(f))
	}
	return ""
}

// objSafe: the *sourceFile value came from the validating decoder (directly or via parameters).
func (t *taintCtx) objSafe(f *ssa.Function, obj ssa.Value, depth int) string {
	c := t.c
	if depth > 6 {
		return "object origin too deep"
	}
	for _, l := range origins(obj, originOpts{}) {
		if call, idx := callOf(l.V); call != nil && idx == 0 && calleeID(&call.Call) == "trzsz.unmarshalSourceFile" {
			continue
		}
		if p, ok := l.V.(*ssa.Parameter); ok {
			key := c.fnName(f) + "#obj#" + p.Name()
			if t.seen[key] {
				continue
			}
			t.seen[key] = true
			idx := paramIndex(f, p)
			callers := c.callersOf(f)
			if len(callers) == 0 {
				return "entry description parameter of " + c.fnName(f) + " without resolvable callers"
			}
			for _, cs := range callers {
				if why := t.objSafe(cs.Caller, cs.Instr.Common().Args[idx], depth+1); why != "" {
					return why
				}
			}
			continue
		}
		return "entry description not produced by the validating decoder: " + l.V.String() + " in " + c.fnName(f)
	}
	return ""
}

func c09Taint(c *Ctx) {
	t := &taintCtx{c: c, vs: c.validators()}
	reach := c.reachableNarrow(c.recvRoots()...)
	nSinks := 0
	for _, f := range c.AllFns {
		if !reach[f] {
			continue
		}
		for _, j := range joinsIn(c, f) {
			fname := c.fnName(f)
			for k, e := range j.Elems {
				if k == 0 {
					continue // the root: destination directory or a rooted join (C07-R2)
				}
				nSinks++
				t.seen = map[string]bool{}
				key := fmt.Sprintf("%s/Join.elem%d", fname, k)
				if e.Spread {
					// a slice of elements: RelPath[1:n] of a decoded object, or unknown
					why := ""
					for _, l := range origins(e.V, originOpts{throughSlice: true}) {
						base, fld, ok := fieldOf(l.V)
						if ok && fld == "RelPath" {
							why = t.objSafe(f, base, 0)
						} else {
							why = "slice of path elements of unknown origin: " + l.V.String()
						}
					}
					c.check(why == "", key+"...", c.ipos(j.Call), "the spread elements belong to a decoded (validated) path list", "unvalidated path elements reach a join: "+why)
					continue
				}
				why := t.elemSafe(f, e.V, j.Call, 0)
				c.check(why == "", key, c.ipos(j.Call), "element is constant, fresh-name output of a validated name, or validated", "a peer-supplied name can reach this join without validation: "+why)
			}
		}
	}
	if nSinks < 6 {
		c.undecided("sinks", fmt.Sprintf("only %d join elements found in the receive path", nSinks))
	}
	// string concatenation building paths
	for _, f := range c.AllFns {
		if !reach[f] {
			continue
		}
		eachInstr(f, func(in ssa.Instruction) {
			ci, ok := in.(ssa.CallInstruction)
			if !ok {
				return
			}
			id := calleeID(ci.Common())
			if !idIs("os.OpenFile", "os.MkdirAll", "os.Mkdir", "os.RemoveAll", "os.Remove", "os.Create", "os.Rename")(id) {
				return
			}
			arg := ci.Common().Args[0]
			for _, l := range origins(arg, originOpts{}) {
				if b, ok := l.V.(*ssa.BinOp); ok && b.Op == token.ADD {
					c.bad(c.fnName(f)+"/"+id+".concat-path", c.ipos(in), "a path given to "+id+" is built by string concatenation instead of a checked join")
				}
			}
		})
	}
}

// c09WhoWrites: a validated path list stays what was validated. The list of a decoded entry is written by the JSON
// decoder only; in the functions reachable while receiving, and in the decoder itself, nothing stores into the
// RelPath field or into an element of a RelPath slice (a "clean-up" of the names after the check — trimming,
// normalising — would turn an accepted " .." into ".."). The sender's scan builds its own entries from the local
// file system through composite literals, which are stores into fresh objects in functions outside that reach.
func c09WhoWrites(c *Ctx) {
	reach := c.reachableFrom(c.recvRoots()...)
	n := 0
	for _, f := range c.AllFns {
		nm := c.fnName(f)
		if !reach[f] && nm != "unmarshalSourceFile" {
			continue
		}
		eachInstr(f, func(in ssa.Instruction) {
			st, ok := in.(*ssa.Store)
			if !ok {
				return
			}
			if fn, ok := fieldAddrName(st.Addr); ok && fn == "sourceFile.RelPath" {
				n++
				c.bad("RelPath/no-writer/"+nm, c.ipos(st), "the peer's path list is reassigned after decoding: what is joined below the destination is no longer what was validated")
				return
			}
			if ia, ok := st.Addr.(*ssa.IndexAddr); ok {
				for _, l := range origins(ia.X, originOpts{throughSlice: true}) {
					if isFieldLoad("RelPath")(l.V) {
						n++
						c.bad("RelPath/no-writer/"+nm, c.ipos(st), "an element of the peer's path list is rewritten after decoding: what is joined below the destination is no longer what was validated")
						return
					}
				}
			}
		})
	}
	if n == 0 {
		c.ok("RelPath/no-writer", "", "nothing reachable while receiving writes the decoded path list or its elements")
	}
}
