package main

// C16 — protocol lines survive tmux / Windows noise: alphabet, marker and Ctrl-C clauses.

import (
	"fmt"
	"go/token"
	"strings"

	"trzszlint/xssa"
)

func init() {
	register("C16", 20, "Decided (for the current source): (R1) the byte set the Windows-console reader keeps, derived from the comparison constants of its letter predicate, contains everything a sender can emit (base64 standard alphabet, '=', '#', ':', digits, letters) and excludes its own terminator '!', ESC, CR, LF and Ctrl-C; the senders' payload alphabet is base64-std / decimal integers / true|false; (R2) in both line readers every byte that can reach the accumulated line was tested against Ctrl-C first; (R3) the Windows branch and the junk branch of the line receiver, and the relay's two readers, cut at the last '#'+type+':' built from the same parameter, with the last-'#' fallback in both receiver branches; (R4) the CR-before-LF continuation is taken only in junk-tolerant mode and the status-line stripper only slices at indexes proven >= 0; (R5) junk tolerance is forced off once the tunnel is agreed and on when the config says tmux junk. Not decided: payload recovery for all noise insertions (both hand-written state machines). Added: (R3) the marker cut and the fallback cut are applied to the line the function goes on with; (R7) the relay uses the Windows reader / terminator exactly for a Windows side without tunnel.",
		func(c *Ctx) {
			c.run("C16-R1", "LITERAL: Windows reader alphabet covers the senders' alphabet and excludes control bytes", c16R1)
			c.run("C16-R2", "MUST-PASS: Ctrl-C always interrupts", c16R2)
			c.run("C16-R3", "SIBLING: marker cut", c16R3)
			c.run("C16-R4", "GUARD-DOM: continuation only with junk tolerance; stripper slices only at proven indexes", c16R4)
			c.run("C16-R5", "WHO-CALLS: junk tolerance forced by tunnel / config", c16R5)
			c.run("C16-R7", "GUARD-DOM: the relay frames lines for a Windows side exactly when that side is Windows and the tunnel is not in use", c16R7)
			c.run("C16-R8", "WHO-CALLS: protocol-side decisions use the environment predicate, not the host-OS predicate", c16WinPredicates)
			c.run("C16-S1", "shared with C03-R4: what is queued for the line readers is the buffer just read into (re-allocated after the hand-over) or a fresh copy", c03R4)
			c.run("C16-R9", "LITERAL: the status stripper skips exactly the length of each marker it found", c16StripLens)
			c.run("C16-R6", "PAIR: the Windows reader's duplicate flag is consumed by the first kept letter", c16R6)
		})
}

func edgeFacts(p *ssa.BasicBlock, k int) []fact {
	fs := factsAt(p)
	if i := blockIf(p); i != nil {
		fs = append(fs, normFact(fact{V: i.Cond, Pol: k == 0, If: i}))
	}
	return fs
}

// byteSet computes the set of byte values for which the single-parameter predicate f returns true,
// from the comparison constants on the edges leading to its 'return true' blocks.
func byteSet(f *ssa.Function) ([256]bool, bool) {
	var acc [256]bool
	if len(f.Params) != 1 {
		return acc, false
	}
	par := f.Params[0]
	ok := true
	filter := func(fs []fact) [256]bool {
		var s [256]bool
		for i := range s {
			s[i] = true
		}
		for _, fc := range fs {
			op, x, y, isCmp := cmpFact(fc)
			if !isCmp {
				ok = false
				continue
			}
			var k int64
			var kc bool
			if x == ssa.Value(par) {
				k, kc = constInt(y)
			} else if y == ssa.Value(par) {
				k, kc = constInt(x)
				// mirror
				switch op {
				case token.LSS:
					op = token.GTR
				case token.GTR:
					op = token.LSS
				case token.LEQ:
					op = token.GEQ
				case token.GEQ:
					op = token.LEQ
				}
			} else {
				ok = false
				continue
			}
			if !kc {
				ok = false
				continue
			}
			for b := 0; b < 256; b++ {
				v := int64(b)
				keep := true
				switch op {
				case token.EQL:
					keep = v == k
				case token.NEQ:
					keep = v != k
				case token.LSS:
					keep = v < k
				case token.LEQ:
					keep = v <= k
				case token.GTR:
					keep = v > k
				case token.GEQ:
					keep = v >= k
				}
				if !keep {
					s[b] = false
				}
			}
		}
		return s
	}
	eachInstr(f, func(in ssa.Instruction) {
		r, isR := in.(*ssa.Return)
		if !isR {
			return
		}
		v, isC := constBool(r.Results[0])
		if !isC {
			ok = false
			return
		}
		if !v {
			return
		}
		b := r.Block()
		for _, p := range b.Preds {
			for k, s := range p.Succs {
				if s != b {
					continue
				}
				set := filter(edgeFacts(p, k))
				for i := range set {
					if set[i] {
						acc[i] = true
					}
				}
			}
		}
	})
	return acc, ok
}

func c16R1(c *Ctx) {
	f := c.fn("isTrzszLetter")
	set, ok := byteSet(f)
	if !ok {
		c.undecided("isTrzszLetter/shape", "the letter predicate is not a combination of comparisons of its byte parameter with constants")
		return
	}
	n := 0
	for _, b := range set {
		if b {
			n++
		}
	}
	c.Anchors = append(c.Anchors, fmt.Sprintf("isTrzszLetter accepts %d byte values", n))
	need := "ABCDEFGHIJKLMNOPQRSTUVWXYZabcdefghijklmnopqrstuvwxyz0123456789+/=#:"
	missing := ""
	for i := 0; i < len(need); i++ {
		if !set[need[i]] {
			missing += string(need[i])
		}
	}
	c.check(missing == "", "isTrzszLetter/covers-sender-alphabet", c.pos(f.Pos()), "keeps base64-std, '=', '#', ':', digits and letters", "the Windows reader drops bytes a sender can emit: "+missing)
	for _, b := range []byte{'!', 0x1b, '\r', '\n', 0x03, ' '} {
		c.check(!set[b], fmt.Sprintf("isTrzszLetter/excludes-%02x", b), c.pos(f.Pos()), fmt.Sprintf("byte %02x is not kept", b), fmt.Sprintf("the Windows reader keeps control byte %02x (terminator/escape/newline/Ctrl-C) as payload", b))
	}
	// senders' payload alphabet
	eb := c.fn("encodeBytes")
	std := false
	for _, ci := range callsIn(eb, idIs("(*encoding/base64.Encoding).EncodeToString")) {
		if u, ok := ci.Common().Args[0].(*ssa.UnOp); ok {
			if g, ok := u.X.(*ssa.Global); ok && g.Name() == "StdEncoding" {
				std = true
			}
		}
	}
	c.check(std, "sender/base64-std", c.pos(eb.Pos()), "text payloads are base64 standard alphabet", "text payloads are no longer base64-std: the Windows reader's alphabet may not cover them")
	si := c.fn("trzszTransfer.sendInteger")
	dec := false
	for _, ci := range callsIn(si, idIs("strconv.FormatInt")) {
		if isConstIntV(10)(ci.Common().Args[1]) {
			dec = true
		}
	}
	c.check(dec, "sender/decimal-integers", c.pos(si.Pos()), "integers are sent in decimal", "integers are not sent in decimal")
	// line type names are letters only
	sent, _, _ := c.lineTypes(c.fn("trzszTransfer.sendFiles"))
	s2, _, _ := c.lineTypes(c.fn("trzszTransfer.recvFiles"))
	for t := range s2 {
		sent[t] = s2[t]
	}
	for _, extra := range []string{"ACT", "CFG", "EXIT", "fail", "FAIL"} {
		sent[extra] = "handshake"
	}
	for _, t := range keys(sent) {
		okT := true
		for i := 0; i < len(t); i++ {
			if !set[t[i]] {
				okT = false
			}
		}
		c.check(okT, "sender/type."+t, "", "line type "+t+" survives the Windows reader", "line type "+t+" contains a byte the Windows reader drops")
	}
	// the terminator the Windows reader cuts at is the one the Windows-mode sender appends
	rw := c.fn("trzszBuffer.readLineOnWindows")
	term := false
	for _, ci := range callsIn(rw, idIs("bytes.IndexByte")) {
		if isConstIntV('!')(ci.Common().Args[1]) {
			term = true
		}
	}
	sa := c.fn("trzszTransfer.sendAction")
	nl := false
	eachInstr(sa, func(in ssa.Instruction) {
		if st, ok := in.(*ssa.Store); ok {
			if s, ok := constString(st.Val); ok && s == "!\n" {
				nl = true
			}
		}
	})
	c.check(term && nl, "windows/terminator", c.pos(rw.Pos()), "reader cuts at '!' and Windows-mode senders end lines with '!\\n'", "Windows line terminator disagrees between sender and reader")
}

func c16R2(c *Ctx) {
	f := c.fn("trzszBuffer.readLine")
	n := 0
	eachInstr(f, func(in ssa.Instruction) {
		call, ok := in.(*ssa.Call)
		if !ok || calleeID(&call.Call) != "(*bytes.Buffer).Write" {
			return
		}
		if nm, ok := fieldAddrName(call.Call.Args[0]); !ok || nm != "trzszBuffer.readBuf" {
			return
		}
		n++
		buf := call.Call.Args[1]
		good := factCmp(factsAt(call.Block()), token.LSS, func(v ssa.Value) bool {
			ic, _ := callOf(v)
			return ic != nil && calleeID(&ic.Call) == "bytes.IndexByte" && sameValue(ic.Call.Args[0], buf) && isConstIntV(3)(ic.Call.Args[1])
		}, isConstIntV(0))
		for _, fc := range factsAt(call.Block()) {
			if cc, _ := callOf(fc.V); cc != nil && !fc.Pol && containsCtrlC(cc) && sameValue(cc.Call.Args[0], buf) {
				good = true // bytes.Contains(buf, {0x03}) found false
			}
		}
		c.check(good, "readLine/ctrl-c-before-append", c.ipos(call), "bytes are appended only after the chunk was found free of Ctrl-C", "bytes can be appended to the line without the Ctrl-C test on that same chunk")
	})
	if n == 0 {
		c.lost("readBuf.Write in readLine")
	}
	g := c.fn("trzszBuffer.readLineOnWindows")
	m := 0
	eachInstr(g, func(in ssa.Instruction) {
		var val ssa.Value
		switch x := in.(type) {
		case *ssa.Call:
			if calleeID(&x.Call) != "(*bytes.Buffer).WriteByte" {
				return
			}
			val = x.Call.Args[1]
		case *ssa.Store:
			ia, ok := x.Addr.(*ssa.IndexAddr)
			if !ok {
				return
			}
			if bc, _ := callOf(ia.X); bc == nil || calleeID(&bc.Call) != "(*bytes.Buffer).Bytes" {
				return
			}
			val = x.Val
		default:
			return
		}
		m++
		good := factCmp(factsAt(in.Block()), token.NEQ, isValue(val), isConstIntV(3))
		c.check(good, "readLineOnWindows/ctrl-c-before-keep", c.ipos(in), "a byte is kept only after it was compared with Ctrl-C", "a byte can be kept in the line without the Ctrl-C test")
	})
	if m < 2 {
		c.undecided("readLineOnWindows/keeps", "expected the append and the duplicate-overwrite store")
	}
	// Windows reader: every byte of the chunk is compared with Ctrl-C before anything else is decided about it
	var load *ssa.UnOp
	eachInstr(g, func(in ssa.Instruction) {
		if u, ok := in.(*ssa.UnOp); ok && u.Op == token.MUL && load == nil {
			if ia, ok := u.X.(*ssa.IndexAddr); ok {
				// the loop index: `for i := 0; …; i++` (a phi) or `for _, c := range buf` (the phi plus one)
				idx := ia.Index
				if b, isB := idx.(*ssa.BinOp); isB && b.Op == token.ADD && isConstIntV(1)(b.Y) {
					idx = b.X
				}
				if _, isPhi := idx.(*ssa.Phi); isPhi {
					load = u
				}
			}
		}
	})
	if load == nil {
		c.lost("per-byte load in readLineOnWindows")
	}
	isCCTest := func(x ssa.Instruction) bool {
		i, ok := x.(*ssa.If)
		if !ok {
			return false
		}
		op, a, b, okC := cmpFact(normFact(fact{V: i.Cond, Pol: true}))
		return okC && (op == token.EQL || op == token.NEQ) && sameValue(a, load) && isConstIntV(3)(b)
	}
	hitF, pathF := reachAvoid(load, func(x ssa.Instruction) bool {
		_, isIf := x.(*ssa.If)
		return isIf && !isCCTest(x)
	}, isCCTest)
	c.check(hitF == nil, "readLineOnWindows/ctrl-c-tested-first", c.ipos(load), "the Ctrl-C comparison is the first decision taken on every byte (also inside escape sequences)",
		"a byte can be classified (escape sequence, newline, ...) before it is compared with Ctrl-C: a Ctrl-C in that position does not interrupt", c.pathStr(pathF)...)
	// the Ctrl-C edge returns an error in both
	for _, fn := range []*ssa.Function{f, g} {
		found := false
		for _, b := range fn.Blocks {
			i := blockIf(b)
			if i == nil {
				continue
			}
			op, x, y, ok := cmpFact(normFact(fact{V: i.Cond, Pol: true}))
			if !ok {
				continue
			}
			isCC := false
			if op == token.EQL && isConstIntV(3)(y) {
				isCC = true
			}
			if ic, _ := callOf(x); op == token.GEQ && ic != nil && calleeID(&ic.Call) == "bytes.IndexByte" && isConstIntV(3)(ic.Call.Args[1]) {
				isCC = true
			}
			if !isCC {
				continue
			}
			found = true
			okE, why := failEdge(c, b, 0)
			c.check(okE, c.fnName(fn)+"/ctrl-c-interrupts", c.ipos(i), "Ctrl-C returns the Interrupted error", "Ctrl-C edge does not end the read with an error: "+why)
		}
		for _, b := range fn.Blocks {
			i := blockIf(b)
			if i == nil {
				continue
			}
			nf := normFact(fact{V: i.Cond, Pol: true})
			if cc, _ := callOf(nf.V); cc != nil && containsCtrlC(cc) {
				found = true
				k := 0
				if !nf.Pol {
					k = 1
				}
				okE, why := failEdge(c, b, k)
				c.check(okE, c.fnName(fn)+"/ctrl-c-interrupts", c.ipos(i), "Ctrl-C returns the Interrupted error", "Ctrl-C edge does not end the read with an error: "+why)
			}
		}
		if !found {
			c.bad(c.fnName(fn)+"/ctrl-c-interrupts", c.pos(fn.Pos()), "no Ctrl-C test in the line reader")
		}
	}
}

// isMarkerExpr: []byte("#" + expectType + ":") for the parameter named expectType
func isMarkerExpr(v ssa.Value) bool {
	b, ok := strip(v).(*ssa.BinOp)
	if !ok || b.Op != token.ADD {
		return false
	}
	if s, ok := constString(b.Y); !ok || s != ":" {
		return false
	}
	b2, ok := b.X.(*ssa.BinOp)
	if !ok || b2.Op != token.ADD {
		return false
	}
	s, ok := constString(b2.X)
	return ok && s == "#" && isVar("expectType")(b2.Y)
}

func c16R3(c *Ctx) {
	for _, nm := range []struct {
		fn        string
		cuts, fbs int
	}{{"trzszTransfer.recvLine", 2, 2}, {"recvStringFromBuffer", 1, 0}, {"recvStringForWindows", 1, 0}} {
		f := c.fn(nm.fn)
		cuts, fbs := 0, 0
		for _, ci := range callsIn(f, idIs("bytes.LastIndex")) {
			if isMarkerExpr(ci.Common().Args[1]) {
				cuts++
				// the line is cut at that index on the >= 0 edge
				okCut := false
				for _, r := range referrersOf(ci.Value()) {
					if sl, ok := r.(*ssa.Slice); ok && sl.Low == ci.Value() {
						if factCmp(factsAt(sl.Block()), token.GEQ, isValue(ci.Value()), isConstIntV(0)) {
							okCut = true
						}
					}
				}
				c.check(okCut, nm.fn+"/cut-at-marker", c.ipos(ci), "line is cut at the last '#TYPE:' when found", "the marker index is not used to cut the line on its >= 0 edge")
			}
		}
		// a cut counts only if the cut line is what the function goes on with (returned, or handed to the stripper)
		flows := func(sl *ssa.Slice) bool {
			found := false
			var visit func(v ssa.Value, depth int)
			visit = func(v ssa.Value, depth int) {
				if depth > 6 || found {
					return
				}
				for _, r := range referrersOf(v) {
					switch x := r.(type) {
					case *ssa.Return:
						found = true
					case *ssa.Phi:
						visit(x, depth+1)
					case *ssa.Call:
						if calleeID(&x.Call) == tT+"stripTmuxStatusLine" || calleeID(&x.Call) == "trzsz.decodeRelayBufferString" || calleeID(&x.Call) == "string" {
							found = true
						}
					case *ssa.Convert, *ssa.ChangeType, *ssa.Slice:
						visit(x.(ssa.Value), depth+1)
					case *ssa.Store:
						found = found || x.Val == v
					}
				}
			}
			visit(sl, 0)
			return found
		}
		for _, ci := range callsIn(f, idIs("bytes.LastIndex")) {
			if !isMarkerExpr(ci.Common().Args[1]) {
				continue
			}
			used := false
			for _, r := range referrersOf(ci.Value()) {
				if sl, ok := r.(*ssa.Slice); ok && sl.Low == ci.Value() && flows(sl) {
					used = true
				}
			}
			c.check(used, nm.fn+"/marker-cut-used", c.ipos(ci), "the line cut at the marker is the line the function goes on with", "the cut at the marker is computed but the uncut line is used")
		}
		for _, ci := range callsIn(f, idIs("bytes.LastIndexByte")) {
			if isConstIntV('#')(ci.Common().Args[1]) {
				fbs++
				used := false
				for _, r := range referrersOf(ci.Value()) {
					if sl, ok := r.(*ssa.Slice); ok && sl.Low == ci.Value() && flows(sl) &&
						(factCmp(factsAt(sl.Block()), token.GTR, isValue(ci.Value()), isConstIntV(0)) || factCmp(factsAt(sl.Block()), token.GEQ, isValue(ci.Value()), isConstIntV(0))) {
						used = true
					}
				}
				c.check(used, nm.fn+"/fallback-cut-used", c.ipos(ci), "without the marker the line is cut at the last '#' (text in front of it is dropped)", "the fallback cut at the last '#' is not applied to the line the function goes on with")
			}
		}
		c.check(cuts == nm.cuts, nm.fn+"/marker-built-from-type", c.pos(f.Pos()), fmt.Sprintf("%d cut(s) at '#'+expectType+':'", cuts), fmt.Sprintf("expected %d marker cut(s) built from the expected type, found %d", nm.cuts, cuts))
		c.check(fbs == nm.fbs, nm.fn+"/fallback-last-hash", c.pos(f.Pos()), fmt.Sprintf("%d fallback(s) to the last '#'", fbs), fmt.Sprintf("expected %d fallback(s) to the last '#', found %d", nm.fbs, fbs))
	}
	// in recvLine the tmux status stripper runs on the junk branch after the cut
	f := c.fn("trzszTransfer.recvLine")
	for _, ci := range callsIn(f, idIs(tT+"stripTmuxStatusLine")) {
		junk := false
		for _, fc := range factsAt(ci.Block()) {
			if fc.Pol {
				for _, l := range origins(fc.V, originOpts{}) {
					if isVar("mayHasJunk")(l.V) {
						junk = true
					}
				}
			}
		}
		c.check(junk, "recvLine/strip@junk", c.ipos(ci), "status-line stripping runs in junk-tolerant mode", "status-line stripping runs outside junk-tolerant mode")
		// and after the cut at the marker: its argument is the cut line
		cutFirst := true
		for _, li := range callsIn(f, idIs("bytes.LastIndex")) {
			if isMarkerExpr(li.Common().Args[1]) && li.Block() != ci.Block() && !domI(li.(ssa.Instruction), ci.(ssa.Instruction)) {
				// a marker search that the strip does not follow: only acceptable for the Windows branch
				if !precedes(li.(ssa.Instruction), ci.(ssa.Instruction)) {
					continue
				}
				cutFirst = false
			}
		}
		nCut := 0
		for _, l := range origins(ci.Common().Args[1], originOpts{}) {
			if sl, ok := l.V.(*ssa.Slice); ok && sl.Low != nil {
				nCut++
			}
		}
		c.check(cutFirst && nCut >= 1, "recvLine/strip-after-cut", c.ipos(ci), "the status strings are stripped from the line already cut at its marker", "the status-line stripper runs before the line is cut at its marker: a half status string in front of the marker discards the line")
	}
	// and on every junk-tolerant path, not only on some: from the line read itself no successful exit is reachable
	// without the stripper, except over an edge on which the junk flag was found false
	nJ := 0
	junkIf := func(b *ssa.BasicBlock) (*ssa.If, int) {
		i := blockIf(b)
		if i == nil {
			return nil, 0
		}
		nf := normFact(fact{V: i.Cond, Pol: true})
		if _, isCmp := nf.V.(*ssa.BinOp); isCmp {
			return nil, 0
		}
		// the flag tested is the one the line reader was given (not a stale copy of it: the parameter before the
		// tunnel / tmux adjustments)
		given := false
		for _, rl := range callsIn(f, idIs("(*trzsz.trzszBuffer).readLine")) {
			if sameValue(nf.V, rl.Common().Args[1]) {
				given = true
			}
		}
		if !given {
			return nil, 0
		}
		for _, l := range origins(nf.V, originOpts{}) {
			if isVar("mayHasJunk")(l.V) {
				if nf.Pol {
					return i, 1 // false edge is Succs[1]
				}
				return i, 0
			}
		}
		return nil, 0
	}
	for _, b := range f.Blocks {
		if i, _ := junkIf(b); i != nil {
			nJ++
		}
	}
	for _, rl := range callsIn(f, idIs("(*trzsz.trzszBuffer).readLine")) {
		hit, path := reachFromE(rl.Block(), instrIndex(rl.(ssa.Instruction))+1, isNilErrReturn, c.orWrapper("strip", func(in ssa.Instruction) bool {
			ci, isCall := in.(ssa.CallInstruction)
			return isCall && calleeID(ci.Common()) == tT+"stripTmuxStatusLine"
		}), func(from, to *ssa.BasicBlock) bool {
			i, k := junkIf(from)
			return i != nil && to == from.Succs[k] && from.Succs[0] != from.Succs[1]
		})
		c.check(hit == nil, "recvLine/junk=>strip", c.ipos(rl), "every line accepted in junk-tolerant mode went through the status-line stripper", "a line can be accepted in junk-tolerant mode without the tmux status-line strings being stripped from it", c.pathStr(path)...)
	}
	if nJ == 0 {
		c.undecided("recvLine/junk=>strip", "no junk-mode branch after the line read found")
	}
}

func c16R4(c *Ctx) {
	readLineContinuation(c)
	f := c.fn("trzszBuffer.readLine")
	n := 0
	for _, ci := range callsIn(f, idIs("(*bytes.Buffer).Truncate")) {
		n++
		junk := false
		for _, fc := range factsAt(ci.Block()) {
			if fc.Pol && isVar("mayHasJunk")(fc.V) {
				junk = true
			}
		}
		cr := factCmp(factsAt(ci.Block()), token.EQL, anyValue, isConstIntV('\r'))
		c.check(junk && cr, "readLine/continue-on-CR@junk", c.ipos(ci), "a CR before the LF continues the line only in junk-tolerant mode", "CR-LF continuation is taken outside junk-tolerant mode (a strict line ending in CR would be merged)")
	}
	if n == 0 {
		c.bad("readLine/continue-on-CR", c.pos(f.Pos()), "the junk-tolerant reader no longer joins lines wrapped with CR LF")
	}
	g := c.fn("trzszTransfer.stripTmuxStatusLine")
	for _, ci := range callsIn(g, idIs("bytes.Index")) {
		v := ci.Value()
		bad := ""
		var check func(u ssa.Value)
		seen := map[ssa.Value]bool{}
		check = func(u ssa.Value) {
			if seen[u] {
				return
			}
			seen[u] = true
			for _, r := range referrersOf(u) {
				switch x := r.(type) {
				case *ssa.BinOp:
					if x.Op == token.ADD || x.Op == token.SUB {
						if !factCmp(factsAt(x.Block()), token.GEQ, isValue(v), isConstIntV(0)) {
							bad = c.ipos(x)
						}
						check(x)
					}
				case *ssa.Slice:
					if !factCmp(factsAt(x.Block()), token.GEQ, isValue(v), isConstIntV(0)) {
						bad = c.ipos(x)
					}
				case *ssa.Phi:
					check(x)
				}
			}
		}
		check(v)
		c.check(bad == "", "stripTmuxStatusLine/index>=0", c.ipos(ci), "the search result is used as a bound only on its >= 0 edge", "a search result is used as a slice bound without the >= 0 test at "+bad)
	}
}

func c16R5(c *Ctx) {
	f := c.fn("trzszTransfer.recvLine")
	calls := callsIn(f, idIs("(*trzsz.trzszBuffer).readLine"))
	if len(calls) != 1 {
		c.lost("readLine call in recvLine")
	}
	arg := calls[0].Common().Args[1]
	var sawOff, sawOn, sawParam bool
	for _, l := range origins(arg, originOpts{}) {
		fs := l.facts()
		if b, isC := constBool(l.V); isC {
			if !b {
				for _, fc := range fs {
					if fc.Pol && isFieldLoad("tunnelConnected")(fc.V) {
						sawOff = true
					}
				}
			} else {
				for _, fc := range fs {
					if fc.Pol && isFieldLoad("TmuxOutputJunk")(fc.V) {
						sawOn = true
					}
				}
			}
		} else if isVar("mayHasJunk")(l.V) {
			sawParam = true
		}
	}
	c.check(sawOff, "recvLine/junk-off@tunnel", c.ipos(calls[0]), "junk tolerance is off once the tunnel is agreed", "junk tolerance is not forced off on a tunnel")
	c.check(sawOn, "recvLine/junk-on@config", c.ipos(calls[0]), "junk tolerance is on when the config announces tmux junk", "junk tolerance is not forced on when the config announces tmux junk")
	c.check(sawParam, "recvLine/junk-default", c.ipos(calls[0]), "otherwise the caller's choice applies", "the caller's junk choice is ignored")
	// the Windows branch is taken only without a tunnel
	for _, ci := range callsIn(f, idIs("(*trzsz.trzszBuffer).readLineOnWindows")) {
		noTun := false
		for _, fc := range factsAt(ci.Block()) {
			if !fc.Pol && isFieldLoad("tunnelConnected")(fc.V) {
				noTun = true
			}
		}
		c.check(noTun, "recvLine/windows-reader@in-band", c.ipos(ci), "the Windows-console reader is used only in-band", "the Windows-console reader is used on a tunnel")
	}
	// the same as a truth table over the four inputs (universal: which reader runs, and with what junk flag, in each case)
	{
		A := func(p func(ssa.Value) bool, v bool) assumption { return assumption{pred: p, val: v} }
		tun := isFieldLoad("tunnelConnected")
		winEnv := func(v ssa.Value) bool {
			call, _ := callOf(v)
			return call != nil && calleeID(&call.Call) == "trzsz.isWindowsEnvironment"
		}
		winProto := isFieldLoad("windowsProtocol")
		junkCfg := isFieldLoad("TmuxOutputJunk")
		wins := callsIn(f, idIs("(*trzsz.trzszBuffer).readLineOnWindows"))
		for _, row := range []struct {
			name    string
			as      []assumption
			windows bool
			junk    string // "", "true", "false", "param": expected junk argument of readLine
		}{
			{"in-band,windows-environment", []assumption{A(tun, false), A(winEnv, true)}, true, ""},
			{"in-band,windows-framing-negotiated", []assumption{A(tun, false), A(winEnv, false), A(winProto, true)}, true, ""},
			{"tunnel", []assumption{A(tun, true)}, false, "false"},
			{"in-band,plain,tmux-junk-announced", []assumption{A(tun, false), A(winEnv, false), A(winProto, false), A(junkCfg, true)}, false, "true"},
			{"in-band,plain,no-junk-announced", []assumption{A(tun, false), A(winEnv, false), A(winProto, false), A(junkCfg, false)}, false, "param"},
		} {
			reach := blocksUnder(f, row.as)
			gotWin, gotPlain := false, reach[calls[0].Block()]
			for _, w := range wins {
				if reach[w.Block()] {
					gotWin = true
				}
			}
			c.check(gotWin == row.windows && gotPlain == !row.windows, "recvLine/reader@"+row.name, c.pos(f.Pos()), "this case reads with the expected line reader", "in the case '"+row.name+"' the line is read with the wrong reader (Windows-console decorations are not undone, or a plain line is run through the Windows filter)")
			if row.junk == "" || !gotPlain {
				continue
			}
			got := "?"
			// the leaves of the argument over the phi edges that stay feasible in this case
			no := contradicts(row.as)
			var leaves []ssa.Value
			seenV := map[ssa.Value]bool{}
			var walk func(v ssa.Value)
			walk = func(v ssa.Value) {
				if seenV[v] {
					return
				}
				seenV[v] = true
				if ph, isPhi := v.(*ssa.Phi); isPhi {
					for i, e := range ph.Edges {
						pred := ph.Block().Preds[i]
						if !reach[pred] || no(pred, ph.Block()) {
							continue
						}
						walk(e)
					}
					return
				}
				leaves = append(leaves, v)
			}
			walk(arg)
			allParam, allTrue, allFalse := len(leaves) > 0, len(leaves) > 0, len(leaves) > 0
			for _, l := range leaves {
				if !isVar("mayHasJunk")(l) {
					allParam = false
				}
				b, isC := constBool(l)
				if !isC || !b {
					allTrue = false
				}
				if !isC || b {
					allFalse = false
				}
			}
			switch {
			case allParam:
				got = "param"
			case allTrue:
				got = "true"
			case allFalse:
				got = "false"
			}
			c.check(got == row.junk, "recvLine/junk-flag@"+row.name, c.ipos(calls[0]), "junk tolerance in this case is "+row.junk, "in the case '"+row.name+"' junk tolerance is "+got+", expected "+row.junk+" (tmux decorations are not undone, or a strict line is joined with the next)")
		}
	}
	_ = strings.TrimSpace
}

// c16R6: the Windows reader's "a cursor move may re-print the last character" flag is consumed by the
// first kept letter: on every path through the letter branch the flag is false afterwards.
func c16R6(c *Ctx) {
	f := c.fn("trzszBuffer.readLineOnWindows")
	var letter *ssa.BasicBlock
	for _, ci := range callsIn(f, idIs("trzsz.isTrzszLetter")) {
		for _, r := range referrersOf(ci.Value()) {
			if i, ok := r.(*ssa.If); ok {
				letter = i.Block().Succs[0]
			}
		}
	}
	if letter == nil {
		c.lost("letter branch in readLineOnWindows")
	}
	// the flag: the boolean variable tested first thing in the letter branch (identified by role, not by name)
	flag := ""
	if li := blockIf(letter); li != nil {
		if ph, ok := normFact(fact{V: li.Cond, Pol: true}).V.(*ssa.Phi); ok {
			flag = ph.Comment
		}
	}
	if flag == "" {
		c.lost("the duplicate flag tested at the start of the letter branch")
	}
	n := 0
	eachInstr(f, func(in ssa.Instruction) {
		p, ok := in.(*ssa.Phi)
		if !ok || p.Comment != flag {
			return
		}
		for k, e := range p.Edges {
			pred := p.Block().Preds[k]
			if !(letter == pred || letter.Dominates(pred)) {
				continue
			}
			n++
			good := false
			if b, isC := constBool(e); isC && !b {
				good = true
			}
			for _, fc := range append(factsAt(pred), edgeFactsTo(pred, p.Block())...) {
				if !fc.Pol && fc.V == e {
					good = true
				}
			}
			if q, ok := e.(*ssa.Phi); ok && q.Comment == flag && (letter == q.Block() || letter.Dominates(q.Block())) {
				good = true // a merge inside the letter branch, checked on its own edges
			}
			c.check(good, "readLineOnWindows/duplicate-flag-consumed", c.pos(pred.Instrs[len(pred.Instrs)-1].Pos()), "after a kept letter the 're-printed character' flag is false",
				"the 're-printed character' flag can stay armed after a letter was kept: a later ordinary character equal to its predecessor is dropped")
		}
	})
	if n < 3 {
		c.undecided("readLineOnWindows/duplicate-flag", "the flag's merges in the letter branch were not found")
	}
}

// ---- C16-R7: which line framing the relay uses towards each side ----

type assumption struct {
	pred func(ssa.Value) bool
	val  bool
	// cmp (optional): for an equality assumption x == k, recognise the edge fact whichever way the source
	// wrote the comparison (==, != and negations): reports whether the fact is about the same pair and whether
	// it states equality.
	cmp func(op token.Token, x, y ssa.Value) (applies, equal bool)
	// truth (optional): the assumption fixes the VALUE of something; given a comparison fact about it, reports whether
	// the fact is about that thing and whether it is true under the assumption (x == k is true iff k is the assumed value)
	truth func(op token.Token, x, y ssa.Value) (applies, holds bool)
}

// valueIs: the integer/char/string-valued expression recognised by pred has the constant value want.
func valueIs(pred func(ssa.Value) bool, want int64) assumption {
	return assumption{truth: func(op token.Token, x, y ssa.Value) (bool, bool) {
		k, isK := constInt(y)
		if !isK || !pred(x) {
			return false, false
		}
		switch op {
		case token.EQL:
			return true, k == want
		case token.NEQ:
			return true, k != want
		case token.LSS:
			return true, want < k
		case token.LEQ:
			return true, want <= k
		case token.GTR:
			return true, want > k
		case token.GEQ:
			return true, want >= k
		}
		return false, false
	}}
}

// contradicts: taking the edge from->to is impossible under the assumptions (the branch condition is one of the
// assumed predicates with the other polarity).
func contradicts(as []assumption) func(from, to *ssa.BasicBlock) bool {
	return func(from, to *ssa.BasicBlock) bool {
		for _, f := range edgeFactsTo(from, to) {
			if _, isPhi := f.V.(*ssa.Phi); isPhi {
				if x, known := boolUnder(f.V, as, 0); known && x != f.Pol {
					return true
				}
			}
			for _, a := range as {
				if a.truth != nil {
					if op, x, y, ok := cmpFact(f); ok {
						if applies, holds := a.truth(op, x, y); applies && !holds {
							return true
						}
					}
					continue
				}
				if a.cmp != nil {
					if op, x, y, ok := cmpFact(f); ok {
						if applies, equal := a.cmp(op, x, y); applies && equal != a.val {
							return true
						}
					}
					continue
				}
				if a.pred(f.V) && f.Pol != a.val {
					return true
				}
			}
		}
		return false
	}
}

// blocksUnder: blocks reachable from the entry when the assumptions hold.
func blocksUnder(f *ssa.Function, as []assumption) map[*ssa.BasicBlock]bool {
	no := contradicts(as)
	seen := map[*ssa.BasicBlock]bool{f.Blocks[0]: true}
	work := []*ssa.BasicBlock{f.Blocks[0]}
	for len(work) > 0 {
		b := work[0]
		work = work[1:]
		for _, s := range b.Succs {
			if !no(b, s) && !seen[s] {
				seen[s] = true
				work = append(work, s)
			}
		}
	}
	return seen
}

func c16R7(c *Ctx) {
	win := func(v ssa.Value) bool { return isFieldLoad("winServer")(v) }
	cliWin := func(v ssa.Value) bool { return isFieldLoad("clientIsWindows")(v) }
	tun := func(v ssa.Value) bool {
		call, _ := callOf(v)
		return call != nil && isAtomicOnField(call, "tunnelConnected", "Load")
	}
	type want struct {
		name    string
		as      []assumption
		windows bool // the Windows framing must be the one used
	}
	A := func(p func(ssa.Value) bool, v bool) assumption { return assumption{pred: p, val: v} }
	// reader selection
	for _, r := range []struct {
		fn    string
		wants []want
	}{
		{"TrzszRelay.recvStringFromClient", []want{
			{"winServer,no-tunnel", []assumption{A(win, true), A(tun, false)}, true},
			{"tunnel", []assumption{A(tun, true)}, false},
			{"not-winServer", []assumption{A(win, false)}, false},
		}},
		{"TrzszRelay.recvStringFromServer", []want{
			{"winClient,no-tunnel", []assumption{A(cliWin, true), A(tun, false)}, true},
			{"winServer,no-tunnel", []assumption{A(cliWin, false), A(win, true), A(tun, false)}, true},
			{"tunnel", []assumption{A(tun, true)}, false},
			{"no-windows", []assumption{A(cliWin, false), A(win, false)}, false},
		}},
	} {
		f := c.fn(r.fn)
		w := callsIn(f, idIs("trzsz.recvStringForWindows"))
		p := callsIn(f, idIs("trzsz.recvStringFromBuffer"))
		if len(w) != 1 || len(p) != 1 {
			c.lost("the two line readers in " + r.fn)
		}
		for _, wt := range r.wants {
			reach := blocksUnder(f, wt.as)
			good := reach[w[0].Block()] == wt.windows && reach[p[0].Block()] == !wt.windows
			c.check(good, shortID(r.fn)+"/reader@"+wt.name, c.pos(f.Pos()), "under ("+wt.name+") exactly the "+map[bool]string{true: "Windows-console", false: "plain"}[wt.windows]+" line reader is reachable", "under ("+wt.name+") the relay reads with the wrong line reader")
		}
	}
	// newline selection in the writers
	for _, r := range []struct {
		fn    string
		wants []want
	}{
		{"TrzszRelay.sendStringToClient", []want{
			{"winClient,no-tunnel", []assumption{A(cliWin, true), A(tun, false)}, true},
			{"winServer,no-tunnel", []assumption{A(cliWin, false), A(win, true), A(tun, false)}, true},
			{"tunnel", []assumption{A(tun, true)}, false},
			{"no-windows", []assumption{A(cliWin, false), A(win, false)}, false},
		}},
		{"TrzszRelay.sendStringToServer", []want{
			{"winServer,no-tunnel", []assumption{A(win, true), A(tun, false)}, true},
			{"not-winServer", []assumption{A(win, false)}, false},
		}},
	} {
		f := c.fn(r.fn)
		var nl ssa.Value
		for _, ci := range callsIn(f, idIs("fmt.Sprintf")) {
			els, ok := sliceElems(ci.Common().Args[1])
			if ok && len(els) == 3 {
				nl = els[2].V
			}
		}
		if nl == nil {
			c.lost("the line formatter in " + r.fn)
		}
		ph, isPhi := strip(nl).(*ssa.Phi)
		if !isPhi {
			c.bad(shortID(r.fn)+"/newline", c.pos(f.Pos()), "the newline is no longer chosen between the plain and the Windows form")
			continue
		}
		for _, wt := range r.wants {
			reach := blocksUnder(f, wt.as)
			no := contradicts(wt.as)
			good := true
			for i, e := range ph.Edges {
				pred := ph.Block().Preds[i]
				possible := reach[pred] && !no(pred, ph.Block())
				s, isS := constString(strip(e))
				if !isS {
					good = false
					continue
				}
				if possible && (s == "!\n") != wt.windows {
					good = false
				}
			}
			c.check(good, shortID(r.fn)+"/newline@"+wt.name, c.pos(f.Pos()), "under ("+wt.name+") only the "+map[bool]string{true: "'!\\n'", false: "'\\n'"}[wt.windows]+" terminator can be chosen", "under ("+wt.name+") the relay can terminate its line with the wrong terminator")
		}
	}
	// the config's default newline towards a Windows server without tunnel
	rc := c.fn("TrzszRelay.recvConfig")
	um := callsIn(rc, idIs("encoding/json.Unmarshal"))
	if len(um) != 1 {
		c.lost("json.Unmarshal in the relay's recvConfig")
	}
	// a store of the config's Newline whose value, on the phi edges that can be taken under the assumptions, is
	// always (every=true) / possibly (every=false) '!\n'. A default picked into a local first arrives as a phi.
	newlineStore := func(as []assumption, every bool) func(in ssa.Instruction) bool {
		reach := blocksUnder(rc, as)
		no := contradicts(as)
		return func(in ssa.Instruction) bool {
			st, ok := in.(*ssa.Store)
			if !ok {
				return false
			}
			n, _ := fieldAddrName(st.Addr)
			if !strings.HasSuffix(n, ".Newline") {
				return false
			}
			var leaves func(v ssa.Value, depth int) (all, some, any bool)
			leaves = func(v ssa.Value, depth int) (bool, bool, bool) {
				if ph, isPhi := v.(*ssa.Phi); isPhi && depth < 4 {
					all, some, any := true, false, false
					for i, e := range ph.Edges {
						pred := ph.Block().Preds[i]
						if !reach[pred] || no(pred, ph.Block()) {
							continue
						}
						a, sm, an := leaves(e, depth+1)
						all, some, any = all && a, some || sm, any || an
					}
					return all, some, any
				}
				w := isConstStrV("!\n")(v)
				return w, w, true
			}
			all, some, any := leaves(st.Val, 0)
			if every {
				return all && any
			}
			return some
		}
	}
	isWinStore := newlineStore([]assumption{A(win, true), A(tun, false)}, true)
	hit, path := reachFromE(rc.Blocks[0], 0, func(in ssa.Instruction) bool { return in == um[0].(ssa.Instruction) }, isWinStore, contradicts([]assumption{A(win, true), A(tun, false)}))
	c.check(hit == nil, "recvConfig/windows-default-newline", c.pos(rc.Pos()), "towards a Windows server without tunnel the config's default newline is '!\\n'", "the relay can decode the config of a Windows server with the plain default newline", c.pathStr(path)...)
	hit, _ = reachFromE(rc.Blocks[0], 0, newlineStore([]assumption{A(win, false)}, false), nil, contradicts([]assumption{A(win, false)}))
	hit2, _ := reachFromE(rc.Blocks[0], 0, newlineStore([]assumption{A(tun, true)}, false), nil, contradicts([]assumption{A(tun, true)}))
	c.check(hit == nil && hit2 == nil, "recvConfig/plain-default-newline", c.pos(rc.Pos()), "the Windows default newline is not used for a non-Windows server or through the tunnel", "the Windows default newline can be used for a non-Windows server / through the tunnel")
}

// evalBoolUnder: the value of boolean v when the assumptions hold, if the assumptions determine it.
// Handles constants, negation, the assumed predicates themselves, and phis (over the edges that stay feasible).
func evalBoolUnder(v ssa.Value, as []assumption, reach map[*ssa.BasicBlock]bool, depth int) (val, known bool) {
	if depth > 6 {
		return false, false
	}
	if b, ok := constBool(v); ok {
		return b, true
	}
	for _, a := range as {
		if a.cmp == nil && a.truth == nil && a.pred != nil && a.pred(v) {
			return a.val, true
		}
	}
	if op, x, y, ok := cmpFact(fact{V: v, Pol: true}); ok {
		for _, a := range as {
			if a.truth != nil {
				if applies, holds := a.truth(op, x, y); applies {
					return holds, true
				}
			}
			if a.cmp != nil {
				if applies, equal := a.cmp(op, x, y); applies {
					return equal == a.val, true
				}
			}
		}
	}
	switch x := v.(type) {
	case *ssa.UnOp:
		if x.Op == token.NOT {
			b, ok := evalBoolUnder(x.X, as, reach, depth+1)
			return !b, ok
		}
	case *ssa.Phi:
		no := contradicts(as)
		first := true
		for i, e := range x.Edges {
			pred := x.Block().Preds[i]
			if !reach[pred] || no(pred, x.Block()) {
				continue
			}
			b, ok := evalBoolUnder(e, as, reach, depth+1)
			if !ok {
				return false, false
			}
			if first {
				val, first = b, false
			} else if b != val {
				return false, false
			}
		}
		return val, !first
	}
	return false, false
}

// c16WinPredicates: two predicates exist — isRunningOnWindows (this process's OS) and isWindowsEnvironment (the OS, or a
// Windows console somewhere on the path as announced by SetAffectedByWindows). Everything that decides how protocol lines
// and trigger ids are read or written must use the second one; the first is for OS facts (errno values, console EOF,
// dialogs, terminal setup). The set of protocol-side functions is frozen from reading them.
func c16WinPredicates(c *Ctx) {
	protocolSide := map[string]bool{
		"trzszDetector.isRepeatedID": true, "trzszTransfer.recvLine": true, "trzszTransfer.sendAction": true, "TrzszFilter.handleTrzsz": true,
	}
	osSide := map[string]string{
		"detectDragFiles": "which path scanner to use", "zenityErrorWithTips": "dialog", "TrzszFilter.chooseDownloadPath": "dialog", "TrzszFilter.chooseUploadPaths": "dialog",
		"TrzszFilter.wrapInput": "console EOF is answered with Ctrl-Z", "TrzszRelay.wrapInput": "console EOF is answered with Ctrl-Z",
		"trzszTransfer.resetTerm": "terminal restore", "trzszTransfer.doCreateFile": "errno values", "TrzMain": "console setup / binary on a Windows server", "TszMain": "console setup / binary on a Windows server",
	}
	seenEnv := map[string]bool{}
	for _, f := range c.AllFns {
		if !c.inPkg(f) {
			continue
		}
		fname := c.fnName(f)
		for _, ci := range callsIn(f, idIs("trzsz.isRunningOnWindows", "trzsz.isWindowsEnvironment")) {
			id := calleeID(ci.Common())
			if id == "trzsz.isWindowsEnvironment" {
				seenEnv[fname] = true
				continue
			}
			if protocolSide[fname] {
				c.bad(fname+"/windows-predicate", c.ipos(ci), "a protocol-side decision uses isRunningOnWindows: a Windows console announced through SetAffectedByWindows (non-Windows host) is ignored here")
				continue
			}
			if _, ok := osSide[fname]; !ok && !strings.HasPrefix(fname, "isWindowsEnvironment") {
				c.undecided(fname+"/windows-predicate", "a new caller of isRunningOnWindows: classify it as OS-side or protocol-side")
			}
		}
	}
	for fn := range protocolSide {
		c.check(seenEnv[fn], fn+"/uses-environment-predicate", "", "this protocol-side function asks isWindowsEnvironment", "this protocol-side function no longer asks isWindowsEnvironment")
	}
}

// c16StripLens: in the tmux status stripper every skip over a marker is exactly as long as the marker searched for
// (the strings are searched with bytes.Index and then skipped with a literal number).
func c16StripLens(c *Ctx) {
	f := c.fn("trzszTransfer.stripTmuxStatusLine")
	n := 0
	for _, ci := range callsIn(f, idIs("bytes.Index")) {
		mk, ok := constString(strip(ci.Common().Args[1]))
		var mkGlobal *ssa.Global
		if !ok {
			// a package-level []byte set once, in the package initialiser, from a string constant
			mk, mkGlobal, ok = c.globalConstBytes(ci.Common().Args[1])
		}
		if !ok {
			c.bad("stripTmuxStatusLine/marker", c.ipos(ci), "the marker searched for is not a constant")
			continue
		}
		n++
		// idx + K somewhere: K must be len(marker)
		found, good := false, true
		for _, r := range referrersOf(ci.Value()) {
			b, isB := r.(*ssa.BinOp)
			if !isB || b.Op != token.ADD {
				continue
			}
			for _, opd := range []ssa.Value{b.X, b.Y} {
				if k, isK := constInt(opd); isK {
					found = true
					if k != int64(len(mk)) {
						good = false
					}
				}
				// len(marker) of the very value searched for (a local `mk := []byte("…")`)
				if lc, _ := callOf(opd); lc != nil && calleeID(&lc.Call) == "builtin len" && sameValue(lc.Call.Args[0], ci.Common().Args[1]) {
					found = true
				}
				// len(marker) of the very variable searched for
				if lc, _ := callOf(opd); lc != nil && calleeID(&lc.Call) == "builtin len" && mkGlobal != nil {
					if _, g2, ok2 := c.globalConstBytes(lc.Call.Args[0]); ok2 {
						found = true
						if g2 != mkGlobal {
							good = false
						}
					}
				}
			}
		}
		c.check(found && good, fmt.Sprintf("stripTmuxStatusLine/skip=len(marker).%d", n), c.ipos(ci), "the skip after this marker is the marker's length", fmt.Sprintf("after finding %q the stripper skips a number of bytes that is not its length %d: a control byte is left in, or a payload byte is cut out", mk, len(mk)))
	}
	if n != 3 {
		c.undecided("stripTmuxStatusLine/markers", "expected three marker searches (begin, middle, end)")
	}
}

// containsCtrlC: the call is bytes.Contains(x, []byte{0x03}) (or of the string "\x03"): "the chunk holds a Ctrl-C".
func containsCtrlC(call *ssa.Call) bool {
	if calleeID(&call.Call) != "bytes.Contains" || len(call.Call.Args) != 2 {
		return false
	}
	if s, ok := constString(strip(call.Call.Args[1])); ok {
		return s == "\x03"
	}
	if els, ok := sliceElems(call.Call.Args[1]); ok && len(els) == 1 {
		return isConstIntV(3)(els[0].V)
	}
	return false
}

// globalConstBytes: v is a load of a package-level variable that is written exactly once in the whole package, by the
// package initialiser, with []byte("constant"). Returns the constant and the variable.
func (c *Ctx) globalConstBytes(v ssa.Value) (string, *ssa.Global, bool) {
	u, ok := strip(v).(*ssa.UnOp)
	if !ok || u.Op != token.MUL {
		return "", nil, false
	}
	g, ok := u.X.(*ssa.Global)
	if !ok {
		return "", nil, false
	}
	val, n := "", 0
	for _, f := range c.AllFns {
		eachInstr(f, func(in ssa.Instruction) {
			st, isSt := in.(*ssa.Store)
			if !isSt || st.Addr != ssa.Value(g) {
				return
			}
			n++
			if s, isS := constString(strip(st.Val)); isS && f.Name() == "init" {
				val = s
			} else {
				n += 100
			}
		})
	}
	return val, g, n == 1
}
