package main

// C15 — archive stream: accounting agreement and descriptor typestate.

import (
	"go/token"
	"strings"

	"trzszlint/xssa"
)

func init() {
	register("C15", 18, "Decided (for every path of the current source): (R1) the announced size is built from the same per-entry terms the reader emits — len(header)+1 for every entry, +size for non-directories — and the reader emits the header followed by exactly one newline and then reads a file only for non-directories with left = size; (R2) EOF with bytes still owed is an error and reads are capped by min(len(p), left); (R3) a struct field holding an open file is overwritten only where the old value was closed or is nil (descriptors in use do not grow with the entry count); (R4) the writer writes payload only while left > 0, at most min(left, len(p)), parses a header only from bytes up to the first newline with pending bytes prepended, returns index+1 so the rest is re-presented, and file writers are only written through the short-count-aware writeAll; (R5) entry names go through the same create path as C07/C09, from the decoder. Not decided: reconstruction equality for all trees/segmentations, descriptor counts at run time.",
		func(c *Ctx) {
			c.run("C15-R1", "SIBLING: announced size = bytes produced, by construction", c15R1)
			c.run("C15-R2", "GUARD-DOM: shrinking file is an error; reads capped by what is owed", c15R2)
			c.run("C15-R3", "PAIR: descriptor typestate of the archive reader and writer", c15R3)
			c.run("C15-R4", "GUARD-DOM/WHO-CALLS: writer state machine", c15R4)
			c.run("C15-R5", "WHO-CALLS: entries are created through the checked create path", c15R5)
			c.run("C15-R7", "GUARD-DOM/MUST-PASS: every payload read / write on an entry's file is capped by, and accounted against, what the entry is owed", c15Accounting)
			c.run("C15-R8", "WHO-CALLS: inventory of how the archive reader obtains file content", c15Sources)
			c.run("C15-S1", "shared with C09-V: the entry-name validator refuses exactly the names that are not a single path element (any other name of the tree is accepted)", c09Validators)
			c.run("C15-R6", "PAIR (shared with C01-R6): open files do not accumulate over the per-file loops", c01R6)
		})
}

func c15R1(c *Ctx) {
	f := c.fn("trzszTransfer.newArchiveReader")
	hdrPlus1, sizeTerm, hdrFromEncode := false, false, false
	eachInstr(f, func(in ssa.Instruction) {
		switch x := in.(type) {
		case *ssa.BinOp:
			if x.Op != token.ADD {
				return
			}
			for _, pr := range [][2]ssa.Value{{x.X, x.Y}, {x.Y, x.X}} {
				if isConstIntV(1)(pr[1]) {
					// (size + len(Header)) + 1  or  size + (len(Header)+1)
					var findLen func(v ssa.Value) bool
					findLen = func(v ssa.Value) bool {
						v = strip(v)
						if isLenOf(v, isFieldLoad("Header")) {
							return true
						}
						if b, ok := v.(*ssa.BinOp); ok && b.Op == token.ADD {
							return findLen(b.X) || findLen(b.Y)
						}
						return false
					}
					if findLen(pr[0]) {
						hdrPlus1 = true
					}
				}
				if isFieldLoad("Size")(pr[0]) {
					for _, fc := range factsAt(x.Block()) {
						if !fc.Pol && isFieldLoad("IsDir")(fc.V) {
							sizeTerm = true
						}
					}
				}
			}
		case *ssa.Store:
			if nm, ok := fieldAddrName(x.Addr); ok && nm == "sourceFile.Header" {
				call, _ := callOf(x.Val)
				hdrFromEncode = call != nil && calleeID(&call.Call) == "trzsz.encodeString"
			}
		}
	})
	// the announced size is a plain sum of those terms: walk the accumulator stored into the reader
	nAcc := 0
	eachInstr(f, func(in ssa.Instruction) {
		st, ok := in.(*ssa.Store)
		if !ok {
			return
		}
		if nm, _ := fieldAddrName(st.Addr); nm != "archiveFileReader.size" {
			return
		}
		nAcc++
		seen := map[ssa.Value]bool{}
		bad := ""
		var walk func(v ssa.Value)
		walk = func(v ssa.Value) {
			v = strip(v)
			if seen[v] {
				return
			}
			seen[v] = true
			switch x := v.(type) {
			case *ssa.Phi:
				for _, e := range x.Edges {
					walk(e)
				}
			case *ssa.BinOp:
				if x.Op != token.ADD {
					bad = "operator " + x.Op.String() + " at " + c.pos(x.Pos())
					return
				}
				walk(x.X)
				walk(x.Y)
			case *ssa.Convert:
				walk(x.X)
			case *ssa.Const:
				if z, isI := constInt(x); !isI || (z != 0 && z != 1) {
					bad = "constant term " + x.String()
				}
			default:
				if !isLenOf(v, isFieldLoad("Header")) && !isFieldLoad("Size")(v) {
					bad = "term " + v.String() + " at " + c.pos(v.Pos())
				}
			}
		}
		walk(st.Val)
		c.check(bad == "", "newArchiveReader/size-is-a-sum", c.ipos(st), "the announced size is a sum of header lengths, separators and file sizes", "the announced size is not a plain sum of header lengths + 1 and file sizes: "+bad)
	})
	if nAcc == 0 {
		c.undecided("newArchiveReader/size-is-a-sum", "no store of the announced size found")
	}
	c.check(hdrPlus1, "newArchiveReader/size+=len(header)+1", c.pos(f.Pos()), "each entry contributes len(header)+1 to the announced size", "the announced size does not count len(header)+1 per entry")
	c.check(sizeTerm, "newArchiveReader/size+=fileSize@!dir", c.pos(f.Pos()), "non-directories contribute their size", "file sizes are not added for exactly the non-directory entries")
	c.check(hdrFromEncode, "newArchiveReader/header=encode(json)", c.pos(f.Pos()), "the header is the encoded JSON (no newline inside: base64)", "the header is not the encoded JSON of the entry")
	r := c.fn("archiveFileReader.Read")
	oneNL, leftSize, openNonDir := false, false, false
	eachInstr(r, func(in ssa.Instruction) {
		st, ok := in.(*ssa.Store)
		if !ok {
			return
		}
		nm, _ := fieldAddrName(st.Addr)
		switch nm {
		case "archiveFileReader.buf":
			if call, _ := callOf(st.Val); call != nil && calleeID(&call.Call) == "builtin append" {
				el, ok := sliceElems(call.Call.Args[1])
				hdr := false
				for _, l := range origins(call.Call.Args[0], originOpts{}) {
					if isFieldLoad("Header")(l.V) {
						hdr = true
					}
				}
				if ok && len(el) == 1 && !el[0].Spread && isConstIntV('\n')(el[0].V) && hdr {
					oneNL = true
				}
			}
		case "archiveFileReader.left":
			if isFieldLoad("Size")(st.Val) {
				leftSize = true
			}
		case "archiveFileReader.file":
			if call, _ := callOf(st.Val); call != nil && calleeID(&call.Call) == "os.Open" {
				for _, fc := range factsAt(st.Block()) {
					if !fc.Pol && isFieldLoad("IsDir")(fc.V) {
						openNonDir = true
					}
				}
			}
		}
	})
	c.check(oneNL, "Read/header+one-newline", c.pos(r.Pos()), "the reader emits the header followed by exactly one newline", "the reader does not emit header + exactly one newline (announced size and stream disagree)")
	c.check(leftSize, "Read/left=size", c.pos(r.Pos()), "payload owed = the scanned size", "payload owed is not initialised from the scanned size")
	c.check(openNonDir, "Read/open@!dir", c.pos(r.Pos()), "a file is opened exactly for non-directory entries", "file opening is not tied to non-directory entries")
}

func c15R2(c *Ctx) {
	c02ShortSourceOne(c, "archiveFileReader.Read")
	r := c.fn("archiveFileReader.Read")
	capped := false
	eachInstr(r, func(in ssa.Instruction) {
		call, ok := in.(*ssa.Call)
		if !ok || calleeID(&call.Call) != "(*os.File).Read" {
			return
		}
		sl, ok := strip(call.Call.Args[1]).(*ssa.Slice)
		if !ok || sl.High == nil {
			return
		}
		mc, _ := callOf(sl.High)
		if mc != nil && calleeID(&mc.Call) == "trzsz.minInt64" {
			a, b := mc.Call.Args[0], mc.Call.Args[1]
			if (isLenOf(a, isVar("p")) && isFieldLoad("left")(b)) || (isLenOf(b, isVar("p")) && isFieldLoad("left")(a)) {
				capped = true
			}
		}
	})
	c.check(capped, "Read/capped-by-left", c.pos(r.Pos()), "a read never takes more than the bytes still owed (a growing file does not shift entries)", "file reads are not capped by the bytes still owed")
	// left decreases by what was read
	dec := false
	eachInstr(r, func(in ssa.Instruction) {
		if st, ok := in.(*ssa.Store); ok {
			if nm, _ := fieldAddrName(st.Addr); nm == "archiveFileReader.left" {
				if b, ok := st.Val.(*ssa.BinOp); ok && b.Op == token.SUB && isFieldLoad("left")(b.X) {
					if rc, idx := callOf(b.Y); rc != nil && idx == 0 && calleeID(&rc.Call) == "(*os.File).Read" {
						dec = true
					}
				}
			}
		}
	})
	c.check(dec, "Read/left-=n", c.pos(r.Pos()), "bytes owed decrease by exactly the bytes read", "bytes owed are not decreased by the bytes read")
}

// c02ShortSourceOne: the EOF-short rule for one function.
func c02ShortSourceOne(c *Ctx, name string) {
	f := c.fn(name)
	n := 0
	for _, b := range f.Blocks {
		i := blockIf(b)
		if i == nil || !factCmp(factsAt(b), token.EQL, anyValue, isEOFLoad) {
			continue
		}
		op, _, _, ok := cmpFact(normFact(fact{V: i.Cond, Pol: true}))
		if !ok || (op != token.NEQ && op != token.EQL) {
			continue
		}
		n++
		k := 0
		if op == token.EQL {
			k = 1
		}
		okE, why := failEdge(c, b, k)
		c.check(okE, name+"/EOF-short", c.ipos(i), "EOF before the announced length is an error", "EOF with bytes still owed does not fail: "+why)
	}
	if n == 0 {
		c.bad(name+"/EOF-short", c.pos(f.Pos()), "no length check on the EOF edge: a shrinking file would shift the entries after it")
	}
}

func c15R3(c *Ctx) {
	for _, spec := range []struct{ fn, field string }{{"archiveFileReader.Read", "archiveFileReader.file"}, {"archiveFileWriter.Write", "archiveFileWriter.file"}} {
		f := c.fn(spec.fn)
		short := spec.field[strings.Index(spec.field, ".")+1:]
		n := 0
		eachInstr(f, func(in ssa.Instruction) {
			st, ok := in.(*ssa.Store)
			if !ok {
				return
			}
			if nm, _ := fieldAddrName(st.Addr); nm != spec.field {
				return
			}
			n++
			isClose := func(x ssa.Instruction) bool {
				call, ok := x.(*ssa.Call)
				if !ok {
					return false
				}
				if call.Call.IsInvoke() && call.Call.Method.Name() == "Close" && isFieldLoad(short)(call.Call.Value) {
					return true
				}
				return calleeID(&call.Call) == "(*os.File).Close" && isFieldLoad(short)(call.Call.Args[0])
			}
			nilEdge := func(from, to *ssa.BasicBlock) bool {
				i := blockIf(from)
				if i == nil {
					return false
				}
				op, x, y, ok := cmpFact(normFact(fact{V: i.Cond, Pol: true}))
				if !ok || !(isNilConst(x) || isNilConst(y)) || !(isFieldLoad(short)(x) || isFieldLoad(short)(y)) {
					return false
				}
				// the edge on which the field is nil
				if op == token.NEQ {
					return to == from.Succs[1]
				}
				if op == token.EQL {
					return to == from.Succs[0]
				}
				return false
			}
			hit, path := reachFromE(f.Blocks[0], 0, func(x ssa.Instruction) bool { return x == ssa.Instruction(st) }, isClose, nilEdge)
			c.check(hit == nil, spec.fn+"/"+short+"-overwrite", c.ipos(st), "the previous file is closed (or nil) before the field is overwritten", "the field holding the previous entry's open file is overwritten without closing it: one descriptor leaks per entry, a tree with more files than the descriptor limit fails", c.pathStr(path)...)
		})
		if n == 0 {
			c.undecided(spec.fn+"/"+short+"-stores", "no store to the file field found")
		}
	}
	// Close closes the last one
	for _, name := range []string{"archiveFileReader.Close", "archiveFileWriter.Close"} {
		f := c.fn(name)
		closes := false
		eachInstr(f, func(in ssa.Instruction) {
			if call, ok := in.(*ssa.Call); ok && (calleeID(&call.Call) == "(*os.File).Close" || (call.Call.IsInvoke() && call.Call.Method.Name() == "Close")) {
				closes = true
			}
		})
		c.check(closes, name+"/closes-current", c.pos(f.Pos()), "Close closes the current entry's file", "Close does not close the current entry's file")
	}
}

func c15R4(c *Ctx) {
	f := c.fn("archiveFileWriter.Write")
	var payload *ssa.Call
	eachInstr(f, func(in ssa.Instruction) {
		if call, ok := in.(*ssa.Call); ok && call.Call.IsInvoke() && call.Call.Method.Name() == "Write" && isFieldLoad("file")(call.Call.Value) {
			payload = call
		}
	})
	if payload == nil {
		c.bad("Write/payload", c.pos(f.Pos()), "the archive writer never writes payload to the entry's file")
		return
	}
	fs := factsAt(payload.Block())
	_, nonNil := factNil(fs, payload.Call.Value)
	pos := factCmp(fs, token.GTR, isFieldLoad("left"), isConstIntV(0))
	c.check(pos && nonNil, "Write/payload@left>0", c.ipos(payload), "payload is written only while bytes are owed to an open file", "payload can be written with nothing owed or no file open")
	sl, ok := strip(payload.Call.Args[0]).(*ssa.Slice)
	capOK := false
	if ok && sl.High != nil {
		if mc, _ := callOf(sl.High); mc != nil && calleeID(&mc.Call) == "trzsz.minInt64" {
			a, b := mc.Call.Args[0], mc.Call.Args[1]
			capOK = (isLenOf(a, isVar("p")) && isFieldLoad("left")(b)) || (isLenOf(b, isVar("p")) && isFieldLoad("left")(a))
		}
	}
	c.check(capOK, "Write/payload-capped", c.ipos(payload), "at most min(left, len(p)) bytes go to the current file", "payload written past the end of the current entry")
	// returns the short count
	eachInstr(f, func(in ssa.Instruction) {
		r, ok := in.(*ssa.Return)
		if !ok || r.Block() != payload.Block() {
			return
		}
		rc, idx := callOf(r.Results[0])
		c.check(rc == payload && idx == 0, "Write/short-count", c.ipos(r), "the count written is returned so the caller re-presents the rest", "the payload arm does not return the count written")
	})
	// header arm
	var idx ssa.Value
	for _, ci := range callsIn(f, idIs("bytes.IndexByte")) {
		if isVar("p")(ci.Common().Args[0]) && isConstIntV('\n')(ci.Common().Args[1]) {
			idx = ci.Value()
		}
	}
	if idx == nil {
		c.bad("Write/header-delimiter", c.pos(f.Pos()), "the header is not delimited by the first newline of the write")
		return
	}
	for _, ci := range callsIn(f, idIs("trzsz.decodeString")) {
		good := true
		nl := 0
		for _, l := range origins(ci.Common().Args[0], originOpts{}) {
			nl++
			switch x := l.V.(type) {
			case *ssa.Slice:
				if !(isVar("p")(x.X) && x.High != nil && sameValue(x.High, idx) && x.Low == nil) {
					good = false
				}
			case *ssa.Call:
				// append(f.buf, p[:idx]...)
				if calleeID(&x.Call) != "builtin append" || !isFieldLoad("buf")(x.Call.Args[0]) {
					good = false
				}
			default:
				good = false
			}
		}
		c.check(good && nl == 2, "Write/header-bytes", c.ipos(ci), "the header is p[:newline], with pending bytes prepended", "the header is not exactly the bytes up to the first newline with pending bytes prepended")
	}
	okRet, okPend, okCopy := false, false, false
	eachInstr(f, func(in ssa.Instruction) {
		switch x := in.(type) {
		case *ssa.Return:
			if !isNilErrReturn(in) {
				return
			}
			if b, ok := strip(retVal(x, 0)).(*ssa.BinOp); ok && b.Op == token.ADD && sameValue(b.X, idx) && isConstIntV(1)(b.Y) {
				okRet = true
			}
		case *ssa.Store:
			if nm, _ := fieldAddrName(x.Addr); nm == "archiveFileWriter.buf" {
				if call, _ := callOf(x.Val); call != nil && calleeID(&call.Call) == "builtin append" && isFieldLoad("buf")(call.Call.Args[0]) {
					okPend = factCmp(factsAt(x.Block()), token.LSS, isValue(idx), isConstIntV(0))
					// the fragment is copied (append to the writer's own slice), not aliased
					okCopy = true
				} else if !isNilConst(x.Val) {
					okCopy = false
					c.bad("Write/pending-copied", c.ipos(x), "a header fragment is kept by reference to the caller's buffer instead of being copied")
				}
			}
		}
	})
	c.check(okRet, "Write/header-returns-idx+1", c.pos(f.Pos()), "after a header the writer returns newline index + 1", "after a header the writer does not return index+1 (payload bytes in the same write are lost or re-parsed)")
	c.check(okPend && okCopy, "Write/pending-header", c.pos(f.Pos()), "a write without newline is appended to the pending header", "a partial header is not kept for the next write")
	// left = size of the decoded entry
	okLeft := false
	eachInstr(f, func(in ssa.Instruction) {
		if st, ok := in.(*ssa.Store); ok {
			if nm, _ := fieldAddrName(st.Addr); nm == "archiveFileWriter.left" && isFieldLoad("Size")(st.Val) {
				okLeft = true
			}
		}
	})
	c.check(okLeft, "Write/left=entry-size", c.pos(f.Pos()), "bytes owed are set from the entry's size", "bytes owed are not set from the entry header's size")
	// file writers are written only through writeAll
	for _, g := range c.AllFns {
		gname := c.fnName(g)
		eachInstr(g, func(in ssa.Instruction) {
			call, ok := in.(*ssa.Call)
			if !ok || !call.Call.IsInvoke() || call.Call.Method.Name() != "Write" {
				return
			}
			if !strings.HasSuffix(call.Call.Value.Type().String(), "fileWriter") {
				return
			}
			c.check(gname == "archiveFileWriter.Write", "fileWriter.Write<-"+gname, c.ipos(call), "direct Write on a file writer only inside the archive writer (which returns its count)", "a file writer is written directly, without the short-count loop of writeAll: the archive writer's short counts would drop data")
		})
	}
}

func c15R5(c *Ctx) {
	f := c.fn("archiveFileWriter.Write")
	for _, ci := range callsIn(f, idIs(tT+"createDirOrFile")) {
		call, idx := callOf(ci.Common().Args[2])
		c.check(call != nil && idx == 0 && calleeID(&call.Call) == "trzsz.unmarshalSourceFile", "Write/entry<-decoder", c.ipos(ci), "entries are created from decoded (validated) headers through the common create path", "archive entries bypass the decoder / common create path")
		c.check(isFieldLoad("path")(ci.Common().Args[1]), "Write/entry-root", c.ipos(ci), "entries are rooted at the destination given to the archive writer", "archive entries are not rooted at the writer's destination")
	}
	// the archive root directory itself comes from createDirOrFile (C07 rules)
	n := c.fn("trzszTransfer.newArchiveWriter")
	for _, cs := range c.callersOf(n) {
		c.check(c.fnName(cs.Caller) == "trzszTransfer.createDirOrFile", "newArchiveWriter<-"+c.fnName(cs.Caller), c.ipos(cs.Instr), "archive writers are created by the common name-to-path function", "an archive writer is created outside the checked create path")
	}
}

// c15Accounting: every transfer of payload bytes between the stream and an entry's file — on either end, at every
// site, not only at the one the other rules anchor on — is capped by what the entry is still owed and is followed,
// before the function can return or move on, by `left -= n` with n the count that very call reported.
// c15Sources: inventory of how the archive reader obtains payload bytes. The shrink check and the accounting rules
// are stated for reads of the entry's open file; any other way of getting file content into the stream (ReadFile,
// ReadAll, ReadFull, Copy, a second descriptor) is outside what those rules vouch for and is reported.
func c15Sources(c *Ctx) {
	f := c.fn("archiveFileReader.Read")
	allowed := map[string]string{
		"os.Open":                "opens the entry's file",
		"(*os.File).Read":        "the accounted payload read (C15-R2 / C15-R7)",
		"(*os.File).Close":       "closes the previous entry's file",
		"trzsz.minInt64":         "the cap",
		"builtin append":         "header + newline into the pending buffer",
		"builtin copy":           "pending buffer to the caller",
		"builtin len":            "",
		"trzsz.simpleTrzszError": "error construction",
	}
	n := 0
	for _, ci := range callsIn(f, anyID) {
		id := calleeID(ci.Common())
		if _, ok := allowed[id]; ok {
			n++
			continue
		}
		pkg := ""
		if g := ci.Common().StaticCallee(); g != nil && g.Pkg != nil {
			pkg = g.Pkg.Pkg.Path()
		}
		reads := pkg == "os" || pkg == "io" || pkg == "io/ioutil" || pkg == "bufio"
		if ci.Common().IsInvoke() {
			nm := ci.Common().Method.Name()
			reads = nm == "Read" || nm == "ReadAt" || nm == "ReadFrom" || nm == "WriteTo"
		}
		c.check(!reads, "Read/payload-source."+id, c.ipos(ci), "not a source of file content", "the archive reader obtains file content through "+id+", which the shrink check and the accounting rules do not cover: a file that shrank after the scan yields a short payload without an error and every later entry shifts")
	}
	if n < 4 {
		c.undecided("Read/payload-sources", "fewer known calls in the archive reader than expected")
	}
}

func c15Accounting(c *Ctx) {
	for _, side := range []struct{ fn, method, owner string }{
		{"archiveFileReader.Read", "Read", "archiveFileReader"},
		{"archiveFileWriter.Write", "Write", "archiveFileWriter"},
	} {
		f := c.fn(side.fn)
		n := 0
		isFileOp := func(call *ssa.Call) bool {
			if call.Call.IsInvoke() {
				return call.Call.Method.Name() == side.method && isFieldLoad("file")(call.Call.Value)
			}
			return calleeID(&call.Call) == "(*os.File)."+side.method && len(call.Call.Args) > 0 && isFieldLoad("file")(call.Call.Args[0])
		}
		eachInstr(f, func(in ssa.Instruction) {
			call, ok := in.(*ssa.Call)
			if !ok || !isFileOp(call) {
				return
			}
			n++
			args := call.Call.Args
			buf := args[len(args)-1]
			// capped: the slice handed over is p[:min(len(p), left)] (either argument order of the min helper)
			capped := false
			if sl, isS := strip(buf).(*ssa.Slice); isS && sl.High != nil {
				for _, l := range origins(sl.High, originOpts{}) {
					if mc, _ := callOf(l.V); mc != nil && isMinFunc(mc.Call.StaticCallee()) {
						for _, a := range mc.Call.Args {
							if isFieldLoad("left")(strip(a)) {
								capped = true
							}
						}
					}
				}
			}
			c.check(capped, side.fn+"/every-site-capped", c.ipos(call), "the bytes moved are capped by what the entry is still owed", "a payload "+side.method+" is not capped by the entry's remaining size: bytes of the next header are taken for payload (or a short count shifts every later entry)")
			cnt := extractOf(call, 0)
			hit, path := reachAvoid(call, func(x ssa.Instruction) bool {
				if isReturn(x) {
					return true
				}
				c2, ok := x.(*ssa.Call)
				return ok && c2 != call && isFileOp(c2)
			}, func(x ssa.Instruction) bool {
				st, ok := x.(*ssa.Store)
				if !ok {
					return false
				}
				nm, _ := fieldAddrName(st.Addr)
				if nm != side.owner+".left" {
					return false
				}
				b, isB := strip(st.Val).(*ssa.BinOp)
				if !isB || b.Op != token.SUB || !isFieldLoad("left")(b.X) {
					return false
				}
				for _, l := range origins(b.Y, originOpts{}) {
					if l.V == cnt {
						return true
					}
				}
				return false
			})
			c.check(hit == nil, side.fn+"/every-site-decrements-by-count", c.ipos(call), "after each payload "+side.method+" the remaining size drops by the count that call reported", "a payload "+side.method+" is not followed by left -= n (n: its own count): the entry boundary drifts", c.pathStr(path)...)
		})
		if n == 0 {
			c.undecided(side.fn+"/payload-sites", "no payload "+side.method+" on the entry's file found")
		}
	}
}
