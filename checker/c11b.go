package main

import (
	"fmt"
	"go/token"
	"go/types"
	"strings"

	"trzszlint/xssa"
)

func isTimeoutChanType(t types.Type) bool {
	return types.TypeString(t, nil) == "<-chan time.Time"
}

// timeoutParam: index of the <-chan time.Time parameter of f (-1 if none).
func timeoutParam(f *ssa.Function) int {
	for i, p := range f.Params {
		if isTimeoutChanType(p.Type()) {
			return i
		}
	}
	return -1
}

var c11NilTimeoutOK = map[string]string{
	"trzszTransfer.recvAction": "the server's wait for ACT happens before the handshake has begun (the user may take any time to pick files)",
	"recvStringFromBuffer":     "relay handshake reads: the relay is not an end of the transfer; it waits for the ends, whose own reads are bounded",
	"recvStringForWindows":     "relay handshake reads: see recvStringFromBuffer",
}

func c11R2(c *Ctx) {
	n := 0
	for _, callee := range c.AllFns {
		ti := timeoutParam(callee)
		if ti < 0 || callee.Parent() != nil {
			continue
		}
		for _, cs := range c.callersOf(callee) {
			n++
			c.sites++
			caller := c.fnName(cs.Caller)
			args := cs.Instr.Common().Args
			arg := args[ti]
			key := caller + "->" + c.fnName(callee)
			good, desc := true, ""
			for _, l := range origins(arg, originOpts{}) {
				switch {
				case isNilConst(l.V):
					if _, ok := c11NilTimeoutOK[caller]; ok {
						desc = "nil by table: " + c11NilTimeoutOK[caller]
					} else {
						good, desc = false, "nil timeout: this read can wait forever"
					}
				case func() bool { call, _ := callOf(l.V); return call != nil && calleeID(&call.Call) == tT+"getNewTimeout" }():
					desc = "getNewTimeout()"
				case func() bool { p, ok := l.V.(*ssa.Parameter); return ok && isTimeoutChanType(p.Type()) }():
					desc = "the caller's own timeout parameter"
				default:
					good, desc = false, "timeout of unknown origin: "+l.V.String()
				}
			}
			c.check(good, "timeout/"+key, c.ipos(cs.Instr), "read bounded by "+desc, desc)
		}
	}
	if n < 20 {
		c.undecided("timeout/sites", "fewer timed read sites than expected")
	}
	// the last hop: the buffer's readers install the timeout they were given before they wait — from the reader's entry
	// the blocking fetch is not reachable without the store of the timeout parameter into the field the wait selects on
	// (and a timer left over from a resume is dropped)
	nInst := 0
	for _, rn := range []string{"trzszBuffer.readLine", "trzszBuffer.readLineOnWindows", "trzszBuffer.readBinary"} {
		rf := c.fn(rn)
		ti := timeoutParam(rf)
		if ti < 0 {
			c.bad("timeout/installed@"+rn, c.pos(rf.Pos()), "the reader takes no timeout")
			continue
		}
		tp := rf.Params[ti]
		isFetch := func(in ssa.Instruction) bool {
			ci, ok := in.(ssa.CallInstruction)
			return ok && calleeID(ci.Common()) == "(*trzsz.trzszBuffer).nextBuffer"
		}
		for _, fld := range []string{"timeout", "newTimeout"} {
			fld := fld
			hit, path := reachFrom(rf.Blocks[0], 0, isFetch, c.orWrapper("install:"+rn+":"+fld, func(in ssa.Instruction) bool {
				if ci, isCall := in.(ssa.CallInstruction); isCall && isAtomicOnField(ci, fld, "Store", "Swap") {
					// the field kept as an atomic value: Store / Swap of the parameter resp. of nil
					a := ci.Common().Args[1]
					if fld == "timeout" {
						return true
					}
					return isNilConst(a)
				}
				st, ok := in.(*ssa.Store)
				if !ok {
					return false
				}
				n2, _ := fieldAddrName(st.Addr)
				if n2 != "trzszBuffer."+fld {
					return false
				}
				if fld == "timeout" {
					return st.Val == ssa.Value(tp) || isTimeoutChanType(st.Val.Type())
				}
				return isNilConst(st.Val)
			}))
			nInst++
			msg := "the reader can start waiting without installing the timeout it was given: the wait uses the previous read's (already fired or nil) timer"
			if fld == "newTimeout" {
				msg = "the reader can start waiting with a resume timer left over from an earlier read still pending"
			}
			c.check(hit == nil, "timeout/installed@"+rn+"."+fld, c.pos(rf.Pos()), "installed before the first fetch", msg, c.pathStr(path)...)
		}
	}
	_ = nInst
	// getNewTimeout yields nil only for Timeout <= 0
	g := c.fn("trzszTransfer.getNewTimeout")
	eachInstr(g, func(in ssa.Instruction) {
		r, ok := in.(*ssa.Return)
		if !ok {
			return
		}
		if isNilConst(retVal(r, 0)) {
			c.check(factCmp(factsAt(r.Block()), token.LEQ, isFieldLoad("Timeout"), isConstIntV(0)), "getNewTimeout/nil-only-when-disabled", c.ipos(r),
				"no timer only when the user asked to wait forever (timeout <= 0)", "getNewTimeout returns no timer although a timeout is configured")
		} else {
			_, fld, okF := fieldOf(r.Results[0])
			c.check(okF && fld == "C", "getNewTimeout/timer", c.ipos(r), "returns a fresh timer's channel", "getNewTimeout returns something that is not a timer channel")
		}
	})
	// the buffer wait: data, stop and timeout arms
	nb := c.fn("trzszBuffer.nextBuffer")
	found := false
	eachInstr(nb, func(in ssa.Instruction) {
		sel, ok := in.(*ssa.Select)
		if !ok || !sel.Blocking {
			return
		}
		found = true
		arms := map[string]bool{}
		for _, st := range sel.States {
			if st.Send == nil {
				arms[chanName(st.Chan)] = true
			}
		}
		c.check(arms["bufCh"] && arms["stopCh"] && arms["timeout"], "nextBuffer/arms", c.ipos(sel), "the wait wakes on data, stop or timeout", "the buffer wait lacks one of the data/stop/timeout arms")
		// the timeout arm loops only after installing a new, non-nil timer
		hit, path := reachAvoid(sel, func(x ssa.Instruction) bool { return x == ssa.Instruction(sel) }, func(x ssa.Instruction) bool {
			if r, ok := x.(*ssa.Return); ok && r != nil {
				return true
			}
			st, ok := x.(*ssa.Store)
			if !ok {
				return false
			}
			n, ok := fieldAddrName(st.Addr)
			if !ok || n != "trzszBuffer.timeout" || !isFieldLoad("newTimeout")(st.Val) {
				return false
			}
			_, nonNil := factNil(factsAt(st.Block()), st.Val)
			return nonNil
		})
		c.check(hit == nil, "nextBuffer/retry-needs-new-timer", c.ipos(sel), "after a timeout the wait is retried only with a newly installed timer", "the wait can be retried after a timeout without a new timer (unbounded wait)", c.pathStr(path)...)
	})
	if !found {
		c.bad("nextBuffer/arms", c.pos(nb.Pos()), "no blocking select in nextBuffer")
	}
	// a swapped-in timer is used once: the pending slot is cleared before waiting again
	eachInstr(nb, func(in ssa.Instruction) {
		st, ok := in.(*ssa.Store)
		if !ok {
			return
		}
		if n, _ := fieldAddrName(st.Addr); n != "trzszBuffer.timeout" || !isFieldLoad("newTimeout")(st.Val) {
			return
		}
		hit, path := reachAvoid(st, func(x ssa.Instruction) bool { _, isSel := x.(*ssa.Select); return isSel }, func(x ssa.Instruction) bool {
			s2, ok := x.(*ssa.Store)
			if !ok {
				return false
			}
			n2, _ := fieldAddrName(s2.Addr)
			return n2 == "trzszBuffer.newTimeout" && isNilConst(s2.Val)
		})
		c.check(hit == nil, "nextBuffer/pending-timer-cleared", c.ipos(st), "after swapping the fresh timer in, the pending slot is cleared", "the pending timer is not cleared after it was swapped in: when it fires it is installed again and the wait never ends", c.pathStr(path)...)
	})
}

func c11R3(c *Ctx) {
	reach := c.reachableFrom(c.stageRoots()...)
	n := 0
	for _, f := range c.AllFns {
		if !reach[f] || f.Parent() == nil || f.Signature.Results().Len() != 0 {
			continue
		}
		fname := c.fnName(f)
		if _, ex := c11Exempt[fname]; ex {
			continue
		}
		if !strings.Contains(fname, "pipeline") {
			continue
		}
		for _, b := range f.Blocks {
			i := blockIf(b)
			if i == nil {
				continue
			}
			op, x, y, ok := cmpFact(normFact(fact{V: i.Cond, Pol: true}))
			if !ok || (op != token.NEQ && op != token.EQL) {
				continue
			}
			var ev ssa.Value
			if isNilConst(y) && isErrorType(x.Type()) {
				ev = x
			} else if isNilConst(x) && isErrorType(y.Type()) {
				ev = y
			} else {
				continue
			}
			if call, _ := callOf(ev); call != nil && call.Call.IsInvoke() && call.Call.Method.Name() == "Err" {
				continue // the context's own error: already cancelled
			}
			n++
			k := 0
			if op == token.EQL {
				k = 1
			}
			okE, why := failEdge(c, b, k)
			c.check(okE, fname+"/error-edge-cancels", c.ipos(i), "the error edge cancels the pipeline with a cause before the stage ends", "a stage error edge does not cancel: "+why)
		}
	}
	if n < 12 {
		c.undecided("stage-error-edges", "fewer stage error edges than expected")
	}
	for _, name := range []string{"trzszTransfer.sendFileDataV2", "trzszTransfer.recvFileDataV2", "trzszTransfer.sendPrefixHash"} {
		f := c.fn(name)
		eachInstr(f, func(in ssa.Instruction) {
			r, ok := in.(*ssa.Return)
			if !ok {
				return
			}
			// returns on a Done arm
			onDone := false
			for _, fc := range factsAt(r.Block()) {
				op, x, y, ok := cmpFact(fc)
				if !ok || op != token.EQL {
					continue
				}
				e, isE := x.(*ssa.Extract)
				idx, isC := constInt(y)
				if isE && isC && e.Index == 0 {
					if sel, ok := e.Tuple.(*ssa.Select); ok && int(idx) < len(sel.States) && isDoneRecv(sel.States[idx]) {
						onDone = true
					}
				}
			}
			if !onDone {
				return
			}
			ei := errIndex(f.Signature)
			call, _ := callOf(retVal(r, ei))
			c.check(call != nil && calleeID(&call.Call) == "context.Cause", name+"/Done=>Cause", c.ipos(r), "the driver returns the cancellation cause", "on cancellation the driver does not return context.Cause (error lost or success reported)")
		})
	}
}

func c11R4(c *Ctx) {
	type h struct{ fn, reporter string }
	for _, x := range []h{{"TrzszFilter.handleTrzsz$1", tT + "clientError"}, {"TrzMain$3", tT + "serverError"}, {"TszMain$3", tT + "serverError"}} {
		f := c.fn(x.fn)
		calls := callsIn(f, idIs(x.reporter))
		good := false
		for _, ci := range calls {
			if _, isDefer := ci.(*ssa.Defer); isDefer {
				continue
			}
			arg := ci.Common().Args[1]
			_, nonNil := factNil(factsAt(ci.Block()), arg)
			allFromWork := true
			for _, l := range origins(arg, originOpts{}) {
				if isNilConst(l.V) {
					continue
				}
				call, _ := callOf(l.V)
				if call == nil || !c.inPkg(call.Call.StaticCallee()) {
					allFromWork = false
				}
			}
			if nonNil && allFromWork {
				good = true
			}
		}
		// universal form: from every work call whose error can reach the reporter, the handler does not end without the
		// reporter — except over an edge on which that error was found nil
		for _, ci := range calls {
			if _, isDefer := ci.(*ssa.Defer); isDefer {
				continue
			}
			for _, l := range origins(ci.Common().Args[1], originOpts{}) {
				w, _ := callOf(l.V)
				if w == nil || !c.inPkg(w.Call.StaticCallee()) || w.Parent() != f {
					continue
				}
				ev := l.V
				fromW := func(v ssa.Value) bool {
					if !isErrorType(v.Type()) {
						return false
					}
					for _, o := range origins(v, originOpts{}) {
						if o.V == ev {
							return true
						}
					}
					return false
				}
				hitU, pathU := reachFromE(w.Block(), instrIndex(w)+1, isReturn, c.orWrapper("reporter:"+x.reporter, func(in ssa.Instruction) bool {
					c2, ok := in.(ssa.CallInstruction)
					if _, isD := in.(*ssa.Defer); isD || !ok {
						return false
					}
					return calleeID(c2.Common()) == x.reporter
				}), func(from, to *ssa.BasicBlock) bool {
					for _, fc := range edgeFactsTo(from, to) {
						op, a, b, ok := cmpFact(fc)
						if ok && op == token.EQL && isNilConst(b) && fromW(a) {
							return true
						}
					}
					return false
				})
				c.check(hitU == nil, x.fn+"/error=>reporter."+calleeID(&w.Call)[strings.LastIndex(calleeID(&w.Call), ".")+1:], c.ipos(w), "whenever this call fails the failure is handed to the error reporter", "a failure of this call can end the handler without the error reporter: the peer is not told and waits out its timeout", c.pathStr(pathU)...)
			}
		}
		c.check(good, x.fn+"/error=>reporter", c.pos(f.Pos()), "a non-nil error of the transfer is handed to the error reporter", "the handler does not report the transfer's error to the peer")
		// no path from the work call returning non-nil error to the end without the reporter: the If on err != nil leads to the reporter
	}
	for _, name := range []string{"trzszTransfer.clientError", "trzszTransfer.serverError"} {
		f := c.fn(name)
		ci := callsIn(f, idIs(tT+"cleanInput"))
		if len(ci) == 0 {
			c.bad(name+"/drain-first", c.pos(f.Pos()), "the reporter does not drain input before telling the peer")
			continue
		}
		for _, s := range callsIn(f, idIs(tT+"sendString", tT+"serverExit")) {
			c.check(domI(ci[0].(ssa.Instruction), s.(ssa.Instruction)), name+"/drain-first", c.ipos(s), "input is drained before the fail line is written", "fail line written before draining input")
		}
	}
	// the drain itself ends: it sleeps for what is left of the quiet period (timeout minus the time since the last input)
	// and returns once nothing is left; with any other arithmetic the remainder never reaches zero and the reporter never speaks
	ci0 := c.fn("trzszTransfer.cleanInput")
	nSleep := 0
	for _, sc := range callsIn(ci0, idIs("time.Sleep")) {
		nSleep++
		d := strip(sc.Common().Args[0])
		b, isB := d.(*ssa.BinOp)
		okRem := false
		if isB && b.Op == token.SUB {
			since, _ := callOf(b.Y)
			okRem = isVar("timeoutDuration")(b.X) && since != nil && (calleeID(&since.Call) == "time.Since" || calleeID(&since.Call) == "(time.Time).Sub")
		}
		c.check(okRem, "cleanInput/sleeps-the-remainder", c.ipos(sc), "the drain sleeps for (quiet period - time since the last input)", "the drain does not sleep for (quiet period - time since the last input): the remainder never runs out and the error reporter never gets to tell the peer")
		exits := isB && (factCmp(factsAt(sc.Block()), token.GTR, isValue(b), isConstIntV(0)))
		c.check(exits, "cleanInput/returns-when-quiet", c.ipos(sc), "the drain goes on sleeping only while the remainder is positive", "the drain's sleep is not guarded by remainder > 0")
	}
	if nSleep == 0 {
		c.undecided("cleanInput/sleeps-the-remainder", "no sleep in cleanInput")
	}
	// "a side that can still talk tells its peer" — and only such a side: when the error IS the peer's exit / fail message
	// the peer has already left the protocol, and a fail line written now lands on the remote shell's command line.
	// Truth table on the two classification calls (the condition is a disjunction).
	isCall := func(id string) func(ssa.Value) bool {
		return func(v ssa.Value) bool { call, _ := callOf(v); return call != nil && calleeID(&call.Call) == id }
	}
	rx, rf := isCall("(*trzsz.trzszError).isRemoteExit"), isCall("(*trzsz.trzszError).isRemoteFail")
	okT := func(v ssa.Value) bool {
		e, isE := v.(*ssa.Extract)
		return isE && e.Index == 1 && func() bool { _, ta := e.Tuple.(*ssa.TypeAssert); return ta }()
	}
	for _, name := range []string{"trzszTransfer.clientError", "trzszTransfer.serverError"} {
		f := c.fn(name)
		sends := callsIn(f, idIs(tT+"sendString"))
		if len(sends) == 0 {
			c.bad(name+"/tells-peer", c.pos(f.Pos()), "the reporter never tells the peer")
			continue
		}
		for _, sx := range sends {
			okT := true
			for _, l := range origins(sx.Common().Args[1], originOpts{}) {
				if k, isS := constString(strip(l.V)); !isS || (k != "fail" && k != "FAIL") {
					okT = false
				}
			}
			c.check(okT, name+"/fail-line-type", c.ipos(sx), "the line that tells the peer is of type fail / FAIL", "the line that tells the peer why is not a fail / FAIL line (type and text swapped, or another type): the peer does not recognise it")
		}
		for _, w := range []struct {
			nm   string
			as   []assumption
			tell bool
		}{
			{"peer-exited", []assumption{{pred: okT, val: true}, {pred: rx, val: true}}, false},
			{"peer-failed", []assumption{{pred: okT, val: true}, {pred: rx, val: false}, {pred: rf, val: true}}, false},
			{"local-error", []assumption{{pred: okT, val: true}, {pred: rx, val: false}, {pred: rf, val: false}}, true},
			{"foreign-error-type", []assumption{{pred: okT, val: false}}, true},
		} {
			reach := blocksUnder(f, w.as)
			any := false
			for _, s := range sends {
				if reach[s.Block()] {
					any = true
				}
			}
			if w.tell {
				// and on every such path, not on some: no exit is reachable under the assumption without a tell
				no := contradicts(w.as)
				hit, path := reachFromE(f.Blocks[0], 0, isReturn, c.orWrapper("tells-peer", func(in ssa.Instruction) bool {
					ci, isCall := in.(ssa.CallInstruction)
					if !isCall {
						return false
					}
					id := calleeID(ci.Common())
					return id == tT+"sendString" || id == tT+"serverExit"
				}), no)
				c.check(hit == nil, name+"/always-tells-peer@"+w.nm, c.pos(f.Pos()), "every exit of the reporter for an error of this kind has told the peer", "the reporter can return for '"+w.nm+"' without having told the peer why (the peer waits out its timeout and ends with the wrong reason)", c.pathStr(path)...)
			}
			c.check(any == w.tell, name+"/tells-peer@"+w.nm, c.pos(f.Pos()), "the peer is told about an error exactly when it is still in the protocol (not when the error is its own exit / fail message)", "for '"+w.nm+"' the reporter "+map[bool]string{true: "writes a fail line to a peer that already left (it lands on the remote shell)", false: "does not tell the peer why the transfer failed"}[any])
		}
	}
	// the two classifiers answer for exactly the types the ends send: EXIT -> remote exit; fail, FAIL -> remote fail
	typeIs := func(want string, val bool) assumption {
		return assumption{val: val, cmp: func(op token.Token, x, y ssa.Value) (bool, bool) {
			s, isS := constString(strip(y))
			if (op != token.EQL && op != token.NEQ) || !isFieldLoad("errType")(x) || !isS || s != want {
				return false, false
			}
			return true, op == token.EQL
		}}
	}
	all := []string{"EXIT", "fail", "FAIL"}
	for _, cl := range []struct {
		fn  string
		yes map[string]bool
	}{{"trzszError.isRemoteExit", map[string]bool{"EXIT": true}}, {"trzszError.isRemoteFail", map[string]bool{"fail": true, "FAIL": true}}} {
		f := c.fn(cl.fn)
		for _, actual := range append(append([]string{}, all...), "other") {
			var as []assumption
			for _, t := range all {
				as = append(as, typeIs(t, t == actual))
			}
			reach := blocksUnder(f, as)
			good, n := true, 0
			eachInstr(f, func(in ssa.Instruction) {
				r, ok := in.(*ssa.Return)
				if !ok || !reach[r.Block()] {
					return
				}
				n++
				v := r.Results[0]
				b, known := evalBoolUnder(v, as, reach, 0)
				if !known {
					// a bare comparison as result
					if op, x, y, okc := cmpFact(fact{V: v, Pol: true}); okc && (op == token.EQL || op == token.NEQ) && isFieldLoad("errType")(x) {
						if s, isS := constString(strip(y)); isS {
							b, known = (s == actual) == (op == token.EQL), true
						}
					}
				}
				if !known || b != cl.yes[actual] {
					good = false
				}
			})
			c.check(good && n > 0, shortID(cl.fn)+"@"+actual, c.pos(f.Pos()), "the classifier answers correctly for this message type", "the classifier gives the wrong answer for message type '"+actual+"' (a peer's own fail/exit message is then answered with another fail line, or a local error is not reported)")
		}
	}
	// the fail line is written after cleanInput latched 'stopped': nothing on the reporter's write path may be gated by the stop flag
	stopGates := map[string]bool{"trzszTransfer.checkStop": true, "trzszTransfer.checkStopAndPause": true}
	for _, name := range []string{"trzszTransfer.sendString", "trzszTransfer.sendLine", "trzszTransfer.writeAll", "trzszTransfer.sendInteger", "trzszTransfer.sendBinary"} {
		f := c.fn(name)
		gated := false
		for g := range c.reachableNarrow(f) {
			if stopGates[c.fnName(g)] {
				gated = true
			}
		}
		c.check(!gated, name+"/not-stop-gated", c.pos(f.Pos()), "the line writers used by the error reporters do not consult the stop flag", "a line writer on the error reporters' path checks the stop flag: after cleanInput set it, the fail line is never written and the peer only times out")
	}
	// panic containment of the handler goroutines (note for C12 as well)
	for _, x := range []string{"TrzszFilter.handleTrzsz$1", "TrzMain", "TszMain"} {
		f := c.fn(x)
		rec := false
		for _, fn := range withAnons(f) {
			eachInstr(fn, func(in ssa.Instruction) {
				if ci, ok := in.(ssa.CallInstruction); ok && calleeID(ci.Common()) == "builtin recover" {
					rec = true
				}
			})
		}
		c.check(rec, x+"/recover", c.pos(f.Pos()), "a deferred recover turns a panic into a reported error", "the handler no longer recovers panics")
	}
}

func c11R5(c *Ctx) {
	for _, name := range []string{"trzszTransfer.sendFileDataV2", "trzszTransfer.recvFileDataV2", "trzszTransfer.sendPrefixHash"} {
		f := c.fn(name)
		var d ssa.Instruction
		eachInstr(f, func(in ssa.Instruction) {
			if df, ok := in.(*ssa.Defer); ok && isCancelCall(df) && d == nil {
				d = in
			}
		})
		if d == nil {
			c.bad(name+"/defer-cancel", c.pos(f.Pos()), "the driver does not defer cancel(nil): stages blocked on ctx.Done() are never released")
			continue
		}
		okAll := true
		for _, ci := range callsIn(f, idHasPrefix(tT+"pipeline")) {
			if !domI(d, ci.(ssa.Instruction)) {
				okAll = false
			}
		}
		c.check(okAll, name+"/defer-cancel", c.ipos(d), "defer cancel(nil) is registered before any stage starts", "a stage is started before cancel is deferred")
	}
}

func c11R6(c *Ctx) {
	reach := c.reachableFrom(c.stageRoots()...)
	n := 0
	for _, f := range c.AllFns {
		if !reach[f] {
			continue
		}
		fname := c.fnName(f)
		if _, ex := c11Exempt[fname]; ex {
			continue
		}
		eachInstr(f, func(in ssa.Instruction) {
			ci, ok := in.(ssa.CallInstruction)
			if !ok || calleeID(ci.Common()) != "builtin close" {
				return
			}
			n++
			ch := ci.Common().Args[0]
			key := fname + "/close(" + chanName(ch) + ")"
			sites, unres := c.makeSites(ch)
			if unres || len(sites) == 0 {
				c.undecided(key, "cannot trace the closed channel to its make site")
				return
			}
			for _, site := range sites {
				senders := map[*ssa.Function]bool{}
				for _, g := range c.AllFns {
					eachInstr(g, func(x ssa.Instruction) {
						switch y := x.(type) {
						case *ssa.Send:
							if c.fromSite(y.Chan, site) {
								senders[c.owner(g)] = true
							}
						case *ssa.Select:
							for _, st := range y.States {
								if st.Send != nil && c.fromSite(st.Chan, site) {
									senders[c.owner(g)] = true
								}
							}
						}
					})
				}
				good := len(senders) == 0 || senders[c.owner(f)]
				var sl []string
				for s := range senders {
					sl = append(sl, c.fnName(s))
				}
				c.check(good, key, c.ipos(in), "channel closed by its (only) sending side", "channel closed by a function that is not its sender while "+strings.Join(sl, ", ")+" can still send: a late send panics (send on closed channel) in a goroutine without recover")
			}
		})
	}
	if n < 10 {
		c.undecided("closes", "fewer close sites than expected")
	}
}

// c11Mutex: every mutex acquired in the package is released on every path out of the acquiring function:
// an Unlock of the same mutex is deferred after the Lock, or every path from the Lock to a return passes one.
// (A lock left held turns the next stop / park / drag-buffer call into a hang.)
func c11Mutex(c *Ctx) {
	n := 0
	for _, f := range c.AllFns {
		if !c.inPkg(f) {
			continue
		}
		fname := c.fnName(f)
		k := 0
		eachInstr(f, func(in ssa.Instruction) {
			ci, ok := in.(*ssa.Call)
			if !ok {
				return
			}
			id := calleeID(&ci.Call)
			var unl string
			switch id {
			case "(*sync.Mutex).Lock":
				unl = "(*sync.Mutex).Unlock"
			case "(*sync.RWMutex).Lock":
				unl = "(*sync.RWMutex).Unlock"
			case "(*sync.RWMutex).RLock":
				unl = "(*sync.RWMutex).RUnlock"
			default:
				return
			}
			n++
			k++
			m := ci.Call.Args[0]
			isUnlock := func(x ssa.Instruction) bool {
				xc, ok := x.(ssa.CallInstruction)
				return ok && calleeID(xc.Common()) == unl && (sameAddr(xc.Common().Args[0], m) || sameValue(xc.Common().Args[0], m))
			}
			name, _ := fieldAddrName(m)
			key := fmt.Sprintf("%s/lock.%d[%s]", fname, k, name)
			// a deferred unlock registered on every path from the lock before anything can return
			hit, path := reachAvoid(in, isReturn, func(x ssa.Instruction) bool {
				return isUnlock(x) // plain call or defer
			})
			if hit != nil {
				c.bad(key, c.ipos(in), "the mutex can still be held when the function returns: a path from Lock to a return passes no Unlock (and registers no deferred one)", c.pathStr(path)...)
				return
			}
			c.ok(key, c.ipos(in), "every path from Lock to a return passes an Unlock of the same mutex (or registers it with defer)")
		})
	}
	if n < 6 {
		c.undecided("mutex/sites", fmt.Sprintf("only %d Lock sites found; the rule was confirmed on 7", n))
	}
}

// c11StageExits: a pipeline stage ends only for a reason: it cancelled with a cause, the context was
// already cancelled (ctx.Err() != nil edge / Done arm), or its work is complete — its input channel was
// closed, the acknowledged/saved step reached the size, the end-of-data chunk or EOF arrived, or it has
// just signalled success. A return on any other path leaves the other stages (and the peer) waiting.
// stageCompletion: what counts as "work complete" for each pipeline stage, from reading the stage:
// closed = its input channel was closed by the producer; sizeGE = the read total reached the size;
// empty = the end-of-data chunk arrived; eof = the decoder reported EOF; send:<chan> = it has just
// signalled on that channel; call:<id> = it handed over to that function.
var stageCompletion = map[string][]string{
	"trzszTransfer.pipelineReadData$1":     {"sizeGE"},
	"trzszTransfer.pipelineEncodeData$1":   {"closed"},
	"trzszTransfer.pipelineSendData$2":     {"closed"},
	"trzszTransfer.pipelineRecvAck$1":      {"call:" + tT + "pipelineRecvFinalAck"},
	"trzszTransfer.pipelineRecvFinalAck":   {"send:succ"},
	"trzszTransfer.pipelineSendAck$1":      {"send:succ"},
	"trzszTransfer.pipelineShowProgress$1": {"closed"},
	"trzszTransfer.pipelineCalculateMD5$1": {"closed"},
	"trzszTransfer.pipelineRecvData$1":     {"empty"},
	"trzszTransfer.pipelineDecodeData$1":   {"eof"},
	"trzszTransfer.pipelineSaveData$1":     {"send:ackImmediatelyChan"},
}

func c11StageExits(c *Ctx) {
	reach := c.reachableFrom(c.stageRoots()...)
	n := 0
	for _, f := range c.AllFns {
		if !reach[f] || f.Signature.Results().Len() != 0 || len(f.Blocks) == 0 {
			continue
		}
		fname := c.fnName(f)
		if _, ex := c11Exempt[fname]; ex || !strings.Contains(fname, "pipeline") {
			continue
		}
		if f.Parent() != nil && !c.goTargets()[f] {
			continue // deferred / helper literal inside a stage, not a stage of its own
		}
		if fname == "trzszTransfer.pipelineSendHash$1" || fname == "trzszTransfer.pipelineRecvHashAck$1" {
			continue // the hash stages: C08-R5 (over-sent, deliver-or-cancel) decides the same question with their own completion conditions
		}
		n++
		doneArm := func(from, to *ssa.BasicBlock) bool {
			for _, fc := range edgeFactsTo(from, to) {
				op, x, y, ok := cmpFact(fc)
				if !ok {
					continue
				}
				e, isE := x.(*ssa.Extract)
				if !isE || e.Index != 0 {
					continue
				}
				sel, isSel := e.Tuple.(*ssa.Select)
				k, isK := constInt(y)
				if !isSel || !isK {
					continue
				}
				if op == token.EQL && int(k) < len(sel.States) && isDoneRecv(sel.States[k]) {
					return true
				}
				if op == token.NEQ && len(sel.States) == 2 && int(k) < 2 && isDoneRecv(sel.States[1-int(k)]) {
					return true
				}
			}
			return false
		}
		kinds, classified := stageCompletion[fname]
		if !classified {
			c.undecided(fname+"/exit-has-a-reason", "a pipeline stage this rule has no completion condition for (classify it in stageCompletion)")
			continue
		}
		has := func(k string) bool {
			for _, x := range kinds {
				if x == k {
					return true
				}
			}
			return false
		}
		complete := func(from, to *ssa.BasicBlock) bool {
			for _, fc := range edgeFactsTo(from, to) {
				// input channel closed
				if e, ok := fc.V.(*ssa.Extract); ok && e.Index == 1 && !fc.Pol && has("closed") {
					if u, ok := e.Tuple.(*ssa.UnOp); ok && u.Op == token.ARROW && u.CommaOk {
						return true
					}
				}
				if has("empty") && factZero([]fact{fc}, func(v ssa.Value) bool {
					call, _ := callOf(v)
					return call != nil && calleeID(&call.Call) == "builtin len"
				}) { // end-of-data chunk
					return true
				}
				if has("sizeGE") && factCmp([]fact{fc}, token.GEQ, anyValue, func(y ssa.Value) bool { // the read loop: step >= size
					call, _ := callOf(y)
					return isVar("size")(y) || (call != nil && call.Call.IsInvoke() && call.Call.Method.Name() == "getSize")
				}) {
					return true
				}
				op, x, y, ok := cmpFact(fc)
				if !ok || op != token.EQL {
					continue
				}
				for _, p := range [][2]ssa.Value{{x, y}, {y, x}} {
					if u, isU := strip(p[1]).(*ssa.UnOp); has("eof") && isU && u.Op == token.MUL { // err == io.EOF
						if g, isG := u.X.(*ssa.Global); isG && g.Name() == "EOF" {
							return true
						}
					}
				}
			}
			return false
		}
		signalled := func(in ssa.Instruction) bool {
			if isCancelWithError(in) {
				return true
			}
			if s, ok := in.(*ssa.Send); ok && has("send:"+chanName(s.Chan)) {
				return true
			}
			if ci, ok := in.(ssa.CallInstruction); ok && has("call:"+calleeID(ci.Common())) {
				return true
			}
			return false
		}
		hit, path := reachFromE(f.Blocks[0], 0, isReturn, signalled, func(from, to *ssa.BasicBlock) bool {
			return ctxErrEdge(from, to) || doneArm(from, to) || complete(from, to)
		})
		c.check(hit == nil, fname+"/exit-has-a-reason", c.pos(f.Pos()), "every return follows a cancel with a cause, a cancelled context, or the stage's completion condition", "the stage can return on a live context without having finished or cancelled: the stages and the peer that depend on it keep waiting", c.pathStr(path)...)
	}
	if n < 10 {
		c.undecided("stage-exits/stages", fmt.Sprintf("only %d stages found", n))
	}
}

// c11BufInit: the size-probing hand-shake between the encoder's writer and the ack stage. The writer
// waits for one token per chunk while the init-phase flag is set; so (a) a new transfer starts with a
// positive chunk size, (b) the wait is cancellable, and (c) in the ack stage every path on which the
// flag was read as set reaches ackBufInit() before the next ack is taken, unless a later read of the
// flag found it cleared.
func c11BufInit(c *Ctx) {
	nt := c.fn("newTransfer")
	okSize := false
	for _, ci := range callsIn(nt, anyID) {
		if isAtomicOnField(ci, "bufferSize", "Store") {
			if k, ok := constInt(ci.Common().Args[1]); ok && k >= 1024 {
				okSize = true
			}
		}
	}
	c.check(okSize, "newTransfer/initial-chunk-size", c.pos(nt.Pos()), "a transfer starts with a positive chunk size (>= 1024)", "a transfer starts without a positive chunk size: the first chunk is empty, which is the end-of-data marker")
	af := c.fn("trzszTransfer.pipelineRecvAck$1")
	var next ssa.Instruction
	eachInstr(af, func(in ssa.Instruction) {
		if u, ok := in.(*ssa.UnOp); ok && u.Op == token.ARROW && u.CommaOk && chanName(u.X) == "ackChan" {
			next = in
		}
	})
	if next == nil {
		c.lost("range over ackChan in pipelineRecvAck")
	}
	isPhaseLoad := func(v ssa.Value) bool {
		call, _ := callOf(v)
		return call != nil && isAtomicOnField(call, "bufInitPhase", "Load")
	}
	cleared := func(from, to *ssa.BasicBlock) bool {
		for _, f := range edgeFactsTo(from, to) {
			if isPhaseLoad(f.V) && !f.Pol {
				return true
			}
		}
		return false
	}
	// a callee of this package "releases" when each of its exits has released the writer or has seen the flag cleared
	// (the bookkeeping may live in a helper: the hand-shake is the same)
	relMemo := map[*ssa.Function]int{}
	var releases func(g *ssa.Function, depth int) bool
	isRelease := func(in ssa.Instruction, depth int) bool {
		ci, ok := in.(ssa.CallInstruction)
		if !ok {
			return false
		}
		if calleeID(ci.Common()) == tT+"ackBufInit" || isCancelWithError(in) {
			return true
		}
		if _, isGo := in.(*ssa.Go); isGo {
			return false
		}
		g := ci.Common().StaticCallee()
		return g != nil && c.inPkg(g) && len(g.Blocks) > 0 && releases(g, depth+1)
	}
	releases = func(g *ssa.Function, depth int) bool {
		if depth > 2 {
			return false
		}
		if v, ok := relMemo[g]; ok {
			return v == 1
		}
		relMemo[g] = 0
		hit, _ := reachFromE(g.Blocks[0], 0, isReturn, func(in ssa.Instruction) bool { return isRelease(in, depth) }, cleared)
		if hit == nil {
			relMemo[g] = 1
		}
		return hit == nil
	}
	n := 0
	// the stage body and, in call order, the helpers it hands the bookkeeping to
	scope := []*ssa.Function{af}
	for _, ci := range callsIn(af, anyID) {
		if _, isGo := ci.(*ssa.Go); isGo {
			continue
		}
		if g := ci.Common().StaticCallee(); g != nil && c.inPkg(g) && len(g.Blocks) > 0 && g != af && calleeID(ci.Common()) != tT+"ackBufInit" {
			has := false
			for _, x := range callsIn(g, anyID) {
				if isAtomicOnField(x, "bufInitPhase", "Load") {
					has = true
				}
			}
			if has {
				scope = append(scope, g)
			}
		}
	}
	for _, sf := range scope {
		for _, b := range sf.Blocks {
			i := blockIf(b)
			if i == nil || !isPhaseLoad(normFact(fact{V: i.Cond, Pol: true}).V) {
				continue
			}
			k := 0
			if !normFact(fact{V: i.Cond, Pol: true}).Pol {
				k = 1
			}
			n++
			hit, path := reachFromE(b.Succs[k], 0, func(in ssa.Instruction) bool { return in == next || isReturn(in) }, func(in ssa.Instruction) bool { return isRelease(in, 0) }, func(from, to *ssa.BasicBlock) bool { return cleared(from, to) || ctxErrEdge(from, to) })
			c.check(hit == nil, fmt.Sprintf("pipelineRecvAck/init-phase-ack.%d", n), c.ipos(i), "once the init-phase flag was read as set, the writer's token is released before the next ack is taken (or a later read found the flag cleared)", "an ack can be consumed in the init phase without releasing the writer: the encoder waits for a token that never comes", c.pathStr(path)...)
		}
	}
	if n < 2 {
		c.undecided("pipelineRecvAck/init-phase-reads", "fewer reads of the init-phase flag than expected")
	}
	// ... and no ack is consumed without looking at the flag at all: from taking an ack to taking the next one, every
	// path releases the writer, or sees the flag cleared, or leaves (cancel / cancelled context / return)
	hit, path := reachFromE(next.Block(), instrIndex(next)+1, func(in ssa.Instruction) bool { return in == next }, func(in ssa.Instruction) bool { return isRelease(in, 0) }, func(from, to *ssa.BasicBlock) bool { return cleared(from, to) || ctxErrEdge(from, to) })
	c.check(hit == nil, "pipelineRecvAck/every-ack-looks-at-init-phase", c.ipos(next), "between two acks every path releases the waiting writer or observes that the init phase is over", "an ack can be consumed without releasing the writer and without checking whether it is waiting (a pause during size probing hangs the transfer)", c.pathStr(path)...)
}

// c11LoopProgress (contradiction): a loop whose only exit test compares values that cannot change inside the loop
// never ends once entered. (A dropped counter update: `for i := 0; i < n; {...}`.) Values count as changeable
// whenever they are loaded from memory or come from a call inside the loop, so loops that wait on shared state
// are never reported.
func c11LoopProgress(c *Ctx) {
	loops := 0
	for _, f := range c.AllFns {
		if !c.inPkg(f) || len(f.Blocks) == 0 {
			continue
		}
		fname := c.fnName(f)
		// reachability between blocks
		reach := map[*ssa.BasicBlock]map[*ssa.BasicBlock]bool{}
		var dfs func(src, b *ssa.BasicBlock)
		dfs = func(src, b *ssa.BasicBlock) {
			for _, s := range b.Succs {
				if !reach[src][s] {
					reach[src][s] = true
					dfs(src, s)
				}
			}
		}
		for _, b := range f.Blocks {
			reach[b] = map[*ssa.BasicBlock]bool{}
			dfs(b, b)
		}
		k := 0
		for _, b := range f.Blocks {
			i := blockIf(b)
			if i == nil || !reach[b][b] {
				continue
			}
			inLoop := func(x *ssa.BasicBlock) bool { return x == b || (reach[b][x] && reach[x][b]) }
			stay, leave := -1, -1
			for s, succ := range b.Succs {
				if inLoop(succ) {
					stay = s
				} else {
					leave = s
				}
			}
			if stay < 0 || leave < 0 {
				continue
			}
			loops++
			// another way out of the loop?
			other := false
			for _, x := range f.Blocks {
				if !inLoop(x) {
					continue
				}
				for _, s := range x.Succs {
					if !inLoop(s) && x != b {
						other = true
					}
				}
				for _, in := range x.Instrs {
					switch in.(type) {
					case *ssa.Return, *ssa.Panic:
						other = true
					}
				}
			}
			if other {
				continue
			}
			var invariant func(v ssa.Value, depth int) bool
			invariant = func(v ssa.Value, depth int) bool {
				if depth > 6 {
					return false
				}
				switch x := v.(type) {
				case *ssa.Const, *ssa.Parameter, *ssa.FreeVar, *ssa.Global, *ssa.Function, *ssa.Builtin:
					return true
				case *ssa.Phi:
					if !inLoop(x.Block()) {
						return true
					}
					for j, e := range x.Edges {
						if inLoop(x.Block().Preds[j]) && e != ssa.Value(x) {
							return false
						}
					}
					return true
				case *ssa.BinOp:
					if !inLoop(x.Block()) {
						return true
					}
					return invariant(x.X, depth+1) && invariant(x.Y, depth+1)
				case *ssa.Convert:
					return !inLoop(x.Block()) || invariant(x.X, depth+1)
				case *ssa.UnOp:
					if !inLoop(x.Block()) {
						return true
					}
					if x.Op == token.MUL || x.Op == token.ARROW {
						return false // memory / channel: may change
					}
					return invariant(x.X, depth+1)
				case *ssa.Call:
					if !inLoop(x.Block()) {
						return true
					}
					if calleeID(&x.Call) == "builtin len" {
						return invariant(x.Call.Args[0], depth+1)
					}
					return false
				case ssa.Instruction:
					return !inLoop(x.Block())
				}
				return false
			}
			if invariant(i.Cond, 0) {
				k++
				c.bad(fmt.Sprintf("%s/loop-cannot-end.%d", fname, k), c.ipos(i), "the only exit test of this loop compares values that do not change inside the loop: once entered it never ends")
			}
		}
	}
	c.sites += loops
	c.check(loops >= 40, "loops/examined", "", fmt.Sprintf("%d loop exit tests examined; none is loop-invariant without another way out", loops), fmt.Sprintf("only %d loop exit tests found", loops))
}
