package main

import (
	"fmt"
	"testing"

	"trzszlint/xssa"
)

func TestDebugIDs(t *testing.T) {
	p, err := loadProgram("linux", "amd64")
	if err != nil {
		t.Fatal(err)
	}
	f := p.Funcs["trzszTransfer.acceptOnTunnel$1$1"]
	eachInstr(f, func(in ssa.Instruction) {
		if ci, ok := in.(ssa.CallInstruction); ok {
			n := ""
			if len(ci.Common().Args) > 0 {
				n, _ = fieldAddrName(ci.Common().Args[0])
			}
			fmt.Println(calleeID(ci.Common()), "|", n)
		}
	})
}
