package main

// C03 — stream reassembly independent of chunking: cursor discipline of the stream buffer.

import (
	"fmt"
	"go/token"
	"go/types"
	"strings"

	"trzszlint/xssa"
)

func init() {
	register("C03", 22, "Decided (for every path of the current source): (R1) the cursor state (current chunk, index, accumulator) is touched only by the buffer's own methods; (R2) in each of the three readers, on every arm between two chunk fetches the cursor advances by exactly what was consumed — delimiter arm: index+1 with the chunk cut at that same index, else the whole chunk length; sized read: the number of bytes still wanted with the chunk cut at that same number; the Windows reader's extra step over the newline after '!' is an in-bounds test — and what is appended to the accumulator is that (cut) chunk; the junk-tolerant continuation inspects the accumulator, not the current chunk; (R3) a fetch never waits while unread bytes of the current chunk remain, and the pop used by the relay returns that remainder first; (R4) every producer of the chunk queue hands over a buffer it never writes again. Not decided: equality with a reference parse for all segmentations, CR/LF joining semantics. (R5) the server input pump queues exactly buffer[0:n] of every non-empty read and ends exactly on a read error.",
		func(c *Ctx) {
			c.run("C03-R1", "WHO-WRITES: cursor state is private to the buffer", c03R1)
			c.run("C03-R2", "GUARD-DOM: cursor advance = bytes consumed, on every arm", c03R2)
			c.run("C03-R6", "DATAFLOW: the Windows line filter's state survives from one chunk to the next", c03WinState)
			c.run("C03-R3", "ORDER: no waiting while data is there", c03R3)
			c.run("C03-R4", "FRESH: producers never rewrite a queued buffer", c03R4)
			c.run("C03-R5", "MUST-PASS: the input pump queues exactly what each read returned and ends exactly on a read error", c03R5)
			c.run("C03-S2", "shared with C16-R2: every piece of a line is searched for Ctrl-C before it is kept, so 'Interrupted' does not depend on where the chunks are cut", c16R2)
		})
}

func c03R1(c *Ctx) {
	n := 0
	for _, f := range c.AllFns {
		fname := c.fnName(f)
		eachInstr(f, func(in ssa.Instruction) {
			fa, ok := in.(*ssa.FieldAddr)
			if !ok {
				return
			}
			nm, _ := fieldAddrName(fa)
			switch nm {
			case "trzszBuffer.nextBuf", "trzszBuffer.nextIdx", "trzszBuffer.readBuf", "trzszBuffer.timeout", "trzszBuffer.newTimeout":
				n++
				own := strings.HasPrefix(fname, "trzszBuffer.") || fname == "newTrzszBuffer"
				c.check(own, "state/"+nm+"@"+fname, c.ipos(fa), "buffer state accessed by the buffer's own methods", "buffer cursor state is accessed outside the buffer type")
			}
		})
	}
	if n < 20 {
		c.undecided("state/uses", "fewer uses of the cursor state than expected")
	}
}

// nextIdxStores: stores to b.nextIdx in f as (store, delta) where value = load(nextIdx) + delta.
type idxStore struct {
	st    *ssa.Store
	delta ssa.Value // nil when the store is not of the form old + delta
	zero  bool      // store of constant 0
}

func nextIdxStores(f *ssa.Function) []idxStore {
	var out []idxStore
	eachInstr(f, func(in ssa.Instruction) {
		st, ok := in.(*ssa.Store)
		if !ok {
			return
		}
		if nm, ok := fieldAddrName(st.Addr); !ok || nm != "trzszBuffer.nextIdx" {
			return
		}
		is := idxStore{st: st}
		if z, ok := constInt(st.Val); ok && z == 0 {
			is.zero = true
		}
		if b, ok := st.Val.(*ssa.BinOp); ok && b.Op == token.ADD {
			if isFieldLoad("nextIdx")(b.X) {
				is.delta = b.Y
			} else if isFieldLoad("nextIdx")(b.Y) {
				is.delta = b.X
			}
		}
		out = append(out, is)
	})
	return out
}

func isLenOf(v ssa.Value, of func(ssa.Value) bool) bool {
	lc, _ := callOf(v)
	return lc != nil && calleeID(&lc.Call) == "builtin len" && of(lc.Call.Args[0])
}

func c03R2(c *Ctx) {
	for _, spec := range []struct {
		fn    string
		delim int64 // -1: sized read
	}{{"trzszBuffer.readLine", '\n'}, {"trzszBuffer.readLineOnWindows", '!'}, {"trzszBuffer.readBinary", -1}} {
		f := c.fn(spec.fn)
		nb := callsIn(f, idIs("(*trzsz.trzszBuffer).nextBuffer"))
		if len(nb) != 1 {
			c.lost("nextBuffer call in " + spec.fn)
		}
		chunk := extractOf(nb[0].(*ssa.Call), 0)
		isChunk := isValue(chunk)
		arms := map[string]int{}
		for _, is := range nextIdxStores(f) {
			key := spec.fn + "/advance"
			if is.delta == nil {
				c.bad(key+".shape", c.ipos(is.st), "cursor assigned something other than cursor + consumed")
				continue
			}
			fs := factsAt(is.st.Block())
			if ph, isPhi := is.delta.(*ssa.Phi); isPhi && spec.delim < 0 && len(ph.Edges) == 2 {
				// `take := len(buf); if take > left { take = left }; nextIdx += take; Write(buf[:take])`: the two arms
				// of the sized read merged into one minimum. Each edge of the merged value is one arm, judged with the
				// facts of that edge; the chunk must be cut at the merged value itself.
				cut := false
				eachInstr(f, func(in ssa.Instruction) {
					sl, ok := in.(*ssa.Slice)
					if ok && isChunk(sl.X) && sl.High != nil && sameValue(sl.High, ph) && (sl.Low == nil || isConstIntV(0)(sl.Low)) {
						cut = true
					}
				})
				for k, e := range ph.Edges {
					pred := ph.Block().Preds[k]
					fe := append(append([]fact{}, factsAt(pred)...), edgeFactsTo(pred, ph.Block())...)
					lenOfChunk := func(v ssa.Value) bool { return isLenOf(v, isChunk) }
					if isLenOf(e, isChunk) {
						arms["whole"]++
						c.check(factCmp(fe, token.LEQ, lenOfChunk, anyValue), key+".whole-chunk", c.ipos(is.st), "the whole chunk is consumed only when it holds no delimiter / fits the request", "the cursor skips the whole chunk although only part of it was consumed")
					} else {
						arms["left"]++
						c.check(cut && factCmp(fe, token.GTR, lenOfChunk, isValue(e)), key+".exact-remainder", c.ipos(is.st), "a sized read takes exactly the bytes still wanted and cuts the chunk there", "sized read: cursor advance and chunk cut disagree, or are not on the chunk-longer-than-wanted edge")
					}
				}
				continue
			}
			switch {
			case isLenOf(is.delta, isChunk):
				arms["whole"]++
				// on the no-delimiter / fits-entirely edge
				var good bool
				if spec.delim >= 0 {
					good = factCmp(fs, token.LSS, func(v ssa.Value) bool {
						ic, _ := callOf(v)
						return ic != nil && calleeID(&ic.Call) == "bytes.IndexByte" && isChunk(ic.Call.Args[0]) && isConstIntV(spec.delim)(ic.Call.Args[1])
					}, isConstIntV(0))
				} else {
					good = factCmp(fs, token.LEQ, func(v ssa.Value) bool { return isLenOf(v, isChunk) }, anyValue)
				}
				c.check(good, key+".whole-chunk", c.ipos(is.st), "the whole chunk is consumed only when it holds no delimiter / fits the request", "the cursor skips the whole chunk although only part of it was consumed")
			case func() bool {
				b, ok := is.delta.(*ssa.BinOp)
				if !ok || b.Op != token.ADD || !isConstIntV(1)(b.Y) {
					return false
				}
				ic, _ := callOf(b.X)
				return ic != nil && calleeID(&ic.Call) == "bytes.IndexByte"
			}():
				arms["delim"]++
				idx := is.delta.(*ssa.BinOp).X
				ic, _ := callOf(idx)
				good := isChunk(ic.Call.Args[0]) && isConstIntV(spec.delim)(ic.Call.Args[1]) && factCmp(fs, token.GEQ, isValue(idx), isConstIntV(0))
				c.check(good, key+".past-delimiter", c.ipos(is.st), "cursor moves one past the delimiter found in this chunk", "cursor advance on the delimiter arm is not (index of the delimiter in this chunk)+1")
				// the chunk is cut at the same index on this arm
				cut := false
				eachInstr(f, func(in ssa.Instruction) {
					sl, ok := in.(*ssa.Slice)
					if ok && isChunk(sl.X) && sl.High != nil && sameValue(sl.High, idx) && (sl.Low == nil || isConstIntV(0)(sl.Low)) &&
						(sl.Block() == is.st.Block() || (is.st.Block().Dominates(sl.Block()) && factCmp(factsAt(sl.Block()), token.GEQ, isValue(idx), isConstIntV(0)))) {
						cut = true
					}
				})
				c.check(cut, key+".cut-at-delimiter", c.ipos(is.st), "the chunk is cut at that same index", "the chunk is not cut at the index the cursor was advanced by (bytes lost or duplicated)")
			case isConstIntV(1)(is.delta):
				arms["skip-lf"]++
				inb := factCmp(fs, token.LSS, isFieldLoad("nextIdx"), func(v ssa.Value) bool { return isLenOf(v, isChunk) })
				lf := factCmp(fs, token.EQL, anyValue, isConstIntV('\n'))
				c.check(inb && lf && spec.delim == '!', key+".skip-newline", c.ipos(is.st), "the newline after '!' is skipped only when it is there (in-bounds test)", "the extra cursor step is not guarded by an in-bounds '\\n' test")
			default:
				// sized read: delta = left with buf cut to [0:left]
				arms["left"]++
				good := spec.delim < 0 && factCmp(fs, token.GTR, func(v ssa.Value) bool { return isLenOf(v, isChunk) }, isValue(is.delta))
				cut := false
				eachInstr(f, func(in ssa.Instruction) {
					sl, ok := in.(*ssa.Slice)
					if ok && isChunk(sl.X) && sl.High != nil && sameValue(sl.High, is.delta) && sl.Block() == is.st.Block() {
						cut = true
					}
				})
				c.check(good && cut, key+".exact-remainder", c.ipos(is.st), "a sized read takes exactly the bytes still wanted and cuts the chunk there", "sized read: cursor advance and chunk cut disagree, or are not on the chunk-longer-than-wanted edge")
			}
		}
		want := map[string]int{"whole": 1, "delim": 1}
		if spec.delim == '!' {
			want["skip-lf"] = 1
		}
		if spec.delim < 0 {
			want = map[string]int{"whole": 1, "left": 1}
		}
		c.check(fmt.Sprint(arms) == fmt.Sprint(want), spec.fn+"/arms", c.pos(f.Pos()), fmt.Sprintf("cursor arms %v", arms), fmt.Sprintf("cursor arms are %v, expected %v", arms, want))
		// what is appended is the (cut) chunk, exactly once per fetch
		var appends []ssa.Instruction
		eachInstr(f, func(in ssa.Instruction) {
			call, ok := in.(*ssa.Call)
			if !ok || !idIs("(*bytes.Buffer).Write", "(*bytes.Buffer).WriteByte")(calleeID(&call.Call)) {
				return
			}
			if nm, ok := fieldAddrName(call.Call.Args[0]); !ok || nm != "trzszBuffer.readBuf" {
				return
			}
			appends = append(appends, in)
			if calleeID(&call.Call) == "(*bytes.Buffer).Write" {
				good := true
				for _, l := range origins(call.Call.Args[1], originOpts{throughSlice: true}) {
					if !isChunk(l.V) {
						good = false
					}
				}
				c.check(good, spec.fn+"/append-is-chunk", c.ipos(in), "the accumulator receives the (cut) chunk just fetched", "something other than the fetched chunk is appended")
			} else {
				// byte-wise: the byte is chunk[i]
				good := false
				if u, ok := call.Call.Args[1].(*ssa.UnOp); ok {
					if ia, ok := u.X.(*ssa.IndexAddr); ok {
						for _, l := range origins(ia.X, originOpts{throughSlice: true}) {
							if isChunk(l.V) {
								good = true
							}
						}
					}
				}
				c.check(good, spec.fn+"/append-is-chunk", c.ipos(in), "kept bytes come from the fetched chunk", "a kept byte does not come from the fetched chunk")
			}
		})
		if len(appends) == 0 {
			c.bad(spec.fn+"/append", c.pos(f.Pos()), "nothing is appended to the accumulator")
		}
		if spec.delim != '!' && len(appends) > 0 {
			// and every fetched chunk is appended: no further fetch and no successful return without it
			nbI := nb[0].(ssa.Instruction)
			hit, path := reachAvoid(nbI, func(x ssa.Instruction) bool { return x == nbI || isNilErrReturn(x) }, func(x ssa.Instruction) bool {
				for _, a := range appends {
					if x == a {
						return true
					}
				}
				return false
			})
			c.check(hit == nil, spec.fn+"/every-chunk-appended", c.ipos(nbI), "each fetched chunk is appended before the next fetch or the successful return", "a fetched chunk can be skipped (next fetch or return without appending it): the result depends on how the stream was split", c.pathStr(path)...)
		}
		if spec.delim != '!' {
			for _, a := range appends {
				hit, _ := reachAvoid(a, func(x ssa.Instruction) bool {
					for _, b := range appends {
						if x == b {
							return true
						}
					}
					return false
				}, func(x ssa.Instruction) bool { return x == nb[0].(ssa.Instruction) })
				c.check(hit == nil, spec.fn+"/append-once", c.ipos(a), "a chunk is appended once per fetch", "a fetched chunk can be appended twice")
			}
		}
		// every fetch is followed by exactly one cursor advance before the next fetch (or return)
		isAdv := func(x ssa.Instruction) bool {
			st, ok := x.(*ssa.Store)
			if !ok {
				return false
			}
			nm, ok := fieldAddrName(st.Addr)
			return ok && nm == "trzszBuffer.nextIdx"
		}
		// skip the error-return edge of the fetch
		hit, path := reachFromE(nb[0].Block(), instrIndex(nb[0].(ssa.Instruction))+1, func(x ssa.Instruction) bool {
			return x == nb[0].(ssa.Instruction) || isNilErrReturn(x)
		}, isAdv, nil)
		c.check(hit == nil, spec.fn+"/always-advance", c.ipos(nb[0]), "the cursor is advanced on every path between two fetches", "a path reaches the next fetch (or a successful return) without advancing the cursor: the same bytes are read twice", c.pathStr(path)...)
	}
	readLineContinuation(c)
	rl := c.fn("trzszBuffer.readLine")
	// sized read: fast paths must not bypass the accumulator: every successful return returns the accumulator's bytes
	rb := c.fn("trzszBuffer.readBinary")
	for _, name := range []*ssa.Function{rb, rl, c.fn("trzszBuffer.readLineOnWindows")} {
		eachInstr(name, func(in ssa.Instruction) {
			r, ok := in.(*ssa.Return)
			if !ok || !isNilErrReturn(in) {
				return
			}
			bc, _ := callOf(retVal(r, 0))
			good := bc != nil && calleeID(&bc.Call) == "(*bytes.Buffer).Bytes"
			c.check(good, c.fnName(name)+"/returns-accumulator", c.ipos(r), "the result is the accumulator's content", "a reader returns something other than the accumulated bytes (bytes gathered from earlier chunks are dropped)")
		})
	}
}

func c03R3(c *Ctx) {
	f := c.fn("trzszBuffer.nextBuffer")
	early := false
	eachInstr(f, func(in ssa.Instruction) {
		r, ok := in.(*ssa.Return)
		if !ok || !isNilErrReturn(in) {
			return
		}
		sl, ok := strip(r.Results[0]).(*ssa.Slice)
		if !ok || !isFieldLoad("nextBuf")(sl.X) || sl.Low == nil || !isFieldLoad("nextIdx")(sl.Low) {
			return
		}
		fs := factsAt(r.Block())
		if factCmp(fs, token.LSS, isFieldLoad("nextIdx"), func(v ssa.Value) bool { return isLenOf(v, isFieldLoad("nextBuf")) }) {
			early = true
		}
	})
	c.check(early, "nextBuffer/remainder-without-waiting", c.pos(f.Pos()), "unread bytes of the current chunk are returned at once", "a fetch can wait for new input although unread bytes of the current chunk remain")
	eachInstr(f, func(in ssa.Instruction) {
		if sel, ok := in.(*ssa.Select); ok && sel.Blocking {
			c.check(sel.Block() != f.Blocks[0], "nextBuffer/wait-after-remainder-test", c.ipos(sel), "the blocking wait comes after the remainder test", "the blocking wait precedes the remainder test")
			// on data arrival the cursor restarts at 0
			okZero := false
			for _, is := range nextIdxStores(f) {
				if is.zero {
					okZero = true
				}
			}
			c.check(okZero, "nextBuffer/new-chunk-resets-cursor", c.ipos(sel), "a new chunk resets the cursor to 0", "a new chunk does not reset the cursor")
		}
	})
	// while unread bytes of the current chunk remain, nothing replaces it: no store to nextBuf (and so no receive from the
	// queue into it) lies where nextBuf != nil and nextIdx < len(nextBuf) both hold
	for _, nm := range []string{"trzszBuffer.nextBuffer", "trzszBuffer.popBuffer"} {
		g := c.fn(nm)
		reach := blocksUnder(g, []assumption{
			{val: false, cmp: func(op token.Token, x, y ssa.Value) (bool, bool) { // nextBuf == nil is false
				if (op != token.EQL && op != token.NEQ) || !isNilConst(y) || !isFieldLoad("nextBuf")(x) {
					return false, false
				}
				return true, op == token.EQL
			}},
			{truth: func(op token.Token, x, y ssa.Value) (bool, bool) { // nextIdx < len(nextBuf) holds
				if isLenOf(x, isFieldLoad("nextBuf")) && isFieldLoad("nextIdx")(y) {
					// written the other way round: len(nextBuf) > nextIdx
					x, y = y, x
					op = map[token.Token]token.Token{token.LSS: token.GTR, token.GTR: token.LSS, token.LEQ: token.GEQ, token.GEQ: token.LEQ, token.EQL: token.EQL, token.NEQ: token.NEQ}[op]
				}
				if !isFieldLoad("nextIdx")(x) || !isLenOf(y, isFieldLoad("nextBuf")) {
					return false, false
				}
				switch op {
				case token.LSS, token.LEQ, token.NEQ:
					return true, true
				case token.GEQ, token.GTR, token.EQL:
					return true, false
				}
				return false, false
			}},
		})
		eachInstr(g, func(in ssa.Instruction) {
			switch x := in.(type) {
			case *ssa.Select:
				for _, st := range x.States {
					if st.Send == nil {
						if _, fld, ok := fieldOf(st.Chan); ok && fld == "bufCh" {
							c.check(!reach[in.Block()], c.fnName(g)+"/no-fetch-over-a-remainder", c.ipos(in), "the queue is consulted only when the current chunk is used up", "a new chunk can be taken from the queue while unread bytes of the current one remain: they are lost")
						}
					}
				}
			case *ssa.UnOp:
				if x.Op == token.ARROW {
					if _, fld, ok := fieldOf(x.X); ok && fld == "bufCh" {
						c.check(!reach[in.Block()], c.fnName(g)+"/no-fetch-over-a-remainder", c.ipos(in), "the queue is consulted only when the current chunk is used up", "a new chunk can be taken from the queue while unread bytes of the current one remain: they are lost")
					}
				}
			}
		})
	}
	// every replacement of the current chunk restarts the cursor before the function returns
	nSwap := 0
	for _, g := range c.AllFns {
		eachInstr(g, func(in ssa.Instruction) {
			st, ok := in.(*ssa.Store)
			if !ok {
				return
			}
			if n, _ := fieldAddrName(st.Addr); n != "trzszBuffer.nextBuf" {
				return
			}
			nSwap++
			hit, path := reachAvoid(st, func(x ssa.Instruction) bool { _, isRet := x.(*ssa.Return); return isRet }, c.orWrapper("cursor=0", func(x ssa.Instruction) bool {
				s2, ok := x.(*ssa.Store)
				if !ok {
					return false
				}
				n2, _ := fieldAddrName(s2.Addr)
				z, isC := constInt(s2.Val)
				return n2 == "trzszBuffer.nextIdx" && isC && z == 0
			}))
			c.check(hit == nil, c.fnName(g)+"/chunk-swap-resets-cursor", c.ipos(st), "the cursor restarts at 0 whenever the current chunk is replaced", "the current chunk is replaced and the function returns with the old cursor (the new chunk is read from a stale offset)", c.pathStr(path)...)
		})
	}
	if nSwap < 3 {
		c.undecided("chunk-swap-resets-cursor/sites", "fewer chunk replacements than expected")
	}
	// popBuffer (relay flush): shared with C13-R2
	c13R2pop(c)
}

// c13R2pop: the popBuffer part of C13-R2 alone.
func c13R2pop(c *Ctx) {
	pb := c.fn("trzszBuffer.popBuffer")
	okRem := false
	eachInstr(pb, func(in ssa.Instruction) {
		r, ok := in.(*ssa.Return)
		if !ok || len(r.Results) != 1 {
			return
		}
		sl, ok := strip(r.Results[0]).(*ssa.Slice)
		if !ok || !isFieldLoad("nextBuf")(sl.X) || sl.Low == nil || !isFieldLoad("nextIdx")(sl.Low) {
			return
		}
		okRem = factCmp(factsAt(r.Block()), token.LSS, isFieldLoad("nextIdx"), func(v ssa.Value) bool { return isLenOf(v, isFieldLoad("nextBuf")) })
	})
	c.check(okRem, "popBuffer/remainder-first", c.pos(pb.Pos()), "the unread remainder is handed out before the queue", "popBuffer skips the unread remainder of the current chunk")
}

// freshAfterHandoff: in pump f, the buffer given to Read is never one that was handed to a queue.
func freshAfterHandoff(c *Ctx, f *ssa.Function, key string, isHandoff func(ssa.Instruction) bool) {
	var read *ssa.Call
	eachInstr(f, func(in ssa.Instruction) {
		if call, ok := in.(*ssa.Call); ok && call.Call.IsInvoke() && call.Call.Method.Name() == "Read" {
			read = call
		}
	})
	if read == nil {
		c.lost("Read call in " + c.fnName(f))
	}
	buf := read.Call.Args[0]
	nH := 0
	eachInstr(f, func(in ssa.Instruction) {
		if isHandoff(in) {
			nH++
		}
	})
	if nH == 0 {
		c.bad(key+"/handoff", c.pos(f.Pos()), "the pump no longer hands chunks to the transfer")
		return
	}
	phi, isPhi := strip(buf).(*ssa.Phi)
	if !isPhi {
		// allocated per iteration
		inLoop := false
		if bi, ok := strip(buf).(ssa.Instruction); ok {
			hit, _ := reachFrom(bi.Block(), len(bi.Block().Instrs), func(x ssa.Instruction) bool { return x.Block() == bi.Block() }, nil)
			inLoop = hit != nil
		}
		c.check(isFreshBuffer(buf) && inLoop, key+"/fresh", c.ipos(read), "a new buffer is allocated for every read", "one buffer is allocated before the loop and reused although slices of it are queued for the transfer")
		return
	}
	var handoffs []ssa.Instruction
	eachInstr(f, func(in ssa.Instruction) {
		if isHandoff(in) {
			handoffs = append(handoffs, in)
		}
	})
	// what is handed off is storage whose reuse this rule can vouch for: a slice of the buffer the read just filled
	// (checked below), or a copy made on the spot; a slice of any other long-lived block is not covered and is reported
	for _, h := range handoffs {
		ci := h.(ssa.CallInstruction)
		args := ci.Common().Args
		var chunk ssa.Value
		for _, a := range args {
			if _, isSl := a.Type().Underlying().(*types.Slice); isSl {
				chunk = a
			}
		}
		if chunk == nil {
			continue
		}
		okRoot := true
		why := ""
		for _, l := range origins(chunk, originOpts{throughSlice: true}) {
			root := strip(l.V)
			if root == strip(buf) {
				continue
			}
			sameAsBuf := false
			for _, lb := range origins(buf, originOpts{throughSlice: true}) {
				if strip(lb.V) == root {
					sameAsBuf = true
				}
			}
			if sameAsBuf || isFreshBuffer(root) {
				continue
			}
			if call, _ := callOf(root); call != nil {
				id := calleeID(&call.Call)
				if id == "bytes.Clone" || id == "slices.Clone" || (id == "builtin append" && isNilConst(call.Call.Args[0])) {
					continue
				}
			}
			okRoot, why = false, root.String()
		}
		c.check(okRoot, key+"/handoff-is-read-buffer-or-copy", c.ipos(h), "what is queued is a slice of the buffer just read into, or a fresh copy", "what is queued is a slice of another long-lived block ("+why+"): nothing shows that block is not written again while the slice waits in the queue")
	}
	isRead := func(x ssa.Instruction) bool { return x == ssa.Instruction(read) }
	// between: some hand-off lies on a path from position (b,idx) to the terminator of block to, not passing the read
	between := func(b *ssa.BasicBlock, idx int, to *ssa.BasicBlock) bool {
		term := to.Instrs[len(to.Instrs)-1]
		for _, h := range handoffs {
			fromA, _ := reachFrom(b, idx, func(x ssa.Instruction) bool { return x == h }, isRead)
			if fromA == nil {
				continue
			}
			toB, _ := reachAvoid(h, func(x ssa.Instruction) bool { return x == term }, isRead)
			if toB != nil || h.Block() == to {
				return true
			}
		}
		return false
	}
	for _, l := range origins(buf, originOpts{}) {
		if strip(l.V) != ssa.Value(phi) {
			c.check(isFreshBuffer(l.V), key+"/edge-fresh", c.ipos(read), "the buffer replacing a queued one is a new allocation", "the buffer is replaced by something that is not a new allocation")
			continue
		}
		// the loop variable flows back unchanged along the phi edges in l.Via (outermost first)
		bad := false
		via := l.Via
		if len(via) == 0 {
			continue
		}
		// innermost edge first: from the read to its source block
		if between(read.Block(), instrIndex(read)+1, via[len(via)-1]) {
			bad = true
		}
		// then from each phi's block to the next edge's source block
		cur := strip(buf).(*ssa.Phi)
		_ = cur
		for k := len(via) - 1; k >= 1; k-- {
			// the phi block entered by edge via[k] is a successor of via[k] that dominates / reaches via[k-1]
			for _, sb := range via[k].Succs {
				if r, _ := reachFrom(sb, 0, func(x ssa.Instruction) bool { return x == via[k-1].Instrs[len(via[k-1].Instrs)-1] }, isRead); r != nil || sb == via[k-1] {
					if _, isPhiBlk := sb.Instrs[0].(*ssa.Phi); isPhiBlk && between(sb, 0, via[k-1]) {
						bad = true
					}
				}
			}
		}
		c.check(!bad, key+"/no-reuse-after-handoff", c.ipos(read), "the buffer is reused only on paths that did not queue it", "the read buffer is reused after a slice of it was queued for the transfer: the next read overwrites queued data")
	}
}

func c03R4(c *Ctx) {
	isAddRecv := func(in ssa.Instruction) bool {
		ci, ok := in.(ssa.CallInstruction)
		return ok && calleeID(ci.Common()) == tT+"addReceivedData"
	}
	freshAfterHandoff(c, c.fn("wrapTransferInput$1"), "wrapTransferInput", isAddRecv)
	freshAfterHandoff(c, c.fn("TrzszFilter.wrapOutput"), "TrzszFilter.wrapOutput", isAddRecv)
	c13R6(c)
	// queueing never drops: addBuffer is one unconditional send of its argument
	ab := c.fn("trzszBuffer.addBuffer")
	nSend, other := 0, false
	eachInstr(ab, func(in ssa.Instruction) {
		switch x := in.(type) {
		case *ssa.Send:
			if isVar("buf")(x.X) && chanName(x.Chan) == "bufCh" {
				nSend++
			}
		case *ssa.Select, *ssa.If:
			other = true
		}
	})
	c.check(nSend == 1 && !other, "addBuffer/unconditional-send", c.pos(ab.Pos()), "every chunk handed to the buffer is queued (blocking send, no drop path)", "a chunk handed to the stream buffer can be dropped (conditional / non-blocking queueing)")
	// addReceivedData queues exactly the slice it was given (no copy is relied upon, none is needed)
	ar := c.fn("trzszTransfer.addReceivedData")
	{
		// and it always queues it — unless the transfer has stopped reading, or the bytes are in-band ones after the
		// tunnel was agreed (the two drops C05-R9 / C17-R5 prove): no other exit without the enqueue
		hitQ, pathQ := reachFromE(ar.Blocks[0], 0, isReturn, c.orWrapper("addBuffer", func(in ssa.Instruction) bool {
			ci, ok := in.(ssa.CallInstruction)
			return ok && calleeID(ci.Common()) == "(*trzsz.trzszBuffer).addBuffer"
		}), func(from, to *ssa.BasicBlock) bool {
			for _, fc := range edgeFactsTo(from, to) {
				if call, _ := callOf(fc.V); call != nil && fc.Pol && isAtomicOnField(call, "stopped", "Load") {
					return true
				}
				if !fc.Pol && isVar("tunnel")(fc.V) {
					// in-band bytes: legitimate only together with tunnelConnected (checked by C17-R5)
					return true
				}
			}
			return false
		})
		c.check(hitQ == nil, "addReceivedData/always-queues", c.pos(ar.Pos()), "received bytes are queued unless the transfer stopped reading or they are in-band bytes of a tunnelled transfer", "received bytes can be dropped silently (an exit without queueing them that is neither the stop nor the in-band drop)", c.pathStr(pathQ)...)
	}
	for _, ci := range callsIn(ar, idIs("(*trzsz.trzszBuffer).addBuffer")) {
		c.check(isVar("buf")(ci.Common().Args[1]), "addReceivedData/queues-its-argument", c.ipos(ci), "the received slice itself is queued", "addReceivedData queues something other than the slice it was given")
	}
}

// readLineContinuation: the junk-tolerant reader continues after a newline only when the accumulated line
// ends in CR (shared by C03-R2 and C16-R4).
func readLineContinuation(c *Ctx) {
	// junk-tolerant continuation: a loop-back after the newline was found must be decided on the
	// accumulator's last byte (the CR may have arrived in an earlier chunk), under mayHasJunk
	rl := c.fn("trzszBuffer.readLine")
	rlnb := callsIn(rl, idIs("(*trzsz.trzszBuffer).nextBuffer"))
	if len(rlnb) != 1 {
		c.lost("nextBuffer call in readLine")
	}
	header := rlnb[0].Block()
	nBack := 0
	for _, p := range header.Preds {
		if !header.Dominates(p) {
			continue // loop entry
		}
		fs := append(factsAt(p), edgeFactsTo(p, header)...)
		found := factCmp(fs, token.GEQ, func(v ssa.Value) bool {
			ic, _ := callOf(v)
			return ic != nil && calleeID(&ic.Call) == "bytes.IndexByte" && isConstIntV('\n')(ic.Call.Args[1])
		}, isConstIntV(0))
		if !found {
			continue // no newline in this chunk: plain continuation
		}
		nBack++
		onAcc := false
		for _, fc := range fs {
			op, x, y, ok := cmpFact(fc)
			if !ok || op != token.EQL || !isConstIntV('\r')(y) {
				continue
			}
			if u, ok := x.(*ssa.UnOp); ok {
				if ia, ok := u.X.(*ssa.IndexAddr); ok {
					if bc, _ := callOf(ia.X); bc != nil && calleeID(&bc.Call) == "(*bytes.Buffer).Bytes" {
						onAcc = true
					}
				}
			}
		}
		junk := false
		for _, fc := range fs {
			if fc.Pol && isVar("mayHasJunk")(fc.V) {
				junk = true
			}
		}
		c.check(onAcc && junk, "readLine/continue-after-newline", c.pos(p.Instrs[len(p.Instrs)-1].Pos()), "after a newline the reader keeps reading only when the accumulated line ends in CR (junk-tolerant mode)",
			"the wrapped-line decision is not taken on the accumulated line's last byte: a CR|LF split across two reads ends the line early (or a strict line is continued)")
	}
	{
		// universal form: in junk-tolerant mode a line whose accumulated text ends in CR is never returned — under
		// {junk mode, accumulator not empty, its last byte is CR} no successful return is reachable
		isAccLen := func(v ssa.Value) bool {
			call, _ := callOf(v)
			return call != nil && calleeID(&call.Call) == "(*bytes.Buffer).Len"
		}
		lastIsCR := assumption{val: true, cmp: func(op token.Token, x, y ssa.Value) (bool, bool) {
			if (op != token.EQL && op != token.NEQ) || !isConstIntV('\r')(y) {
				return false, false
			}
			u, ok := x.(*ssa.UnOp)
			if !ok {
				return false, false
			}
			ia, ok := u.X.(*ssa.IndexAddr)
			if !ok {
				return false, false
			}
			if bc, _ := callOf(ia.X); bc == nil || calleeID(&bc.Call) != "(*bytes.Buffer).Bytes" {
				return false, false
			}
			return true, op == token.EQL
		}}
		reach := blocksUnder(rl, []assumption{{pred: isVar("mayHasJunk"), val: true}, valueIs(isAccLen, 5), lastIsCR})
		nRet := 0
		eachInstr(rl, func(in ssa.Instruction) {
			if !isNilErrReturn(in) {
				return
			}
			nRet++
			c.check(!reach[in.Block()], "readLine/no-return-on-trailing-CR@junk", c.ipos(in), "in junk-tolerant mode a line is not returned while its accumulated text ends in CR", "in junk-tolerant mode the reader can return a line whose accumulated text ends in CR: a wrap split between the CR and the LF ends the line early and its rest becomes a bogus line")
		})
		if nRet == 0 {
			c.undecided("readLine/no-return-on-trailing-CR@junk", "no successful return in readLine")
		}
	}
	c.check(nBack >= 1, "readLine/has-wrapped-line-continuation", c.pos(rl.Pos()), "junk-tolerant mode can continue after a newline", "the reader never continues after a newline: wrapped lines are cut")
}

// c03R5: the server's input pump (stdin / tunnel -> stream buffer) delivers exactly what each read returned,
// skips only empty reads, and ends exactly on a read error.
func c03R5(c *Ctx) {
	f := c.fn("wrapTransferInput$1")
	var reads []*ssa.Call
	for _, ci := range callsIn(f, idIs("invoke io.Reader.Read")) {
		reads = append(reads, ci.(*ssa.Call))
	}
	adds := callsIn(f, idIs(tT+"addReceivedData"))
	if len(reads) != 1 || len(adds) != 1 {
		c.lost("the one Read and the one addReceivedData of the input pump")
	}
	rd := reads[0]
	n, rerr := extractOf(rd, 0), extractOf(rd, 1)
	add := adds[0]
	sl, isS := add.Common().Args[1].(*ssa.Slice)
	lowOK := isS && (sl.Low == nil || isConstIntV(0)(sl.Low))
	exact := isS && lowOK && sl.High != nil && sameValue(sl.High, n) && sameValue(sl.X, rd.Call.Args[0]) && domI(rd, add.(ssa.Instruction))
	c.check(exact, "wrapTransferInput/delivers-buf[:n]", c.ipos(add), "the chunk queued is exactly buffer[0:n] of the read just done", "the chunk queued is not exactly the bytes the read returned")
	edgeHas := func(op token.Token, v ssa.Value, rhs func(ssa.Value) bool) func(from, to *ssa.BasicBlock) bool {
		return func(from, to *ssa.BasicBlock) bool {
			return factCmp(edgeFactsTo(from, to), op, isValue(v), rhs)
		}
	}
	isAdd := func(in ssa.Instruction) bool { return in == add.(ssa.Instruction) }
	next := func(in ssa.Instruction) bool { return in == ssa.Instruction(rd) || isReturn(in) }
	hit, path := reachFromE(rd.Block(), instrIndex(rd)+1, next, isAdd, func(from, to *ssa.BasicBlock) bool {
		return edgeHas(token.LEQ, n, isConstIntV(0))(from, to) || edgeHas(token.EQL, n, isConstIntV(0))(from, to) || edgeHas(token.LSS, n, isConstIntV(1))(from, to)
	})
	c.check(hit == nil, "wrapTransferInput/no-read-dropped", c.ipos(rd), "a read that returned bytes (n > 0) always reaches the queueing call before the next read or the exit", "bytes returned by a read can be skipped (the next read or the exit is reachable with n > 0 without queueing them)", c.pathStr(path)...)
	hit, path = reachFromE(rd.Block(), instrIndex(rd)+1, isReturn, nil, edgeHas(token.NEQ, rerr, isNilConst))
	c.check(hit == nil, "wrapTransferInput/ends-only-on-error", c.ipos(rd), "the pump ends only on the edge where the read reported an error", "the pump can end although the read succeeded: the transfer stops receiving input", c.pathStr(path)...)
	hit, path = reachFromE(rd.Block(), instrIndex(rd)+1, func(in ssa.Instruction) bool { return in == ssa.Instruction(rd) }, nil, edgeHas(token.EQL, rerr, isNilConst))
	c.check(hit == nil, "wrapTransferInput/error-ends-pump", c.ipos(rd), "after a read error the pump does not read again", "the pump keeps reading after a read error (spins on a closed input)", c.pathStr(path)...)
}

// c03WinState: readLineOnWindows filters console noise with a small state machine (inside an escape sequence? which
// byte came before? may the next letter be a repeat?). An escape sequence can be cut by the transport anywhere, so
// the state must be carried from the end of one chunk to the start of the next. Structurally: every non-index
// variable of the per-byte loop enters that loop with a value that comes from the per-chunk loop's own variables —
// not with a constant set again for each chunk (helpers the reference tree does not have are expanded first, so a
// state struct or a filter function does not hide this).
func c03WinState(c *Ctx) {
	f := c.fn("trzszBuffer.readLineOnWindows")
	nb := callsIn(f, idIs("(*trzsz.trzszBuffer).nextBuffer"))
	if len(nb) == 0 {
		c.lost("nextBuffer call in readLineOnWindows")
	}
	nbi := nb[0].(ssa.Instruction)
	isHeader := func(b *ssa.BasicBlock) bool {
		for _, p := range b.Preds {
			if b.Dominates(p) {
				return true
			}
		}
		return false
	}
	n := 0
	for _, b := range f.Blocks {
		if !isHeader(b) || !nbi.Block().Dominates(b) || b == nbi.Block() {
			continue
		}
		for _, in := range b.Instrs {
			ph, ok := in.(*ssa.Phi)
			if !ok {
				break
			}
			if bt, isB := ph.Type().Underlying().(*types.Basic); isB && (bt.Kind() == types.Int || bt.Kind() == types.UntypedInt) {
				continue // the loop index
			}
			n++
			for i, e := range ph.Edges {
				if b.Dominates(b.Preds[i]) {
					continue // the back edge
				}
				_, isConst := e.(*ssa.Const)
				c.check(!isConst, fmt.Sprintf("readLineOnWindows/state-carried-across-chunks.%d", n), c.ipos(nbi), "the filter state ("+varNameOf(ph)+") enters the per-byte loop with the value the previous chunk left", "a variable of the line filter is set to a constant again for every chunk: an escape sequence or a cursor move cut between two chunks is no longer recognised, the line depends on the chunking")
			}
		}
	}
	if n < 4 {
		c.undecided("readLineOnWindows/state-carried-across-chunks", "the per-byte loop and its state variables were not found")
	}
}

func varNameOf(ph *ssa.Phi) string {
	if ph.Comment != "" {
		return ph.Comment
	}
	return ph.Name()
}
