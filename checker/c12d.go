package main

// C12-D — belief contradiction (Engler et al.): a value is dereferenced / invoked on an edge
// where the code itself has just established that it is nil. Added after the AST mutation
// campaign (negated nil guards survive the tests because quiet mode / nil files are not exercised).

import (
	"fmt"
	"go/token"
	"go/types"

	"trzszlint/xssa"
)

// derefOperand: the value whose nil-ness makes in panic (nil when in cannot panic that way).
func derefOperand(in ssa.Instruction) ssa.Value {
	switch x := in.(type) {
	case ssa.CallInstruction:
		if x.Common().IsInvoke() {
			return x.Common().Value
		}
		if _, isBuiltin := x.Common().Value.(*ssa.Builtin); !isBuiltin && x.Common().StaticCallee() == nil {
			if _, ok := x.Common().Value.Type().Underlying().(*types.Signature); ok {
				return x.Common().Value // call of a nil func value
			}
		}
		if callee := x.Common().StaticCallee(); callee != nil && callee.Signature.Recv() != nil && len(callee.Params) > 0 && len(callee.Blocks) > 0 {
			// a method that touches *receiver in its entry block panics on a nil receiver
			recv := callee.Params[0]
			if _, isPtr := recv.Type().Underlying().(*types.Pointer); isPtr {
				for _, y := range callee.Blocks[0].Instrs {
					switch z := y.(type) {
					case *ssa.FieldAddr:
						if z.X == ssa.Value(recv) {
							return x.Common().Args[0]
						}
					case *ssa.UnOp:
						if z.Op == token.MUL && z.X == ssa.Value(recv) {
							return x.Common().Args[0]
						}
					}
				}
			}
		}
	case *ssa.FieldAddr:
		return x.X
	case *ssa.UnOp:
		if x.Op == token.MUL {
			return x.X
		}
	case *ssa.Store:
		return x.Addr
	case *ssa.MapUpdate:
		return x.Map
	}
	return nil
}

// stableBetween: for a value that is a load from memory, nothing in the blocks guarded by the
// nil test can have changed that memory before the use (no store to the same address or field,
// and for fields no call at all). Registers are always stable.
func stableBetween(v ssa.Value, guard *ssa.If, use ssa.Instruction) bool {
	ld, ok := strip(v).(*ssa.UnOp)
	if !ok || ld.Op != token.MUL {
		return true
	}
	_, isField := ld.X.(*ssa.FieldAddr)
	_, isGlobal := ld.X.(*ssa.Global)
	fn := use.Parent()
	for _, b := range fn.Blocks {
		if !guard.Block().Dominates(b) || b == guard.Block() {
			continue
		}
		for _, in := range b.Instrs {
			if in == use {
				break
			}
			switch x := in.(type) {
			case *ssa.Store:
				if sameAddr(x.Addr, ld.X) {
					return false
				}
				if fa, ok := x.Addr.(*ssa.FieldAddr); ok && isField && fa.Field == ld.X.(*ssa.FieldAddr).Field {
					return false
				}
			case ssa.CallInstruction:
				if isField || isGlobal {
					return false
				}
			}
		}
	}
	return true
}

func c12NilContradiction(c *Ctx) {
	guarded := 0
	for _, f := range c.AllFns {
		if !c.inPkg(f) {
			continue
		}
		fname := c.fnName(f)
		n := 0
		eachInstr(f, func(in ssa.Instruction) {
			v := derefOperand(in)
			if v == nil {
				return
			}
			for _, fc := range factsAt(in.Block()) {
				// the zero value of a failed comma-ok type assertion (pointer / interface) is nil
				if ex, isEx := fc.V.(*ssa.Extract); isEx && ex.Index == 1 && !fc.Pol {
					if ta, isTA := ex.Tuple.(*ssa.TypeAssert); isTA && ta.CommaOk {
						if v0, isV0 := strip(v).(*ssa.Extract); isV0 && v0.Tuple == ssa.Value(ta) && v0.Index == 0 {
							switch v0.Type().Underlying().(type) {
							case *types.Pointer, *types.Interface:
								n++
								c.bad(fmt.Sprintf("%s/nil-use.%d", fname, n), c.ipos(in), "the result of the type assertion at "+c.ipos(fc.If)+" is used here on the edge where the assertion failed (it is nil there): panic whenever that edge is taken")
							}
						}
					}
					continue
				}
				op, x, y, ok := cmpFact(fc)
				if !ok || (op != token.EQL && op != token.NEQ) {
					continue
				}
				var tested ssa.Value
				if isNilConst(y) {
					tested = x
				} else if isNilConst(x) {
					tested = y
				} else {
					continue
				}
				if !sameValue(tested, v) {
					continue
				}
				if op == token.NEQ {
					guarded++
					continue
				}
				if !stableBetween(v, fc.If, in) {
					continue
				}
				n++
				c.bad(fmt.Sprintf("%s/nil-use.%d", fname, n), c.ipos(in), "the value is used here on the edge where the test at "+c.ipos(fc.If)+" found it nil: a nil dereference / nil interface call (panic) whenever that edge is taken")
			}
		})
	}
	c.sites += guarded
	c.check(guarded >= 60, "nil-guards/recognised", "", fmt.Sprintf("%d uses recognised as sitting on the non-nil edge of their own nil test; none sits on the nil edge", guarded),
		fmt.Sprintf("only %d nil-guarded uses recognised: the matcher no longer sees the guards it was confirmed on", guarded))
}

// c12Unescape: the decoder's output buffer. The decoder writes buf[idx] with idx running from 0 and leaves as soon as
// idx == len(buf); that is in bounds only if the buffer is non-empty whenever a byte is decoded: it is the caller's
// buffer on the len != 0 edge, or a fresh one as long as the input (the loop runs only while input is left).
func c12Unescape(c *Ctx) {
	f := c.fn("unescapeData")
	n := 0
	eachInstr(f, func(in ssa.Instruction) {
		st, ok := in.(*ssa.Store)
		if !ok {
			return
		}
		ia, ok := st.Addr.(*ssa.IndexAddr)
		if !ok {
			return
		}
		if _, isSlice := ia.X.Type().Underlying().(*types.Slice); !isSlice {
			return // argument arrays of calls
		}
		n++
		good := true
		for _, l := range origins(ia.X, originOpts{}) {
			switch x := l.V.(type) {
			case *ssa.MakeSlice:
				lc, _ := callOf(x.Len)
				if lc == nil || calleeID(&lc.Call) != "builtin len" || !isVar("data")(lc.Call.Args[0]) {
					good = false
				}
			default:
				nonEmpty := false
				for _, fc := range l.facts() {
					op, xx, y, ok := cmpFact(fc)
					if lc, _ := callOf(xx); ok && (op == token.NEQ || op == token.GTR) && isConstIntV(0)(y) && lc != nil && calleeID(&lc.Call) == "builtin len" && sameValue(lc.Call.Args[0], l.V) {
						nonEmpty = true
					}
				}
				if !nonEmpty {
					good = false
				}
			}
		}
		// and the write position is the running count that triggers the return at len(buf)
		c.check(good, fmt.Sprintf("unescapeData/out-buffer-nonempty.%d", n), c.ipos(st), "the buffer written is the caller's non-empty buffer or a fresh one as long as the input", "the decoder can write into an empty output buffer (index out of range on the first decoded byte)")
	})
	if n == 0 {
		c.undecided("unescapeData/out-buffer-nonempty", "no indexed store found in the decoder")
	}
	// leaves when full: a return on the idx == len(buf) edge
	full := false
	eachInstr(f, func(in ssa.Instruction) {
		if !isNilErrReturn(in) {
			return
		}
		for _, fc := range factsAt(in.Block()) {
			op, x, y, ok := cmpFact(fc)
			for _, side := range []ssa.Value{x, y} {
				if lc, _ := callOf(side); ok && op == token.EQL && lc != nil && calleeID(&lc.Call) == "builtin len" {
					full = true
				}
			}
		}
	})
	// universal form: between two writes into the output buffer the "is it full" test was passed on its not-full edge
	{
		isOutStore := func(in ssa.Instruction) bool {
			st, ok := in.(*ssa.Store)
			if !ok {
				return false
			}
			ia, ok := st.Addr.(*ssa.IndexAddr)
			if !ok {
				return false
			}
			_, isSlice := ia.X.Type().Underlying().(*types.Slice)
			return isSlice
		}
		var base ssa.Value
		notFull := func(from, to *ssa.BasicBlock) bool {
			for _, fc := range edgeFactsTo(from, to) {
				op, x, y, ok := cmpFact(fc)
				if !ok || (op != token.NEQ && op != token.LSS) {
					continue
				}
				for _, side := range []ssa.Value{x, y} {
					if lc, _ := callOf(side); lc != nil && calleeID(&lc.Call) == "builtin len" && sameValue(lc.Call.Args[0], base) {
						return true
					}
				}
			}
			return false
		}
		nW := 0
		eachInstr(f, func(in ssa.Instruction) {
			if !isOutStore(in) {
				return
			}
			nW++
			base = in.(*ssa.Store).Addr.(*ssa.IndexAddr).X
			// search from the store, but do not cross a not-full edge: a second store reached that way was not preceded by the test
			hit, path := reachFromE(in.Block(), instrIndex(in)+1, isOutStore, nil, notFull)
			c.check(hit == nil, fmt.Sprintf("unescapeData/full-test-between-writes.%d", nW), c.ipos(in), "after each write the decoder checks whether the output buffer is full before it writes again", "the decoder can write twice into the output buffer without testing whether it is full in between (index out of range in a stage that has no recover)", c.pathStr(path)...)
		})
	}
	c.check(full, "unescapeData/returns-when-full", c.pos(f.Pos()), "the decoder returns as soon as the output buffer is full", "the decoder does not stop when the output buffer is full (index out of range)")
}

// c12NilableResults: a function of this package that can return nil for a pointer / interface result WITHOUT reporting
// an error (nil is a normal outcome: "no listener", "no session detected") obliges its callers: the result is
// dereferenced / invoked only on the non-nil edge of a test. The same holds for the result of a tunnel connector
// (a caller-supplied func(int) net.Conn that returns nil when it cannot connect).
func c12NilableResults(c *Ctx) {
	nilable := map[*ssa.Function][]int{}
	for _, f := range c.AllFns {
		if !c.inPkg(f) {
			continue
		}
		res := f.Signature.Results()
		ei := errIndex(f.Signature)
		for i := 0; i < res.Len(); i++ {
			if i == ei {
				continue
			}
			switch res.At(i).Type().Underlying().(type) {
			case *types.Pointer, *types.Interface:
			default:
				continue
			}
			can := false
			eachInstr(f, func(in ssa.Instruction) {
				r, ok := in.(*ssa.Return)
				if !ok || i >= len(r.Results) {
					return
				}
				if isNilConst(retVal(r, i)) && (ei < 0 || isNilConst(retVal(r, ei))) {
					can = true
				}
			})
			if can {
				nilable[f] = append(nilable[f], i)
			}
		}
	}
	nSites, nUses := 0, 0
	checkUses := func(fname string, v ssa.Value, what string) {
		for _, r := range referrersOf(v) {
			if derefOperand(r) != v {
				continue
			}
			nUses++
			_, nonNil := factNil(factsAt(r.Block()), v)
			key := fmt.Sprintf("%s/%s.used-unchecked", fname, what)
			if nonNil {
				c.ok(fname+"/"+what+".checked", c.ipos(r), "the possibly-nil result is used on the non-nil edge of its test")
			} else {
				c.bad(key, c.ipos(r), "a result that can be nil without an error ("+what+") is dereferenced / invoked without a nil test")
			}
		}
	}
	for _, f := range c.AllFns {
		if !c.inPkg(f) {
			continue
		}
		fname := c.fnName(f)
		eachInstr(f, func(in ssa.Instruction) {
			call, ok := in.(*ssa.Call)
			if !ok {
				return
			}
			if callee := call.Call.StaticCallee(); callee != nil {
				for _, i := range nilable[callee] {
					nSites++
					var v ssa.Value = call
					if callee.Signature.Results().Len() > 1 {
						v = extractOf(call, i)
					}
					if v != nil {
						checkUses(fname, v, "result of "+c.fnName(callee))
					}
				}
				return
			}
			// a tunnel connector: func(int) net.Conn held in a variable / field
			if sig, ok := call.Call.Value.Type().Underlying().(*types.Signature); ok && !call.Call.IsInvoke() && sig.Params().Len() == 1 && sig.Results().Len() == 1 && sig.Results().At(0).Type().String() == "net.Conn" {
				nSites++
				checkUses(fname, call, "connector result")
			}
		})
	}
	c.sites += nSites
	c.check(nSites >= 5 && nUses >= 3, "nilable-results/sites", "", fmt.Sprintf("%d call sites of functions that may return nil without error, %d direct uses, all on the non-nil edge", nSites, nUses), fmt.Sprintf("only %d call sites / %d uses of nil-able results found", nSites, nUses))
}

// c12NilAfterCall: a pointer field that a function of this package may set to nil is not dereferenced after a call to that
// function without a new nil test or a new assignment. (A helper extracted from a loop body keeps its "give up and drop
// the buffer" exit; the caller goes on to use the buffer.)
func c12NilAfterCall(c *Ctx) {
	type fkey struct {
		st  string
		idx int
	}
	fieldKey := func(fa *ssa.FieldAddr) fkey {
		pt, _ := fa.X.Type().Underlying().(*types.Pointer)
		if pt == nil {
			return fkey{}
		}
		return fkey{pt.Elem().String(), fa.Field}
	}
	// direct nil stores per function
	direct := map[*ssa.Function]map[fkey]bool{}
	for _, f := range c.AllFns {
		eachInstr(f, func(in ssa.Instruction) {
			st, ok := in.(*ssa.Store)
			if !ok || !isNilConst(st.Val) {
				return
			}
			fa, ok := st.Addr.(*ssa.FieldAddr)
			if !ok {
				return
			}
			if _, isPtr := st.Val.Type().Underlying().(*types.Pointer); !isPtr {
				return
			}
			if direct[f] == nil {
				direct[f] = map[fkey]bool{}
			}
			direct[f][fieldKey(fa)] = true
		})
	}
	var mayNil func(f *ssa.Function, k fkey, depth int, seen map[*ssa.Function]bool) bool
	mayNil = func(f *ssa.Function, k fkey, depth int, seen map[*ssa.Function]bool) bool {
		if f == nil || depth > 2 || seen[f] {
			return false
		}
		seen[f] = true
		if direct[f][k] {
			return true
		}
		found := false
		eachInstr(f, func(in ssa.Instruction) {
			if ci, ok := in.(ssa.CallInstruction); ok && !found {
				if callee := ci.Common().StaticCallee(); callee != nil && c.inPkg(callee) && mayNil(callee, k, depth+1, seen) {
					found = true
				}
			}
		})
		return found
	}
	nCalls, nBad := 0, 0
	for _, f := range c.AllFns {
		if !c.inPkg(f) {
			continue
		}
		fname := c.fnName(f)
		// dereferencing uses of pointer fields in f: a load of the field used as receiver of a method that needs it non-nil,
		// or as base of a field access
		type use struct {
			in ssa.Instruction
			fa *ssa.FieldAddr
		}
		var uses []use
		eachInstr(f, func(in ssa.Instruction) {
			v := derefOperand(in)
			if ci, ok := in.(ssa.CallInstruction); ok && v == nil && !ci.Common().IsInvoke() && len(ci.Common().Args) > 0 {
				if callee := ci.Common().StaticCallee(); callee != nil && callee.Signature.Recv() != nil && !c.inPkg(callee) {
					if _, isPtr := ci.Common().Args[0].Type().Underlying().(*types.Pointer); isPtr {
						v = ci.Common().Args[0] // a library method on a pointer receiver (e.g. (*bytes.Buffer).Bytes)
					}
				}
			}
			if v == nil {
				return
			}
			ld, ok := v.(*ssa.UnOp)
			if !ok || ld.Op != token.MUL {
				return
			}
			if fa, ok := ld.X.(*ssa.FieldAddr); ok {
				if _, isPtr := ld.Type().Underlying().(*types.Pointer); isPtr {
					uses = append(uses, use{in, fa})
				}
			}
		})
		if len(uses) == 0 {
			continue
		}
		eachInstr(f, func(in ssa.Instruction) {
			call, ok := in.(*ssa.Call)
			if !ok {
				return
			}
			callee := call.Call.StaticCallee()
			if callee == nil || !c.inPkg(callee) {
				return
			}
			for _, u := range uses {
				k := fieldKey(u.fa)
				if !mayNil(callee, k, 0, map[*ssa.Function]bool{}) {
					continue
				}
				nCalls++
				// from the call, can the use be reached without a new non-nil store to the field or a nil test of it?
				hit, path := reachFromE(call.Block(), instrIndex(call)+1, func(x ssa.Instruction) bool { return x == u.in }, func(x ssa.Instruction) bool {
					st, ok := x.(*ssa.Store)
					if !ok {
						return false
					}
					fa2, ok := st.Addr.(*ssa.FieldAddr)
					return ok && fieldKey(fa2) == k && !isNilConst(st.Val)
				}, func(from, to *ssa.BasicBlock) bool {
					for _, fc := range edgeFactsTo(from, to) {
						op, x, y, okc := cmpFact(fc)
						if !okc || op != token.NEQ || !isNilConst(y) {
							continue
						}
						if ld, isLd := x.(*ssa.UnOp); isLd && ld.Op == token.MUL {
							if fa2, isFA := ld.X.(*ssa.FieldAddr); isFA && fieldKey(fa2) == k {
								return true
							}
						}
					}
					return false
				})
				if hit != nil {
					nBad++
					c.bad(fmt.Sprintf("%s/nil-after-call.%d", fname, nBad), c.ipos(u.in), "this pointer field can be set to nil by the call at "+c.ipos(call)+" ("+c.fnName(callee)+") and is dereferenced afterwards without a nil test or a new assignment", c.pathStr(path)...)
				}
			}
		})
	}
	c.sites += nCalls
	if nBad == 0 {
		c.ok("nil-after-call/sites", "", fmt.Sprintf("%d (call, later use) pairs where the callee may clear the pointer field: each use is behind a new test or assignment", nCalls))
	}
}

// c12WriterSpace: the encoder's chunk writer slices its input with the free space of its staging buffer
// (`p[0:space]`). That bound is non-negative because it is computed from the buffer itself (Cap() - Len() of one
// buffer); computed from anything that another goroutine can lower (the shared chunk size, which the ack stage
// shrinks when the peer answers slowly) it can go negative, and the slice expression panics in a stage goroutine that
// has no recover — on input the peer controls only through the timing of well-formed acks.
func c12WriterSpace(c *Ctx) {
	f := c.fn("sendDataWriter.Write")
	n := 0
	eachInstr(f, func(in ssa.Instruction) {
		sl, ok := in.(*ssa.Slice)
		if !ok || !isVar("p")(sl.X) && func() bool { _, isPhi := strip(sl.X).(*ssa.Phi); return !isPhi }() {
			return
		}
		for _, bound := range []ssa.Value{sl.Low, sl.High} {
			if bound == nil {
				continue
			}
			if _, isC := constInt(bound); isC {
				continue
			}
			n++
			good := true
			why := ""
			for _, l := range origins(bound, originOpts{}) {
				v := strip(l.V)
				// a count returned by the buffer's own Write (0 <= n <= len(p[0:space]))
				if call, idx := callOf(v); call != nil && idx <= 0 && calleeID(&call.Call) == "(*bytes.Buffer).Write" {
					continue
				}
				b, isB := v.(*ssa.BinOp)
				if isB && b.Op == token.SUB {
					cx, _ := callOf(b.X)
					cy, _ := callOf(b.Y)
					if cx != nil && cy != nil && calleeID(&cx.Call) == "(*bytes.Buffer).Cap" && calleeID(&cy.Call) == "(*bytes.Buffer).Len" && sameValue(cx.Call.Args[0], cy.Call.Args[0]) {
						continue
					}
				}
				fs := append(append([]fact{}, factsAt(in.Block())...), l.facts()...)
				if factCmp(fs, token.GEQ, isValue(v), func(k ssa.Value) bool { z, ok := constInt(k); return ok && z >= 0 }) || factCmp(fs, token.GTR, isValue(v), func(k ssa.Value) bool { z, ok := constInt(k); return ok && z >= 0 }) {
					continue
				}
				good, why = false, v.String()
			}
			c.check(good, "sendDataWriter.Write/slice-bound-non-negative", c.ipos(in), "the bound is the buffer's own free space (Cap - Len), a count it returned, or guarded >= 0", "a slice bound of the chunk writer ("+why+") is not the buffer's own free space and is not guarded: it can be negative when the shared chunk size was lowered meanwhile, and the slice expression panics in a goroutine without recover")
		}
	})
	if n == 0 {
		c.undecided("sendDataWriter.Write/slice-bounds", "no variable slice bound found in the chunk writer")
	}
}
