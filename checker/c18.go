package main

// C18 — pause / resume: keep-alive gating and resume ordering.

import (
	"go/token"
	"sort"
	"strings"

	"trzszlint/xssa"
)

func init() {
	register("C18", 20, "Decided (for every path of the current source): (R1) each site that writes file data or acks passes the stop-and-pause gate first in the same iteration and returns its error; inside the gate's pause loop the only write is the keep-alive '#TYPE:=' line and the loop ends only when the pause flag clears or stop is set; (R2) the reader skips a payload equal to '=' and reads again, gate and skip sit under the same protocol>=3 predicate; both readers of acks go through the pause-aware line reader; (R3) the pause generation is sampled before the read, a timeout with an advanced generation retries, resume installs a fresh timer before clearing the pause flag and the buffer wait swaps it in; (R4) the pause flag is set only by the pause entry point and cleared only by resume, the generation is bumped only when a pause begins; (R5) the buffer-size statistics are suspended after a pause (no Done/size change skipped while the encoder waits). Not decided: all timing clauses (pause shorter/longer than the timeout), every pause instant.",
		func(c *Ctx) {
			c.run("C18-R1", "MUST-PASS: no payload while paused; keep-alives only", c18R1)
			c.run("C18-R2", "GUARD-DOM/SIBLING: the other side tolerates keep-alives", c18R2)
			c.run("C18-R3", "ORDER: a read that straddles a pause is retried; resume re-arms before un-pausing", c18R3)
			c.run("C18-R4", "WHO-WRITES: pause flag and generation", c18R4)
			c.run("C18-R6", "WHO-CALLS: the timeout sentinel travels up the read chain unwrapped", c18Sentinel)
			c.run("C18-R5", "GUARD-DOM: statistics suspended after a pause never skip releasing the probing encoder", c18R5)
			c.run("C18-S1", "shared with C11-R10: between two acks the probing encoder is released or the probing is seen to be over (also for acks read across a pause)", c11BufInit)
			c.run("C18-S2", "shared with C11-R2: a timer installed on resume is used once (a read continued after a pause still ends when the peer stays silent)", c11R2)
		})
}

func isGate(in ssa.Instruction) bool {
	ci, ok := in.(ssa.CallInstruction)
	return ok && calleeID(ci.Common()) == tT+"checkStopAndPause"
}

func c18R1(c *Ctx) {
	isWrite := func(in ssa.Instruction) bool {
		ci, ok := in.(ssa.CallInstruction)
		return ok && idIs(tT+"writeAll", tT+"sendInteger", tT+"sendLine", tT+"sendBinary", tT+"sendString")(calleeID(ci.Common()))
	}
	// data writer
	f := c.fn("trzszTransfer.sendDataV2")
	hit, path := reachFrom(f.Blocks[0], 0, isWrite, isGate)
	c.check(hit == nil, "sendDataV2/gate-first", c.pos(f.Pos()), "file data is written only after passing the stop/pause gate", "file data can be written without passing the pause gate", c.pathStr(path)...)
	for _, ci := range callsIn(f, idIs(tT+"checkStopAndPause")) {
		typ, _ := constString(ci.Common().Args[1])
		c.check(typ == "DATA", "sendDataV2/keepalive-type", c.ipos(ci), "keep-alives of the data writer use the DATA type", "data writer's keep-alive type is not DATA")
	}
	// ack writer
	sa := c.fn("trzszTransfer.pipelineSendAck$1")
	hit, path = reachFrom(sa.Blocks[0], 0, isWrite, isGate)
	c.check(hit == nil, "pipelineSendAck/gate-first", c.pos(sa.Pos()), "no ack is written before the gate", "an ack can be written without passing the pause gate", c.pathStr(path)...)
	n := 0
	eachInstr(sa, func(in ssa.Instruction) {
		if !isWrite(in) {
			return
		}
		n++
		hit, path := reachAvoid(in, isWrite, isGate)
		c.check(hit == nil, "pipelineSendAck/gate-each-ack", c.ipos(in), "the gate is passed again before the next ack", "two acks can be written with no pause gate in between", c.pathStr(path)...)
	})
	if n < 2 {
		c.undecided("pipelineSendAck/acks", "expected per-chunk and final ack writes")
	}
	for _, ci := range callsIn(sa, idIs(tT+"checkStopAndPause")) {
		typ, _ := constString(ci.Common().Args[1])
		c.check(typ == "SUCC", "pipelineSendAck/keepalive-type", c.ipos(ci), "keep-alives of the ack writer use the SUCC type", "ack writer's keep-alive type is not SUCC")
		call, ok := ci.(*ssa.Call)
		if ok {
			u := classifyErrUse(call)
			good := !u.dropped
			for _, t := range u.tests {
				if okE, _ := failEdge(c, t.Block(), nonNilEdge(t)); !okE {
					good = false
				}
			}
			c.check(good, "pipelineSendAck/gate-error", c.ipos(ci), "the gate's error ends the ack stage with a cancel", "the gate's error is ignored")
		}
	}
	// other callers of the payload writers: every writer of DATA/acks in protocol >= 2 goes through the gate
	g := c.fn("trzszTransfer.checkStopAndPause")
	// inside the pause loop only the keep-alive is written
	nW := 0
	eachInstr(g, func(in ssa.Instruction) {
		ci, ok := in.(ssa.CallInstruction)
		if !ok || !isWrite(in) {
			return
		}
		nW++
		good := false
		if calleeID(ci.Common()) == tT+"writeAll" {
			for _, l := range origins(ci.Common().Args[1], originOpts{}) {
				if call, _ := callOf(l.V); call != nil && calleeID(&call.Call) == "fmt.Sprintf" {
					if fm, ok := constString(call.Call.Args[0]); ok && strings.HasPrefix(fm, "#%s:=") {
						good = true
					}
				}
			}
		}
		c.check(good, "checkStopAndPause/keepalive-only", c.ipos(in), "while paused only the '#TYPE:=' keep-alive is written", "something other than the keep-alive line is written while paused")
	})
	c.check(nW == 1, "checkStopAndPause/one-write", c.pos(g.Pos()), "the pause loop writes exactly one kind of line", "the pause loop's writes changed")
	// loop exit: pausing false, or error return
	var load ssa.Instruction
	for _, ci := range callsIn(g, anyID) {
		if isAtomicOnField(ci, "pausing", "Load") {
			load = ci.(ssa.Instruction)
		}
	}
	if load == nil {
		c.bad("checkStopAndPause/pause-flag", c.pos(g.Pos()), "the gate no longer looks at the pause flag")
		return
	}
	// while the pause flag reads true (protocol >= 3) the gate never lets its caller through: every exit reachable under
	// that assumption carries an error
	{
		isPausing := func(v ssa.Value) bool {
			call, _ := callOf(v)
			return call != nil && isAtomicOnField(call, "pausing", "Load")
		}
		reach := blocksUnder(g, []assumption{valueIs(isFieldLoad("Protocol"), c.constVal("kProtocolVersion3")), {pred: isPausing, val: true}})
		eachInstr(g, func(in ssa.Instruction) {
			if !isReturn(in) || !reach[in.Block()] {
				return
			}
			c.check(!c.maySucceed(in), "checkStopAndPause/no-pass-while-paused", c.ipos(in), "while paused the gate is left only with an error", "the gate can let its caller write although the pause flag is still set (data is written during a pause)")
		})
		// and below protocol 3, or with the flag clear, it is the plain stop check
		reach = blocksUnder(g, []assumption{{pred: isPausing, val: false}})
		nPass := 0
		eachInstr(g, func(in ssa.Instruction) {
			r, ok := in.(*ssa.Return)
			if !ok || !reach[in.Block()] {
				return
			}
			if call, _ := callOf(retVal(r, 0)); call != nil && calleeID(&call.Call) == tT+"checkStop" {
				nPass++
			}
		})
		c.check(nPass > 0, "checkStopAndPause/ends-with-stop-check", c.pos(g.Pos()), "when not paused the gate's answer is the stop check's", "the gate no longer ends with the stop check")
	}
	// direct structural statement: the loop's continuation condition is the pause flag
	cont := false
	for _, r := range referrersOf(load.(ssa.Value)) {
		if i, ok := r.(*ssa.If); ok {
			// true edge = loop body (contains the sleep)
			h, _ := reachFrom(i.Block().Succs[0], 0, func(x ssa.Instruction) bool {
				ci, ok := x.(ssa.CallInstruction)
				return ok && calleeID(ci.Common()) == "time.Sleep"
			}, nil)
			cont = h != nil
		}
	}
	c.check(cont, "checkStopAndPause/loop-on-pause-flag", c.ipos(load), "the keep-alive loop runs exactly while the pause flag is set", "the keep-alive loop is not controlled by the pause flag")
}

func c18R2(c *Ctx) {
	v3 := c.constVal("kProtocolVersion3")
	isProto3 := func(fs []fact) bool {
		return factCmp(fs, token.GEQ, isFieldLoad("Protocol"), isConstIntV(v3))
	}
	g := c.fn("trzszTransfer.checkStopAndPause")
	for _, ci := range callsIn(g, idIs("time.Sleep")) {
		c.check(isProto3(factsAt(ci.Block())), "checkStopAndPause/proto>=3", c.ipos(ci), "keep-alives are sent only under protocol >= 3", "keep-alives are sent to peers that do not understand them (protocol < 3)")
	}
	f := c.fn("trzszTransfer.recvCheckV2")
	// the '=' skip
	found := false
	for _, b := range f.Blocks {
		i := blockIf(b)
		if i == nil {
			continue
		}
		op, _, y, ok := cmpFact(normFact(fact{V: i.Cond, Pol: true}))
		wholeString := false
		if ok && op == token.EQL {
			if sv, isS := constString(strip(y)); isS && sv == "=" {
				wholeString = true // string(buf) == "=": length and byte in one comparison
			}
		}
		if !ok || op != token.EQL || !(isConstIntV('=')(y) || wholeString) {
			continue
		}
		found = true
		fs := factsAt(b)
		one := wholeString || factCmp(fs, token.EQL, func(v ssa.Value) bool { lc, _ := callOf(v); return lc != nil && calleeID(&lc.Call) == "builtin len" }, isConstIntV(1))
		c.check(one && isProto3(fs), "recvCheckV2/skip-keepalive.guard", c.ipos(i), "a payload of exactly '=' is recognised under protocol >= 3", "keep-alive recognition is not len==1 && '=' under protocol >= 3")
		// the true edge reads again (reaches recvLine without returning)
		hit, _ := reachFrom(b.Succs[0], 0, func(x ssa.Instruction) bool {
			ci, ok := x.(ssa.CallInstruction)
			return ok && calleeID(ci.Common()) == tT+"recvLine"
		}, isReturn)
		c.check(hit != nil, "recvCheckV2/skip-keepalive.reread", c.ipos(i), "after a keep-alive the reader reads again", "a keep-alive line is returned to the caller as payload")
	}
	if !found {
		c.bad("recvCheckV2/skip-keepalive", c.pos(f.Pos()), "the pause-aware reader no longer skips '=' keep-alive lines")
	}
	{
		// universal form: under {protocol >= 3, the payload is exactly one byte, that byte is '='} no successful return is
		// reachable — whatever else the guard mentions (a keep-alive is never handed to the caller as data)
		v3c := c.constVal("kProtocolVersion3")
		lenIs1 := assumption{val: true, cmp: func(op token.Token, x, y ssa.Value) (bool, bool) {
			lc, _ := callOf(x)
			if (op != token.EQL && op != token.NEQ) || lc == nil || calleeID(&lc.Call) != "builtin len" || !isConstIntV(1)(y) {
				return false, false
			}
			return true, op == token.EQL
		}}
		isEq := assumption{val: true, cmp: func(op token.Token, x, y ssa.Value) (bool, bool) {
			if op != token.EQL && op != token.NEQ {
				return false, false
			}
			if sv, isS := constString(strip(y)); isS && sv == "=" {
				return true, op == token.EQL // string(payload) == "="
			}
			if !isConstIntV('=')(y) {
				return false, false
			}
			return true, op == token.EQL
		}}
		reach := blocksUnder(f, []assumption{valueIs(isFieldLoad("Protocol"), v3c), lenIs1, isEq})
		// only returns after the line was read count (the early error returns of the pause wait are not "payload")
		var rl ssa.Instruction
		for _, ci := range callsIn(f, idIs(tT+"recvLine")) {
			rl = ci.(ssa.Instruction)
		}
		if rl != nil {
			eachInstr(f, func(in ssa.Instruction) {
				if !isReturn(in) || !reach[in.Block()] || !c.maySucceed(in) || !domI(rl, in) {
					return
				}
				c.bad("recvCheckV2/keepalive-never-returned", c.ipos(in), "a line whose payload is exactly '=' can be returned to the caller as data under protocol >= 3 (an extra condition next to the keep-alive test lets it through)")
			})
			c.ok("recvCheckV2/keepalive-never-returned.checked", c.pos(f.Pos()), "under protocol >= 3 a '=' payload never reaches a successful return")
		}
	}
	// every reader of DATA / SUCC lines in protocol >= 2 uses the pause-aware reader
	for _, name := range []string{"trzszTransfer.pipelineRecvCurrentAck", "trzszTransfer.pipelineRecvFinalAck", "trzszTransfer.pipelineRecvBase64Data", "trzszTransfer.pipelineRecvBinaryData"} {
		h := c.fn(name)
		uses := len(callsIn(h, idIs(tT+"recvCheckV2"))) > 0
		other := len(callsIn(h, idIs(tT+"recvCheck", tT+"recvInteger", tT+"recvString", tT+"recvBinary", tT+"recvLine"))) > 0
		c.check(uses && !other, name+"/pause-aware-reader", c.pos(h.Pos()), "lines that can be replaced by keep-alives are read with the pause-aware reader", "a stage reads DATA/SUCC lines with a reader that does not understand keep-alives")
	}
}

func c18R3(c *Ctx) {
	f := c.fn("trzszTransfer.recvCheckV2")
	var sample, read ssa.Instruction
	for _, ci := range callsIn(f, anyID) {
		if isAtomicOnField(ci, "pauseIdx", "Load") && sample == nil {
			sample = ci.(ssa.Instruction)
		}
		if calleeID(ci.Common()) == tT+"recvLine" {
			read = ci.(ssa.Instruction)
		}
	}
	if sample == nil || read == nil {
		c.lost("pauseIdx sample / recvLine in recvCheckV2")
	}
	// every path from the loop entry to the read passes the sample (under protocol >= 3)
	v3 := c.constVal("kProtocolVersion3")
	notV3 := func(from, to *ssa.BasicBlock) bool {
		i := blockIf(from)
		if i == nil {
			return false
		}
		nf := normFact(fact{V: i.Cond, Pol: true})
		op, x, y, ok := cmpFact(nf)
		if !ok || !isFieldLoad("Protocol")(x) || !isConstIntV(v3)(y) {
			return false
		}
		// bar the edge on which Protocol < 3
		if op == token.GEQ {
			return to == from.Succs[1]
		}
		if op == token.LSS {
			return to == from.Succs[0]
		}
		return false
	}
	again, path := reachFromE(read.Block(), instrIndex(read)+1, func(x ssa.Instruction) bool { return x == read }, func(x ssa.Instruction) bool { return x == sample }, notV3)
	first, path2 := reachFromE(f.Blocks[0], 0, func(x ssa.Instruction) bool { return x == read }, func(x ssa.Instruction) bool { return x == sample }, notV3)
	c.check(again == nil && first == nil, "recvCheckV2/sample-before-read", c.ipos(sample), "under protocol >= 3 the pause generation is sampled before every read", "a read can start without a fresh sample of the pause generation", append(c.pathStr(path), c.pathStr(path2)...)...)
	// retry on timeout with advanced generation
	retry := false
	for _, b := range f.Blocks {
		i := blockIf(b)
		if i == nil {
			continue
		}
		op, x, y, ok := cmpFact(normFact(fact{V: i.Cond, Pol: true}))
		if !ok || op != token.LSS {
			continue
		}
		cy, _ := callOf(y)
		if cy == nil || !isAtomicOnField(cy, "pauseIdx", "Load") {
			continue
		}
		_ = x
		// guarded by err == errReceiveDataTimeout
		tmo := factCmp(factsAt(b), token.EQL, anyValue, func(v ssa.Value) bool {
			u, ok := strip(v).(*ssa.UnOp)
			if !ok {
				return false
			}
			g, ok := u.X.(*ssa.Global)
			return ok && g.Name() == "errReceiveDataTimeout"
		})
		hit, _ := reachFrom(b.Succs[0], 0, func(x ssa.Instruction) bool { return x == read }, isReturn)
		if tmo && hit != nil {
			retry = true
		}
	}
	c.check(retry, "recvCheckV2/retry-after-pause", c.ipos(read), "a timeout whose read straddled a pause is retried", "a read that timed out across a pause fails the transfer")
	// resume: new timer installed before the pause flag clears
	r := c.fn("trzszTransfer.resumeTransferringFiles")
	var set, clear ssa.Instruction
	for _, ci := range callsIn(r, anyID) {
		if calleeID(ci.Common()) == "(*trzsz.trzszBuffer).setNewTimeout" {
			set = ci.(ssa.Instruction)
		}
		if isAtomicOnField(ci, "pausing", "Store") {
			clear = ci.(ssa.Instruction)
		}
	}
	c.check(set != nil && clear != nil && domI(set, clear), "resume/timer-before-unpause", c.pos(r.Pos()), "resume hands the buffer a fresh timer before clearing the pause flag", "the pause flag is cleared before a fresh timer is installed")
	if set != nil {
		call, _ := callOf(set.(ssa.CallInstruction).Common().Args[1])
		c.check(call != nil && calleeID(&call.Call) == tT+"getNewTimeout", "resume/fresh-timer", c.ipos(set), "the fresh timer comes from getNewTimeout", "resume installs something that is not a fresh timer")
	}
	// the buffer adopts the replacement only when the running timeout fires (nextBuffer): resume must leave that timer running
	var stops []string
	reachR := c.reachableNarrow(r)
	for _, g := range c.AllFns {
		if !reachR[g] || g.Blocks == nil {
			continue
		}
		for _, ci := range callsIn(g, idIs("(*time.Timer).Stop", "(*time.Timer).Reset")) {
			stops = append(stops, c.fnName(g)+" at "+c.ipos(ci.(ssa.Instruction)))
		}
	}
	sort.Strings(stops)
	c.check(len(stops) == 0, "resume/running-timeout-kept", c.pos(r.Pos()), "resume stops or re-arms no timer: the read in flight keeps the timeout whose expiry makes the buffer adopt the replacement", "resume stops or re-arms a timer ("+strings.Join(stops, "; ")+"): the buffer adopts the replacement timeout only when the running one fires, so the read in flight is left without any timeout")
	c.check(hasStore(r, "resumeBeginTime") && hasStoreConst(r, "pauseBeginTime", 0), "resume/bookkeeping", c.pos(r.Pos()), "resume records its time and clears the pause start", "resume no longer resets the pause bookkeeping")
}

func hasStore(f *ssa.Function, field string) bool {
	for _, ci := range callsIn(f, anyID) {
		if isAtomicOnField(ci, field, "Store") {
			return true
		}
	}
	return false
}

func hasStoreConst(f *ssa.Function, field string, v int64) bool {
	for _, ci := range callsIn(f, anyID) {
		if isAtomicOnField(ci, field, "Store") && isConstIntV(v)(ci.Common().Args[1]) {
			return true
		}
	}
	return false
}

func c18R4(c *Ctx) {
	for _, f := range c.AllFns {
		fname := c.fnName(f)
		for _, ci := range callsIn(f, anyID) {
			if isAtomicOnField(ci, "pausing", "Store", "CompareAndSwap", "Swap") {
				if n, _ := fieldAddrName(ci.Common().Args[0]); n != "trzszTransfer.pausing" {
					continue
				}
				b, isC := constBool(ci.Common().Args[1])
				want := map[bool]string{true: "trzszTransfer.pauseTransferringFiles", false: "trzszTransfer.resumeTransferringFiles"}
				c.check(isC && want[b] == fname, "pausing/"+fname, c.ipos(ci), "pause flag written by its designated entry point", "the pause flag is written outside pause/resume")
			}
			if isAtomicOnField(ci, "pauseIdx", "Add", "Store", "Swap", "CompareAndSwap") {
				c.check(fname == "trzszTransfer.pauseTransferringFiles", "pauseIdx/"+fname, c.ipos(ci), "the generation is bumped only when a pause begins", "the pause generation is changed outside the pause entry point")
			}
		}
	}
}

func c18R5(c *Ctx) {
	f := c.fn("trzszTransfer.pipelineRecvAck$1")
	// every Done() of the probing wait group is reachable on the path taken while bufInitPhase is set,
	// regardless of the pause flag: the statistics branch is entered when ignore<=0 || bufInitPhase
	const release = "(*trzsz.trzszTransfer).ackBufInit"
	dones := callsIn(f, idIs(release))
	if len(dones) == 0 {
		c.lost("release of the probing encoder (ackBufInit) in pipelineRecvAck")
	}
	// the release itself: a non-blocking send on the one-slot hand-shake channel
	rel := c.fn("trzszTransfer.ackBufInit")
	nb := false
	eachInstr(rel, func(in ssa.Instruction) {
		if sel, ok := in.(*ssa.Select); ok && !sel.Blocking {
			for _, st := range sel.States {
				if st.Send != nil && chanName(st.Chan) == "bufInitChan" {
					nb = true
				}
			}
		}
	})
	c.check(nb, "ackBufInit/non-blocking-send", c.pos(rel.Pos()), "the release is a non-blocking send on the hand-shake channel", "the release of the probing encoder can block the ack stage (or no longer signals)")
	// the waiting side: a select with the hand-shake channel and a cancellation arm
	w := c.fn("sendDataWriter.Write")
	waits := false
	eachInstr(w, func(in ssa.Instruction) {
		if sel, ok := in.(*ssa.Select); ok && sel.Blocking {
			hs, done := false, false
			for _, st := range sel.States {
				if st.Send == nil && chanName(st.Chan) == "bufInitChan" {
					hs = true
				}
				if isDoneRecv(st) {
					done = true
				}
			}
			if hs {
				waits = done
				inPhase := false
				for _, fc := range factsAt(sel.Block()) {
					if call, _ := callOf(fc.V); call != nil && fc.Pol && isAtomicOnField(call, "bufInitPhase", "Load") {
						inPhase = true
					}
				}
				c.check(inPhase, "sendDataWriter.Write/wait-only-while-probing", c.ipos(sel), "the encoder waits for the ack only during the probing phase", "the encoder waits for per-chunk acks outside the probing phase (throughput collapses / deadlock with a full ack window)")
			}
		}
	})
	c.check(waits, "sendDataWriter.Write/wait-is-cancellable", c.pos(w.Pos()), "the encoder's wait for the probing ack also selects on cancellation", "the encoder's wait for the probing ack has no cancellation arm (or is gone)")
	for _, d := range dones {
		good := false
		for _, fc := range factsAt(d.Block()) {
			if call, _ := callOf(fc.V); call != nil && fc.Pol && isAtomicOnField(call, "bufInitPhase", "Load") {
				good = true
			}
		}
		c.check(good, "pipelineRecvAck/release@initPhase", c.ipos(d), "the probing encoder is released only while the probing phase is on", "the encoder is released outside the probing phase")
	}
	// the probing phase may only be ended together with a Done
	for _, ci := range callsIn(f, anyID) {
		if !isAtomicOnField(ci, "bufInitPhase", "Store") {
			continue
		}
		hit, _ := reachAvoid(ci.(ssa.Instruction), func(x ssa.Instruction) bool {
			c2, ok := x.(ssa.CallInstruction)
			return ok && calleeID(c2.Common()) == release
		}, func(x ssa.Instruction) bool {
			_, isIf := x.(*ssa.If)
			return isIf
		})
		c.check(hit != nil, "pipelineRecvAck/end-phase-with-release", c.ipos(ci), "ending the probing phase releases the waiting encoder in the same step", "the probing phase is ended without releasing the encoder that waits for this ack (it waits forever)")
	}
	// the branch that only counts down (skipping the statistics and the release) is not taken while probing
	nSkip := 0
	eachInstr(f, func(in ssa.Instruction) {
		b, ok := in.(*ssa.BinOp)
		if !ok || b.Op != token.SUB || !isConstIntV(1)(b.Y) {
			return
		}
		// the count-down, by role: an integer phi that is fed back its own value minus one
		p, isPhi := b.X.(*ssa.Phi)
		if !isPhi {
			return
		}
		feeds := false
		seen := map[*ssa.Phi]bool{}
		var walk func(q *ssa.Phi, depth int)
		walk = func(q *ssa.Phi, depth int) {
			if seen[q] || depth > 6 {
				return
			}
			seen[q] = true
			for _, e := range q.Edges {
				if e == ssa.Value(b) {
					feeds = true
				}
				if q2, ok := e.(*ssa.Phi); ok {
					walk(q2, depth+1)
				}
			}
		}
		walk(p, 0)
		if !feeds {
			return
		}
		nSkip++
		notProbing := false
		for _, fc := range factsAt(b.Block()) {
			if call, _ := callOf(fc.V); call != nil && !fc.Pol && isAtomicOnField(call, "bufInitPhase", "Load") {
				notProbing = true
			}
		}
		c.check(notProbing, "pipelineRecvAck/skip-stats-only-after-probing", c.ipos(b), "acks are exempt from the statistics (and the release) only when the probing phase is over", "an ack received while probing can skip the release of the waiting encoder (a pause during the probing phase hangs the transfer)")
	})
	if nSkip != 1 {
		c.undecided("pipelineRecvAck/skip-branch", "the count-down branch was not found")
	}
	// the branch that skips statistics is not taken while probing
	for _, b := range f.Blocks {
		i := blockIf(b)
		if i == nil {
			continue
		}
		if call, _ := callOf(i.Cond); call != nil && isAtomicOnField(call, "bufInitPhase", "Load") {
			// the If `ignore<=0 || bufInitPhase`: its true edge must lead to the statistics (a Done is reachable)
			hit, _ := reachFrom(b.Succs[0], 0, func(x ssa.Instruction) bool {
				c2, ok := x.(ssa.CallInstruction)
				return ok && calleeID(c2.Common()) == release
			}, nil)
			if hit != nil {
				c.ok("pipelineRecvAck/stats-while-probing", c.ipos(i), "while probing, acks always go through the statistics branch that releases the encoder")
				return
			}
		}
	}
	c.bad("pipelineRecvAck/stats-while-probing", c.pos(f.Pos()), "acks received while probing can skip the branch that releases the encoder")
}

// c18Sentinel: a read that timed out across a pause is recognised by identity with the timeout sentinel
// (`err == errReceiveDataTimeout` in recvCheckV2). The sentinel is produced by the buffer wait and travels up through
// readLine / readLineOnWindows / readBinary and recvLine; none of them may hand it to another function and return
// that function's result instead (a re-wrapped timeout is no longer recognised and the paused side fails).
func c18Sentinel(c *Ctx) {
	chain := map[string]bool{}
	for _, n := range []string{"trzszBuffer.nextBuffer", "trzszBuffer.readLine", "trzszBuffer.readLineOnWindows", "trzszBuffer.readBinary", "trzszTransfer.recvLine"} {
		c.fn(n)
		chain[n] = true
	}
	// the comparison this rule protects
	cmp := false
	rc := c.fn("trzszTransfer.recvCheckV2")
	eachInstr(rc, func(in ssa.Instruction) {
		if b, ok := in.(*ssa.BinOp); ok && (b.Op == token.EQL || b.Op == token.NEQ) {
			for _, v := range []ssa.Value{b.X, b.Y} {
				if u, isU := strip(v).(*ssa.UnOp); isU {
					if g, isG := u.X.(*ssa.Global); isG && g.Name() == "errReceiveDataTimeout" {
						cmp = true
					}
				}
			}
		}
	})
	c.check(cmp, "recvCheckV2/recognises-timeout-by-identity", c.pos(rc.Pos()), "the straddling read is recognised by identity with the timeout sentinel", "recvCheckV2 no longer compares the read error with the timeout sentinel")
	n := 0
	for name := range chain {
		f := c.Funcs[name]
		ei := errIndex(f.Signature)
		eachInstr(f, func(in ssa.Instruction) {
			r, ok := in.(*ssa.Return)
			if !ok || ei < 0 {
				return
			}
			for _, l := range origins(retVal(r, ei), originOpts{}) {
				call, _ := callOf(l.V)
				if call == nil {
					continue
				}
				callee := call.Call.StaticCallee()
				if callee == nil || !c.inPkg(callee) {
					// a function outside the package (fmt.Errorf, errors.Join, …): wrapping the chain's error there loses the identity too
					wraps := false
					var argVals []ssa.Value
					for _, a := range call.Call.Args {
						if els, ok := sliceElems(a); ok {
							for _, e := range els {
								argVals = append(argVals, e.V)
							}
						} else {
							argVals = append(argVals, a)
						}
					}
					for _, a := range argVals {
						for _, la := range origins(strip(a), originOpts{}) {
							if ac, _ := callOf(la.V); ac != nil {
								if acallee := ac.Call.StaticCallee(); acallee != nil && chain[c.fnName(acallee)] {
									wraps = true
								}
							}
						}
					}
					c.check(!wraps, name+"/timeout-passed-up-unchanged", c.ipos(r), "the error of the read below is returned as it is", "the error of the read below is wrapped by "+calleeID(&call.Call)+" before it is returned: a re-wrapped timeout is not recognised after a pause")
					continue
				}
				cn := c.fnName(callee)
				if chain[cn] || cn == "trzszTransfer.checkStop" {
					n++
					continue // the callee's own error, passed up unchanged
				}
				// another function of the package: does it receive an error of the chain as an argument?
				takesErr := false
				for _, a := range call.Call.Args {
					if !isErrorType(a.Type()) {
						continue
					}
					for _, la := range origins(a, originOpts{}) {
						if ac, _ := callOf(la.V); ac != nil {
							if acallee := ac.Call.StaticCallee(); acallee != nil && chain[c.fnName(acallee)] {
								takesErr = true
							}
						}
					}
				}
				c.check(!takesErr, name+"/timeout-passed-up-unchanged", c.ipos(r), "the error of the read below is returned as it is", "the error of the read below is handed to "+cn+" and that function's result is returned: a re-wrapped timeout is not recognised after a pause")
			}
		})
	}
	if n < 4 {
		c.undecided("timeout-sentinel/pass-through-sites", "fewer pass-through returns than expected in the read chain")
	}
	// universal form: once a read of the chain has failed, what the function returns as its error is that very error or
	// the stop error — never one made on the spot ("Receive data timeout [SUCC]": not the sentinel any more)
	for name := range chain {
		f := c.Funcs[name]
		ei := errIndex(f.Signature)
		if ei < 0 {
			continue
		}
		for _, ci := range callsIn(f, anyID) {
			call, ok := ci.(*ssa.Call)
			if !ok {
				continue
			}
			callee := call.Call.StaticCallee()
			if callee == nil || !chain[c.fnName(callee)] {
				continue
			}
			ev := errorValueOf(call)
			if ev == nil {
				continue
			}
			for _, t := range classifyErrUse(ev).tests {
				start := t.Block().Succs[nonNilEdge(t)]
				seen := map[*ssa.BasicBlock]bool{}
				var walk func(b *ssa.BasicBlock)
				walk = func(b *ssa.BasicBlock) {
					if seen[b] {
						return
					}
					seen[b] = true
					for _, in := range b.Instrs {
						if c2, ok := in.(*ssa.Call); ok && c2 != call {
							if g := c2.Call.StaticCallee(); g != nil && chain[c.fnName(g)] {
								return // the next read: a new attempt
							}
						}
						r, ok := in.(*ssa.Return)
						if !ok {
							continue
						}
						good := true
						for _, l := range origins(retVal(r, ei), originOpts{}) {
							if len(l.Via) > 0 && !seen[l.Via[len(l.Via)-1]] {
								continue // a phi edge from outside the failed-read region
							}
							if sameValue(l.V, ev) {
								continue
							}
							if lc, _ := callOf(l.V); lc != nil {
								if g := lc.Call.StaticCallee(); g != nil && (chain[c.fnName(g)] || c.fnName(g) == "trzszTransfer.checkStop") {
									continue
								}
							}
							good = false
						}
						c.check(good, name+"/failed-read-returns-its-error."+shortID(calleeID(&call.Call)), c.ipos(r), "after a failed read the function returns that read's error (or the stop error)", "after a failed read the function can return an error made on the spot instead of the read's own: the timeout sentinel is lost, a pause that outlasts one read fails the transfer")
					}
					for _, sx := range b.Succs {
						walk(sx)
					}
				}
				walk(start)
			}
		}
	}
}
